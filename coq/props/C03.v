(* C03 — the refinement test on constraint lists decides semantic containment exactly (for an exact
   LP oracle), and the contract-level tests reduce to it (translated algebra, gen/AlgebraGen.v).
   Statements only; proofs in proofs/PolyFacts.v and proofs/AlgebraSound.v, proofs/IfaceFacts.v. *)
From Coq Require Import List String Bool QArith Reals.
Import ListNotations.
Require Import Py ListsGen ConstGen AlgebraGen AlgebraSpec AlgebraSound IfaceSpec IfaceFacts Sem Term Poly PolySpec TermFacts PolyLP PolyFacts.

(* True only for containment, up to the numerical tolerance the code grants the LP optimum
   (REFINEMENT_TOLERANCE is read from the source by the translator) *)
Theorem C03_sound : forall O, lp_spec 0 O -> forall A B, wfl A -> wfl B -> small_consts B ->
  poly_refines O A B = inl true -> forall rho, sat_list rho A -> Forall (sat_tol REFINEMENT_TOLERANCE rho) B.
Proof. exact PolyFacts.refines_sound. Qed.
Print Assumptions C03_sound.

Theorem C03_complete : forall O, lp_spec 0 O -> forall A B, wfl A -> wfl B -> lp_total O ->
  (A = [] -> nz_terms B) ->
  (forall rho, sat_list rho A -> sat_list rho B) -> poly_refines O A B = inl true.
Proof. exact refines_complete. Qed.
Print Assumptions C03_complete.

Theorem C03_false_has_witness : forall O, lp_spec 0 O -> forall A B, wfl A -> wfl B ->
  (A = [] -> nz_terms B) ->
  poly_refines O A B = inl false -> exists rho, sat_list rho A /\ ~ sat_list rho B.
Proof. exact refines_false_witness_exact. Qed.
Print Assumptions C03_false_has_witness.

(* ... and for a satisfiable right side the witness violates by more than the tolerance *)
Theorem C03_false_has_tolerant_witness : forall O, lp_spec 0 O -> forall A B, wfl A -> wfl B ->
  small_consts B -> (exists rho', sat_list rho' B) -> (A = [] -> nz_terms B) ->
  poly_refines O A B = inl false -> exists rho, sat_list rho A /\ ~ Forall (sat_tol REFINEMENT_TOLERANCE rho) B.
Proof. exact refines_false_witness. Qed.
Print Assumptions C03_false_has_witness.

Theorem C03_total : forall O, lp_spec 0 O -> forall A B, wfl A -> wfl B -> lp_total O ->
  exists b, poly_refines O A B = inl b.
Proof. exact refines_errors. Qed.
Print Assumptions C03_total.

Theorem C03_refl : forall O A, lp_spec 0 O -> lp_total O -> wfl A -> poly_refines O A A = inl true.
Proof. exact refines_refl. Qed.
Print Assumptions C03_refl.

Theorem C03_sublist : forall O, lp_spec 0 O -> forall A B, wfl A -> wfl B -> lp_total O ->
  incl B A -> poly_refines O A B = inl true.
Proof. exact refines_sublist. Qed.
Print Assumptions C03_sublist.

Theorem C03_infeasible_left : forall O, lp_spec 0 O -> forall A B, wfl A -> wfl B -> lp_total O ->
  (forall rho, ~ sat_list rho A) -> poly_refines O A B = inl true.
Proof. exact refines_infeasible_left. Qed.
Print Assumptions C03_infeasible_left.

Theorem C03_infeasible_right : forall O, lp_spec 0 O -> forall A B, wfl A -> wfl B -> lp_total O ->
  (exists rho, sat_list rho A) -> (forall rho, ~ sat_list rho B) -> poly_refines O A B = inl false.
Proof. exact refines_infeasible_right. Qed.
Print Assumptions C03_infeasible_right.

(* contract level (any domain): True only for containment of assumptions and of guarantees under
   the right side's assumptions; different interfaces are rejected *)
Theorem C03_contract_sound : forall (D : Domain) (B : Type) (dt : term -> B -> Prop) (wf : term -> Prop) (pv : var -> Prop),
  DomainSpec B dt wf pv -> RefinesSpec B dt wf ->
  forall c1 c2, wfc wf c1 -> wfc wf c2 ->
  IoContract_refines c1 c2 = inl true ->
  (forall b, den B dt (c_a c2) b -> den B dt (c_a c1) b) /\
  (forall b, den B dt (c_a c2) b -> den B dt (c_g c1) b -> den B dt (c_g c2) b).
Proof. exact @AlgebraSound.refines_sound. Qed.
Print Assumptions C03_contract_sound.

(* (a bare call of the refinement test: needs RefinesSpec only) *)
Theorem C03_environment : forall (D : Domain) (B : Type) (dt : term -> B -> Prop) (wf : term -> Prop),
  RefinesSpec B dt wf ->
  forall c comp, wfc wf c -> wfs wf comp ->
  IoContract_contains_environment c comp = inl true ->
  forall b, den B dt comp b -> den B dt (c_a c) b.
Proof. exact @contains_environment_sound. Qed.
Print Assumptions C03_environment.

Theorem C03_implementation : forall (D : Domain) (B : Type) (dt : term -> B -> Prop) (wf : term -> Prop) (pv : var -> Prop),
  DomainSpec B dt wf pv -> RefinesSpec B dt wf ->
  forall c comp, wfc wf c -> wfs wf comp ->
  IoContract_contains_implementation c comp = inl true ->
  forall b, den B dt comp b -> den B dt (c_a c) b -> den B dt (c_g c) b.
Proof. exact @contains_implementation_sound. Qed.
Print Assumptions C03_implementation.

(* contracts with different interfaces are not compared *)
Theorem C03_rejects_interfaces : forall (D : Domain) c1 c2, different_interfaces c1 c2 -> IoContract_refines c1 c2 = inr IncompatibleArgs.
Proof. exact @refines_rejects. Qed.
Print Assumptions C03_rejects_interfaces.

(* ==== T1 tie (LP / numpy) ==== *)
Require Import PyDict PyLoop PyTermList PyNumpy TermGen TermListGen PolyGen PolyGenBase PolyGenPolytope PolyGenEmpty PolyGenContain.
(* T1 tie: refines, verify_polytope_containment (with REFINEMENT_TOLERANCE) and is_polytope_empty of polyhedra.py as translated ON THIS RUN (gen/PolyGen.v) ARE the functions of model/Poly.v about which the theorems above speak. proofs/PolyGenContain.v, PolyGenEmpty.v *)
Theorem C03_code_refines :
  forall (O : oracle) (self other : list pterm),
       @PolyhedralTermList_refines (poly_lp O) self other = poly_refines O self other.
Proof. exact @refines_eq. Qed.
Print Assumptions C03_code_refines.
Theorem C03_code_verify_polytope_containment :
  forall (O : oracle) (vs : list var) (L R : list row),
       vs <> [] ->
       L <> [] ->
       R <> [] ->
       @Forall (list Q * Q)
         (fun r : list Q * Q => @Datatypes.length Q (@fst (list Q) Q r) = @Datatypes.length var vs) R ->
       @PolyhedralTermList_verify_polytope_containment (poly_lp O) vs
         (@Some ndarray (@A2 Q (@Datatypes.length var vs) (@map (list Q * Q) (list Q) (@fst (list Q) Q) L)))
         (@Some ndarray (@A1 Q (@map (list Q * Q) Q (@snd (list Q) Q) L)))
         (@Some ndarray (@A2 Q (@Datatypes.length var vs) (@map (list Q * Q) (list Q) (@fst (list Q) Q) R)))
         (@Some ndarray (@A1 Q (@map (list Q * Q) Q (@snd (list Q) Q) R))) = verify_polytope_containment O vs L R.
Proof. exact @verify_polytope_containment_eq. Qed.
Print Assumptions C03_code_verify_polytope_containment.
Theorem C03_code_is_polytope_empty :
  forall (O : oracle) (vs : list var) (rows : list row),
       @PolyhedralTermList_is_polytope_empty (poly_lp O) vs
         (mat_of (@Datatypes.length var vs) (@map (list Q * Q) (list Q) (@fst (list Q) Q) rows))
         (@A1 Q (@map (list Q * Q) Q (@snd (list Q) Q) rows)) = is_polytope_empty O vs rows.
Proof. exact @is_polytope_empty_eq. Qed.
Print Assumptions C03_code_is_polytope_empty.
