(* C12 — optimisation over a constraint list returns the true optimum; None iff unbounded.
   The ValueError clause is the weak one the code really guarantees given the measured solver
   behaviour (HiGHS may report "infeasible" for feasible unbounded problems): see DESIGN 5 (D6).
   Statements only; proofs in proofs/PolyFacts.v. *)
From Coq Require Import List String Bool QArith Reals.
Import ListNotations.
Require Import Py ListsGen Sem Term Poly PolySpec TermFacts PolyLP PolyFacts.
Local Open Scope R_scope.

Theorem C12_value : forall O, lp_spec 0 O -> forall ts objective mx, wfl ts -> NoDup (keys objective) ->
  forall v, poly_optimize O ts objective mx = inl (Some v) ->
  (exists rho, sat_list rho ts /\ lin rho objective = Q2R v) /\
  (forall rho, sat_list rho ts -> if mx then lin rho objective <= Q2R v else Q2R v <= lin rho objective).
Proof. exact optimize_some. Qed.
Print Assumptions C12_value.

Theorem C12_none : forall O, lp_spec 0 O -> forall ts objective mx, wfl ts -> NoDup (keys objective) ->
  poly_optimize O ts objective mx = inl None ->
  (exists rho, sat_list rho ts) /\
  forall bound, exists rho, sat_list rho ts /\ (if mx then bound < lin rho objective else lin rho objective < bound).
Proof. exact optimize_none. Qed.
Print Assumptions C12_none.

Theorem C12_error_partial : forall O, lp_spec 0 O -> forall ts objective mx, wfl ts -> NoDup (keys objective) ->
  ts <> [] -> poly_optimize O ts objective mx = inr ValueErr -> lp_total O ->
  (forall rho, ~ sat_list rho ts) \/
  (forall bound, exists rho, sat_list rho ts /\ (if mx then bound < lin rho objective else lin rho objective < bound)).
Proof. exact optimize_error. Qed.
Print Assumptions C12_error_partial.

Theorem C12_bounds : forall O ts objective lo hi, lp_spec 0 O -> wfl ts -> NoDup (keys objective) ->
  poly_optimize O ts objective true = inl (Some hi) -> poly_optimize O ts objective false = inl (Some lo) ->
  forall rho, sat_list rho ts -> Q2R lo <= lin rho objective <= Q2R hi.
Proof. exact optimize_bounds. Qed.
Print Assumptions C12_bounds.
