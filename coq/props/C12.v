(* C12 — optimisation over a constraint list returns the true optimum; None exactly when the
   objective is unbounded over a non-empty set; ValueError exactly when the set is empty
   (HiGHS may report "infeasible" for feasible unbounded problems; the fixed code then asks
   is_empty()).  Statements only; proofs in proofs/PolyFacts.v. *)
From Coq Require Import List String Bool QArith Reals.
Import ListNotations.
Require Import Py ListsGen Sem Term Poly PolySpec TermFacts PolyLP PolyFacts.
Local Open Scope R_scope.

Theorem C12_value : forall O, lp_spec 0 O -> forall ts objective mx, wfl ts -> NoDup (keys objective) ->
  forall v, poly_optimize O ts objective mx = inl (Some v) ->
  (exists rho, sat_list rho ts /\ lin rho objective = Q2R v) /\
  (forall rho, sat_list rho ts -> if mx then lin rho objective <= Q2R v else Q2R v <= lin rho objective).
Proof. exact optimize_some. Qed.
Print Assumptions C12_value.

Theorem C12_none : forall O, lp_spec 0 O -> forall ts objective mx, wfl ts -> NoDup (keys objective) ->
  poly_optimize O ts objective mx = inl None ->
  (exists rho, sat_list rho ts) /\
  forall bound, exists rho, sat_list rho ts /\ (if mx then bound < lin rho objective else lin rho objective < bound).
Proof. exact optimize_none. Qed.
Print Assumptions C12_none.

(* ValueError exactly when the constraint list is empty (as a set): since the fix, solver status 2
   ("infeasible or unbounded") is disambiguated by self.is_empty().  For ts = [] the code raises
   ValueError as well (linprog rejects the empty A_ub), hence ts <> []. *)
Theorem C12_error : forall O, lp_spec 0 O -> forall ts objective mx, wfl ts -> NoDup (keys objective) ->
  ts <> [] -> lp_total O -> poly_optimize O ts objective mx = inr ValueErr ->
  forall rho, ~ sat_list rho ts.
Proof. intros O HO ts objective mx Hts _ Hne HT. exact (optimize_error O HO ts objective mx Hts Hne HT). Qed.
Print Assumptions C12_error.

Theorem C12_empty_raises : forall O, lp_spec 0 O -> forall ts objective mx, wfl ts -> NoDup (keys objective) ->
  ts <> [] -> lp_total O -> (forall rho, ~ sat_list rho ts) ->
  poly_optimize O ts objective mx = inr ValueErr.
Proof. exact optimize_empty_raises. Qed.
Print Assumptions C12_empty_raises.

Theorem C12_unbounded_none : forall O, lp_spec 0 O -> forall ts objective (mx : bool), wfl ts -> NoDup (keys objective) ->
  ts <> [] -> lp_total O -> (exists rho, sat_list rho ts) ->
  (forall bound, exists rho, sat_list rho ts /\ (if mx then bound < lin rho objective else lin rho objective < bound)) ->
  poly_optimize O ts objective mx = inl None.
Proof. exact optimize_unbounded_none. Qed.
Print Assumptions C12_unbounded_none.

Theorem C12_bounds : forall O ts objective lo hi, lp_spec 0 O -> wfl ts -> NoDup (keys objective) ->
  poly_optimize O ts objective true = inl (Some hi) -> poly_optimize O ts objective false = inl (Some lo) ->
  forall rho, sat_list rho ts -> Q2R lo <= lin rho objective <= Q2R hi.
Proof. exact optimize_bounds. Qed.
Print Assumptions C12_bounds.

Require Import PyDict PyLoop PolyDomain WrapGen WrapGenBounds.
(* ---- T1 tie: PolyhedralIoContract.get_variable_bounds as translated ON THIS RUN (gen/WrapGen.v), over whatever
   optimize is: it maximises, then minimises the variable over the same contract and returns (minimum, maximum) *)
Theorem C12_code_get_variable_bounds : forall (O : oracle) (num : Type) (optimize : pcontract O -> string -> bool -> M (option num))
  (c : pcontract O) (v : string),
  @PolyhedralIoContract_get_variable_bounds (poly_domain O) num optimize c v =
  bind (optimize c v true) (fun maximum => bind (optimize c v false) (fun minimum => ret (minimum, maximum))).
Proof. exact wrap_get_variable_bounds_eq. Qed.
Print Assumptions C12_code_get_variable_bounds.

(* ==== T1 tie (LP / numpy) ==== *)
Require Import PyDict PyLoop PyTermList PyNumpy TermGen TermListGen PolyGen PolyGenBase PolyGenPolytope PolyGenEmpty PolyGenOptimize.
(* T1 tie: PolyhedralTermList.optimize as translated ON THIS RUN (gen/PolyGen.v: the LP call and the mapping of its status to value / None / ValueError, emptiness decided separately on status 2) IS poly_optimize of model/Poly.v. proofs/PolyGenOptimize.v *)
Theorem C12_code_optimize :
  forall (O : oracle) (self : list pterm) (objective : pvars) (maximize : bool),
       @NoDup var (keys objective) ->
       @PolyhedralTermList_optimize (poly_lp O) self objective maximize = poly_optimize O self objective maximize.
Proof. exact @optimize_eq. Qed.
Print Assumptions C12_code_optimize.
