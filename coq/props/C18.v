(* C18 — plot vertices are exactly the corners of the plotted slice.
   Model: model/Plots.v (argument checks, boundary rows, substitution, column order, centroid, angular
   sort without trigonometry); Qhull, the Chebyshev-centre LP and the four fallback LPs are ORACLES whose
   answers are validated on every call against the verified exact corner enumeration `corners`.
   Statements only; proofs in proofs/PlotsFacts.v. *)
From Coq Require Import List String Bool QArith Reals Sorting Permutation.
Import ListNotations.
Require Import Py ListsGen Sem Term Poly TermFacts Plots PlotsFacts.

(* the reference enumerator is exactly "feasible and two non-parallel rows tight" *)
Theorem C18_corners : forall P v, InP v (corners P) <-> is_corner P v.
Proof. exact corners_iff. Qed.
Print Assumptions C18_corners.

(* the rows handed to the geometry are exactly the slice at the given values *)
Theorem C18_glue : forall cs x y vals xl yl rows, Forall wft cs -> NoDup (keys vals) -> x <> y ->
  plot_rows cs x y vals xl yl = inl rows ->
  forall px py : R, Forall (sat3R px py) rows <->
    (Forall (sat (slice_val x y vals px py)) cs /\
     (Q2R (fst xl) <= px <= Q2R (snd xl))%R /\ (Q2R (fst yl) <= py <= Q2R (snd yl))%R).
Proof. exact plot_rows_glue. Qed.
Print Assumptions C18_glue.

(* main: if Qhull returns the corner set (its validated spec), the result is exactly the corners of the
   slice, every returned point lies in the slice, and the list is sorted by angle around its centroid *)
Theorem C18_vertices : forall O cs x y vals xl yl res, Forall wft cs -> NoDup (keys vals) -> x <> y ->
  hull_spec O -> constraints_to_vertices O cs x y vals xl yl = inl res ->
  exists rows, plot_rows cs x y vals xl yl = inl rows /\
    (forall px py : R, Forall (sat3R px py) rows <-> in_slice cs x y vals xl yl px py) /\
    StronglySorted (ang_le_at (cut_low O) (centroid res)) res /\
    (Q_hull O rows <> None ->
       (forall v, InP v res <-> is_corner rows v) /\
       (forall v, In v res -> feasQ rows v /\ in_slice cs x y vals xl yl (Q2R (fst v)) (Q2R (snd v)))).
Proof. exact C18_main. Qed.
Print Assumptions C18_vertices.

Theorem C18_degenerate : forall O cs x y vals xl yl res, Forall wft cs -> NoDup (keys vals) -> x <> y ->
  extreme_spec O -> constraints_to_vertices O cs x y vals xl yl = inl res ->
  exists rows, plot_rows cs x y vals xl yl = inl rows /\
    (Q_hull O rows = None -> List.length res = 4%nat /\
       forall v, In v res -> is_corner rows v /\ in_slice cs x y vals xl yl (Q2R (fst v)) (Q2R (snd v))).
Proof. exact C18_fallback. Qed.
Print Assumptions C18_degenerate.

(* ValueError when the slice is empty ... *)
Theorem C18_empty_slice : forall O cs x y vals xl yl, Forall wft cs -> NoDup (keys vals) -> x <> y ->
  centre_spec O -> (exists rows, plot_rows cs x y vals xl yl = inl rows) ->
  (forall px py : R, ~ in_slice cs x y vals xl yl px py) ->
  constraints_to_vertices O cs x y vals xl yl = inr ValueErr.
Proof. exact C18_empty. Qed.
Print Assumptions C18_empty_slice.

(* ... or when a needed variable has no value / a plot variable is assigned / a constraint is already violated *)
Theorem C18_arguments : forall cs x y vals xl yl, Forall wft' cs -> NoDup (keys vals) -> x <> y ->
  (plot_rows cs x y vals xl yl = inr ValueErr <->
   In x (keys vals) \/ In y (keys vals) \/
   (exists v, In v (tl_vars cs) /\ v <> x /\ v <> y /\ ~ In v (keys vals)) \/ violated cs vals).
Proof. exact plot_rows_valueerr_iff. Qed.
Print Assumptions C18_arguments.

Theorem C18_sort_perm : forall low c l, Permutation (sort_angular low c l) l.
Proof. exact sort_angular_perm. Qed.
Theorem C18_sort_sorted : forall low c l, StronglySorted (ang_le_at low c) (sort_angular low c l).
Proof. exact sort_angular_strongly_sorted. Qed.
Theorem C18_assert_unreachable : forall cs x y vals xl yl, plot_rows cs x y vals xl yl <> inr (Escape "AssertionError").
Proof. exact assert_unreachable. Qed.
Print Assumptions C18_sort_perm. Print Assumptions C18_sort_sorted. Print Assumptions C18_assert_unreachable.

(* ==== T1 tie (plot vertices) ==== *)
Require Import PyDict PyLoop PyTermList PyPlots TermGen TermListGen PlotsGen PlotsGenBase PlotsGenSubstitute PlotsGenVertices PlotsGenBounding PlotsGenFacts.
(* T1 tie: constraints_to_vertices, _substitute_in_termlist, _gen_boundary_constraints, _get_bounding_vertices (Qhull try / four-LP fallback with bounds=(None, None)) and _get_feasible_point of utils/plots.py as translated ON THIS RUN (gen/PlotsGen.v; Qhull, linprog, the row norm and the angular sort are the named primitives plot_prims nrm O) ARE model/Plots.v, about which the theorems above speak. proofs/PlotsGen*.v *)
Theorem C18_code_constraints_to_vertices :
  forall (nrm : list Q -> Q) (O : oracles) (cs : list pterm) (x y : var) (vals : pvars) (xl yl : Q * Q),
       @Forall pterm wft cs ->
       @plots_constraints_to_vertices (plot_prims nrm O) cs x y vals xl yl =
       @mmap (list pt) (list Q * list Q) unzip_pts (constraints_to_vertices O cs x y vals xl yl).
Proof. exact @constraints_to_vertices_eq. Qed.
Print Assumptions C18_code_constraints_to_vertices.
Theorem C18_code_substitute_in_termlist :
  forall (ts : list pterm) (vals : pvars),
       Forall wft' ts -> plots__substitute_in_termlist ts vals = substitute_in_termlist ts vals.
Proof. exact @substitute_in_termlist_eq. Qed.
Print Assumptions C18_code_substitute_in_termlist.
Theorem C18_code_gen_boundary_constraints :
  forall (x y : var) (x_lims y_lims : Q * Q),
       plots__gen_boundary_constraints x y x_lims y_lims = gen_boundary x y x_lims y_lims.
Proof. exact @gen_boundary_constraints_eq. Qed.
Print Assumptions C18_code_gen_boundary_constraints.
Theorem C18_code_get_bounding_vertices :
  forall (nrm : list Q -> Q) (O : oracles) (rows : list row),
       two_cols rows ->
       @plots__get_bounding_vertices (plot_prims nrm O) (@map (list Q * Q) (list Q) (@fst (list Q) Q) rows)
         (@map (list Q * Q) Q (@snd (list Q) Q) rows) =
       @mmap (list pt) (list Q * list Q) unzip_pts (bounding_vertices O (@map row row3 row_triple rows)).
Proof. exact @get_bounding_vertices_eq. Qed.
Print Assumptions C18_code_get_bounding_vertices.
Theorem C18_code_get_feasible_point :
  forall (nrm : list Q -> Q) (O : oracles) (rows : list row),
       two_cols rows ->
       @plots__get_feasible_point (plot_prims nrm O) (@map (list Q * Q) (list Q) (@fst (list Q) Q) rows)
         (@map (list Q * Q) Q (@snd (list Q) Q) rows) true =
       match centre O (@map row row3 row_triple rows) with
       | Some p => @ret (list Q) (pt_list p)
       | None => @raise np_vector ValueErr
       end.
Proof. exact @get_feasible_point_eq. Qed.
Print Assumptions C18_code_get_feasible_point.
Theorem C18_code_no_assertion :
  forall (nrm : list Q -> Q) (O : oracles) (cs : list pterm) (x y : var) (vals : pvars) (xl yl : Q * Q),
       @Forall pterm wft cs ->
       @plots_constraints_to_vertices (plot_prims nrm O) cs x y vals xl yl <>
       @inr (list Q * list Q) err (Escape "AssertionError").
Proof. exact @gen_assert_unreachable. Qed.
Print Assumptions C18_code_no_assertion.
