(* C14 — failures are reported only through the documented exceptions.  The models carry an explicit
   `Escape kind` error at every site where Python raises implicitly (KeyError, IndexError, TypeError,
   AssertionError, ZeroDivisionError, ...); these theorems show which errors each operation can produce.
   Statements only; proofs in the proofs/ files named in the Require line. *)
From Coq Require Import List String Bool QArith Reals.
Import ListNotations.
Require Import Py ListsGen AlgebraGen AlgebraSpec AlgebraSound Sem Term Poly Tactics PolySpec TermFacts PolyLP PolyFacts
  EvalFacts TacticsLin TacticsFacts Json JsonFacts Ast Syntax SyntaxFacts Grammar ParseAll ParseAllFacts.

(* the algebra layer (compose / quotient / merge / refines / rename / copy) adds no failure mode of its own *)
Theorem C14_algebra_compose : forall (D : Domain) c1 c2 keep sp od e,
  IoContract_compose_tactics c1 c2 keep sp od = inr e -> e = IncompatibleArgs \/ primitive_errors e.
Proof. exact @algebra_errors_compose. Qed.
Theorem C14_algebra_quotient : forall (D : Domain) c c1 add sp od e,
  IoContract_quotient_tactics c c1 add sp od = inr e -> e = IncompatibleArgs \/ primitive_errors e.
Proof. exact @algebra_errors_quotient. Qed.
Theorem C14_algebra_merge : forall (D : Domain) c1 c2 e,
  IoContract_merge c1 c2 = inr e -> e = IncompatibleArgs \/ primitive_errors e.
Proof. exact @algebra_errors_merge. Qed.
Theorem C14_algebra_refines : forall (D : Domain) c1 c2 e,
  IoContract_refines c1 c2 = inr e -> e = IncompatibleArgs \/ primitive_errors e.
Proof. exact @algebra_errors_refines. Qed.
Theorem C14_algebra_rename : forall (D : Domain) c s t e,
  IoContract_rename_variable c s t = inr e -> e = IncompatibleArgs \/ primitive_errors e.
Proof. exact @algebra_errors_rename. Qed.

(* polyhedral primitives *)
(* for EVERY context, including variable-free terms such as '0 <= -0.5' that a tactic can leave behind (before repo commit
   12672f5 an AssertionError escaped from the simplification step there, and this theorem needed a side condition on ctx) *)
Theorem C14_elimination : forall O order self ctx vs sp e,
  lp_total O -> (forall num, In num order -> in16 num) ->
  elim_vars_by_refining O self ctx vs sp order = inr e \/ elim_vars_by_relaxing O self ctx vs sp order = inr e ->
  e = ValueErr \/ ((e = Escape "IndexError" \/ e = Escape "fuel") /\ In 4%nat order).
Proof. exact TacticsFacts.C04_errors_total_any_context. Qed.
(* (for every list and context, including variable-free terms left behind by a tactic: repaired in repo commit 12672f5) *)
Theorem C14_simplify : forall O ts ctx e, poly_simplify O ts ctx = inr e ->
  e = ValueErr \/ e = OracleMiss.
Proof. exact simplify_errors_only. Qed.
Theorem C14_refines_total : forall O, lp_spec 0 O -> forall A B, wfl A -> wfl B -> lp_total O ->
  exists b, poly_refines O A B = inl b.
Proof. exact refines_errors. Qed.
Theorem C14_optimize : forall O ts objective mx e, poly_optimize O ts objective mx = inr e -> e = ValueErr \/ e = OracleMiss.
Proof. exact optimize_errors_only. Qed.
Theorem C14_contains : forall ts b, (exists r, contains_behavior ts b = inl r) \/ contains_behavior ts b = inr ValueErr.
Proof. exact contains_total. Qed.

(* strings: the public entry point (polyhedral_termlist_from_string = ParseAll.parse_terms) fails only with the
   syntax error or the convexity error, for EVERY string; in particular the ZeroDivisionError raised by the
   constant-arithmetic parse actions no longer escapes (repaired in repo commit de9f256) *)
Theorem C14_strings : forall s x, parse_terms s = inr x -> x = SyntaxErr \/ x = ConvexErr.
Proof. exact parse_terms_errors. Qed.
Theorem C14_strings_no_escape : forall s k, parse_terms s <> inr (Escape k).
Proof. exact parse_terms_no_escape. Qed.
(* inside the parse actions (before the entry point converts it) *)
Theorem C14_fold : forall e x, two_sided e -> fold_expr e = inr x -> x = ConvexErr \/ x = Escape "ZeroDivisionError".
Proof. exact fold_errors. Qed.

(* contract dictionaries and files: ANY json value of the machine representation is either read or
   rejected with ContractFormatError / ValueError / IncompatibleArgsError, and what is read has exactly
   the required shape (a wrong kind is never read as something else) *)
Theorem C14_json_machine : forall (s2f : string -> option Q) (pstr : json -> string) j,
  jtype j = Some (JStr T_MACHINE) -> ints_floatable j ->
  match read_entry s2f pstr j with
  | inl _ => True
  | inr e => e = FormatErr \/ e = ValueErr \/ e = IncompatibleArgs
  end.
Proof. exact C14_json_machine_floatable. Qed.
Theorem C14_json_strings : forall (s2f : string -> option Q) (pstr : json -> string) j,
  jtype j = Some (JStr T_STRINGS) ->
  (forall fs k, jdata j = Some (JObj fs) -> In k (jkeys fs) -> In k string_kwargs) ->
  match read_entry s2f pstr j with
  | inl _ => True
  | inr e => e = FormatErr
  end.
Proof. exact C14_json_strings_kw. Qed.
Theorem C14_json_shape : forall (s2f : string -> option Q) (pstr : json -> string) j name c,
  read_entry s2f pstr j = inl (name, LMachine c) -> well_shaped j.
Proof. exact accepted_shape. Qed.
Theorem C14_json_file : forall (s2f : string -> option Q) (pstr : json -> string) f e,
  (forall es x, f = JList es -> In x es -> jtype x = Some (JStr T_MACHINE)) -> ints_floatable f ->
  read_file s2f pstr f = inr e -> e = FormatErr \/ e = ValueErr \/ e = IncompatibleArgs.
Proof. exact C14_file_machine. Qed.

Print Assumptions C14_algebra_compose. Print Assumptions C14_algebra_quotient. Print Assumptions C14_algebra_merge.
Print Assumptions C14_algebra_refines. Print Assumptions C14_algebra_rename. Print Assumptions C14_elimination.
Print Assumptions C14_simplify. Print Assumptions C14_refines_total. Print Assumptions C14_optimize.
Print Assumptions C14_contains. Print Assumptions C14_fold. Print Assumptions C14_strings. Print Assumptions C14_strings_no_escape. Print Assumptions C14_json_machine.
Print Assumptions C14_json_strings. Print Assumptions C14_json_shape. Print Assumptions C14_json_file.

(* ==== T1 tie (JSON side) ==== *)
Require Import PyDict PyLoop PyJson JsonGen JsonGenBase JsonGenValidate JsonGenDict JsonGenFile.
(* T1 tie: validate_contract_dict / _check_clause / _is_number (serializer.py), from_dict (polyhedral_iocontract.py) and read_contracts_from_file after json.load (fileio.py) as translated ON THIS RUN (gen/JsonGen.v, dynamic typing over the json inductive, each implicit Python exception raised where Python raises it) ARE model/Json.v, about which the C14_json_* theorems speak. proofs/JsonGen*.v *)
Theorem C14_code_is_number :
  forall v : json, serializer__is_number v = is_number v.
Proof. exact @is_number_eq. Qed.
Print Assumptions C14_code_is_number.
Theorem C14_code_check_clause :
  forall clause : json, serializer__check_clause clause = check_clause clause.
Proof. exact @check_clause_eq. Qed.
Print Assumptions C14_code_check_clause.
Theorem C14_code_validate_contract_dict :
  forall (contract : json) (machine : bool),
       serializer_validate_contract_dict contract machine = validate_contract_dict contract machine.
Proof. exact @validate_contract_dict_eq. Qed.
Print Assumptions C14_code_validate_contract_dict.
Theorem C14_code_from_dict :
  forall (s2f : string -> option Q) (pstr : json -> string)
         (init : list pterm -> list pterm -> list var -> list var -> bool -> M pcontract) 
         (contract : json) (simplify : bool),
       (forall (a g : list pterm) (i o : list var), init a g i o simplify = pc_init a g i o) ->
       json_wf contract ->
       PolyhedralIoContract_from_dict s2f pstr init contract simplify = from_dict s2f pstr contract.
Proof. exact @from_dict_eq. Qed.
Print Assumptions C14_code_from_dict.
Theorem C14_code_read_file :
  forall (s2f : string -> option Q) (pstr : json -> string)
         (init : list pterm -> list pterm -> list var -> list var -> bool -> M pcontract) 
         (file_data : json),
       (forall (a g : list pterm) (i o : list var), init a g i o true = pc_init a g i o) ->
       json_wf file_data ->
       mmap pair_up (fileio_read_contracts_from_file s2f pstr init strings_boundary compound_boundary file_data) =
       read_file s2f pstr file_data.
Proof. exact @read_file_eq. Qed.
Print Assumptions C14_code_read_file.
