(* C10 — contracts survive serialisation to dictionaries, strings and files.
   Models: model/Json.v (to_machine_dict / from_dict / file reader and writer over an inductive json) and
   model/Printer.v (exact %.4g formatting, pair folding, to_str_list), both tied to the code by
   correspondence.  Statements only; proofs in proofs/JsonFacts.v and proofs/PrinterFacts.v. *)
From Coq Require Import List String Bool QArith Qabs Reals Permutation.
Import ListNotations.
Require Import Py ListsGen Sem Term ConstGen Ast Json Printer TermFacts JsonFacts PrinterFacts.

(* machine dictionary and back, without re-simplification: the same contract, exactly *)
Theorem C10_machine_roundtrip : forall (s2f : string -> option Q) (pstr : json -> string) c,
  wf_pc c -> from_dict s2f pstr (to_machine_dict c) = inl c.
Proof. exact machine_roundtrip. Qed.
Print Assumptions C10_machine_roundtrip.

(* machine file form written and read back *)
Theorem C10_machine_file_roundtrip : forall (s2f : string -> option Q) (pstr : json -> string) cs,
  Forall (fun p => wf_pc (snd p)) cs ->
  read_file s2f pstr (write_file_machine cs) = inl (map (fun p => (fst p, LMachine (snd p))) cs).
Proof. exact write_read_file_roundtrip. Qed.
Print Assumptions C10_machine_file_roundtrip.

(* the printed number: %.4g spells exactly round4 q, a four-significant-digit rounding (half-even on
   the exact value), symmetric under negation, idempotent, relative error <= 5e-4 *)
Theorem C10_fmt4_value : forall q, exists v, decimal_value (fmt4 q) = Some v /\ (v == round4 q)%Q.
Proof. exact fmt4_value. Qed.
Theorem C10_round4_idempotent : forall q, (round4 (round4 q) == round4 q)%Q.
Proof. exact round4_idempotent. Qed.
Theorem C10_round4_opp : forall q, (round4 (- q) == - round4 q)%Q.
Proof. exact round4_opp. Qed.
Theorem C10_round4_error : forall q, (Qabs (round4 q - q) <= Qabs q * (5 # 10000))%Q.
Proof. exact round4_relative_error. Qed.
Print Assumptions C10_fmt4_value. Print Assumptions C10_round4_idempotent. Print Assumptions C10_round4_opp.
Print Assumptions C10_round4_error.

(* every term is printed exactly once (one term per "<=" string, two per folded pair) *)
Theorem C10_partition : forall ts,
  Permutation (List.concat (map item_terms (items ts))) ts /\
  List.length (to_str_list ts) = List.length (items ts) /\
  (List.length (to_str_list ts) <= List.length ts)%nat.
Proof. exact to_str_list_partition. Qed.
Print Assumptions C10_partition.

(* meaning of what is printed (as a syntax tree of the constraint grammar): the constraints with every
   number rounded to the printed four digits; a folded pair reads as the rounded first term and its mirror *)
Theorem C10_print_meaning_rounded : forall rho ts, printable ts ->
  (ast_meaning rho (to_ast_list ts) <-> Forall (item_rounded_den rho) (items ts)).
Proof. exact print_meaning_rounded. Qed.
Print Assumptions C10_print_meaning_rounded.

(* exactly opposite pairs and exactly printable numbers: the printed form means the original list *)
Theorem C10_print_meaning_exact : forall rho ts, Forall exact_item (items ts) -> printable ts ->
  (ast_meaning rho (to_ast_list ts) <-> sat_list rho ts).
Proof. exact print_meaning_exact_pairs. Qed.
Print Assumptions C10_print_meaning_exact.

(* ==== T1 tie (JSON side) ==== *)
Require Import PyDict PyLoop PyJson JsonGen JsonGenBase JsonGenValidate JsonGenDict JsonGenFile.
(* T1 tie: to_machine_dict / to_dict / from_dict (polyhedral_iocontract.py) and the reader and writer of fileio.py between json.load and json.dumps as translated ON THIS RUN (gen/JsonGen.v) ARE the functions of model/Json.v used in the round-trip theorems above. proofs/JsonGen*.v *)
Theorem C10_code_to_machine_dict :
  forall c : pcontract,
       Forall distinct_vars (pa c) ->
       Forall distinct_vars (pg c) -> PolyhedralIoContract_to_machine_dict c = to_machine_dict c.
Proof. exact @to_machine_dict_eq. Qed.
Print Assumptions C10_code_to_machine_dict.
Theorem C10_code_to_dict :
  forall (to_str_list : list pterm -> list string) (c : pcontract),
       PolyhedralIoContract_to_dict to_str_list c = to_dict to_str_list c.
Proof. exact @to_dict_eq. Qed.
Print Assumptions C10_code_to_dict.
Theorem C10_code_from_dict :
  forall (s2f : string -> option Q) (pstr : json -> string)
         (init : list pterm -> list pterm -> list var -> list var -> bool -> M pcontract) 
         (contract : json) (simplify : bool),
       (forall (a g : list pterm) (i o : list var), init a g i o simplify = pc_init a g i o) ->
       json_wf contract ->
       PolyhedralIoContract_from_dict s2f pstr init contract simplify = from_dict s2f pstr contract.
Proof. exact @from_dict_eq. Qed.
Print Assumptions C10_code_from_dict.
Theorem C10_code_read_file :
  forall (s2f : string -> option Q) (pstr : json -> string)
         (init : list pterm -> list pterm -> list var -> list var -> bool -> M pcontract) 
         (file_data : json),
       (forall (a g : list pterm) (i o : list var), init a g i o true = pc_init a g i o) ->
       json_wf file_data ->
       mmap pair_up (fileio_read_contracts_from_file s2f pstr init strings_boundary compound_boundary file_data) =
       read_file s2f pstr file_data.
Proof. exact @read_file_eq. Qed.
Print Assumptions C10_code_read_file.
Theorem C10_code_write_machine :
  forall (to_str_list : list pterm -> list string) (K : Type) (compound_to_dict : K -> json)
         (cs : list (string * pcontract)),
       Forall (fun p : string * pcontract => distinct_vars_c (snd p)) cs ->
       fileio_write_contracts_to_file to_str_list compound_to_dict
         (map (fun p : string * pcontract => APoly (snd p)) cs) (map fst cs) true = ret (write_file_machine cs).
Proof. exact @write_machine_eq. Qed.
Print Assumptions C10_code_write_machine.
Theorem C10_code_write_strings :
  forall (to_str_list : list pterm -> list string) (K : Type) (compound_to_dict : K -> json)
         (cs : list (string * pcontract)),
       fileio_write_contracts_to_file to_str_list compound_to_dict
         (map (fun p : string * pcontract => APoly (snd p)) cs) (map fst cs) false =
       ret (JList (map (fun p : string * pcontract => write_entry_strings to_str_list (fst p) (snd p)) cs)).
Proof. exact @write_strings_eq. Qed.
Print Assumptions C10_code_write_strings.

(* ==== T1 tie (string printer) ==== *)
Require Import PyPrint PrinterGen PrinterGenBase PrinterGenOpposite PrinterGenLhs PrinterGenFold.
(* T1 tie: the string printer of serializer.py (polyhedral_term_list_to_strings with its partner search and pair folding, _are_polyhedral_terms_opposite, _are_numbers_approximatively_equal with the two module tolerances, _lhs_str, _number_to_string) and PolyhedralTermList.to_str_list as translated ON THIS RUN (gen/PrinterGen.v; the %.4g formatting and np.isclose are the named primitives model_prims = fmt4 / isclose_fl) ARE model/Printer.v, about which the printing theorems above and in props/C10b.v speak. proofs/PrinterGen*.v *)
Theorem C10_code_to_str_list :
  forall ts : list pterm, Forall wft ts -> PolyhedralTermList_to_str_list ts = ret (to_str_list ts).
Proof. exact @to_str_list_eq. Qed.
Print Assumptions C10_code_to_str_list.
Theorem C10_code_term_list_to_strings :
  forall terms : list pterm,
       Forall wft terms -> serializer_polyhedral_term_list_to_strings terms = ret (term_list_to_strings terms).
Proof. exact @term_list_to_strings_eq. Qed.
Print Assumptions C10_code_term_list_to_strings.
Theorem C10_code_terms_opposite :
  forall self other : pterm,
       serializer__are_polyhedral_terms_opposite self other = ret (terms_opposite self other).
Proof. exact @terms_opposite_eq. Qed.
Print Assumptions C10_code_terms_opposite.
Theorem C10_code_numbers_approximately_equal :
  forall v1 v2 : Q, serializer__are_numbers_approximatively_equal v1 v2 = approx_equal v1 v2.
Proof. exact @are_numbers_approximatively_equal_eq. Qed.
Print Assumptions C10_code_numbers_approximately_equal.
Theorem C10_code_lhs_str :
  forall t : pterm, serializer__lhs_str t = lhs_str t.
Proof. exact @lhs_str_eq. Qed.
Print Assumptions C10_code_lhs_str.
Theorem C10_code_number_to_string :
  forall n : Q, serializer__number_to_string n = fmt4 n.
Proof. exact @number_to_string_eq. Qed.
Print Assumptions C10_code_number_to_string.

(* ==== T1 tie (compound contracts: the dictionary form) ==== *)
Require Import Compound Syntax JsonCompound JsonCompoundGen JsonGenCompound JsonCompoundFacts.
(* T1 tie: PolyhedralIoContractCompound.to_dict and PolyhedralIoContractCompound.from_strings (polyhedral_iocontract.py) as translated ON THIS RUN (gen/JsonCompoundGen.v, translator/py2coq_compjson.py; the string printer, the string parser and the two constructors are the named section parameters) ARE the functions of model/JsonCompound.v about which the round-trip theorems below speak; the file writer of gen/JsonGen.v, whose compound to_dict is a parameter, instantiated with the translated to_dict writes the entry of model/JsonCompound.v. proofs/JsonGenCompound.v *)
Theorem C10_code_compound_to_dict :
  forall (tsl : list pterm -> list string) (k : compound),
       PolyhedralIoContractCompound_to_dict tsl k = compound_to_dict tsl k.
Proof. exact @compound_to_dict_eq. Qed.
Print Assumptions C10_code_compound_to_dict.
Theorem C10_code_compound_from_strings :
  forall (pstr : json -> string) (parse_j : json -> M (list pterm)) (nested_new : nested -> bool -> M nested)
         (compound_new : nested -> nested -> list var -> list var -> M compound)
         (assumptions guarantees input_vars output_vars : json),
       PolyhedralIoContractCompound_from_strings pstr parse_j nested_new compound_new
         assumptions guarantees input_vars output_vars =
       compound_from_strings pstr parse_j nested_new compound_new assumptions guarantees input_vars output_vars.
Proof. exact @compound_from_strings_eq. Qed.
Print Assumptions C10_code_compound_from_strings.
Theorem C10_code_write_compound :
  forall (tsl : list pterm -> list string) (k : compound) (name : string),
       fileio_write_contracts_to_file tsl (PolyhedralIoContractCompound_to_dict tsl) [ACompound k] [name] false =
       ret (JList [write_entry_compound tsl name k]).
Proof. exact @write_compound_entry_eq. Qed.
Print Assumptions C10_code_write_compound.

(* what to_dict writes: exactly one string list per alternative, in order, for the assumptions and for the
   guarantees independently (equality of the lists of string lists: length and element-wise) *)
Theorem C10_compound_to_dict_sides : forall (tsl : list pterm -> list string) (k : compound),
  side_strings (jget_or_null "assumptions" (compound_to_dict tsl k)) = map tsl (k_a k) /\
  side_strings (jget_or_null "guarantees" (compound_to_dict tsl k)) = map tsl (k_g k).
Proof. exact to_dict_sides. Qed.
Print Assumptions C10_compound_to_dict_sides.
Theorem C10_compound_to_dict_guarantees_independent : forall (tsl : list pterm -> list string) (k k' : compound),
  k_g k = k_g k' ->
  jget_or_null "guarantees" (compound_to_dict tsl k) = jget_or_null "guarantees" (compound_to_dict tsl k').
Proof. exact to_dict_guarantees_independent. Qed.
Print Assumptions C10_compound_to_dict_guarantees_independent.

(* MAIN, for EVERY printer / parser pair with the per-list round trip of props/C10b.v ("parsing the printed strings
   of a term list gives back a list with the same meaning"): from_strings of the unpacked to_dict — both as
   translated from the source on this run — hands the two constructors the same interface and, for each side,
   alternatives in one-to-one, order-preserving correspondence (Forall2) with the original ones, each with the same
   meaning.  No alternative of either side is lost, added, merged or reordered. *)
Theorem C10_compound_roundtrip :
  forall (tsl : list pterm -> list string) (parse_s : string -> M (list pterm)) (parse_j : json -> M (list pterm))
         (ok : list pterm -> Prop) (same : list pterm -> list pterm -> Prop),
  (forall s, parse_j (JStr s) = parse_s s) ->
  (forall ts, ok ts -> exists ts', concat_mapM parse_s (tsl ts) = inl ts' /\ same ts ts') ->
  forall (pstr : json -> string) (nested_new : nested -> bool -> M nested)
         (compound_new : nested -> nested -> list var -> list var -> M compound) (k : compound),
  Forall ok (k_a k) -> Forall ok (k_g k) ->
  let d := PolyhedralIoContractCompound_to_dict tsl k in
  exists a' g',
    Forall2 same (k_a k) a' /\ Forall2 same (k_g k) g' /\
    (_ <- call_kwargs ["assumptions"; "guarantees"; "input_vars"; "output_vars"]%string [] d ;;
     PolyhedralIoContractCompound_from_strings pstr parse_j nested_new compound_new
       (kwarg "assumptions" d) (kwarg "guarantees" d) (kwarg "input_vars" d) (kwarg "output_vars" d))
    = (na <- nested_new a' true ;; ng <- nested_new g' false ;;
       compound_new na ng (k_inputvars k) (k_outputvars k)).
Proof. exact compound_roundtrip_code. Qed.
Print Assumptions C10_compound_roundtrip.

(* the file: the entry written for a compound contract, read by the reader of model/Json.v (= the translated reader,
   C10_code_read_file), is the LCompound carrying those four fields — what from_strings is then applied to *)
Theorem C10_compound_file_read_back :
  forall (s2f : string -> option Q) (pstr : json -> string) (tsl : list pterm -> list string) (name : string)
         (k : compound),
  read_file s2f pstr (JList [write_entry_compound tsl name k])
  = inl [(name, LCompound (side_to_json tsl (k_a k)) (side_to_json tsl (k_g k))
                          (JList (map JStr (k_inputvars k))) (JList (map JStr (k_outputvars k))))].
Proof. exact compound_file_read_back. Qed.
Print Assumptions C10_compound_file_read_back.
