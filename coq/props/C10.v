(* C10 — contracts survive serialisation to dictionaries, strings and files.
   Models: model/Json.v (to_machine_dict / from_dict / file reader and writer over an inductive json) and
   model/Printer.v (exact %.4g formatting, pair folding, to_str_list), both tied to the code by
   correspondence.  Statements only; proofs in proofs/JsonFacts.v and proofs/PrinterFacts.v. *)
From Coq Require Import List String Bool QArith Qabs Reals Permutation.
Import ListNotations.
Require Import Py ListsGen Sem Term ConstGen Ast Json Printer TermFacts JsonFacts PrinterFacts.

(* machine dictionary and back, without re-simplification: the same contract, exactly *)
Theorem C10_machine_roundtrip : forall (s2f : string -> option Q) (pstr : json -> string) c,
  wf_pc c -> from_dict s2f pstr (to_machine_dict c) = inl c.
Proof. exact machine_roundtrip. Qed.
Print Assumptions C10_machine_roundtrip.

(* machine file form written and read back *)
Theorem C10_machine_file_roundtrip : forall (s2f : string -> option Q) (pstr : json -> string) cs,
  Forall (fun p => wf_pc (snd p)) cs ->
  read_file s2f pstr (write_file_machine cs) = inl (map (fun p => (fst p, LMachine (snd p))) cs).
Proof. exact write_read_file_roundtrip. Qed.
Print Assumptions C10_machine_file_roundtrip.

(* the printed number: %.4g spells exactly round4 q, a four-significant-digit rounding (half-even on
   the exact value), symmetric under negation, idempotent, relative error <= 5e-4 *)
Theorem C10_fmt4_value : forall q, exists v, decimal_value (fmt4 q) = Some v /\ (v == round4 q)%Q.
Proof. exact fmt4_value. Qed.
Theorem C10_round4_idempotent : forall q, (round4 (round4 q) == round4 q)%Q.
Proof. exact round4_idempotent. Qed.
Theorem C10_round4_opp : forall q, (round4 (- q) == - round4 q)%Q.
Proof. exact round4_opp. Qed.
Theorem C10_round4_error : forall q, (Qabs (round4 q - q) <= Qabs q * (5 # 10000))%Q.
Proof. exact round4_relative_error. Qed.
Print Assumptions C10_fmt4_value. Print Assumptions C10_round4_idempotent. Print Assumptions C10_round4_opp.
Print Assumptions C10_round4_error.

(* every term is printed exactly once (one term per "<=" string, two per folded pair) *)
Theorem C10_partition : forall ts,
  Permutation (List.concat (map item_terms (items ts))) ts /\
  List.length (to_str_list ts) = List.length (items ts) /\
  (List.length (to_str_list ts) <= List.length ts)%nat.
Proof. exact to_str_list_partition. Qed.
Print Assumptions C10_partition.

(* meaning of what is printed (as a syntax tree of the constraint grammar): the constraints with every
   number rounded to the printed four digits; a folded pair reads as the rounded first term and its mirror *)
Theorem C10_print_meaning_rounded : forall rho ts, printable ts ->
  (ast_meaning rho (to_ast_list ts) <-> Forall (item_rounded_den rho) (items ts)).
Proof. exact print_meaning_rounded. Qed.
Print Assumptions C10_print_meaning_rounded.

(* exactly opposite pairs and exactly printable numbers: the printed form means the original list *)
Theorem C10_print_meaning_exact : forall rho ts, Forall exact_item (items ts) -> printable ts ->
  (ast_meaning rho (to_ast_list ts) <-> sat_list rho ts).
Proof. exact print_meaning_exact_pairs. Qed.
Print Assumptions C10_print_meaning_exact.

(* ==== T1 tie (JSON side) ==== *)
Require Import PyDict PyLoop PyJson JsonGen JsonGenBase JsonGenValidate JsonGenDict JsonGenFile.
(* T1 tie: to_machine_dict / to_dict / from_dict (polyhedral_iocontract.py) and the reader and writer of fileio.py between json.load and json.dumps as translated ON THIS RUN (gen/JsonGen.v) ARE the functions of model/Json.v used in the round-trip theorems above. proofs/JsonGen*.v *)
Theorem C10_code_to_machine_dict :
  forall c : pcontract,
       Forall distinct_vars (pa c) ->
       Forall distinct_vars (pg c) -> PolyhedralIoContract_to_machine_dict c = to_machine_dict c.
Proof. exact @to_machine_dict_eq. Qed.
Print Assumptions C10_code_to_machine_dict.
Theorem C10_code_to_dict :
  forall (to_str_list : list pterm -> list string) (c : pcontract),
       PolyhedralIoContract_to_dict to_str_list c = to_dict to_str_list c.
Proof. exact @to_dict_eq. Qed.
Print Assumptions C10_code_to_dict.
Theorem C10_code_from_dict :
  forall (s2f : string -> option Q) (pstr : json -> string)
         (init : list pterm -> list pterm -> list var -> list var -> bool -> M pcontract) 
         (contract : json) (simplify : bool),
       (forall (a g : list pterm) (i o : list var), init a g i o simplify = pc_init a g i o) ->
       json_wf contract ->
       PolyhedralIoContract_from_dict s2f pstr init contract simplify = from_dict s2f pstr contract.
Proof. exact @from_dict_eq. Qed.
Print Assumptions C10_code_from_dict.
Theorem C10_code_read_file :
  forall (s2f : string -> option Q) (pstr : json -> string)
         (init : list pterm -> list pterm -> list var -> list var -> bool -> M pcontract) 
         (file_data : json),
       (forall (a g : list pterm) (i o : list var), init a g i o true = pc_init a g i o) ->
       json_wf file_data ->
       mmap pair_up (fileio_read_contracts_from_file s2f pstr init strings_boundary compound_boundary file_data) =
       read_file s2f pstr file_data.
Proof. exact @read_file_eq. Qed.
Print Assumptions C10_code_read_file.
Theorem C10_code_write_machine :
  forall (to_str_list : list pterm -> list string) (K : Type) (compound_to_dict : K -> json)
         (cs : list (string * pcontract)),
       Forall (fun p : string * pcontract => distinct_vars_c (snd p)) cs ->
       fileio_write_contracts_to_file to_str_list compound_to_dict
         (map (fun p : string * pcontract => APoly (snd p)) cs) (map fst cs) true = ret (write_file_machine cs).
Proof. exact @write_machine_eq. Qed.
Print Assumptions C10_code_write_machine.
Theorem C10_code_write_strings :
  forall (to_str_list : list pterm -> list string) (K : Type) (compound_to_dict : K -> json)
         (cs : list (string * pcontract)),
       fileio_write_contracts_to_file to_str_list compound_to_dict
         (map (fun p : string * pcontract => APoly (snd p)) cs) (map fst cs) false =
       ret (JList (map (fun p : string * pcontract => write_entry_strings to_str_list (fst p) (snd p)) cs)).
Proof. exact @write_strings_eq. Qed.
Print Assumptions C10_code_write_strings.

(* ==== T1 tie (string printer) ==== *)
Require Import PyPrint PrinterGen PrinterGenBase PrinterGenOpposite PrinterGenLhs PrinterGenFold.
(* T1 tie: the string printer of serializer.py (polyhedral_term_list_to_strings with its partner search and pair folding, _are_polyhedral_terms_opposite, _are_numbers_approximatively_equal with the two module tolerances, _lhs_str, _number_to_string) and PolyhedralTermList.to_str_list as translated ON THIS RUN (gen/PrinterGen.v; the %.4g formatting and np.isclose are the named primitives model_prims = fmt4 / isclose_fl) ARE model/Printer.v, about which the printing theorems above and in props/C10b.v speak. proofs/PrinterGen*.v *)
Theorem C10_code_to_str_list :
  forall ts : list pterm, Forall wft ts -> PolyhedralTermList_to_str_list ts = ret (to_str_list ts).
Proof. exact @to_str_list_eq. Qed.
Print Assumptions C10_code_to_str_list.
Theorem C10_code_term_list_to_strings :
  forall terms : list pterm,
       Forall wft terms -> serializer_polyhedral_term_list_to_strings terms = ret (term_list_to_strings terms).
Proof. exact @term_list_to_strings_eq. Qed.
Print Assumptions C10_code_term_list_to_strings.
Theorem C10_code_terms_opposite :
  forall self other : pterm,
       serializer__are_polyhedral_terms_opposite self other = ret (terms_opposite self other).
Proof. exact @terms_opposite_eq. Qed.
Print Assumptions C10_code_terms_opposite.
Theorem C10_code_numbers_approximately_equal :
  forall v1 v2 : Q, serializer__are_numbers_approximatively_equal v1 v2 = approx_equal v1 v2.
Proof. exact @are_numbers_approximatively_equal_eq. Qed.
Print Assumptions C10_code_numbers_approximately_equal.
Theorem C10_code_lhs_str :
  forall t : pterm, serializer__lhs_str t = lhs_str t.
Proof. exact @lhs_str_eq. Qed.
Print Assumptions C10_code_lhs_str.
Theorem C10_code_number_to_string :
  forall n : Q, serializer__number_to_string n = fmt4 n.
Proof. exact @number_to_string_eq. Qed.
Print Assumptions C10_code_number_to_string.
