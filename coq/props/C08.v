(* C08 — merging is the exact conjunction of the two viewpoints (polyhedral instance of C05_merge), the interface is the pair
   of unions, and the operands may be given in either order.  Statements only; proofs in proofs/PolyDomainFacts.v. *)
From Coq Require Import List String Bool QArith Reals.
Import ListNotations.
Require Import Py ListsGen ConstGen AlgebraGen AlgebraSpec IfaceSpec Sem Term Poly Tactics PolyDomain PolySpec TermFacts PolyFacts TacticsFacts PolyDomainFacts EqFacts PolyKeepFacts.

(* assumptions equivalent to the conjunction; under them the guarantees are exactly both guarantees; interface unions *)
Theorem C08 :
  forall O : oracle,
       lp_spec 0 O ->
       forall c1 c2 m : pcontract O,
       wfpc c1 ->
       wfpc c2 ->
       poly_merge O c1 c2 = inl m ->
       wfpc m /\
       (forall rho : val, sat_list rho (c_a m) <-> sat_list rho (c_a c1) /\ sat_list rho (c_a c2)) /\
       (forall rho : val,
        sat_list rho (c_a m) -> sat_list rho (c_g m) <-> sat_list rho (c_g c1) /\ sat_list rho (c_g c2)) /\
       c_inputvars m = list_union (c_inputvars c1) (c_inputvars c2) /\
       c_outputvars m = list_union (c_outputvars c1) (c_outputvars c2).
Proof. exact @C08_poly. Qed.
Print Assumptions C08.

(* either operand order: same interface sets, same meaning *)
Theorem C08_either_order :
  forall O : oracle,
       lp_spec 0 O ->
       forall c1 c2 m m' : pcontract O,
       wfpc c1 ->
       wfpc c2 ->
       poly_merge O c1 c2 = inl m ->
       poly_merge O c2 c1 = inl m' ->
       (forall x : var, In x (c_inputvars m) <-> In x (c_inputvars m')) /\
       (forall x : var, In x (c_outputvars m) <-> In x (c_outputvars m')) /\
       (forall rho : val, sat_list rho (c_a m) <-> sat_list rho (c_a m')) /\
       (forall rho : val, sat_list rho (c_a m) -> sat_list rho (c_g m) <-> sat_list rho (c_g m')).
Proof. exact @C08_poly_comm. Qed.
Print Assumptions C08_either_order.

