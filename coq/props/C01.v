(* C01 — composition returns a sound abstraction of the exact composition.
   The translated algebra (gen/AlgebraGen.v, regenerated from iocontract.py on every run) instantiated with the polyhedral
   primitives (model/PolyDomain.v), for every LP oracle meeting lp_spec 0, every wiring, every vars_to_keep, both simplify
   flags and EVERY tactic order: C05 (any domain) + the polyhedral DomainSpec instance proved from C04 / C07 / TermFacts.
   wfpc: unique dict keys, no stored zero coefficient, no variable named "_"; ifpc: duplicate-free interface without "_".
   Statements only; proofs in proofs/PolyDomainFacts.v. *)
From Coq Require Import List String Bool QArith Reals.
Import ListNotations.
Require Import Py ListsGen ConstGen AlgebraGen AlgebraSpec IfaceSpec Sem Term Poly Tactics PolyDomain PolySpec TermFacts PolyFacts TacticsFacts PolyDomainFacts EqFacts PolyKeepFacts.

(* in every situation where C's assumptions hold and each component honours its contract, both components' assumptions hold and C's guarantees hold *)
Theorem C01 :
  forall O : oracle,
       lp_spec 0 O ->
       forall (c1 c2 : pcontract O) (keep : option (list var)) (sp : bool) (od : option (list nat))
         (c : pcontract O) (st : list stats),
       wfpc c1 ->
       wfpc c2 ->
       ifpc c1 ->
       ifpc c2 ->
       NoDup (opt_list keep) ->
       poly_compose_tactics O c1 c2 keep sp od = inl (c, st) ->
       wfpc c /\
       (forall rho : val,
        sat_list rho (c_a c) ->
        (sat_list rho (c_a c1) -> sat_list rho (c_g c1)) ->
        (sat_list rho (c_a c2) -> sat_list rho (c_g c2)) ->
        sat_list rho (c_a c1) /\ sat_list rho (c_a c2) /\ sat_list rho (c_g c)).
Proof. exact @C01_poly. Qed.
Print Assumptions C01.

(* the polyhedral primitives meet the documented contracts of the abstract TermList (for every tactic order) *)
Theorem C01_domain_spec :
  forall O : oracle, lp_spec 0 O -> @DomainSpec (poly_domain O) val pdt pwf pv.
Proof. exact @poly_spec. Qed.
Print Assumptions C01_domain_spec.

Require Import PyDict PyLoop WrapGen WrapGenCompose.
(* ---- T1 tie: PolyhedralIoContract.compose_tactics / compose of polyhedral_iocontract.py as translated ON THIS RUN
   (gen/WrapGen.v: default tactic order, Var conversion of vars_to_keep, dynamic dispatch of super().compose into the
   override) ARE the model functions the theorems above speak about. *)
Theorem C01_code_compose_tactics : forall (O : oracle) (c1 c2 : pcontract O) (keep : option (list string)) (sp : bool) (od : option (list nat)),
  @PolyhedralIoContract_compose_tactics (poly_domain O) c1 c2 keep sp od = poly_compose_tactics O c1 c2 keep sp od.
Proof. exact wrap_compose_tactics_eq. Qed.
Theorem C01_code_compose : forall (O : oracle) (c1 c2 : pcontract O) (keep : option (list string)) (sp : bool),
  @PolyhedralIoContract_compose (poly_domain O) c1 c2 keep sp = bind (poly_compose_tactics O c1 c2 keep sp None) (fun p => ret (fst p)).
Proof. exact wrap_compose_eq. Qed.
Print Assumptions C01_code_compose_tactics. Print Assumptions C01_code_compose.
