(* C01 — statements are added when proofs/PolyDomainFacts.v lands. *)
From Coq Require Import List. Import ListNotations.
Require Import Py Sem Term Poly Tactics PolyDomain.
Example C01_model_runs : poly_order None = Some [1; 2; 3; 4; 5]%nat.
Proof. vm_compute. reflexivity. Qed.
