(* C02 — the quotient composed with the divisor refines the dividend.
   Same construction as C01.  The quotient makes one call to the refinement test (dividend assumptions vs divisor
   assumptions), which for polyhedra is sound only up to REFINEMENT_TOLERANCE; the theorem is therefore stated pointwise in
   that one premise, with the unconditional corollaries: the test did not answer True; exact containment of the assumptions;
   and the tolerance-aware form.  Statements only; proofs in proofs/PolyDomainFacts.v. *)
From Coq Require Import List String Bool QArith Reals.
Import ListNotations.
Require Import Py ListsGen ConstGen AlgebraGen AlgebraSpec IfaceSpec Sem Term Poly Tactics PolyDomain PolySpec TermFacts PolyFacts TacticsFacts PolyDomainFacts EqFacts PolyKeepFacts.

(* pointwise in the refinement premise *)
Theorem C02 :
  forall O : oracle,
       lp_spec 0 O ->
       forall (c c1 : pcontract O) (add : option (list var)) (sp : bool) (od : option (list nat))
         (q : pcontract O) (st : list stats),
       wfpc c ->
       wfpc c1 ->
       ifpc c ->
       ifpc c1 ->
       poly_quotient_tactics O c c1 add sp od = inl (q, st) ->
       wfpc q /\
       (forall rho : val,
        (poly_refines O (c_a c) (c_a c1) = inl true -> sat_list rho (c_a c) -> sat_list rho (c_a c1)) ->
        sat_list rho (c_a c) ->
        (sat_list rho (c_a c1) -> sat_list rho (c_g c1)) ->
        (sat_list rho (c_a q) -> sat_list rho (c_g q)) ->
        sat_list rho (c_a c1) /\ sat_list rho (c_a q) /\ sat_list rho (c_g c)).
Proof. exact @C02_poly. Qed.
Print Assumptions C02.

(* the branch where the refinement test answered False or failed: unconditional *)
Theorem C02_refines_not_true :
  forall O : oracle,
       lp_spec 0 O ->
       forall (c c1 : pcontract O) (add : option (list var)) (sp : bool) (od : option (list nat))
         (q : pcontract O) (st : list stats),
       wfpc c ->
       wfpc c1 ->
       ifpc c ->
       ifpc c1 ->
       poly_refines O (c_a c) (c_a c1) <> inl true ->
       poly_quotient_tactics O c c1 add sp od = inl (q, st) ->
       forall rho : val,
       sat_list rho (c_a c) ->
       (sat_list rho (c_a c1) -> sat_list rho (c_g c1)) ->
       (sat_list rho (c_a q) -> sat_list rho (c_g q)) ->
       sat_list rho (c_a c1) /\ sat_list rho (c_a q) /\ sat_list rho (c_g c).
Proof. exact @C02_poly_refines_not_true. Qed.
Print Assumptions C02_refines_not_true.

(* dividend assumptions exactly contained in the divisor's: unconditional *)
Theorem C02_contained :
  forall O : oracle,
       lp_spec 0 O ->
       forall (c c1 : pcontract O) (add : option (list var)) (sp : bool) (od : option (list nat))
         (q : pcontract O) (st : list stats),
       wfpc c ->
       wfpc c1 ->
       ifpc c ->
       ifpc c1 ->
       (forall rho : val, sat_list rho (c_a c) -> sat_list rho (c_a c1)) ->
       poly_quotient_tactics O c c1 add sp od = inl (q, st) ->
       forall rho : val,
       sat_list rho (c_a c) ->
       (sat_list rho (c_a c1) -> sat_list rho (c_g c1)) ->
       (sat_list rho (c_a q) -> sat_list rho (c_g q)) ->
       sat_list rho (c_a c1) /\ sat_list rho (c_a q) /\ sat_list rho (c_g c).
Proof. exact @C02_poly_contained. Qed.
Print Assumptions C02_contained.

(* tolerance-aware form through C03_sound *)
Theorem C02_tolerant :
  forall O : oracle,
       lp_spec 0 O ->
       forall (c c1 : pcontract O) (add : option (list var)) (sp : bool) (od : option (list nat))
         (q : pcontract O) (st : list stats),
       wfpc c ->
       wfpc c1 ->
       ifpc c ->
       ifpc c1 ->
       all_have_vars (c_a c) = true ->
       all_have_vars (c_a c1) = true ->
       small_consts (c_a c1) ->
       poly_quotient_tactics O c c1 add sp od = inl (q, st) ->
       forall rho : val,
       (Forall (sat_tol REFINEMENT_TOLERANCE rho) (c_a c1) -> sat_list rho (c_a c1)) ->
       sat_list rho (c_a c) ->
       (sat_list rho (c_a c1) -> sat_list rho (c_g c1)) ->
       (sat_list rho (c_a q) -> sat_list rho (c_g q)) ->
       sat_list rho (c_a c1) /\ sat_list rho (c_a q) /\ sat_list rho (c_g c).
Proof. exact @C02_poly_tolerant. Qed.
Print Assumptions C02_tolerant.

Require Import PyDict PyLoop WrapGen WrapGenQuotient.
(* ---- T1 tie: PolyhedralIoContract.quotient_tactics / quotient as translated ON THIS RUN (gen/WrapGen.v) are the model functions *)
Theorem C02_code_quotient_tactics : forall (O : oracle) (c c1 : pcontract O) (add : option (list var)) (sp : bool) (od : option (list nat)),
  @PolyhedralIoContract_quotient_tactics (poly_domain O) c c1 add sp od = poly_quotient_tactics O c c1 add sp od.
Proof. exact wrap_quotient_tactics_eq. Qed.
Theorem C02_code_quotient : forall (O : oracle) (c c1 : pcontract O) (add : option (list var)) (sp : bool),
  @PolyhedralIoContract_quotient (poly_domain O) c c1 add sp = bind (poly_quotient_tactics O c c1 add sp None) (fun p => ret (fst p)).
Proof. exact wrap_quotient_eq. Qed.
Print Assumptions C02_code_quotient_tactics. Print Assumptions C02_code_quotient.
