(* C09 — parsing a constraint string preserves its arithmetic meaning.
   Models: model/Grammar.v (string -> surface syntax tree, PEG-faithful to the pyparsing grammar; validated
   exhaustively on token strings) and model/Syntax.v (syntax tree -> polyhedral terms: the folding parse actions
   of grammar.py/data.py and serializer.py); model/Ast.v gives the tree its ordinary real-arithmetic meaning.
   Statements only; proofs in proofs/SyntaxFacts.v and proofs/GrammarFacts.v. *)
From Coq Require Import List String Bool QArith Reals.
Import ListNotations.
Require Import Py Sem Term Ast Syntax Grammar ParseAll SyntaxFacts GrammarFacts ParseAllFacts.

(* the parsed inequalities hold at a point exactly when the written relation holds there *)
Theorem C09_fold_sound : forall e ts, fold_expr e = inl ts -> forall rho, sat_list rho ts <-> eden rho e.
Proof. exact fold_sound. Qed.
Print Assumptions C09_fold_sound.

Theorem C09_parse_sound : forall s ts, parse_terms s = inl ts ->
  exists e, Grammar.parse_expr s = Ok e /\ forall rho, sat_list rho ts <-> eden rho e.
Proof. exact parse_terms_sound. Qed.
Print Assumptions C09_parse_sound.

(* non-convex uses of absolute values are rejected with the convexity error, never translated *)
Theorem C09_convex : forall e, fold_expr e = inr ConvexErr <-> parses e /\ nonconvex e.
Proof. exact fold_convex. Qed.
Print Assumptions C09_convex.

Theorem C09_fold_errors : forall e x, two_sided e -> fold_expr e = inr x -> x = ConvexErr \/ x = Escape "ZeroDivisionError".
Proof. exact fold_errors. Qed.
Print Assumptions C09_fold_errors.

(* every string is either read, or rejected with the syntax error (malformed, including a constant expression
   that divides by zero) or the convexity error -- nothing else *)
Theorem C09_string_errors : forall s x, parse_terms s = inr x -> x = SyntaxErr \/ x = ConvexErr.
Proof. exact parse_terms_errors. Qed.
Print Assumptions C09_string_errors.

(* the parser is a total function of the string (so parsing twice gives the same result) and always decides *)
Theorem C09_parser_total : forall s, Grammar.parse_expr s <> OutOfFuel.
Proof. exact parse_expr_total. Qed.
Print Assumptions C09_parser_total.

(* optional spacing between tokens does not matter *)
Theorem C09_leading_ws : forall w s, all_ws w -> Grammar.parse_expr (w ++ s) = Grammar.parse_expr s.
Proof. exact parse_expr_leading_ws. Qed.
Theorem C09_trailing_ws : forall s w, all_ws w -> Grammar.parse_expr (s ++ w) = Grammar.parse_expr s.
Proof. exact parse_expr_trailing_ws. Qed.
Theorem C09_ws_run : forall a w w' b, all_ws w -> w <> EmptyString -> all_ws w' -> w' <> EmptyString ->
  Grammar.parse_expr (a ++ w ++ b) = Grammar.parse_expr (a ++ w' ++ b).
Proof. exact parse_expr_ws_run. Qed.
Theorem C09_delim_ws : forall a d b w w', is_delim d = true -> all_ws w -> all_ws w' ->
  Grammar.parse_expr (a ++ w ++ String d (w' ++ b)) = Grammar.parse_expr (a ++ String d b).
Proof. exact parse_expr_delim_ws. Qed.
Theorem C09_op_ws : forall a op b w w', plain true op = true -> op <> EmptyString -> last_not_op a -> stop_head true b ->
  all_ws w -> all_ws w' -> Grammar.parse_expr (a ++ w ++ op ++ w' ++ b) = Grammar.parse_expr (a ++ op ++ b).
Proof. exact parse_expr_op_ws. Qed.
Print Assumptions C09_leading_ws. Print Assumptions C09_trailing_ws. Print Assumptions C09_ws_run.
Print Assumptions C09_delim_ws. Print Assumptions C09_op_ws.
