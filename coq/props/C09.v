(* C09 — parsing a constraint string preserves its arithmetic meaning.
   Models: model/Grammar.v (string -> surface syntax tree, PEG-faithful to the pyparsing grammar; validated
   exhaustively on token strings) and model/Syntax.v (syntax tree -> polyhedral terms: the folding parse actions
   of grammar.py/data.py and serializer.py); model/Ast.v gives the tree its ordinary real-arithmetic meaning.
   Statements only; proofs in proofs/SyntaxFacts.v and proofs/GrammarFacts.v. *)
From Coq Require Import List String Bool QArith Reals.
Import ListNotations.
Require Import Py Sem Term Ast Syntax Grammar ParseAll SyntaxFacts GrammarFacts ParseAllFacts.

(* the parsed inequalities hold at a point exactly when the written relation holds there *)
Theorem C09_fold_sound : forall e ts, fold_expr e = inl ts -> forall rho, sat_list rho ts <-> eden rho e.
Proof. exact fold_sound. Qed.
Print Assumptions C09_fold_sound.

Theorem C09_parse_sound : forall s ts, parse_terms s = inl ts ->
  exists e, Grammar.parse_expr s = Ok e /\ forall rho, sat_list rho ts <-> eden rho e.
Proof. exact parse_terms_sound. Qed.
Print Assumptions C09_parse_sound.

(* non-convex uses of absolute values are rejected with the convexity error, never translated *)
Theorem C09_convex : forall e, fold_expr e = inr ConvexErr <-> parses e /\ nonconvex e.
Proof. exact fold_convex. Qed.
Print Assumptions C09_convex.

Theorem C09_fold_errors : forall e x, two_sided e -> fold_expr e = inr x -> x = ConvexErr \/ x = Escape "ZeroDivisionError".
Proof. exact fold_errors. Qed.
Print Assumptions C09_fold_errors.

(* every string is either read, or rejected with the syntax error (malformed, including a constant expression
   that divides by zero) or the convexity error -- nothing else *)
Theorem C09_string_errors : forall s x, parse_terms s = inr x -> x = SyntaxErr \/ x = ConvexErr.
Proof. exact parse_terms_errors. Qed.
Print Assumptions C09_string_errors.

(* the parser is a total function of the string (so parsing twice gives the same result) and always decides *)
Theorem C09_parser_total : forall s, Grammar.parse_expr s <> OutOfFuel.
Proof. exact parse_expr_total. Qed.
Print Assumptions C09_parser_total.

(* optional spacing between tokens does not matter *)
Theorem C09_leading_ws : forall w s, all_ws w -> Grammar.parse_expr (w ++ s) = Grammar.parse_expr s.
Proof. exact parse_expr_leading_ws. Qed.
Theorem C09_trailing_ws : forall s w, all_ws w -> Grammar.parse_expr (s ++ w) = Grammar.parse_expr s.
Proof. exact parse_expr_trailing_ws. Qed.
Theorem C09_ws_run : forall a w w' b, all_ws w -> w <> EmptyString -> all_ws w' -> w' <> EmptyString ->
  Grammar.parse_expr (a ++ w ++ b) = Grammar.parse_expr (a ++ w' ++ b).
Proof. exact parse_expr_ws_run. Qed.
Theorem C09_delim_ws : forall a d b w w', is_delim d = true -> all_ws w -> all_ws w' ->
  Grammar.parse_expr (a ++ w ++ String d (w' ++ b)) = Grammar.parse_expr (a ++ String d b).
Proof. exact parse_expr_delim_ws. Qed.
Theorem C09_op_ws : forall a op b w w', plain true op = true -> op <> EmptyString -> last_not_op a -> stop_head true b ->
  all_ws w -> all_ws w' -> Grammar.parse_expr (a ++ w ++ op ++ w' ++ b) = Grammar.parse_expr (a ++ op ++ b).
Proof. exact parse_expr_op_ws. Qed.
Print Assumptions C09_leading_ws. Print Assumptions C09_trailing_ws. Print Assumptions C09_ws_run.
Print Assumptions C09_delim_ws. Print Assumptions C09_op_ws.

(* ==== T1 tie (syntax layer) ==== *)
Require Import PyDict PyLoop PySyntax TermGen SyntaxGen SyntaxGenBase SyntaxGenTermList SyntaxGenAbsTerm SyntaxGenAbsTermList SyntaxGenSerializer SyntaxGenGrammar SyntaxGenFold.
(* T1 tie: the syntax classes of syntax/data.py, the 23 parse actions of syntax/grammar.py and serializer._expression_to_polyhedral_terms as translated ON THIS RUN (gen/SyntaxGen.v) ARE model/Syntax.v: replaying the generated parse actions bottom-up over any syntax tree and converting the result gives exactly fold_expr. proofs/SyntaxGen*.v *)
Theorem C09_code_fold_expr :
  forall (star : bool) (str_rep : string) (e : expr),
       ' x <- g_expr star e;; serializer_expression_to_polyhedral_terms str_rep x = fold_expr e.
Proof. exact @g_fold_expr_eq. Qed.
Print Assumptions C09_code_fold_expr.
Theorem C09_code_parse_actions :
  forall (star : bool) (e : expr), mmap to_sexpr (g_expr star e) = Syntax.parse_expr e.
Proof. exact @g_expr_eq. Qed.
Print Assumptions C09_code_parse_actions.
Theorem C09_code_same_term_list :
  forall a b : gabs, PolyhedralSyntaxAbsoluteTerm_same_term_list a b = same_term_list (to_sabs a) (to_sabs b).
Proof. exact @same_term_list_eq. Qed.
Print Assumptions C09_code_same_term_list.
Theorem C09_code_combine_optional_floats :
  forall f1 f2 : option Q, data_combine_optional_floats f1 f2 = combine_optional_floats f1 f2.
Proof. exact @combine_optional_floats_eq. Qed.
Print Assumptions C09_code_combine_optional_floats.
Theorem C09_code_expand :
  forall a : gatl,
       gwfatl a -> mmap (map to_stl) (PolyhedralSyntaxAbsoluteTermList_expand a) = Py.ret (satl_expand (to_satl a)).
Proof. exact @satl_expand_eq. Qed.
Print Assumptions C09_code_expand.
Theorem C09_code_leq_expression :
  forall (s : string) (e : PolyhedralSyntaxIneqExpression),
       Forall gwfatl (PolyhedralSyntaxIneqExpression_sides e) ->
       serializer_leq_expression_to_polyhedral_terms s e =
       ineq_expression_to_polyhedral_terms OpLeq (map to_satl (PolyhedralSyntaxIneqExpression_sides e)).
Proof. exact @leq_expression_eq. Qed.
Print Assumptions C09_code_leq_expression.
Theorem C09_code_geq_expression :
  forall (s : string) (e : PolyhedralSyntaxIneqExpression),
       Forall gwfatl (PolyhedralSyntaxIneqExpression_sides e) ->
       serializer_geq_expression_to_polyhedral_terms s e =
       ineq_expression_to_polyhedral_terms OpGeq (map to_satl (PolyhedralSyntaxIneqExpression_sides e)).
Proof. exact @geq_expression_eq. Qed.
Print Assumptions C09_code_geq_expression.
Theorem C09_code_eql_expression :
  forall e : PolyhedralSyntaxEqlExpression,
       gwfs (PolyhedralSyntaxEqlExpression_lhs e) ->
       gwfs (PolyhedralSyntaxEqlExpression_rhs e) ->
       serializer_eql_expression_to_polyhedral_terms e =
       Py.ret
         (eql_expression_to_polyhedral_terms (to_stl (PolyhedralSyntaxEqlExpression_lhs e))
            (to_stl (PolyhedralSyntaxEqlExpression_rhs e))).
Proof. exact @eql_expression_eq. Qed.
Print Assumptions C09_code_eql_expression.
Theorem C09_code_arithmetic_chain :
  forall (a : Q) (l : list (aop * Q)),
       grammar_parse_arithmetic_chain (G (TokFloat a :: chain_toks l)) =
       mmap TokFloat (Syntax.ceval (chain_tree (CNum a) l)).
Proof. exact @parse_arithmetic_chain_eq. Qed.
Print Assumptions C09_code_arithmetic_chain.
Theorem C09_code_expression_to_terms :
  forall (s : string) (e : gexpr),
       gwf_expr e -> serializer_expression_to_polyhedral_terms s e = expression_to_polyhedral_terms (to_sexpr e).
Proof. exact @expression_to_polyhedral_terms_eq. Qed.
Print Assumptions C09_code_expression_to_terms.

(* ==== T1 tie (grammar structure) ==== *)
Require Import PyParsing GrammarGen GrammarGenBase GrammarGenTokens GrammarGenTerms GrammarGenExpr GrammarGenFacts.
(* T1 tie: the STRUCTURE of the pyparsing grammar of syntax/grammar.py (every rule: order of alternatives, optional and repeated parts, literals and which are suppressed, Combine, the Forward cycle, the infixNotation levels, which parse action sits on which rule) as translated ON THIS RUN (gen/GrammarGen.v, over the combinator library of model/Grammar.v, i.e. the modelled pyparsing engine) IS the hand-written parser: same result on every string. proofs/GrammarGen*.v *)
Theorem C09_code_parse_expr :
  forall s : string, parse_expr s = Grammar.parse_expr s.
Proof. exact @parse_expr_gen_eq. Qed.
Print Assumptions C09_code_parse_expr.
Theorem C09_code_grammar_rules :
  forall n : nat,
       peq floating_point_number fpn_c /\
       peq (arithmetic_expr n) (p_arith fla n) /\
       peq (or_actions (por floating_point_number (paren_arith_expr n))) (number fla n) /\
       peq (term n) (p_term fla n) /\
       peq (terms n) (Grammar.terms fla n) /\
       peq (paren_terms n) (paren_of (p_term fla n)) /\
       peq (abs_term n) (Grammar.abs_term fla n) /\
       peq (first_abs_or_term n) (Grammar.first_abs_or_term fla n) /\
       peq (addl_abs_or_term n) (Grammar.addl_abs_or_term fla n) /\
       peq (abs_or_terms n) (Grammar.abs_or_terms fla n) /\
       peq (paren_abs_or_terms n) (Grammar.paren_abs_or_terms fla n) /\
       peq (first_paren_abs_or_terms n) (Grammar.first_paren_abs_or_terms fla n) /\
       peq (addl_paren_abs_or_terms n) (Grammar.addl_paren_abs_or_terms fla n) /\
       peq (multi_paren_abs_or_terms n) (multi fla n) /\
       peq (equality_expression n) (Grammar.equality_expression fla n) /\
       peq (leq_expression n) (Grammar.leq_expression fla n) /\
       peq (geq_expression n) (Grammar.geq_expression fla n) /\ peq (expression n) (Grammar.expression fla n).
Proof. exact @grammar_rules_gen_eq. Qed.
Print Assumptions C09_code_grammar_rules.
Theorem C09_code_parser_total :
  forall s : string, parse_expr s <> OutOfFuel.
Proof. exact @parse_expr_gen_total. Qed.
Print Assumptions C09_code_parser_total.
