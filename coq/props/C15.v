(* C15 — composition keeps what the result can express (translated algebra, gen/AlgebraGen.v):
   every guarantee of an operand whose variables all belong to the interface of the composite
   (in particular those over variables kept with vars_to_keep) follows from the composite; and
   with no connection between the operands, composition is exact.  For any constraint domain
   meeting DomainSpec and the optional KeepSpec (proofs/AlgebraSpec.v: Term.__eq__ is reflexive
   and only identifies terms over the same variables; relaxation removes the eliminated
   variables and is an equivalence in context when there is nothing to eliminate).
   Statements only; proofs in proofs/AlgebraSound.v. *)
From Coq Require Import List String Bool.
Import ListNotations.
Require Import Py ListsGen AlgebraGen AlgebraSpec AlgebraSound.

Theorem C15_compose : forall (D : Domain) (B : Type) (dt : term -> B -> Prop) (wf : term -> Prop) (pv : var -> Prop),
  DomainSpec B dt wf pv -> KeepSpec B dt wf pv ->
  forall c1 c2 keep sp od c st, wfc wf c1 -> wfc wf c2 ->
  iface_ok pv c1 -> iface_ok pv c2 -> NoDup (opt_list keep) ->
  IoContract_compose_tactics c1 c2 keep sp od = inl (c, st) ->
  forall t, In t (c_g c1) \/ In t (c_g c2) ->
  (forall v, In v (term_vars t) -> In v (c_inputvars c) \/ In v (c_outputvars c)) ->
  forall b, den B dt (c_a c) b -> den B dt (c_g c) b -> dt t b.
Proof. exact @compose_keeps_guarantees. Qed.
Print Assumptions C15_compose.

(* second sentence: with no connection, composition is exact (exact_obligation, AlgebraSpec.v) *)
Theorem C15_exact : forall (D : Domain) (B : Type) (dt : term -> B -> Prop) (wf : term -> Prop) (pv : var -> Prop),
  DomainSpec B dt wf pv -> KeepSpec B dt wf pv ->
  forall c1 c2 keep sp od c st, wfc wf c1 -> wfc wf c2 ->
  iface_ok pv c1 -> iface_ok pv c2 -> NoDup (opt_list keep) ->
  IoContract_compose_tactics c1 c2 keep sp od = inl (c, st) ->
  list_intersection (c_outputvars c1) (c_inputvars c2) = [] /\
  list_intersection (c_inputvars c1) (c_outputvars c2) = [] ->
  exact_obligation B dt c1 c2 c.
Proof. exact @compose_exact. Qed.
Print Assumptions C15_exact.

(* merging keeps every guarantee (needs DomainSpec only) *)
Theorem C15_merge : forall (D : Domain) (B : Type) (dt : term -> B -> Prop) (wf : term -> Prop) (pv : var -> Prop),
  DomainSpec B dt wf pv ->
  forall c1 c2 m, wfc wf c1 -> wfc wf c2 ->
  IoContract_merge c1 c2 = inl m ->
  forall t, In t (c_g c1) \/ In t (c_g c2) ->
  forall b, den B dt (c_a m) b -> den B dt (c_g m) b -> dt t b.
Proof. exact @merge_keeps_guarantees. Qed.
Print Assumptions C15_merge.

(* non-vacuity: the toy domain of AlgebraSound.v meets both specs; keeping the connection
   variable y of the cascade c1 ; c2 keeps c1's guarantee y = 1, and the composition of the
   unconnected c1 and c3 is exact *)
Example C15_toy_specs :
  @DomainSpec Toy.ToyDomain Toy.beh Toy.atom_dt Toy.atom_wf Toy.atom_pv /\
  @KeepSpec Toy.ToyDomain Toy.beh Toy.atom_dt Toy.atom_wf Toy.atom_pv.
Proof. exact (conj Toy.ToySpec Toy.ToyKeep). Qed.

Example C15_nonvacuous_keep :
  (exists st, @IoContract_compose_tactics Toy.ToyDomain Toy.c1 Toy.c2 (Some ["y"%string]) true None = inl (Toy.c12y, st)) /\
  forall b, @den Toy.ToyDomain Toy.beh Toy.atom_dt (c_a Toy.c12y) b ->
            @den Toy.ToyDomain Toy.beh Toy.atom_dt (c_g Toy.c12y) b ->
            Toy.atom_dt (Toy.Atom "y"%string 1) b.
Proof.
  split; [exact Toy.compose_keep_runs|].
  destruct Toy.compose_keep_runs as (st & Hst).
  refine (C15_compose Toy.ToyDomain _ _ _ _ Toy.ToySpec Toy.ToyKeep Toy.c1 Toy.c2 (Some ["y"%string]) true None
            Toy.c12y st (Toy.atom_wfc _) (Toy.atom_wfc _) Toy.iface_c1 Toy.iface_c2 (Toy.NoDup1 _) Hst
            (Toy.Atom "y"%string 1) _ _).
  - left. left. reflexivity.
  - intros v [<-|[]]. right. right. left. reflexivity.
Qed.

Example C15_nonvacuous_exact :
  (exists st, @IoContract_compose_tactics Toy.ToyDomain Toy.c1 Toy.c3 None true None = inl (Toy.c13, st)) /\
  @exact_obligation Toy.ToyDomain Toy.beh Toy.atom_dt Toy.c1 Toy.c3 Toy.c13.
Proof.
  split; [exact Toy.compose_unconnected_runs|].
  destruct Toy.compose_unconnected_runs as (st & Hst).
  refine (C15_exact Toy.ToyDomain _ _ _ _ Toy.ToySpec Toy.ToyKeep Toy.c1 Toy.c3 None true None
            Toy.c13 st (Toy.atom_wfc _) (Toy.atom_wfc _) Toy.iface_c1 Toy.iface_c3 (NoDup_nil _) Hst _).
  split; reflexivity.
Qed.

(* ---- polyhedral instance (proofs/PolyKeepFacts.v, proofs/PolyDomainFacts.v) ---- *)
From Coq Require Import QArith.
Require Import ConstGen Sem Term Poly Tactics PolyDomain PolySpec TermFacts PolyFacts TacticsFacts PolyDomainFacts PolyKeepFacts.

Theorem C15_compose_polyhedral : forall O, lp_spec 0%Q O ->
  forall (c1 c2 : pcontract O) keep sp od c st,
  wfpc c1 -> wfpc c2 -> ifpc c1 -> ifpc c2 -> NoDup (opt_list keep) ->
  poly_compose_tactics O c1 c2 keep sp od = inl (c, st) ->
  forall t, In t (@c_g (poly_domain O) c1) \/ In t (@c_g (poly_domain O) c2) ->
  (forall v, In v (term_vars_p t) -> In v (@c_inputvars (poly_domain O) c) \/ In v (@c_outputvars (poly_domain O) c)) ->
  forall rho, sat_list rho (@c_a (poly_domain O) c) -> sat_list rho (@c_g (poly_domain O) c) -> sat rho t.
Proof. exact C15_compose_poly. Qed.
Print Assumptions C15_compose_polyhedral.

Theorem C15_exact_polyhedral : forall O, lp_spec 0%Q O ->
  forall (c1 c2 : pcontract O) keep sp od c st,
  wfpc c1 -> wfpc c2 -> ifpc c1 -> ifpc c2 -> NoDup (opt_list keep) ->
  poly_compose_tactics O c1 c2 keep sp od = inl (c, st) ->
  list_intersection (@c_outputvars (poly_domain O) c1) (@c_inputvars (poly_domain O) c2) = [] /\
  list_intersection (@c_inputvars (poly_domain O) c1) (@c_outputvars (poly_domain O) c2) = [] ->
  (forall rho, sat_list rho (@c_a (poly_domain O) c) <-> sat_list rho (@c_a (poly_domain O) c1) /\ sat_list rho (@c_a (poly_domain O) c2)) /\
  (forall rho, sat_list rho (@c_a (poly_domain O) c) ->
     (sat_list rho (@c_g (poly_domain O) c) <-> sat_list rho (@c_g (poly_domain O) c1) /\ sat_list rho (@c_g (poly_domain O) c2))).
Proof. exact C15_exact_poly. Qed.
Print Assumptions C15_exact_polyhedral.

Theorem C15_merge_polyhedral : forall O, lp_spec 0%Q O ->
  forall (c1 c2 m : pcontract O), wfpc c1 -> wfpc c2 -> poly_merge O c1 c2 = inl m ->
  forall t, In t (@c_g (poly_domain O) c1) \/ In t (@c_g (poly_domain O) c2) ->
  forall rho, sat_list rho (@c_a (poly_domain O) m) -> sat_list rho (@c_g (poly_domain O) m) -> sat rho t.
Proof. exact C15_merge_poly. Qed.
Print Assumptions C15_merge_polyhedral.
