(* C10b — the string half of C10: what PolyhedralTermList.to_str_list prints is read back by
   polyhedral_termlist_from_string with the meaning the printer intended.
   Models: model/Printer.v (to_str_list: exact %.4g, pair folding), model/Grammar.v (character-level PEG model
   of the pyparsing grammar), model/Syntax.v (folding parse actions), model/ParseAll.v (their composition
   parse_terms), model/RoundTrip.v (valid_var, norm_expr, parse_all).
   Statements only; proofs in proofs/RoundTripFacts.v.  props/C10.v states the meaning of the printed SYNTAX
   TREES (the C10_print_meaning theorems); the theorems here connect the printed STRINGS to those trees and to terms.

   Preconditions (both necessary, see the Examples at the end; the real library behaves like the models there):
     printable ts   no emitted string is outside the grammar: the printer's rule 3 "|LHS| = 0" and a term whose
                    coefficients all print as nothing (" <= c") are excluded        [PrinterFacts.item_ast_none];
     vars_valid ts  every variable name is a Word(alphas, alphanums + "_") of the grammar.  The printer writes
                    dictionary keys verbatim, pacti's Var accepts any string. *)
From Coq Require Import List String Ascii Bool QArith Reals.
Import ListNotations.
Require Import Py Sem Term Ast Grammar Syntax ParseAll Printer PrinterFacts GrammarFacts RoundTrip RoundTripFacts.
Local Open Scope string_scope.

(* format(x, ".4g") of a positive number is one floating_point_number token of the grammar — whatever follows
   it, a blank or the end of the input — and the token's value is the four-digit rounding.  No range restriction:
   fixed and scientific notation, exponents of any length. *)
Theorem C10_string_number : forall q x, (0 < q)%Q -> sp_head x ->
  exists txt, fpn (fmt4 q ++ x) = ROk txt x /\ literal_value txt = Qred (round4 q).
Proof. exact fmt4_token. Qed.
Print Assumptions C10_string_number.

(* The parser reads every printed string back to exactly the syntax tree the printer spelled, every literal
   as its reduced fraction (the printer's tree carries round4 c as the unreduced m / 10^k). *)
Theorem C10_string_roundtrip_tree : forall ts, printable ts -> vars_valid ts ->
  Forall2 (fun s o => exists e, o = Some e /\ Grammar.parse_expr s = Ok (norm_expr e))
          (to_str_list ts) (to_ast_list ts).
Proof. exact strings_roundtrip. Qed.
Print Assumptions C10_string_roundtrip_tree.

(* the normalisation is immaterial: same meaning at every real point, for every tree of the grammar *)
Theorem C10_string_roundtrip_norm : forall rho e, eden rho (norm_expr e) <-> eden rho e.
Proof. exact eden_norm. Qed.
Print Assumptions C10_string_roundtrip_norm.

(* one emitted string through polyhedral_termlist_from_string: accepted, and the resulting terms mean what
   the printed tree means (props/C10.v: the rounded first term, and its mirror for a folded pair) *)
Theorem C10_string_roundtrip_item : forall it e, term_vars_valid (item_head it) -> item_ast it = Some e ->
  exists ts', parse_terms (item_str it) = inl ts' /\ forall rho, sat_list rho ts' <-> item_rounded_den rho it.
Proof. exact item_parse_terms_rounded. Qed.
Print Assumptions C10_string_roundtrip_item.

(* MAIN: parsing every printed string and concatenating the results (what from_strings does) succeeds, and
   the terms obtained hold exactly where the printed reading of the input holds: every number rounded to the
   four printed digits, a folded pair read as the rounded first term and its exact mirror. *)
Theorem C10_string_roundtrip : forall ts, printable ts -> vars_valid ts ->
  exists ts', parse_all (to_str_list ts) = inl ts' /\
              forall rho, sat_list rho ts' <-> Forall (item_rounded_den rho) (items ts).
Proof. exact parse_all_printed_rounded. Qed.
Print Assumptions C10_string_roundtrip.

(* the same, as the meaning of the trees of props/C10.v *)
Theorem C10_string_roundtrip_ast : forall ts, printable ts -> vars_valid ts ->
  exists ts', parse_all (to_str_list ts) = inl ts' /\
              forall rho, sat_list rho ts' <-> ast_meaning rho (to_ast_list ts).
Proof. exact parse_all_printed. Qed.
Print Assumptions C10_string_roundtrip_ast.

(* when the partner of every folded pair rounds to the mirror of the first term: the four-digit rounding
   of the whole input list *)
Theorem C10_string_roundtrip_rounded_terms : forall ts,
  Forall partner_rounds_to_mirror (items ts) -> printable ts -> vars_valid ts ->
  exists ts', parse_all (to_str_list ts) = inl ts' /\
              forall rho, sat_list rho ts' <-> sat_list rho (map rounded_term ts).
Proof. exact parse_all_printed_rounded_terms. Qed.
Print Assumptions C10_string_roundtrip_rounded_terms.

(* exactly opposite pairs and exactly printable numbers: the original constraints *)
Theorem C10_string_roundtrip_exact : forall ts, Forall exact_item (items ts) -> printable ts -> vars_valid ts ->
  exists ts', parse_all (to_str_list ts) = inl ts' /\ forall rho, sat_list rho ts' <-> sat_list rho ts.
Proof. exact parse_all_printed_exact. Qed.
Print Assumptions C10_string_roundtrip_exact.

(* ---------------------------------------------------------------- the hypotheses are satisfiable *)
Local Open Scope Q_scope.
(* x + 2y <= 3 and its mirror (folded to "="), a pair folded to "|...|", and a term whose three numbers are
   all rounded: 1/3 -> 0.3333, -1.5e-7 (scientific, negative exponent), 123456 -> 1.235e+05 *)
Definition rt_demo : list pterm :=
  [mkT [("x", 1); ("y", 2)] 3;
   mkT [("z", 1 # 3); ("w_1", -(3 # 20000000))] 123456;
   mkT [("y", -(2)); ("x", -(1))] (-(3));
   mkT [("x", 1); ("z", -(1 # 2))] 4;
   mkT [("x", -(1)); ("z", 1 # 2)] 4].

Example rt_demo_strings :
  to_str_list rt_demo = ["x + 2 y = 3"; "-1.5e-07 w_1 + 0.3333 z <= 1.235e+05"; "|x - 0.5 z| <= 4"]%string.
Proof. vm_compute. reflexivity. Qed.

Example rt_demo_hypotheses : printable rt_demo /\ vars_valid rt_demo.
Proof.
  split.
  - unfold printable.
    assert (Ei : items rt_demo = [IEq (nth 0 rt_demo (mkT [] 0)) (nth 2 rt_demo (mkT [] 0));
                                  ILeq (nth 1 rt_demo (mkT [] 0));
                                  IAbsLeq (nth 3 rt_demo (mkT [] 0)) (nth 4 rt_demo (mkT [] 0))])
      by (vm_compute; reflexivity).
    rewrite Ei. repeat (apply Forall_cons); try apply Forall_nil; vm_compute; discriminate.
  - unfold vars_valid, term_vars_valid, rt_demo.
    repeat (first [apply Forall_nil | apply Forall_cons]); reflexivity.
Qed.

(* what the theorem promises, computed: the strings parse, to these terms *)
Example rt_demo_parsed :
  parse_all (to_str_list rt_demo)
  = inl [mkT [("x", 1); ("y", 2)] 3; mkT [("x", -(1)); ("y", -(2))] (-(3));
         mkT [("w_1", -(3 # 20000000)); ("z", 3333 # 10000)] 123500;
         mkT [("x", 1); ("z", -(1 # 2))] 4; mkT [("x", -(1)); ("z", 1 # 2)] 4].
Proof. vm_compute. reflexivity. Qed.

Example rt_demo_roundtrip :
  exists ts', parse_all (to_str_list rt_demo) = inl ts' /\
              forall rho, sat_list rho ts' <-> Forall (item_rounded_den rho) (items rt_demo).
Proof.
  exact (C10_string_roundtrip rt_demo (proj1 rt_demo_hypotheses) (proj2 rt_demo_hypotheses)).
Qed.

(* ---------------------------------------------------------------- both preconditions are necessary *)
(* (each line reproduced on /repo/src: to_str_list, then polyhedral_termlist_from_string) *)
Local Open Scope string_scope.
(* names outside the grammar's Word: rejected when read back *)
Example rt_bad_var_rejected :
  map (fun v => (to_str_list [mkT [(v, 2%Q)] 5], parse_all (to_str_list [mkT [(v, 2%Q)] 5]))) ["_x"; "x.y"; "1x"; "x y"]
  = [(["2 _x <= 5"], inr SyntaxErr); (["2 x.y <= 5"], inr SyntaxErr);
     (["2 1x <= 5"], inr SyntaxErr); (["2 x y <= 5"], inr SyntaxErr)].
Proof. vm_compute. reflexivity. Qed.
(* names that spell grammar: read back as DIFFERENT constraints, silently *)
Example rt_bad_var_reinterpreted :
  parse_all (to_str_list [mkT [("x-y", 2%Q)] 5]) = inl [mkT [("x", 2%Q); ("y", (-1)%Q)] 5] /\
  to_str_list [mkT [("x-y", 2%Q)] 5] = ["2 x-y <= 5"] /\
  parse_all (to_str_list [mkT [("", 2%Q)] 5]) = inl [mkT [] 3] /\
  to_str_list [mkT [("", 2%Q)] 5] = ["2  <= 5"] /\
  valid_var "x-y" = false /\ valid_var "" = false.
Proof. vm_compute. repeat split; reflexivity. Qed.
(* strings outside the grammar *)
Example rt_unprintable :
  parse_all (to_str_list [mkT [] 3]) = inr SyntaxErr /\ to_str_list [mkT [] 3] = [" <= 3"] /\
  parse_all (to_str_list [mkT [("x", 1%Q)] r3_c; mkT [("x", (-(1))%Q)] r3_c]) = inr SyntaxErr /\
  to_str_list [mkT [("x", 1%Q)] r3_c; mkT [("x", (-(1))%Q)] r3_c] = ["|x| = 0"].
Proof. vm_compute. repeat split; reflexivity. Qed.

(* ---------------------------------------------------------------- compound contracts: the hypotheses of
   props/C10.v's C10_compound_roundtrip are met by the real printer / parser pair *)
Require Import Json PyJson Compound JsonCompound JsonCompoundGen JsonCompoundFacts.
(* the relation "read back with the printed meaning" of C10_string_roundtrip, alternative by alternative *)
Definition reads_as_printed (ts ts' : list pterm) : Prop :=
  forall rho, sat_list rho ts' <-> Forall (item_rounded_den rho) (items ts).
(* to_dict with the printer of model/Printer.v, then from_strings with polyhedral_termlist_from_string of
   model/ParseAll.v (both as translated on this run): every alternative of the assumptions and of the guarantees is
   handed to the constructors, in order, as a term list holding exactly where its printed reading holds *)
Theorem C10_compound_string_roundtrip :
  forall (pstr : json -> string) (nested_new : nested -> bool -> M nested)
         (compound_new : nested -> nested -> list var -> list var -> M compound) (k : compound),
  Forall (fun ts => printable ts /\ vars_valid ts) (k_a k) ->
  Forall (fun ts => printable ts /\ vars_valid ts) (k_g k) ->
  let d := PolyhedralIoContractCompound_to_dict to_str_list k in
  exists a' g',
    Forall2 reads_as_printed (k_a k) a' /\ Forall2 reads_as_printed (k_g k) g' /\
    (_ <- call_kwargs ["assumptions"; "guarantees"; "input_vars"; "output_vars"] [] d ;;
     PolyhedralIoContractCompound_from_strings pstr (parse_json_with parse_terms) nested_new compound_new
       (kwarg "assumptions" d) (kwarg "guarantees" d) (kwarg "input_vars" d) (kwarg "output_vars" d))
    = (na <- nested_new a' true ;; ng <- nested_new g' false ;;
       compound_new na ng (k_inputvars k) (k_outputvars k)).
Proof.
  intros pstr nn cn k.
  exact (compound_roundtrip_code to_str_list parse_terms (parse_json_with parse_terms)
           (fun ts => printable ts /\ vars_valid ts) reads_as_printed (fun s => eq_refl)
           (fun ts H => parse_all_printed_rounded ts (proj1 H) (proj2 H)) pstr nn cn k).
Qed.
Print Assumptions C10_compound_string_roundtrip.
