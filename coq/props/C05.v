(* C05 — the algebra layer (gen/AlgebraGen.v, regenerated from iocontract.py on every run) is
   sound for ANY constraint domain whose primitives meet their documented contracts
   (proofs/AlgebraSpec.v): compose, quotient and merge return only results that satisfy the
   obligations of C01, C02 and C08, for every interface wiring and every outcome of every
   primitive call.  Only statements here; proofs are in proofs/AlgebraSound.v. *)
From Coq Require Import List String Bool.
Require Import Py ListsGen AlgebraGen AlgebraSpec AlgebraSound.

(* wf is an invariant on terms and pv an admissibility predicate on variable names (AlgebraSpec.v):
   the primitives are specified on well-formed terms (and, for the eliminations, duplicate-free lists
   of admissible variables) only; the algebra keeps the invariant (wfc = both term lists well-formed)
   and only eliminates such lists when the operands' interfaces are duplicate-free and admissible
   (iface_ok).  RefinesSpec (soundness of the domain's refinement test) is a separate hypothesis,
   needed only by the operations that call it. *)
Theorem C05_compose : forall (D : Domain) (B : Type) (dt : term -> B -> Prop) (wf : term -> Prop) (pv : var -> Prop),
  DomainSpec B dt wf pv ->
  forall c1 c2 keep sp od c st, wfc wf c1 -> wfc wf c2 ->
  iface_ok pv c1 -> iface_ok pv c2 -> NoDup (opt_list keep) ->
  IoContract_compose_tactics c1 c2 keep sp od = inl (c, st) ->
  wfc wf c /\ compose_obligation B dt c1 c2 c.
Proof. exact @compose_sound. Qed.
Print Assumptions C05_compose.

Theorem C05_compose_simple : forall (D : Domain) (B : Type) (dt : term -> B -> Prop) (wf : term -> Prop) (pv : var -> Prop),
  DomainSpec B dt wf pv ->
  forall c1 c2 keep sp c, wfc wf c1 -> wfc wf c2 ->
  iface_ok pv c1 -> iface_ok pv c2 -> NoDup (opt_list keep) ->
  IoContract_compose c1 c2 keep sp = inl c ->
  wfc wf c /\ compose_obligation B dt c1 c2 c.
Proof. exact @compose_sound_simple. Qed.
Print Assumptions C05_compose_simple.

(* the quotient asks the refinement test once; pointwise, only that answer matters *)
Theorem C05_quotient_pointwise : forall (D : Domain) (B : Type) (dt : term -> B -> Prop) (wf : term -> Prop) (pv : var -> Prop),
  DomainSpec B dt wf pv ->
  forall c c1 add sp od q st, wfc wf c -> wfc wf c1 ->
  iface_ok pv c -> iface_ok pv c1 ->
  IoContract_quotient_tactics c c1 add sp od = inl (q, st) ->
  wfc wf q /\
  forall b, (p_refines (c_a c) (c_a c1) = inl true -> den B dt (c_a c) b -> den B dt (c_a c1) b) ->
            den B dt (c_a c) b -> honours B dt c1 b -> honours B dt q b ->
            den B dt (c_a c1) b /\ den B dt (c_a q) b /\ den B dt (c_g c) b.
Proof. exact @quotient_sound_pointwise. Qed.
Print Assumptions C05_quotient_pointwise.

Theorem C05_quotient : forall (D : Domain) (B : Type) (dt : term -> B -> Prop) (wf : term -> Prop) (pv : var -> Prop),
  DomainSpec B dt wf pv -> RefinesSpec B dt wf ->
  forall c c1 add sp od q st, wfc wf c -> wfc wf c1 ->
  iface_ok pv c -> iface_ok pv c1 ->
  IoContract_quotient_tactics c c1 add sp od = inl (q, st) ->
  wfc wf q /\ quotient_obligation B dt c c1 q.
Proof. exact @quotient_sound. Qed.
Print Assumptions C05_quotient.

Theorem C05_quotient_refines_false : forall (D : Domain) (B : Type) (dt : term -> B -> Prop) (wf : term -> Prop) (pv : var -> Prop),
  DomainSpec B dt wf pv ->
  forall c c1 add sp od q st, wfc wf c -> wfc wf c1 ->
  iface_ok pv c -> iface_ok pv c1 ->
  p_refines (c_a c) (c_a c1) <> inl true ->
  IoContract_quotient_tactics c c1 add sp od = inl (q, st) ->
  wfc wf q /\ quotient_obligation B dt c c1 q.
Proof. exact @quotient_sound_refines_false. Qed.
Print Assumptions C05_quotient_refines_false.

Theorem C05_quotient_simple : forall (D : Domain) (B : Type) (dt : term -> B -> Prop) (wf : term -> Prop) (pv : var -> Prop),
  DomainSpec B dt wf pv -> RefinesSpec B dt wf ->
  forall c c1 add sp q, wfc wf c -> wfc wf c1 ->
  iface_ok pv c -> iface_ok pv c1 ->
  IoContract_quotient c c1 add sp = inl q ->
  wfc wf q /\ quotient_obligation B dt c c1 q.
Proof. exact @quotient_sound_simple. Qed.
Print Assumptions C05_quotient_simple.

Theorem C05_merge : forall (D : Domain) (B : Type) (dt : term -> B -> Prop) (wf : term -> Prop) (pv : var -> Prop),
  DomainSpec B dt wf pv ->
  forall c1 c2 m, wfc wf c1 -> wfc wf c2 ->
  IoContract_merge c1 c2 = inl m ->
  wfc wf m /\ merge_obligation B dt c1 c2 m.
Proof. exact @merge_exact. Qed.
Print Assumptions C05_merge.

Theorem C05_refines : forall (D : Domain) (B : Type) (dt : term -> B -> Prop) (wf : term -> Prop) (pv : var -> Prop),
  DomainSpec B dt wf pv -> RefinesSpec B dt wf ->
  forall c1 c2, wfc wf c1 -> wfc wf c2 ->
  IoContract_refines c1 c2 = inl true ->
  (forall b, den B dt (c_a c2) b -> den B dt (c_a c1) b) /\
  (forall b, den B dt (c_a c2) b -> den B dt (c_g c1) b -> den B dt (c_g c2) b).
Proof. exact @refines_sound. Qed.
Print Assumptions C05_refines.

(* the layer adds no failure mode of its own: IncompatibleArgs or an error of a primitive *)
Theorem C05_errors_compose : forall (D : Domain) c1 c2 keep sp od e,
  IoContract_compose_tactics c1 c2 keep sp od = inr e -> e = IncompatibleArgs \/ primitive_errors e.
Proof. exact @algebra_errors_compose. Qed.
Print Assumptions C05_errors_compose.
Theorem C05_errors_quotient : forall (D : Domain) c c1 add sp od e,
  IoContract_quotient_tactics c c1 add sp od = inr e -> e = IncompatibleArgs \/ primitive_errors e.
Proof. exact @algebra_errors_quotient. Qed.
Print Assumptions C05_errors_quotient.
Theorem C05_errors_merge : forall (D : Domain) c1 c2 e,
  IoContract_merge c1 c2 = inr e -> e = IncompatibleArgs \/ primitive_errors e.
Proof. exact @algebra_errors_merge. Qed.
Print Assumptions C05_errors_merge.

(* non-vacuity: a concrete domain meets the spec and a cascade composition succeeds *)
Example C05_nonvacuous : exists st, @IoContract_compose_tactics Toy.ToyDomain Toy.c1 Toy.c2 None true None = inl (Toy.c12, st).
Proof. exact Toy.compose_cascade_runs. Qed.
