(* C05 — the algebra layer (gen/AlgebraGen.v, regenerated from iocontract.py on every run) is
   sound for ANY constraint domain whose primitives meet their documented contracts
   (proofs/AlgebraSpec.v): compose, quotient and merge return only results that satisfy the
   obligations of C01, C02 and C08, for every interface wiring and every outcome of every
   primitive call.  Only statements here; proofs are in proofs/AlgebraSound.v. *)
From Coq Require Import List String Bool.
Require Import Py ListsGen AlgebraGen AlgebraSpec AlgebraSound.

(* wf is an invariant on terms (AlgebraSpec.v): the primitives are specified on well-formed
   arguments only and keep it; the algebra keeps it too (wfc = both term lists well-formed) *)
Theorem C05_compose : forall (D : Domain) (B : Type) (dt : term -> B -> Prop) (wf : term -> Prop),
  DomainSpec B dt wf ->
  forall c1 c2 keep sp od c st, wfc wf c1 -> wfc wf c2 ->
  IoContract_compose_tactics c1 c2 keep sp od = inl (c, st) ->
  wfc wf c /\ compose_obligation B dt c1 c2 c.
Proof. exact @compose_sound. Qed.
Print Assumptions C05_compose.

Theorem C05_compose_simple : forall (D : Domain) (B : Type) (dt : term -> B -> Prop) (wf : term -> Prop),
  DomainSpec B dt wf ->
  forall c1 c2 keep sp c, wfc wf c1 -> wfc wf c2 ->
  IoContract_compose c1 c2 keep sp = inl c ->
  wfc wf c /\ compose_obligation B dt c1 c2 c.
Proof. exact @compose_sound_simple. Qed.
Print Assumptions C05_compose_simple.

Theorem C05_quotient : forall (D : Domain) (B : Type) (dt : term -> B -> Prop) (wf : term -> Prop),
  DomainSpec B dt wf ->
  forall c c1 add sp od q st, wfc wf c -> wfc wf c1 ->
  IoContract_quotient_tactics c c1 add sp od = inl (q, st) ->
  wfc wf q /\ quotient_obligation B dt c c1 q.
Proof. exact @quotient_sound. Qed.
Print Assumptions C05_quotient.

Theorem C05_quotient_simple : forall (D : Domain) (B : Type) (dt : term -> B -> Prop) (wf : term -> Prop),
  DomainSpec B dt wf ->
  forall c c1 add sp q, wfc wf c -> wfc wf c1 ->
  IoContract_quotient c c1 add sp = inl q ->
  wfc wf q /\ quotient_obligation B dt c c1 q.
Proof. exact @quotient_sound_simple. Qed.
Print Assumptions C05_quotient_simple.

Theorem C05_merge : forall (D : Domain) (B : Type) (dt : term -> B -> Prop) (wf : term -> Prop),
  DomainSpec B dt wf ->
  forall c1 c2 m, wfc wf c1 -> wfc wf c2 ->
  IoContract_merge c1 c2 = inl m ->
  wfc wf m /\ merge_obligation B dt c1 c2 m.
Proof. exact @merge_exact. Qed.
Print Assumptions C05_merge.

Theorem C05_refines : forall (D : Domain) (B : Type) (dt : term -> B -> Prop) (wf : term -> Prop),
  DomainSpec B dt wf ->
  forall c1 c2, wfc wf c1 -> wfc wf c2 ->
  IoContract_refines c1 c2 = inl true ->
  (forall b, den B dt (c_a c2) b -> den B dt (c_a c1) b) /\
  (forall b, den B dt (c_a c2) b -> den B dt (c_g c1) b -> den B dt (c_g c2) b).
Proof. exact @refines_sound. Qed.
Print Assumptions C05_refines.

(* the layer adds no failure mode of its own: IncompatibleArgs or an error of a primitive *)
Theorem C05_errors_compose : forall (D : Domain) c1 c2 keep sp od e,
  IoContract_compose_tactics c1 c2 keep sp od = inr e -> e = IncompatibleArgs \/ primitive_errors e.
Proof. exact @algebra_errors_compose. Qed.
Print Assumptions C05_errors_compose.
Theorem C05_errors_quotient : forall (D : Domain) c c1 add sp od e,
  IoContract_quotient_tactics c c1 add sp od = inr e -> e = IncompatibleArgs \/ primitive_errors e.
Proof. exact @algebra_errors_quotient. Qed.
Print Assumptions C05_errors_quotient.
Theorem C05_errors_merge : forall (D : Domain) c1 c2 e,
  IoContract_merge c1 c2 = inr e -> e = IncompatibleArgs \/ primitive_errors e.
Proof. exact @algebra_errors_merge. Qed.
Print Assumptions C05_errors_merge.

(* non-vacuity: a concrete domain meets the spec and a cascade composition succeeds *)
Example C05_nonvacuous : exists st, @IoContract_compose_tactics Toy.ToyDomain Toy.c1 Toy.c2 None true None = inl (Toy.c12, st).
Proof. exact Toy.compose_cascade_runs. Qed.
