(* C17 — compound (disjunctive) contracts behave as unions of polyhedra.  Model: model/Compound.v
   (NestedTermList / IoContractCompound over the LP oracle), tied to the code by correspondence with LP
   replay.  Statements only; proofs in proofs/CompoundFacts.v. *)
From Coq Require Import List String Bool QArith Reals.
Import ListNotations.
Require Import Py ListsGen ConstGen Sem Term Poly PolySpec TermFacts PolyLP PolyFacts EvalFacts Compound CompoundFacts.

(* a nested list contains a behaviour exactly when at least one alternative does *)
Theorem C17_contains : forall alts b,
  Forall (Forall wft) alts -> NoDup (keys b) -> (forall v, In v (nested_vars alts) -> In v (keys b)) ->
  (nested_contains alts b = inl true <-> exists alt, In alt alts /\ sat_list (q2r_val (bval b)) alt).
Proof. exact nested_contains_iff. Qed.
Print Assumptions C17_contains.

(* the alternatives of an intersection denote exactly the intersection of the two unions; only empty ones are dropped *)
Theorem C17_intersect : forall O, lp_spec 0 O -> lp_total O -> forall a b force r,
  wfn a -> wfn b -> nested_intersect O a b force = inl r ->
  (forall rho, den r rho <-> den a rho /\ den b rho) /\ wfn r /\ (force = true -> ~ shares r).
Proof. exact intersect_sem. Qed.
Print Assumptions C17_intersect.

(* <= answers True only if the left union is contained in the right union (up to the numerical tolerance of refines) *)
Theorem C17_le_sound : forall O, lp_spec 0 O -> forall a b,
  Forall wfl a -> Forall wfl b -> Forall small_consts b -> nested_le O a b = inl true ->
  forall rho, den a rho -> exists y, In y b /\ Forall (sat_tol REFINEMENT_TOLERANCE rho) y.
Proof. exact nested_le_sound. Qed.
Print Assumptions C17_le_sound.

(* overlapping assumption alternatives are rejected with ValueError exactly when they share a behaviour *)
Theorem C17_disjoint_check : forall O, lp_spec 0 O -> lp_total O -> forall alts, wfn alts ->
  (nested_init O alts true = inr ValueErr <-> shares alts) /\
  (nested_init O alts true = inl alts <-> ~ shares alts) /\
  (nested_init O alts true = inl alts \/ nested_init O alts true = inr ValueErr).
Proof. exact disjoint_check_iff. Qed.
Print Assumptions C17_disjoint_check.

(* merging two compound contracts *)
Theorem C17_merge : forall O, lp_spec 0 O -> lp_total O -> forall c1 c2 c,
  wfk c1 -> wfk c2 -> compound_merge O c1 c2 = inl c ->
  (forall rho, den (k_a c) rho <-> den (k_a c1) rho /\ den (k_a c2) rho) /\
  (forall rho, den (k_g c) rho <-> den (k_g c1) rho /\ den (k_g c2) rho) /\
  k_inputvars c = list_union (k_inputvars c1) (k_inputvars c2) /\
  k_outputvars c = list_union (k_outputvars c1) (k_outputvars c2) /\
  wfk c /\ ~ shares (k_a c) /\ iface_ok (k_a c) (k_g c) (k_inputvars c) (k_outputvars c).
Proof. exact compound_merge_sem. Qed.
Print Assumptions C17_merge.

(* touching boundaries count as sharing a behaviour (closed sets): non-vacuity of the rejection *)
Example C17_touching_rejected : forall O, lp_spec 0 O -> lp_total O ->
  nested_init O [[le_x 1]; [ge_x 1]] true = inr ValueErr.
Proof. exact touching_rejected. Qed.

Require Import PyDict PyLoop CompoundGen CompoundGenBase CompoundGenNested CompoundGenContract.
(* ---- T1 tie: the classes NestedTermList and IoContractCompound of compundiocontract.py as translated ON THIS RUN
   (gen/CompoundGen.v, over the abstract term-list primitives; instantiated here with the polyhedral ones, poly_tl O)
   ARE the functions of model/Compound.v about which the theorems above speak.  A semantic edit of one of these
   methods breaks the corresponding obligation (proofs/CompoundGenNested.v, CompoundGenContract.v). *)
Theorem C17_code_init : forall (O : oracle) (alts : list (@tlist (poly_tl O))) (force : bool),
  @NestedTermList_init (poly_tl O) alts force = nested_init O alts force.
Proof. exact nested_init_eq. Qed.
Theorem C17_code_le : forall (O : oracle) (a b : list (@tlist (poly_tl O))), @NestedTermList_le (poly_tl O) a b = nested_le O a b.
Proof. exact nested_le_eq. Qed.
Theorem C17_code_eq : forall (O : oracle) (a b : list (@tlist (poly_tl O))), @NestedTermList_eq (poly_tl O) a b = nested_eqb O a b.
Proof. exact nested_eqb_eq. Qed.
Theorem C17_code_intersect : forall (O : oracle) (a b : list (@tlist (poly_tl O))) (force : bool),
  @NestedTermList_intersect (poly_tl O) a b force = nested_intersect O a b force.
Proof. exact nested_intersect_eq. Qed.
Theorem C17_code_simplify : forall (O : oracle) (a ctx : list (@tlist (poly_tl O))) (force : bool),
  @NestedTermList_simplify (poly_tl O) a ctx force = nested_simplify O a ctx force.
Proof. exact nested_simplify_eq. Qed.
Theorem C17_code_contains : forall (O : oracle) (a : list (@tlist (poly_tl O))) b,
  @NestedTermList_contains_behavior (poly_tl O) a b = nested_contains a b.
Proof. exact nested_contains_eq. Qed.
Theorem C17_code_vars : forall (O : oracle) (a : list (@tlist (poly_tl O))), @NestedTermList_vars (poly_tl O) a = nested_vars a.
Proof. exact nested_vars_eq. Qed.
Theorem C17_code_copy : forall (O : oracle) (a : list (@tlist (poly_tl O))) (force : bool),
  @NestedTermList_copy (poly_tl O) a force = nested_copy O a force.
Proof. exact nested_copy_eq. Qed.
Theorem C17_code_contract_init : forall (O : oracle) (a g : list (@tlist (poly_tl O))) (i o : list var),
  mmap (@to_compound O) (@IoContractCompound_init (poly_tl O) a g i o) = compound_init O a g i o.
Proof. exact compound_init_eq. Qed.
Theorem C17_code_contract_eq : forall (O : oracle) (k1 k2 : @kcontract (poly_tl O)),
  @IoContractCompound_eq (poly_tl O) k1 k2 = compound_eqb O (to_compound k1) (to_compound k2).
Proof. exact compound_eqb_eq. Qed.
Theorem C17_code_merge : forall (O : oracle) (k1 k2 : @kcontract (poly_tl O)),
  mmap (@to_compound O) (@IoContractCompound_merge (poly_tl O) k1 k2) = compound_merge O (to_compound k1) (to_compound k2).
Proof. exact compound_merge_eq. Qed.
Print Assumptions C17_code_init. Print Assumptions C17_code_le. Print Assumptions C17_code_eq. Print Assumptions C17_code_intersect.
Print Assumptions C17_code_simplify. Print Assumptions C17_code_contains. Print Assumptions C17_code_vars. Print Assumptions C17_code_copy.
Print Assumptions C17_code_contract_init. Print Assumptions C17_code_contract_eq. Print Assumptions C17_code_merge.
