(* C16 — renaming variables is faithful substitution.  Interface bookkeeping from the T1 translation (IfaceFacts), term-level
   renaming from model/Term.v (TermFacts.rename_sem), contract level through the constructor's re-simplification.
   Statements only; proofs in proofs/PolyDomainFacts.v. *)
From Coq Require Import List String Bool QArith Reals.
Import ListNotations.
Require Import Py ListsGen ConstGen AlgebraGen AlgebraSpec IfaceSpec Sem Term Poly Tactics PolyDomain PolySpec TermFacts PolyFacts TacticsFacts PolyDomainFacts EqFacts PolyKeepFacts.
Require Import PyDict PyLoop TermGen TermGenRename WrapGen WrapGenRename.

(* a behaviour satisfies the renamed assumptions (and, under them, guarantees) exactly when the correspondingly renamed behaviour satisfied the originals *)
Theorem C16 :
  forall O : oracle,
       lp_spec 0 O ->
       forall (c : pcontract O) (s u : var) (c' : pcontract O),
       s <> u ->
       wf c ->
       Forall wft (c_a c) ->
       Forall wft (c_g c) ->
       poly_rename O c s u = inl c' ->
       (forall rho : val, sat_list rho (c_a c') <-> sat_list (sigma s u rho) (c_a c)) /\
       (forall rho : val, sat_list rho (c_a c') -> sat_list rho (c_g c') <-> sat_list (sigma s u rho) (c_g c)).
Proof. exact @C16_poly. Qed.
Print Assumptions C16.

(* a list of mappings applied in order: composition of the substitutions *)
Theorem C16_sequence :
  forall O : oracle,
       lp_spec 0 O ->
       forall (c : pcontract O) (ms : list (var * var)) (c' : pcontract O),
       Forall (fun m : var * var => fst m <> snd m) ms ->
       wf c ->
       Forall wft (c_a c) ->
       Forall wft (c_g c) ->
       poly_rename_variables O c ms = inl c' ->
       (forall rho : val, sat_list rho (c_a c') <-> sat_list (sigmas ms rho) (c_a c)) /\
       (forall rho : val, sat_list rho (c_a c') -> sat_list rho (c_g c') <-> sat_list (sigmas ms rho) (c_g c)).
Proof. exact @C16_poly_variables. Qed.
Print Assumptions C16_sequence.

(* the interface lists are updated as prescribed *)
Theorem C16_interface :
  forall (O : oracle) (c : pcontract O) (s u : var) (c' : pcontract O),
       wf c ->
       poly_rename O c s u = inl c' ->
       wf c' /\
       rename_list_spec s u (c_inputvars c) (c_inputvars c') /\
       rename_list_spec s u (c_outputvars c) (c_outputvars c').
Proof. exact @C16_poly_iface. Qed.
Print Assumptions C16_interface.

(* renaming an absent variable changes nothing *)
Theorem C16_absent :
  forall O : oracle,
       lp_spec 0 O ->
       forall (c : pcontract O) (s u : var) (c' : pcontract O),
       ~ In s (c_inputvars c) ->
       ~ In s (c_outputvars c) ->
       Forall wft (c_a c) ->
       Forall wft (c_g c) ->
       poly_rename O c s u = inl c' ->
       c_inputvars c' = c_inputvars c /\
       c_outputvars c' = c_outputvars c /\
       c_a c' = c_a c /\
       (forall rho : val, sat_list rho (c_a c) -> sat_list rho (c_g c') <-> sat_list rho (c_g c)).
Proof. exact @C16_poly_absent. Qed.
Print Assumptions C16_absent.

(* a renaming that would make a variable both input and output raises IncompatibleArgs *)
Theorem C16_clash :
  forall (O : oracle) (c : pcontract O) (s u : var),
       s <> u ->
       In s (c_inputvars c) /\ In u (c_outputvars c) \/
       In s (c_outputvars c) /\ ~ In s (c_inputvars c) /\ In u (c_inputvars c) ->
       poly_rename O c s u = inr IncompatibleArgs.
Proof. exact @C16_poly_clash. Qed.
Print Assumptions C16_clash.

(* term level: coefficients are added when the new name already occurs *)
Theorem C16_term :
  forall (t : pterm) (s u : var),
       wft t ->
       s <> u ->
       forall rho : val,
       sat rho (term_rename_variable t s u) <->
       sat (fun v : var => if (v =? s)%string then rho u else rho v) t.
Proof. exact @rename_sem. Qed.
Print Assumptions C16_term.

(* T1 tie: PolyhedralTerm.rename_variable as translated from polyhedra.py on this run IS the model function (on terms without a stored zero) *)
Theorem C16_code_rename_variable :
  forall (t : pterm) (s u : var),
       wft' t -> PolyhedralTerm_rename_variable t s u = ret (term_rename_variable t s u).
Proof. exact @rename_variable_eq. Qed.
Print Assumptions C16_code_rename_variable.

(* T1 tie: PolyhedralIoContract.rename_variables as translated from polyhedral_iocontract.py on this run IS the model function (a left fold of rename_variable over the mapping list, each step on the result of the previous one) *)
Theorem C16_code_rename_variables :
  forall (O : oracle) (c : pcontract O) (mappings : list (string * string)),
       PolyhedralIoContract_rename_variables c mappings = poly_rename_variables O c mappings.
Proof. exact @wrap_rename_variables_eq. Qed.
Print Assumptions C16_code_rename_variables.

