(* C16 — placeholder until proofs/PolyDomainFacts.v lands. *)
From Coq Require Import List. Import ListNotations.
Require Import Py Sem Term Poly Tactics PolyDomain.
Example C16_model_runs : poly_order (Some [2%nat]) = Some [2%nat].
Proof. reflexivity. Qed.
