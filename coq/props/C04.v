(* C04 — statements are added when proofs/TacticsFacts.v lands. *)
From Coq Require Import List. Import ListNotations.
Require Import Py Sem Term Poly Tactics.
Example C04_model_runs : elim_vars_by_relaxing (fun _ => LpMiss) [] [] [] false [] = inl ([], []).
Proof. vm_compute. reflexivity. Qed.
