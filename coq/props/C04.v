(* C04 — variable elimination is implication-preserving for every tactic order.
   Model: model/Tactics.v (_transform, _transform_term, tactics 1-5, Kaykobad / LP-active context
   selection, exact Gauss-Jordan in place of sympy.solve), tied to the code by correspondence with
   LP replay.  For every LP oracle meeting lp_spec 0 and EVERY tactic order.
   Statements only; proofs in proofs/TacticsLin.v, proofs/TacticsFacts.v. *)
From Coq Require Import List String Bool QArith Reals.
Import ListNotations.
Require Import Py ListsGen ConstGen Sem Term Poly Tactics PolySpec TermFacts PolyLP PolyFacts TacticsLin TacticsFacts PyDict TermGen TermGenCore TermGenArith TermGenRemove TermGenSubst TermGenIsolate.

(* well-formed input: dict keys unique, no stored zero coefficient in the list being transformed,
   no duplicate in the variables to eliminate, and the reserved name "_" (used internally by
   tactic 3) occurs nowhere *)
Theorem C04_refine : forall O, lp_spec 0 O -> forall order self ctx vs sp r st,
  wf_input self ctx vs ->
  elim_vars_by_refining O self ctx vs sp order = inl (r, st) ->
  forall rho, sat_list rho ctx -> sat_list rho r -> sat_list rho self.
Proof. exact C04_refine_all. Qed.
Print Assumptions C04_refine.

Theorem C04_relax : forall O, lp_spec 0 O -> forall order self ctx vs sp r st,
  wf_input self ctx vs ->
  elim_vars_by_relaxing O self ctx vs sp order = inl (r, st) ->
  (forall rho, sat_list rho ctx -> sat_list rho self -> sat_list rho r) /\
  (forall t v, In t r -> In v vs -> ~ In v (term_vars_p t)).
Proof. exact C04_relax_all. Qed.
Print Assumptions C04_relax.

(* every tactic, whatever its number, either declines or returns an implication-preserving term *)
Theorem C04_every_tactic : forall num, tactic_ok num.
Proof. exact all_tactics_ok. Qed.
Print Assumptions C04_every_tactic.

(* the mathematical core of tactics 1 and 3 *)
Theorem C04_kaykobad_cone : forall n a q w,
  (forall j, (j < n)%nat -> (0 < q j)%R) ->
  (forall i j, (i < n)%nat -> (j < n)%nat -> (0 <= a i j)%R) ->
  (forall i, (i < n)%nat -> (0 < a i i)%R) ->
  (forall j, (j < n)%nat -> (sumn n (fun i => off a q i j) < q j)%R) ->
  (forall i, (i < n)%nat -> (sumn n (fun j => a i j * w j) <= 0)%R) ->
  (sumn n (fun j => q j * w j) <= 0)%R.
Proof. exact kaykobad_cone. Qed.
Print Assumptions C04_kaykobad_cone.

(* failures: ValueError (documented), or an escape whose kind and cause is pinned down *)
(* for EVERY context, including variable-free terms such as '0 <= -0.5' that a tactic can leave behind (before repo commit
   12672f5 an AssertionError escaped from the simplification step there, and this theorem needed a side condition on ctx) *)
Theorem C04_errors_total : forall O order self ctx vs sp e,
  lp_total O -> (forall num, In num order -> in16 num) ->
  elim_vars_by_refining O self ctx vs sp order = inr e \/ elim_vars_by_relaxing O self ctx vs sp order = inr e ->
  e = ValueErr \/ ((e = Escape "IndexError" \/ e = Escape "fuel") /\ In 4%nat order).
Proof. exact TacticsFacts.C04_errors_total_any_context. Qed.
Print Assumptions C04_errors_total.

(* the "_" precondition of tactic 3 is real (documented limit of the code, outside the property's inputs) *)
Example C04_underscore_is_reserved :
  exists self ctx r st rho,
    Forall wft' self /\ Forall wft' ctx /\
    elim_vars_by_refining noO self ctx ["y"%string] false [3%nat] = inl (r, st) /\
    sat_list rho ctx /\ sat_list rho r /\ ~ sat_list rho self.
Proof. exact tactic3_needs_fresh_underscore. Qed.

(* non-vacuity: the docstring example, through the recursive branch of tactic 4 *)
Example C04_nonvacuous :
  elim_vars_by_refining noO [ex_t1] [ex_c2; ex_c3] ["y"; "z"]%string false [4%nat] = inl ([ex_x1], [(4%Z, 2%Z)]).
Proof. exact ex_refine_tactic4_rec. Qed.

(* ---- T1 tie for the term arithmetic the tactics are built on: the methods of PolyhedralTerm as translated from
   polyhedra.py ON THIS RUN (gen/TermGen.v) are the model functions used by model/Tactics.v (on terms without a
   stored zero coefficient, which is what the constructor produces). A semantic edit of one of these methods
   breaks the corresponding obligation. *)
Theorem C04_code_isolate_variable : forall (t : pterm) (v : var),
  wft' t -> PolyhedralTerm_isolate_variable t v = term_isolate_variable t v.
Proof. exact isolate_variable_eq'. Qed.
Theorem C04_code_substitute_variable : forall (t : pterm) (v : var) (s : pterm),
  wft' t -> wft s -> PolyhedralTerm_substitute_variable t v s = ret (term_substitute_variable t v s).
Proof. exact substitute_variable_eq'. Qed.
Theorem C04_code_remove_variable : forall (t : pterm) (v : var),
  wft' t -> PolyhedralTerm_remove_variable t v = ret (term_remove_variable t v).
Proof. exact remove_variable_eq'. Qed.
Theorem C04_code_multiply : forall (t : pterm) (f : Q), wft t -> PolyhedralTerm_multiply t f = term_multiply t f.
Proof. exact multiply_eq. Qed.
Theorem C04_code_add : forall t1 t2 : pterm, wft t1 -> wft t2 -> PolyhedralTerm_add t1 t2 = ret (term_add t1 t2).
Proof. exact add_eq. Qed.
Theorem C04_code_get_coefficient : forall (t : pterm) (v : var), PolyhedralTerm_get_coefficient t v = ret (get_coefficient t v).
Proof. exact get_coefficient_eq. Qed.
Theorem C04_code_contains_var : forall (t : pterm) (v : var), PolyhedralTerm_contains_var t v = contains_var t v.
Proof. exact contains_var_eq. Qed.
Theorem C04_code_vars : forall t : pterm, PolyhedralTerm_vars t = term_vars_p t.
Proof. exact vars_eq. Qed.
Print Assumptions C04_code_isolate_variable. Print Assumptions C04_code_substitute_variable.
Print Assumptions C04_code_remove_variable. Print Assumptions C04_code_multiply. Print Assumptions C04_code_add.
Print Assumptions C04_code_get_coefficient. Print Assumptions C04_code_contains_var. Print Assumptions C04_code_vars.

(* ==== T1 tie (term list) ==== *)
Require Import PyLoop PyTermList TermListGen TermListGenBase TermListGenElim TermListGenKaykobad TermListGenTactic4 TermListGenTactic32 TermListGenFacts.
(* T1 tie: the pure-Python glue of PolyhedralTermList as translated from polyhedra.py ON THIS RUN (gen/TermListGen.v: _transform, _transform_term with the TACTICS table, the two elimination wrappers with the relaxation tail, _get_kaykobad_context, _tactic_1..5 and _tactic_trivial; LP, sympy and matrix building are the abstract primitives poly_prims O) IS model/Tactics.v, about which the theorems above speak. proofs/TermListGen*.v *)
Theorem C04_code_tactics_table :
  forall (O : oracle) (vs : list var),
       @NoDup var vs ->
       ~ @In var "_"%string vs ->
       forall (num : nat) (term : pterm) (ctx : list pterm) (refine : bool),
       wft' term ->
       @Forall pterm wft' ctx ->
       @PolyhedralTermList_TACTICS (poly_prims O) num term ctx vs refine = run_tactic O num term ctx vs refine.
Proof. exact @tactics_table_eq. Qed.
Print Assumptions C04_code_tactics_table.
Theorem C04_code_transform_term :
  forall (O : oracle) (vs : list var),
       @NoDup var vs ->
       ~ @In var "_"%string vs ->
       forall (order : list nat) (term : pterm) (ctx : list pterm) (refine : bool),
       wft' term ->
       @Forall pterm wft' ctx ->
       PolyhedralTermList__transform_term (@PolyhedralTermList_TACTICS (poly_prims O)) term ctx vs refine
         (@Some (list nat) order) = transform_term O order term ctx vs refine.
Proof. exact @transform_term_closed. Qed.
Print Assumptions C04_code_transform_term.
Theorem C04_code_transform :
  forall (O : oracle) (vs : list var),
       @NoDup var vs ->
       ~ @In var "_"%string vs ->
       forall (order : list nat) (self ctx : list pterm) (refine sp : bool),
       @Forall pterm wft' self ->
       @Forall pterm wft' ctx ->
       @PolyhedralTermList__transform (poly_prims O) (@PolyhedralTermList_TACTICS (poly_prims O)) self ctx vs refine
         sp (@Some (list nat) order) = transform O self ctx vs refine sp order.
Proof. exact @transform_closed. Qed.
Print Assumptions C04_code_transform.
Theorem C04_code_elim_vars_by_refining :
  forall (O : oracle) (vs : list var),
       @NoDup var vs ->
       ~ @In var "_"%string vs ->
       forall (order : list nat) (self ctx : list pterm) (sp : bool),
       @Forall pterm wft' self ->
       @Forall pterm wft' ctx ->
       @PolyhedralTermList_elim_vars_by_refining (poly_prims O) (@PolyhedralTermList_TACTICS (poly_prims O)) self ctx
         vs sp (@Some (list nat) order) = elim_vars_by_refining O self ctx vs sp order.
Proof. exact @elim_vars_by_refining_closed. Qed.
Print Assumptions C04_code_elim_vars_by_refining.
Theorem C04_code_elim_vars_by_relaxing :
  forall (O : oracle) (vs : list var),
       @NoDup var vs ->
       ~ @In var "_"%string vs ->
       forall (order : list nat) (self ctx : list pterm) (sp : bool),
       @Forall pterm wft' self ->
       @Forall pterm wft' ctx ->
       @PolyhedralTermList_elim_vars_by_relaxing (poly_prims O) (@PolyhedralTermList_TACTICS (poly_prims O)) self ctx
         vs sp (@Some (list nat) order) = elim_vars_by_relaxing O self ctx vs sp order.
Proof. exact @elim_vars_by_relaxing_closed. Qed.
Print Assumptions C04_code_elim_vars_by_relaxing.
Theorem C04_code_get_kaykobad_context :
  forall (term : pterm) (ctx : list pterm) (vs : list var) (refine : bool),
       PolyhedralTermList__get_kaykobad_context term ctx vs refine = get_kaykobad_context term ctx vs refine.
Proof. exact @get_kaykobad_context_eq. Qed.
Print Assumptions C04_code_get_kaykobad_context.
Theorem C04_code_tactic_1 :
  forall (O : oracle) (term : pterm) (ctx : list pterm) (vs : list var) (refine : bool),
       @PolyhedralTermList__tactic_1 (poly_prims O) term ctx vs refine = tactic_1 O term ctx vs refine.
Proof. exact @tactic_1_eq. Qed.
Print Assumptions C04_code_tactic_1.
Theorem C04_code_tactic_2 :
  forall (O : oracle) (term : pterm) (ctx : list pterm) (vs : list var) (refine : bool),
       wft term ->
       @Forall pterm wft ctx ->
       @PolyhedralTermList__tactic_2 (poly_prims O) term ctx vs refine = tactic_2 O term ctx vs refine.
Proof. exact @tactic_2_eq. Qed.
Print Assumptions C04_code_tactic_2.
Theorem C04_code_tactic_3 :
  forall (O : oracle) (term : pterm) (ctx : list pterm) (vs : list var) (refine : bool),
       wft' term ->
       @Forall pterm wft ctx ->
       @NoDup var vs ->
       ~ @In var "_"%string vs ->
       @PolyhedralTermList__tactic_3 (poly_prims O) term ctx vs refine = tactic_3 O term ctx vs refine.
Proof. exact @tactic_3_eq. Qed.
Print Assumptions C04_code_tactic_3.
Theorem C04_code_tactic_4 :
  forall (fuel : nat) (term : pterm) (ctx : list pterm) (vs : list var) (refine : bool) (no_vars : list var),
       wft' term ->
       Forall wft' ctx ->
       PolyhedralTermList__tactic_4 fuel term ctx vs refine no_vars = tactic_4 fuel term ctx vs refine no_vars.
Proof. exact @tactic_4_eq. Qed.
Print Assumptions C04_code_tactic_4.
Theorem C04_code_tactic_5 :
  forall (O : oracle) (term : pterm) (ctx : list pterm) (vs : list var) (refine : bool),
       @PolyhedralTermList__tactic_5 (poly_prims O) term ctx vs refine = tactic_5 O term ctx vs refine.
Proof. exact @tactic_5_eq. Qed.
Print Assumptions C04_code_tactic_5.
Theorem C04_code_tactic_trivial :
  forall (term : pterm) (ctx : list pterm) (vs : list var) (refine : bool),
       wft term -> PolyhedralTermList__tactic_trivial term ctx vs refine = ret (Some (term_copy term), 1%nat).
Proof. exact @tactic_trivial_eq. Qed.
Print Assumptions C04_code_tactic_trivial.

(* ==== T1 tie (tactic 5 context, context reduction) ==== *)
Require Import PyNumpy PyLinalg PolyGen PolyGenBase TlpGen TlpGenBase TlpGenContext TlpGenReduction TlpGenFacts.
(* T1 tie: _get_tlp_context (tactic 5: LP over the context, LP-active rows, multiplier sign check with np.linalg.solve on the TRANSPOSED row matrix), _context_reduction (shared by tactics 1, 3, 5) and PolyhedralTerm.solve_for_variables as translated ON THIS RUN (gen/TlpGen.v; np.linalg.solve, np.isclose on the slack and sympy.solve are named primitives, model_linalg = exact Gauss-Jordan) ARE model/Tactics.v; and the _context_reduction primitive used by the term-list equalities above IS that generated function, so tactics 1, 3 and 5, the TACTICS table and _transform_term run on translated code down to the LP / solve primitives. proofs/TlpGen*.v *)
Theorem C04_code_get_tlp_context :
  forall (O : oracle) (term : pterm) (ctx : list pterm) (vs : list var) (refine : bool),
       @list_intersection var PyEq_var vs (term_vars_p term) <> [] ->
       slack_fits O (tlp_lp term ctx vs refine) ->
       @PolyhedralTermList__get_tlp_context (poly_lp O) model_linalg term ctx vs refine =
       get_tlp_context O term ctx vs refine.
Proof. exact @get_tlp_context_eq. Qed.
Print Assumptions C04_code_get_tlp_context.
Theorem C04_code_solve_for_variables :
  forall (ctx : list pterm) (vs : list var),
       @PolyhedralTerm_solve_for_variables model_linalg ctx vs = solve_for_variables ctx vs.
Proof. exact @solve_for_variables_eq. Qed.
Print Assumptions C04_code_solve_for_variables.
Theorem C04_code_context_reduction :
  forall (O0 : oracle) (term : pterm) (ctx : list pterm) (vs : list var) (refine : bool) (strategy : nat),
       wft term ->
       @Forall pterm wft ctx ->
       (strategy = 5%nat ->
        @list_intersection var PyEq_var vs (term_vars_p term) <> [] /\ slack_fits O0 (tlp_lp term ctx vs refine)) ->
       @PolyhedralTermList__context_reduction (poly_lp O0) model_linalg term ctx vs refine strategy =
       context_reduction O0 term ctx vs refine strategy.
Proof. exact @context_reduction_eq. Qed.
Print Assumptions C04_code_context_reduction.
Theorem C04_code_context_reduction_is_generated :
  forall (O0 : oracle) (term : pterm) (ctx : list pterm) (vs : list var) (refine : bool) (strategy : nat),
       wft term ->
       @Forall pterm wft ctx ->
       (strategy = 5%nat ->
        @list_intersection var PyEq_var vs (term_vars_p term) <> [] /\ slack_fits O0 (tlp_lp term ctx vs refine)) ->
       @p_context_reduction (poly_prims O0) term ctx vs refine strategy =
       @PolyhedralTermList__context_reduction (poly_lp O0) model_linalg term ctx vs refine strategy.
Proof. exact @poly_prims_context_reduction_generated. Qed.
Print Assumptions C04_code_context_reduction_is_generated.
Theorem C04_code_tactics_table_closed :
  forall (O : oracle) (vs : list var),
       @NoDup var vs ->
       ~ @In var "_"%string vs ->
       oracle_slack_ok O ->
       forall (num : nat) (term : pterm) (ctx : list pterm) (refine : bool),
       wft' term ->
       @Forall pterm wft' ctx ->
       @list_intersection var PyEq_var vs (term_vars_p term) <> [] ->
       @PolyhedralTermList_TACTICS (poly_prims_gen O) num term ctx vs refine = run_tactic O num term ctx vs refine.
Proof. exact @tactics_table_closed. Qed.
Print Assumptions C04_code_tactics_table_closed.
Theorem C04_code_transform_term_closed :
  forall (O : oracle) (vs : list var) (order : list nat) (term : pterm) (ctx : list pterm) (refine : bool),
       @NoDup var vs ->
       ~ @In var "_"%string vs ->
       oracle_slack_ok O ->
       wft' term ->
       @Forall pterm wft' ctx ->
       PolyhedralTermList__transform_term (@PolyhedralTermList_TACTICS (poly_prims_gen O)) term ctx vs refine
         (@Some (list nat) order) = transform_term O order term ctx vs refine.
Proof. exact @transform_term_closed_gen. Qed.
Print Assumptions C04_code_transform_term_closed.
