(* C06 — results are well formed with the prescribed interface; meaningless requests are rejected
   with IncompatibleArgs whatever the primitives do.  About gen/AlgebraGen.v (regenerated from
   iocontract.py on every run) and gen/ListsGen.v.  Statements only; proofs in proofs/IfaceFacts.v
   and proofs/ListsFacts.v; the prescriptions are written from the property text in proofs/IfaceSpec.v. *)
From Coq Require Import List String Bool.
Import ListNotations.
Require Import Py ListsGen AlgebraGen IfaceSpec ListsFacts IfaceFacts.

Section C06.
Context `{D : Domain}.

Theorem C06_init_wf : DomainVars -> forall a g i o sp c, IoContract_init a g i o sp = inl c ->
  wf c /\ c_inputvars c = i /\ c_outputvars c = o /\ c_a c = a.
Proof. exact init_wf. Qed.
Theorem C06_init_rejects : forall a g i o sp, ~ wf_args a g i o -> IoContract_init a g i o sp = inr IncompatibleArgs.
Proof. exact init_rejects. Qed.

Theorem C06_compose_wf : DomainVars -> forall c1 c2 keep sp od c st,
  IoContract_compose_tactics c1 c2 keep sp od = inl (c, st) -> wf c.
Proof. exact compose_wf. Qed.
Theorem C06_quotient_wf : DomainVars -> forall c1 c2 add sp od q st,
  IoContract_quotient_tactics c1 c2 add sp od = inl (q, st) -> wf q.
Proof. exact quotient_wf. Qed.
Theorem C06_merge_wf : DomainVars -> forall c1 c2 m, IoContract_merge c1 c2 = inl m -> wf m.
Proof. exact merge_wf. Qed.
Theorem C06_rename_wf : DomainVars -> forall c s u c', IoContract_rename_variable c s u = inl c' -> wf c'.
Proof. exact rename_wf. Qed.
Theorem C06_copy_wf : DomainVars -> forall c c', IoContract_copy c = inl c' -> wf c'.
Proof. exact copy_wf. Qed.

Theorem C06_compose_iface : forall c1 c2 keep sp od c st, wf c1 -> wf c2 ->
  IoContract_compose_tactics c1 c2 keep sp od = inl (c, st) ->
  compose_inputs_spec c1 c2 (opt_list keep) (c_inputvars c) /\ compose_outputs_spec c1 c2 (opt_list keep) (c_outputvars c).
Proof. exact compose_iface. Qed.
Theorem C06_quotient_iface : forall c1 c2 add sp od q st, wf c1 -> wf c2 ->
  IoContract_quotient_tactics c1 c2 add sp od = inl (q, st) ->
  quotient_inputs_spec c1 c2 (opt_list add) (c_inputvars q) /\ quotient_outputs_spec c1 c2 (c_outputvars q).
Proof. exact quotient_iface. Qed.
Theorem C06_merge_iface : forall c1 c2 m, wf c1 -> wf c2 -> IoContract_merge c1 c2 = inl m ->
  merge_inputs_spec c1 c2 (c_inputvars m) /\ merge_outputs_spec c1 c2 (c_outputvars m).
Proof. exact merge_iface. Qed.
Theorem C06_rename_iface : forall c s u c', wf c -> IoContract_rename_variable c s u = inl c' ->
  rename_list_spec s u (c_inputvars c) (c_inputvars c') /\ rename_list_spec s u (c_outputvars c) (c_outputvars c').
Proof. exact rename_iface. Qed.
Theorem C06_copy_iface : forall c c', IoContract_copy c = inl c' ->
  c_inputvars c' = c_inputvars c /\ c_outputvars c' = c_outputvars c /\ c_a c' = c_a c.
Proof. exact copy_iface. Qed.

Theorem C06_rejects_shared_outputs : forall c1 c2 keep sp od, shared_outputs c1 c2 ->
  IoContract_compose_tactics c1 c2 keep sp od = inr IncompatibleArgs.
Proof. exact compose_rejects_shared_outputs. Qed.
Theorem C06_rejects_keep : forall c1 c2 keep sp od, keeps_non_output c1 c2 (opt_list keep) ->
  IoContract_compose_tactics c1 c2 keep sp od = inr IncompatibleArgs.
Proof. exact compose_rejects_keep. Qed.
Theorem C06_rejects_feedback : forall c1 c2 keep sp od, feedback_on_constrained_input c1 c2 ->
  IoContract_compose_tactics c1 c2 keep sp od = inr IncompatibleArgs.
Proof. exact compose_rejects_feedback. Qed.
Theorem C06_rejects_quotient_output_read : forall c1 c2 add sp od, quotient_output_read_by_divisor c1 c2 ->
  IoContract_quotient_tactics c1 c2 add sp od = inr IncompatibleArgs.
Proof. exact quotient_rejects_output_read. Qed.
Theorem C06_rejects_additional : forall c1 c2 add sp od, bad_additional_inputs c1 c2 (opt_list add) ->
  IoContract_quotient_tactics c1 c2 add sp od = inr IncompatibleArgs.
Proof. exact quotient_rejects_additional. Qed.
Theorem C06_rejects_refines : forall c1 c2, different_interfaces c1 c2 -> IoContract_refines c1 c2 = inr IncompatibleArgs.
Proof. exact refines_rejects. Qed.
Theorem C06_rejects_rename_clash : forall c s u, s <> u ->
  (In s (c_inputvars c) /\ In u (c_outputvars c)) \/ (In s (c_outputvars c) /\ ~ In s (c_inputvars c) /\ In u (c_inputvars c)) ->
  IoContract_rename_variable c s u = inr IncompatibleArgs.
Proof. exact rename_rejects_clash. Qed.
End C06.

(* order-preserving list set-operations (lists.py) *)
Theorem C06_list_union : forall (x : var) l1 l2, In x (list_union l1 l2) <-> In x l1 \/ In x l2.
Proof. exact in_list_union. Qed.
Theorem C06_list_diff : forall (x : var) l1 l2, In x (list_diff l1 l2) <-> In x l1 /\ ~ In x l2.
Proof. exact in_list_diff. Qed.
Theorem C06_list_intersection : forall (x : var) l1 l2, In x (list_intersection l1 l2) <-> In x l1 /\ In x l2.
Proof. exact in_list_intersection. Qed.
Theorem C06_lists_equal : forall (l1 l2 : list var), lists_equal l1 l2 = true <-> (forall x, In x l1 <-> In x l2).
Proof. exact lists_equal_iff. Qed.

Print Assumptions C06_init_wf. Print Assumptions C06_init_rejects. Print Assumptions C06_compose_wf.
Print Assumptions C06_quotient_wf. Print Assumptions C06_merge_wf. Print Assumptions C06_rename_wf.
Print Assumptions C06_copy_wf. Print Assumptions C06_compose_iface. Print Assumptions C06_quotient_iface.
Print Assumptions C06_merge_iface. Print Assumptions C06_rename_iface. Print Assumptions C06_copy_iface.
Print Assumptions C06_rejects_shared_outputs. Print Assumptions C06_rejects_keep. Print Assumptions C06_rejects_feedback.
Print Assumptions C06_rejects_quotient_output_read. Print Assumptions C06_rejects_additional.
Print Assumptions C06_rejects_refines. Print Assumptions C06_rejects_rename_clash.
Print Assumptions C06_list_union. Print Assumptions C06_list_diff. Print Assumptions C06_list_intersection. Print Assumptions C06_lists_equal.

(* non-vacuity *)
Example C06_nonvacuous : exists c, @IoContract_compose Toy.ToyDomain Toy.c1 Toy.c2 None true = inl c.
Proof. eexists. vm_compute. reflexivity. Qed.
