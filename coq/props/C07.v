(* C07 — simplification never changes meaning and leaves nothing redundant.
   Model: model/Poly.v (poly_simplify = PolyhedralTermList.simplify with reduce_polytope), tied to the
   code by correspondence with LP replay.  Theorems for every LP oracle meeting lp_spec 0
   (proofs/PolySpec.v).  Statements only; proofs in proofs/PolyLP.v, proofs/PolyFacts.v. *)
From Coq Require Import List String Bool QArith Reals.
Import ListNotations.
Require Import Py ListsGen Sem Term Poly PolySpec TermFacts PolyLP PolyFacts.

(* the result is a selection of the original constraints (same coefficient vector, same constant) *)
Theorem C07_selection : forall O ts ctx r, poly_simplify O ts ctx = inl r ->
  exists sub, subseq sub ts /\ r = map (roundtrip (simp_vars ts ctx)) sub.
Proof. exact simplify_subseq. Qed.
Print Assumptions C07_selection.

Theorem C07_coefficients : forall O ts ctx r, wfl ts -> wfl (opt_list ctx) -> poly_simplify O ts ctx = inl r ->
  forall t', In t' r -> exists t, In t ts /\ tconst t' = tconst t /\ forall v, (get_coefficient t' v == get_coefficient t v)%Q.
Proof. exact simplify_coefficients. Qed.
Print Assumptions C07_coefficients.

(* equivalent to the original wherever the context holds *)
Theorem C07_equiv : forall O, lp_spec 0 O -> forall ts ctx, wfl ts -> wfl (opt_list ctx) ->
  forall r, poly_simplify O ts ctx = inl r ->
  forall rho, sat_list rho (opt_list ctx) -> (sat_list rho r <-> sat_list rho ts).
Proof. exact simplify_equiv. Qed.
Print Assumptions C07_equiv.

(* nothing further could be dropped: every kept constraint is violated somewhere inside the
   context and the other kept constraints *)
Theorem C07_irredundant : forall O, lp_spec 0 O -> forall ts ctx, wfl ts -> wfl (opt_list ctx) ->
  lp_total O -> nz_terms ts -> forall r, poly_simplify O ts ctx = inl r ->
  forall pre t post, r = pre ++ t :: post ->
  exists rho, sat_list rho (opt_list ctx) /\ sat_list rho (pre ++ post) /\ ~ sat rho t.
Proof. exact simplify_irredundant. Qed.
Print Assumptions C07_irredundant.

(* ValueError only for systems infeasible in the context *)
Theorem C07_error : forall O, lp_spec 0 O -> forall ts ctx, wfl ts -> wfl (opt_list ctx) ->
  poly_simplify O ts ctx = inr ValueErr -> forall rho, ~ (sat_list rho ts /\ sat_list rho (opt_list ctx)).
Proof. exact simplify_error. Qed.
Print Assumptions C07_error.

(* for EVERY list and context, also ones containing variable-free terms such as '0 <= -0.5' (a tactic can leave one behind):
   before repo commit 12672f5 an AssertionError escaped here *)
Theorem C07_errors_only : forall O ts ctx e, poly_simplify O ts ctx = inr e ->
  e = ValueErr \/ e = OracleMiss.
Proof. exact simplify_errors_only. Qed.
Print Assumptions C07_errors_only.
(* ... and on well-formed lists (every term mentions a variable) no assertion can fail *)
Theorem C07_errors_only_wf : forall O ts ctx e, wfl ts -> wfl (opt_list ctx) -> poly_simplify O ts ctx = inr e ->
  e = ValueErr \/ e = OracleMiss.
Proof. exact simplify_errors_only_wfl. Qed.
Print Assumptions C07_errors_only.

(* non-vacuity: the definitions run on a concrete input with a recorded LP table *)
Example C07_nonvacuous : poly_simplify (table_oracle 0 ex_tbl) ex_ts (Some ex_ctx) = inl [mkT [("x"%string,1);("y"%string,1)] 1].
Proof. exact simplify_runs. Qed.
