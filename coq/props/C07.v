(* C07 — simplification never changes meaning and leaves nothing redundant.
   Model: model/Poly.v (poly_simplify = PolyhedralTermList.simplify with reduce_polytope), tied to the
   code by correspondence with LP replay.  Theorems for every LP oracle meeting lp_spec 0
   (proofs/PolySpec.v).  Statements only; proofs in proofs/PolyLP.v, proofs/PolyFacts.v. *)
From Coq Require Import List String Bool QArith Reals.
Import ListNotations.
Require Import Py ListsGen Sem Term Poly PolySpec TermFacts PolyLP PolyFacts.

(* the result is a selection of the original constraints (same coefficient vector, same constant) *)
Theorem C07_selection : forall O ts ctx r, poly_simplify O ts ctx = inl r ->
  exists sub, subseq sub ts /\ r = map (roundtrip (simp_vars ts ctx)) sub.
Proof. exact simplify_subseq. Qed.
Print Assumptions C07_selection.

Theorem C07_coefficients : forall O ts ctx r, wfl ts -> wfl (opt_list ctx) -> poly_simplify O ts ctx = inl r ->
  forall t', In t' r -> exists t, In t ts /\ tconst t' = tconst t /\ forall v, (get_coefficient t' v == get_coefficient t v)%Q.
Proof. exact simplify_coefficients. Qed.
Print Assumptions C07_coefficients.

(* equivalent to the original wherever the context holds *)
Theorem C07_equiv : forall O, lp_spec 0 O -> forall ts ctx, wfl ts -> wfl (opt_list ctx) ->
  forall r, poly_simplify O ts ctx = inl r ->
  forall rho, sat_list rho (opt_list ctx) -> (sat_list rho r <-> sat_list rho ts).
Proof. exact simplify_equiv. Qed.
Print Assumptions C07_equiv.

(* nothing further could be dropped: every kept constraint is violated somewhere inside the
   context and the other kept constraints *)
Theorem C07_irredundant : forall O, lp_spec 0 O -> forall ts ctx, wfl ts -> wfl (opt_list ctx) ->
  lp_total O -> nz_terms ts -> forall r, poly_simplify O ts ctx = inl r ->
  forall pre t post, r = pre ++ t :: post ->
  exists rho, sat_list rho (opt_list ctx) /\ sat_list rho (pre ++ post) /\ ~ sat rho t.
Proof. exact simplify_irredundant. Qed.
Print Assumptions C07_irredundant.

(* ValueError only for systems infeasible in the context *)
Theorem C07_error : forall O, lp_spec 0 O -> forall ts ctx, wfl ts -> wfl (opt_list ctx) ->
  poly_simplify O ts ctx = inr ValueErr -> forall rho, ~ (sat_list rho ts /\ sat_list rho (opt_list ctx)).
Proof. exact simplify_error. Qed.
Print Assumptions C07_error.

(* for EVERY list and context, also ones containing variable-free terms such as '0 <= -0.5' (a tactic can leave one behind):
   before repo commit 12672f5 an AssertionError escaped here *)
Theorem C07_errors_only : forall O ts ctx e, poly_simplify O ts ctx = inr e ->
  e = ValueErr \/ e = OracleMiss.
Proof. exact simplify_errors_only. Qed.
Print Assumptions C07_errors_only.
(* ... and on well-formed lists (every term mentions a variable) no assertion can fail *)
Theorem C07_errors_only_wf : forall O ts ctx e, wfl ts -> wfl (opt_list ctx) -> poly_simplify O ts ctx = inr e ->
  e = ValueErr \/ e = OracleMiss.
Proof. exact simplify_errors_only_wfl. Qed.
Print Assumptions C07_errors_only.

(* non-vacuity: the definitions run on a concrete input with a recorded LP table *)
Example C07_nonvacuous : poly_simplify (table_oracle 0 ex_tbl) ex_ts (Some ex_ctx) = inl [mkT [("x"%string,1);("y"%string,1)] 1].
Proof. exact simplify_runs. Qed.

(* ==== T1 tie (LP / numpy) ==== *)
Require Import PyDict PyLoop PyTermList PyNumpy TermGen TermListGen PolyGen PolyGenBase PolyGenPolytope PolyGenReduce PolyGenFacts.
(* T1 tie: termlist_to_polytope, polytope_to_termlist, reduce_polytope (its while loop on fuel n, shown sufficient) and simplify of polyhedra.py as translated ON THIS RUN (gen/PolyGen.v; numpy arrays as A1/A2 values with named np_* primitives, linprog as the oracle behind scipy's input validation, poly_lp O) ARE model/Poly.v, about which the theorems above speak. proofs/PolyGen*.v *)
Theorem C07_code_simplify :
  forall (O : oracle) (self : list pterm) (context_ : option (list pterm)),
       @Forall pterm wft' self ->
       @Forall pterm wft' (@opt_list pterm context_) ->
       canon_terms self -> @PolyhedralTermList_simplify (poly_lp O) self context_ = poly_simplify O self context_.
Proof. exact @simplify_eq. Qed.
Print Assumptions C07_code_simplify.
Theorem C07_code_simplify_fuel :
  forall (O : oracle) (self : list pterm) (context_ : option (list pterm)),
       @Forall pterm wft' self ->
       @Forall pterm wft' (@opt_list pterm context_) ->
       canon_terms self ->
       @PolyhedralTermList_simplify (poly_lp O) self context_ <> @raise (list pterm) (Escape "fuel").
Proof. exact @simplify_fuel_suffices. Qed.
Print Assumptions C07_code_simplify_fuel.
Theorem C07_code_reduce_polytope :
  forall (O : oracle) (vs : list var) (rows : list row) (ctx : list (list Q * Q)),
       vs <> [] ->
       @Forall row (row_ok (@Datatypes.length var vs)) rows ->
       @PolyhedralTermList_reduce_polytope (poly_lp O) vs
         (mat_of (@Datatypes.length var vs) (@map (list Q * Q) (list Q) (@fst (list Q) Q) rows))
         (@A1 Q (@map (list Q * Q) Q (@snd (list Q) Q) rows))
         (@Some ndarray (ctx_mat_of (@Datatypes.length var vs) (@map (list Q * Q) (list Q) (@fst (list Q) Q) ctx)))
         (@Some ndarray (@A1 Q (@map (list Q * Q) Q (@snd (list Q) Q) ctx))) =
       @mmap (list row) (ndarray * ndarray) (reduced (@Datatypes.length var vs) rows) (reduce_polytope O vs rows ctx).
Proof. exact @reduce_polytope_eq. Qed.
Print Assumptions C07_code_reduce_polytope.
Theorem C07_code_reduce_polytope_novars :
  forall (O0 : oracle) (ns cx : list pterm),
       @PolyhedralTermList_reduce_polytope (poly_lp O0) [] (mat_of 0 (@map pterm (list Q) (fun _ : pterm => []) ns))
         (@A1 Q (@map pterm Q tconst ns))
         (@Some ndarray (ctx_mat_of 0 (@map pterm (list Q) (fun _ : pterm => []) cx)))
         (@Some ndarray (@A1 Q (@map pterm Q tconst cx))) =
       (if @existsb pterm (fun t : pterm => qlt (tconst t) 0) cx
        then @raise (ndarray * ndarray) ValueErr
        else
         match ns with
         | [] => @ret (ndarray * ndarray) (@A1 Q [], @A1 Q [])
         | [t] => @ret (ndarray * ndarray) (@A2 Q 0 [[]], @A1 Q [tconst t])
         | t :: _ :: _ => @raise (ndarray * ndarray) ValueErr
         end).
Proof. exact @reduce_polytope_novars. Qed.
Print Assumptions C07_code_reduce_polytope_novars.
Theorem C07_code_termlist_to_polytope :
  forall terms ctx : list pterm, PolyhedralTermList_termlist_to_polytope terms ctx = ret (polytope_of terms ctx).
Proof. exact @termlist_to_polytope_eq. Qed.
Print Assumptions C07_code_termlist_to_polytope.
Theorem C07_code_polytope_to_termlist :
  forall (vs : list var) (rows : list row),
       NoDup vs ->
       Forall (fun r : list Q * Q => Datatypes.length (fst r) = Datatypes.length vs) rows ->
       PolyhedralTermList_polytope_to_termlist (A2 (Datatypes.length vs) (map fst rows)) (A1 (map snd rows)) vs =
       ret (map (row_to_term vs) rows).
Proof. exact @polytope_to_termlist_eq. Qed.
Print Assumptions C07_code_polytope_to_termlist.
