(* C13 at HEAP level — "no operation modifies the objects passed to it".
   base/PyHeap.v is an effect language with a real heap (objects are mutable cells addressed by references, aliasing
   exists, stores and in-place list operations really update the cell), an executable fuelled interpreter driven by an
   oracle (branches, iteration counts, dispatch, what externals return) and a static checker of "writes only to what
   this activation allocated".  proofs/PyHeapFacts.v proves the checker sound for EVERY program (induction on fuel).
   gen/HeapGen.v is the effect program of pacti, regenerated from /repo/src on every run by translator/py2coq_heap.py
   (212 functions: the algebra, terms and term lists, compound contracts, the syntax classes and parse actions, the
   serializer, the file reader/writer); proofs/HeapGenFacts.v re-establishes [check_prog pacti_prog = true] by
   computation against what the source says now and instantiates the soundness theorems.
   What is NOT claimed: "shares no mutable state" is proved as "the returned object is new" (term objects may be shared
   between lists; by the frame theorem no library call can observe that); results are not compared across heaps;
   termination is not claimed; three parse actions that scale freshly parsed objects in place and utils/plots.py are
   outside (docs/HEAPGEN_REPORT.md).  The statements below are restated from proofs/HeapGenFacts.v. *)
From Coq Require Import List String Bool Arith ZArith.
Import ListNotations.
Require Import PyHeap PyHeapFacts HeapGen HeapGenFacts.

Theorem C13_code_checked : check_prog pacti_prog = true.
Proof. exact pacti_prog_checked. Qed.

Theorem C13_heap_operands_unchanged : forall f fd, In (f, fd) pacti_prog -> mutates_self fd = false ->
  forall args h fuel oracle h' v,
  run pacti_prog f args h fuel oracle = Some (h', v) ->
  List.length h <= List.length h' /\ forall r, r < List.length h -> nth_error h' r = nth_error h r.
Proof. exact pacti_operands_unchanged. Qed.

Theorem C13_heap_only_receiver_changed : forall f fd, In (f, fd) pacti_prog ->
  forall args h fuel oracle h' v, arg0_valid h args ->
  run pacti_prog f args h fuel oracle = Some (h', v) ->
  List.length h <= List.length h' /\
  forall r, r < List.length h -> hd (VAtom 0%Z) args <> VRef r -> nth_error h' r = nth_error h r.
Proof. exact pacti_only_receiver_changed. Qed.

Theorem C13_heap_receiver_mutators :
  map fst (filter (fun nf => mutates_self (snd nf)) pacti_prog)
  = ["Var.__init__"; "TermList.__init__"; "IoContract.__init__"; "IoContract.simplify"; "IoContractCompound.__init__";
     "PolyhedralTerm.__init__"; "PolyhedralTermList.__init__"; "PolyhedralSyntaxEqlExpression.__post_init__"]%string.
Proof. exact pacti_receiver_mutators. Qed.

Theorem C13_heap_results_new : forall f fd, In (f, fd) pacti_prog -> fresh_result fd = true -> mutates_self fd = false ->
  forall args h fuel oracle h' v,
  run pacti_prog f args h fuel oracle = Some (h', v) ->
  match v with VAtom _ => True | VRef r => List.length h <= r end.
Proof. exact pacti_results_new. Qed.

Theorem C13_heap_history_independent : forall cs h h',
  Forall (fun c : call => mutates_self_of pacti_prog (fst (fst (fst c))) = false) cs ->
  run_calls pacti_prog cs h = Some h' ->
  List.length h <= List.length h' /\ forall r, r < List.length h -> nth_error h' r = nth_error h r.
Proof. exact pacti_history_independent. Qed.

Theorem C13_heap_public_operations : forall f, In f pacti_public_ops ->
  forall args h fuel oracle h' v,
  run pacti_prog f args h fuel oracle = Some (h', v) ->
  List.length h <= List.length h' /\ forall r, r < List.length h -> nth_error h' r = nth_error h r.
Proof. exact pacti_public_ops_frame. Qed.

Print Assumptions C13_code_checked. Print Assumptions C13_heap_operands_unchanged. Print Assumptions C13_heap_only_receiver_changed.
Print Assumptions C13_heap_receiver_mutators. Print Assumptions C13_heap_results_new. Print Assumptions C13_heap_history_independent.
Print Assumptions C13_heap_public_operations.
