(* C11 — behaviour membership and emptiness agree with exact arithmetic.
   Statements only; proofs in proofs/EvalFacts.v (membership) and proofs/PolyFacts.v (emptiness). *)
From Coq Require Import List String Bool QArith Reals.
Import ListNotations.
Require Import Py ListsGen Sem Term Poly PolySpec TermFacts PolyLP PolyFacts.

Theorem C11_is_empty : forall O ts, lp_spec 0 O -> lp_total O -> wfl ts ->
  (poly_is_empty O ts = inl true <-> forall rho, ~ sat_list rho ts) /\ (exists b, poly_is_empty O ts = inl b).
Proof. exact is_empty_iff. Qed.
Print Assumptions C11_is_empty.
