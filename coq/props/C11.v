(* C11 — behaviour membership and emptiness agree with exact arithmetic.
   Statements only; proofs in proofs/EvalFacts.v (membership) and proofs/PolyFacts.v (emptiness). *)
From Coq Require Import List String Bool QArith Reals.
Import ListNotations.
Require Import Py ListsGen ConstGen Sem Term Poly PolySpec TermFacts PolyLP PolyFacts EvalFacts.

Theorem C11_is_empty : forall O ts, lp_spec 0 O -> lp_total O -> wfl ts ->
  (poly_is_empty O ts = inl true <-> forall rho, ~ sat_list rho ts) /\ (exists b, poly_is_empty O ts = inl b).
Proof. exact is_empty_iff. Qed.
Print Assumptions C11_is_empty.

(* membership is decided exactly, boundary points included *)
Theorem C11_contains_exact : forall ts b, Forall wft ts -> NoDup (keys b) ->
  (forall v, In v (tl_vars ts) -> In v (keys b)) ->
  contains_behavior ts b = inl (forallb (satQb (bval b)) ts).
Proof. exact contains_iff. Qed.
Print Assumptions C11_contains_exact.

Theorem C11_contains_real : forall ts b, Forall wft ts -> NoDup (keys b) ->
  (forall v, In v (tl_vars ts) -> In v (keys b)) ->
  (contains_behavior ts b = inl true <-> sat_list (q2r_val (bval b)) ts).
Proof. exact contains_real. Qed.
Print Assumptions C11_contains_real.

(* ValueError exactly when a constrained variable is left unassigned *)
Theorem C11_unassigned : forall ts b,
  (exists v, In v (tl_vars ts) /\ ~ In v (keys b)) <-> contains_behavior ts b = inr ValueErr.
Proof. exact contains_unassigned. Qed.
Print Assumptions C11_unassigned.

(* consistent with refinement *)
Theorem C11_mono : forall O A B b, lp_spec 0 O -> wfl A -> wfl B -> small_consts B -> NoDup (keys b) ->
  contains_behavior A b = inl true -> poly_refines O A B = inl true ->
  Forall (sat_tol REFINEMENT_TOLERANCE (q2r_val (bval b))) B.
Proof. exact contains_mono. Qed.
Print Assumptions C11_mono.

(* ==== T1 tie (term list) ==== *)
Require Import PyDict PyLoop PyTermList TermGen TermListGen TermListGenBase TermListGenEval TermListGenContains.
(* T1 tie: PolyhedralTermList.evaluate / contains_behavior as translated from polyhedra.py ON THIS RUN (gen/TermListGen.v) are the model functions the theorems above speak about (on lists of terms with distinct keys). proofs/TermListGenEval.v *)
Theorem C11_code_evaluate :
  forall (ts : list pterm) (b : pvars), Forall wft ts -> PolyhedralTermList_evaluate ts b = evaluate ts b.
Proof. exact @evaluate_eq. Qed.
Print Assumptions C11_code_evaluate.
Theorem C11_code_contains_behavior :
  forall (ts : list pterm) (b : pvars),
       Forall wft ts -> PolyhedralTermList_contains_behavior ts b = contains_behavior ts b.
Proof. exact @contains_behavior_eq. Qed.
Print Assumptions C11_code_contains_behavior.
Theorem C11_code_init :
  forall o : option (list pterm), PolyhedralTermList_init o = opt_list o.
Proof. exact @termlist_init_eq. Qed.
Print Assumptions C11_code_init.

(* ==== T1 tie (LP / numpy) ==== *)
Require Import PyDict PyLoop PyTermList PyNumpy TermGen TermListGen PolyGen PolyGenBase PolyGenPolytope PolyGenEmpty.
(* T1 tie: is_empty / is_polytope_empty as translated ON THIS RUN (gen/PolyGen.v) are poly_is_empty / is_polytope_empty of model/Poly.v. proofs/PolyGenEmpty.v *)
Theorem C11_code_is_empty :
  forall (O : oracle) (self : list pterm), @PolyhedralTermList_is_empty (poly_lp O) self = poly_is_empty O self.
Proof. exact @is_empty_eq. Qed.
Print Assumptions C11_code_is_empty.
Theorem C11_code_is_polytope_empty :
  forall (O : oracle) (vs : list var) (rows : list row),
       @PolyhedralTermList_is_polytope_empty (poly_lp O) vs
         (mat_of (@Datatypes.length var vs) (@map (list Q * Q) (list Q) (@fst (list Q) Q) rows))
         (@A1 Q (@map (list Q * Q) Q (@snd (list Q) Q) rows)) = is_polytope_empty O vs rows.
Proof. exact @is_polytope_empty_eq. Qed.
Print Assumptions C11_code_is_polytope_empty.
