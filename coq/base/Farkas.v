(* Farkas.v — executable, verified certificate checkers for polyhedral facts.
   An untrusted exact-rational simplex produces certificates (Farkas multipliers,
   rational points, rays); the checkers below are run with vm_compute and their
   soundness theorems turn a `true` into a statement about ALL real valuations. *)
From Coq Require Import List String Bool QArith Qabs Reals Qreals Lra Lia.
Import ListNotations.
Require Import Py Sem.

(* ------------------------------------------------------------------ *)
(* small Q / R bridging facts                                          *)
(* ------------------------------------------------------------------ *)
Lemma Q2R_0' : Q2R 0 = 0%R.
Proof. unfold Q2R. cbn. lra. Qed.

Lemma Q2R_1' : Q2R 1 = 1%R.
Proof. unfold Q2R. cbn. lra. Qed.

Lemma Q2R_abs (q : Q) : Q2R (Qabs q) = Rabs (Q2R q).
Proof.
  destruct (Qlt_le_dec q 0) as [Hneg | Hpos].
  - rewrite (Qeq_eqR _ _ (Qabs_neg q (Qlt_le_weak _ _ Hneg))), Q2R_opp.
    apply Qlt_Rlt in Hneg. rewrite Q2R_0' in Hneg.
    rewrite Rabs_left; [reflexivity | exact Hneg].
  - rewrite (Qeq_eqR _ _ (Qabs_pos q Hpos)).
    apply Qle_Rle in Hpos. rewrite Q2R_0' in Hpos.
    rewrite Rabs_pos_eq; [reflexivity | exact Hpos].
Qed.

Definition Qlt_b (a b : Q) : bool := negb (Qle_bool b a).

Lemma Qlt_b_lt (a b : Q) : Qlt_b a b = true -> a < b.
Proof.
  unfold Qlt_b. intros E. apply negb_true_iff in E.
  apply Qnot_le_lt. intros L. apply Qle_bool_iff in L. congruence.
Qed.

(* ------------------------------------------------------------------ *)
(* coefficient of a variable in an association list (duplicates sum)   *)
(* ------------------------------------------------------------------ *)
Fixpoint coefsum (v : var) (l : pvars) : Q :=
  match l with
  | [] => 0
  | (k, a) :: r => if String.eqb k v then a + coefsum v r else coefsum v r
  end.

(* drop every entry with key x *)
Fixpoint remv (x : var) (l : pvars) : pvars :=
  match l with
  | [] => []
  | (k, a) :: r => if String.eqb k x then remv x r else (k, a) :: remv x r
  end.

Definition scale (c : Q) (l : pvars) : pvars := map (fun '(x, a) => (x, c * a)) l.
Definition negl (l : pvars) : pvars := map (fun '(x, a) => (x, - a)) l.

Lemma lin_split (rho : val) (x : var) (l : pvars) :
  lin rho l = (Q2R (coefsum x l) * rho x + lin rho (remv x l))%R.
Proof.
  induction l as [|[k a] r IH]; cbn [lin coefsum remv].
  - rewrite Q2R_0'. lra.
  - destruct (String.eqb k x) eqn:E.
    + apply String.eqb_eq in E. subst k. rewrite Q2R_plus, IH. lra.
    + cbn [lin]. rewrite IH. lra.
Qed.

Lemma remv_length (x : var) (l : pvars) : (List.length (remv x l) <= List.length l)%nat.
Proof.
  induction l as [|[k a] r IH]; cbn [remv List.length]; [lia|].
  destruct (String.eqb k x); cbn [List.length]; lia.
Qed.

Lemma coefsum_remv_same (x : var) (l : pvars) : coefsum x (remv x l) = 0.
Proof.
  induction l as [|[k a] r IH]; cbn [remv coefsum]; [reflexivity|].
  destruct (String.eqb k x) eqn:E; [exact IH|].
  cbn [coefsum]. rewrite E. exact IH.
Qed.

Lemma coefsum_remv_neq (v x : var) (l : pvars) :
  v <> x -> coefsum v (remv x l) = coefsum v l.
Proof.
  intros Hne. induction l as [|[k a] r IH]; cbn [remv coefsum]; [reflexivity|].
  destruct (String.eqb k x) eqn:E.
  - apply String.eqb_eq in E. subst k.
    assert (Hf : String.eqb x v = false) by (apply String.eqb_neq; congruence).
    rewrite Hf. exact IH.
  - cbn [coefsum]. rewrite IH. reflexivity.
Qed.

Lemma lin_zero_len (rho : val) :
  forall (n : nat) (l : pvars), (List.length l <= n)%nat ->
    (forall v, coefsum v l == 0) -> lin rho l = 0%R.
Proof.
  induction n as [|n IH]; intros l Hl Hz.
  - destruct l as [|e r]; [reflexivity | cbn [List.length] in Hl; lia].
  - destruct l as [|[x a] r]; [reflexivity|].
    rewrite (lin_split rho x). rewrite (Qeq_eqR _ _ (Hz x)), Q2R_0'.
    rewrite (IH (remv x ((x, a) :: r))); [lra | | ].
    + cbn [remv]. rewrite String.eqb_refl.
      pose proof (remv_length x r) as Hr. cbn [List.length] in Hl. lia.
    + intros v. destruct (String.eqb v x) eqn:E.
      * apply String.eqb_eq in E. subst v. rewrite coefsum_remv_same. reflexivity.
      * apply String.eqb_neq in E. rewrite (coefsum_remv_neq v x _ E). apply Hz.
Qed.

Lemma lin_zero (rho : val) (l : pvars) :
  (forall v, coefsum v l == 0) -> lin rho l = 0%R.
Proof. intros Hz. apply (lin_zero_len rho (List.length l) l); [lia | exact Hz]. Qed.

Lemma lin_app (rho : val) (l1 l2 : pvars) :
  lin rho (l1 ++ l2) = (lin rho l1 + lin rho l2)%R.
Proof.
  induction l1 as [|[k a] r IH]; cbn [app lin]; [lra|]. rewrite IH. lra.
Qed.

Lemma lin_scale (rho : val) (c : Q) (l : pvars) :
  lin rho (scale c l) = (Q2R c * lin rho l)%R.
Proof.
  unfold scale. induction l as [|[k a] r IH]; cbn [map lin]; [lra|].
  rewrite IH, Q2R_mult. lra.
Qed.

Lemma lin_negl (rho : val) (l : pvars) : lin rho (negl l) = (- lin rho l)%R.
Proof.
  unfold negl. induction l as [|[k a] r IH]; cbn [map lin]; [lra|].
  rewrite IH, Q2R_opp. lra.
Qed.

Lemma coefsum_app (v : var) (l1 l2 : pvars) :
  coefsum v (l1 ++ l2) == coefsum v l1 + coefsum v l2.
Proof.
  induction l1 as [|[k a] r IH]; cbn [app coefsum]; [ring|].
  destruct (String.eqb k v); rewrite IH; ring.
Qed.

Lemma coefsum_scale (v : var) (c : Q) (l : pvars) :
  coefsum v (scale c l) == c * coefsum v l.
Proof.
  unfold scale. induction l as [|[k a] r IH]; cbn [map coefsum]; [ring|].
  destruct (String.eqb k v); rewrite IH; ring.
Qed.

Lemma coefsum_negl (v : var) (l : pvars) : coefsum v (negl l) == - coefsum v l.
Proof.
  unfold negl. induction l as [|[k a] r IH]; cbn [map coefsum]; [ring|].
  destruct (String.eqb k v); rewrite IH; ring.
Qed.

Lemma coefsum_notin (v : var) (l : pvars) : ~ In v (map fst l) -> coefsum v l = 0.
Proof.
  induction l as [|[k a] r IH]; cbn [map fst In coefsum]; intros Hn; [reflexivity|].
  destruct (String.eqb k v) eqn:E.
  - apply String.eqb_eq in E. exfalso. apply Hn. left. exact E.
  - apply IH. intros Hin. apply Hn. right. exact Hin.
Qed.

(* two association lists with the same coefficient function denote the same form *)
Lemma same_form_lin (rho : val) (l1 l2 : pvars) :
  (forall v, coefsum v l1 == coefsum v l2) -> lin rho l1 = lin rho l2.
Proof.
  intros Heq.
  assert (Hz : lin rho (l1 ++ negl l2) = 0%R).
  { apply lin_zero. intros v. rewrite coefsum_app, coefsum_negl, (Heq v). ring. }
  rewrite lin_app, lin_negl in Hz. lra.
Qed.

(* ------------------------------------------------------------------ *)
(* non-negative combinations of rows                                   *)
(* ------------------------------------------------------------------ *)
Fixpoint comb_vars (H : list pterm) (y : list Q) : pvars :=
  match H, y with
  | h :: H', c :: y' => scale c (tvars h) ++ comb_vars H' y'
  | _, _ => []
  end.

Fixpoint comb_const (H : list pterm) (y : list Q) : Q :=
  match H, y with
  | h :: H', c :: y' => c * tconst h + comb_const H' y'
  | _, _ => 0
  end.

(* Σ_i y_i * coefsum v (tvars H_i) *)
Fixpoint comb_coef (v : var) (H : list pterm) (y : list Q) : Q :=
  match H, y with
  | h :: H', c :: y' => c * coefsum v (tvars h) + comb_coef v H' y'
  | _, _ => 0
  end.

Lemma coefsum_comb_vars (v : var) :
  forall H y, coefsum v (comb_vars H y) == comb_coef v H y.
Proof.
  induction H as [|h H IH]; intros y; destruct y as [|c y];
    cbn [comb_vars comb_coef coefsum]; try reflexivity.
  rewrite coefsum_app, coefsum_scale, IH. reflexivity.
Qed.

Lemma comb_sound (rho : val) :
  forall H y, Forall (fun c => 0 <= c) y -> sat_list rho H ->
    (lin rho (comb_vars H y) <= Q2R (comb_const H y))%R.
Proof.
  induction H as [|h H IH]; intros y Hy Hs; destruct y as [|c y];
    cbn [comb_vars comb_const lin]; try (rewrite Q2R_0'; lra).
  inversion Hy as [|c0 y0 Hc Hy']; subst.
  inversion Hs as [|h0 H0 Hh Hs']; subst.
  rewrite lin_app, lin_scale, Q2R_plus, Q2R_mult.
  specialize (IH y Hy' Hs'). unfold sat in Hh.
  apply Qle_Rle in Hc. rewrite Q2R_0' in Hc. nra.
Qed.

Definition hvars (H : list pterm) : list var :=
  flat_map (fun h => map fst (tvars h)) H.

Definition allvars (H : list pterm) (t : pterm) : list var :=
  hvars H ++ map fst (tvars t).

Lemma comb_coef_notin (v : var) :
  forall H y, ~ In v (hvars H) -> comb_coef v H y == 0.
Proof.
  unfold hvars.
  induction H as [|h H IH]; intros y Hn; destruct y as [|c y];
    cbn [comb_coef]; try reflexivity.
  cbn [flat_map] in Hn. rewrite in_app_iff in Hn.
  rewrite coefsum_notin by (intros Hin; apply Hn; left; exact Hin).
  rewrite IH by (intros Hin; apply Hn; right; exact Hin). ring.
Qed.

Definition nonneg_b (y : list Q) : bool := forallb (fun c => Qle_bool 0 c) y.

Lemma nonneg_b_Forall (y : list Q) : nonneg_b y = true -> Forall (fun c => 0 <= c) y.
Proof.
  unfold nonneg_b. intros Hb. apply Forall_forall. intros c Hin.
  rewrite forallb_forall in Hb. apply Qle_bool_iff. apply Hb. exact Hin.
Qed.

(* ------------------------------------------------------------------ *)
(* check_implies                                                       *)
(* ------------------------------------------------------------------ *)
Definition check_implies (H : list pterm) (t : pterm) (y : list Q) : bool :=
  Nat.eqb (List.length y) (List.length H)
  && nonneg_b y
  && forallb (fun v => Qeq_bool (comb_coef v H y) (coefsum v (tvars t))) (allvars H t)
  && Qle_bool (comb_const H y) (tconst t).

Theorem check_implies_sound : forall H t y,
  check_implies H t y = true -> forall rho, sat_list rho H -> sat rho t.
Proof.
  intros H t y Hc rho Hs. unfold check_implies in Hc.
  apply andb_true_iff in Hc. destruct Hc as [Hc Hconst].
  apply andb_true_iff in Hc. destruct Hc as [Hc Hcoef].
  apply andb_true_iff in Hc. destruct Hc as [_ Hnn].
  assert (Hall : forall v, coefsum v (tvars t) == coefsum v (comb_vars H y)).
  { intros v. rewrite coefsum_comb_vars.
    destruct (in_dec string_dec v (allvars H t)) as [Hin | Hnin].
    - rewrite forallb_forall in Hcoef. specialize (Hcoef v Hin).
      apply Qeq_bool_iff in Hcoef. symmetry. exact Hcoef.
    - unfold allvars in Hnin. rewrite in_app_iff in Hnin.
      rewrite comb_coef_notin by (intros Hin; apply Hnin; left; exact Hin).
      rewrite coefsum_notin by (intros Hin; apply Hnin; right; exact Hin).
      reflexivity. }
  unfold sat. rewrite (same_form_lin rho _ _ Hall).
  pose proof (comb_sound rho H y (nonneg_b_Forall y Hnn) Hs) as Hle.
  apply Qle_bool_iff in Hconst. apply Qle_Rle in Hconst. lra.
Qed.

(* ------------------------------------------------------------------ *)
(* check_infeasible                                                    *)
(* ------------------------------------------------------------------ *)
Definition check_infeasible (H : list pterm) (y : list Q) : bool :=
  Nat.eqb (List.length y) (List.length H)
  && nonneg_b y
  && forallb (fun v => Qeq_bool (comb_coef v H y) 0) (hvars H)
  && Qlt_b (comb_const H y) 0.

Theorem check_infeasible_sound : forall H y,
  check_infeasible H y = true -> forall rho, ~ sat_list rho H.
Proof.
  intros H y Hc rho Hs. unfold check_infeasible in Hc.
  apply andb_true_iff in Hc. destruct Hc as [Hc Hconst].
  apply andb_true_iff in Hc. destruct Hc as [Hc Hcoef].
  apply andb_true_iff in Hc. destruct Hc as [_ Hnn].
  assert (Hall : forall v, coefsum v (comb_vars H y) == 0).
  { intros v. rewrite coefsum_comb_vars.
    destruct (in_dec string_dec v (hvars H)) as [Hin | Hnin].
    - rewrite forallb_forall in Hcoef. specialize (Hcoef v Hin).
      apply Qeq_bool_iff in Hcoef. exact Hcoef.
    - apply comb_coef_notin. exact Hnin. }
  pose proof (comb_sound rho H y (nonneg_b_Forall y Hnn) Hs) as Hle.
  rewrite (lin_zero rho _ Hall) in Hle.
  apply Qlt_b_lt in Hconst. apply Qlt_Rlt in Hconst. rewrite Q2R_0' in Hconst. lra.
Qed.

(* ------------------------------------------------------------------ *)
(* rational points                                                     *)
(* ------------------------------------------------------------------ *)
Definition point := list (var * Q).

Fixpoint lookup (v : var) (p : point) : Q :=
  match p with
  | [] => 0
  | (k, q) :: r => if String.eqb k v then q else lookup v r
  end.

Definition pt (p : point) : qval := fun v => lookup v p.

Lemma lin_linQ : forall p l, lin (q2r_val p) l = Q2R (linQ p l).
Proof.
  intros p l. induction l as [|[k a] r IH]; cbn [lin linQ].
  - rewrite Q2R_0'. reflexivity.
  - rewrite IH, Q2R_plus, Q2R_mult. unfold q2r_val. reflexivity.
Qed.

Definition check_point (H : list pterm) (p : point) : bool :=
  forallb (fun h => Qle_bool (linQ (pt p) (tvars h)) (tconst h)) H.

Theorem check_point_sound : forall H p,
  check_point H p = true -> sat_list (q2r_val (pt p)) H.
Proof.
  intros H p Hc. unfold check_point in Hc. unfold sat_list.
  apply Forall_forall. intros h Hin.
  rewrite forallb_forall in Hc. specialize (Hc h Hin).
  apply Qle_bool_iff in Hc. apply Qle_Rle in Hc.
  unfold sat. rewrite lin_linQ. exact Hc.
Qed.

Definition check_violates (tau : Q) (t : pterm) (p : point) : bool :=
  Qlt_b (tconst t + tau * (1 + Qabs (tconst t))) (linQ (pt p) (tvars t)).

Theorem check_violates_sound : forall tau t p,
  check_violates tau t p = true -> ~ sat_tol tau (q2r_val (pt p)) t.
Proof.
  intros tau t p Hc Hs. unfold check_violates in Hc. unfold sat_tol in Hs.
  apply Qlt_b_lt in Hc. apply Qlt_Rlt in Hc.
  rewrite Q2R_plus, Q2R_mult, Q2R_plus, Q2R_abs, Q2R_1' in Hc.
  rewrite lin_linQ in Hs. lra.
Qed.

Definition check_in_box (bound : Q) (p : point) : bool :=
  Qle_bool 0 bound && forallb (fun '(_, q) => Qle_bool (Qabs q) bound) p.

Lemma check_in_box_sound : forall bnd p,
  check_in_box bnd p = true -> forall v, (Rabs (q2r_val (pt p) v) <= Q2R bnd)%R.
Proof.
  intros bnd p Hc v. unfold check_in_box in Hc.
  apply andb_true_iff in Hc. destruct Hc as [H0 Hall].
  apply Qle_bool_iff in H0. apply Qle_Rle in H0. rewrite Q2R_0' in H0.
  unfold q2r_val, pt.
  induction p as [|[k q] r IH]; cbn [lookup].
  - rewrite Q2R_0', Rabs_R0. exact H0.
  - cbn [forallb] in Hall. apply andb_true_iff in Hall. destruct Hall as [Hq Hr].
    destruct (String.eqb k v).
    + apply Qle_bool_iff in Hq. apply Qle_Rle in Hq. rewrite Q2R_abs in Hq. exact Hq.
    + apply IH. exact Hr.
Qed.

(* ------------------------------------------------------------------ *)
(* rays: unboundedness of  min obj·x  s.t. H                           *)
(* ------------------------------------------------------------------ *)
Definition check_ray (H : list pterm) (obj : pvars) (d : point) : bool :=
  forallb (fun h => Qle_bool (linQ (pt d) (tvars h)) 0) H
  && Qlt_b (linQ (pt d) obj) 0.

Lemma lin_add_scaled (r1 r2 : val) (s : R) (l : pvars) :
  lin (fun v => (r1 v + s * r2 v)%R) l = (lin r1 l + s * lin r2 l)%R.
Proof.
  induction l as [|[k a] r IH]; cbn [lin]; [lra|]. rewrite IH. lra.
Qed.

Theorem check_ray_sound : forall H obj p d,
  check_point H p = true -> check_ray H obj d = true ->
  forall (bound : R), exists rho, sat_list rho H /\ (lin rho obj < bound)%R.
Proof.
  intros H obj p d Hp Hr bound.
  unfold check_ray in Hr. apply andb_true_iff in Hr. destruct Hr as [Hrows Hobj].
  apply Qlt_b_lt in Hobj. apply Qlt_Rlt in Hobj.
  rewrite Q2R_0', <- lin_linQ in Hobj.
  pose proof (check_point_sound H p Hp) as Hfeas.
  set (P := lin (q2r_val (pt p)) obj) in *.
  set (D := lin (q2r_val (pt d)) obj) in *.
  set (s := ((Rabs (P - bound) + 1) / (- D))%R).
  assert (HDpos : (0 < - D)%R) by lra.
  assert (Hs0 : (0 <= s)%R).
  { unfold s. apply Rlt_le. apply Rdiv_lt_0_compat; [|exact HDpos].
    pose proof (Rabs_pos (P - bound)%R). lra. }
  assert (HsD : (s * D = - (Rabs (P - bound) + 1))%R).
  { unfold s. field. lra. }
  exists (fun v => (q2r_val (pt p) v + s * q2r_val (pt d) v)%R). split.
  - unfold sat_list in *. apply Forall_forall. intros h Hin.
    rewrite Forall_forall in Hfeas. specialize (Hfeas h Hin).
    rewrite forallb_forall in Hrows. specialize (Hrows h Hin).
    apply Qle_bool_iff in Hrows. apply Qle_Rle in Hrows.
    rewrite Q2R_0', <- lin_linQ in Hrows.
    unfold sat in *. rewrite lin_add_scaled.
    assert (Hm : (s * lin (q2r_val (pt d)) (tvars h) <= 0)%R) by nra.
    lra.
  - rewrite lin_add_scaled. fold P. fold D. rewrite HsD.
    pose proof (Rle_abs (P - bound)%R). lra.
Qed.

(* ------------------------------------------------------------------ *)
(* composite checkers for an LP  min lin obj  s.t. H  (free variables) *)
(* ------------------------------------------------------------------ *)
Definition check_lp_opt (H : list pterm) (obj : pvars) (v eps : Q)
                        (p : point) (y : list Q) : bool :=
  check_point H p
  && Qle_bool (linQ (pt p) obj) (v + eps)
  && check_implies H (mkT (map (fun '(x, a) => (x, - a)) obj) (- (v - eps))) y.

Theorem check_lp_opt_sound : forall H obj v eps p y,
  check_lp_opt H obj v eps p y = true ->
  (exists rho, sat_list rho H /\ (lin rho obj <= Q2R v + Q2R eps)%R) /\
  (forall rho, sat_list rho H -> (Q2R v - Q2R eps <= lin rho obj)%R).
Proof.
  intros H obj v eps p y Hc. unfold check_lp_opt in Hc.
  apply andb_true_iff in Hc. destruct Hc as [Hc Himp].
  apply andb_true_iff in Hc. destruct Hc as [Hpt Hval].
  split.
  - exists (q2r_val (pt p)). split; [apply check_point_sound; exact Hpt|].
    apply Qle_bool_iff in Hval. apply Qle_Rle in Hval.
    rewrite Q2R_plus in Hval. rewrite lin_linQ. exact Hval.
  - intros rho Hs.
    pose proof (check_implies_sound _ _ _ Himp rho Hs) as Hsat.
    unfold sat in Hsat. cbn [tvars tconst] in Hsat.
    fold (negl obj) in Hsat. rewrite lin_negl, Q2R_opp, Q2R_minus in Hsat. lra.
Qed.

(* the LP is infeasible *)
Definition check_lp_infeasible (H : list pterm) (y : list Q) : bool :=
  check_infeasible H y.

(* the LP is feasible and unbounded below *)
Definition check_lp_unbounded (H : list pterm) (obj : pvars) (p d : point) : bool :=
  check_point H p && check_ray H obj d.

Theorem check_lp_unbounded_sound : forall H obj p d,
  check_lp_unbounded H obj p d = true ->
  forall (bound : R), exists rho, sat_list rho H /\ (lin rho obj < bound)%R.
Proof.
  intros H obj p d Hc. unfold check_lp_unbounded in Hc.
  apply andb_true_iff in Hc. destruct Hc as [Hp Hr].
  exact (check_ray_sound H obj p d Hp Hr).
Qed.

(* ------------------------------------------------------------------ *)
(* examples                                                            *)
(* ------------------------------------------------------------------ *)
Section Examples.
  Local Open Scope string_scope.
  Local Open Scope Q_scope.

  (* x + y <= 2 ; x - y <= 0 *)
  Let Hex : list pterm :=
    [ mkT [("x", 1); ("y", 1)] 2 ; mkT [("x", 1); ("y", - (1))] 0 ].

  (* ... implies x <= 1 *)
  Example ex_implies : check_implies Hex (mkT [("x", 1)] 1) [1#2; 1#2] = true.
  Proof. vm_compute; reflexivity. Qed.

  (* wrong multipliers are rejected *)
  Example ex_implies_reject : check_implies Hex (mkT [("x", 1)] 1) [1#2; 1#3] = false.
  Proof. vm_compute; reflexivity. Qed.

  (* x <= 0 ; -x <= -1  is infeasible *)
  Example ex_infeasible :
    check_infeasible [ mkT [("x", 1)] 0 ; mkT [("x", - (1))] (- (1)) ] [1; 1] = true.
  Proof. vm_compute; reflexivity. Qed.

  (* (1,1) is feasible for Hex *)
  Example ex_point : check_point Hex [("x", 1); ("y", 1)] = true.
  Proof. vm_compute; reflexivity. Qed.

  (* (2,2) violates x <= 1 beyond tolerance 1/100 and lies in the box of radius 2 *)
  Example ex_violates : check_violates (1#100) (mkT [("x", 1)] 1) [("x", 2); ("y", 2)] = true.
  Proof. vm_compute; reflexivity. Qed.
  Example ex_box : check_in_box 2 [("x", 2); ("y", - (2))] = true.
  Proof. vm_compute; reflexivity. Qed.

  (* min x over Hex is unbounded along (-1,-1) *)
  Example ex_ray : check_ray Hex [("x", 1)] [("x", - (1)); ("y", - (1))] = true.
  Proof. vm_compute; reflexivity. Qed.

  (* min -x over Hex has optimum -1 at (1,1), dual multipliers (1/2,1/2) *)
  Example ex_lp_opt :
    check_lp_opt Hex [("x", - (1))] (- (1)) 0 [("x", 1); ("y", 1)] [1#2; 1#2] = true.
  Proof. vm_compute; reflexivity. Qed.

  Example ex_implies_used : forall rho, sat_list rho Hex -> sat rho (mkT [("x", 1)] 1).
  Proof. exact (check_implies_sound _ _ _ ex_implies). Qed.
End Examples.

Print Assumptions check_implies_sound.
Print Assumptions check_infeasible_sound.
Print Assumptions check_point_sound.
Print Assumptions check_violates_sound.
Print Assumptions check_in_box_sound.
Print Assumptions check_ray_sound.
Print Assumptions check_lp_opt_sound.
