(* PyDict.v — the dict/float vocabulary that translator/py2coq.py (generator gen_term) targets when
   it renders the pure methods of pacti.terms.polyhedra.polyhedra.PolyhedralTerm (gen/TermGen.v).
   Hand-written and stable.  One named primitive per Python construct, so that the generated text can
   be read side by side with the Python.

   Conventions
   * `numeric` (int or float) is the exact rational it denotes (Q); the int/float distinction is
     collapsed (float(x) is the identity).  NaN, inf, signed zeros, rounding: not modelled (DESIGN 6).
   * a dict {Var: float} is an association list `pvars` in insertion order (base/Sem.v).  A Python
     dict has pairwise distinct keys; an association list with a repeated key denotes no dict.  The
     primitives are total on such lists, but the equivalence theorems of proofs/TermGenFacts.v assume
     distinct keys wherever the Python builds a dict item by item.
   * every site where Python raises implicitly is an explicit error of the monad M (base/Py.v):
     d[k] on a missing key and d.pop(k) on a missing key give Escape "KeyError", float division by
     zero gives Escape "ZeroDivisionError".
   * objects are immutable values.  `obj.variables[k] = v` on a local object is a rebinding
     `let obj := set_variables obj (dict_set (tvars obj) k v)`; this is sound only when no other
     name refers to the same object, which the translator checks syntactically (the object must
     come from `.copy()` or a constructor call in the same function; both build a new dict).

   The first part (numbers, assoc … keys) was moved here unchanged from model/Term.v, which
   re-exports this file. *)
From Coq Require Import List String Bool QArith Qabs ZArith.
Import ListNotations.
Require Import Py Sem.
Local Open Scope Q_scope.

(* ---------- numbers ---------- *)
Definition qzero (q : Q) : bool := Qeq_bool q 0.          (* value == 0 *)
Definition qadd (a b : Q) : Q := Qred (a + b).            (* a + b *)
Definition qsub (a b : Q) : Q := Qred (a - b).            (* a - b *)
Definition qmul (a b : Q) : Q := Qred (a * b).            (* a * b *)
Definition qdiv (a b : Q) : Q := Qred (a / b).            (* a / b, b nonzero *)
Definition qneg (a : Q) : Q := Qred (- a).                (* -a *)
Definition qabs (a : Q) : Q := Qred (Qabs a).
Definition qle (a b : Q) : bool := Qle_bool a b.          (* a <= b *)
Definition qlt (a b : Q) : bool := negb (Qle_bool b a).   (* a < b *)

(* ---------- Python dict {Var: float} as an association list ---------- *)
Fixpoint assoc (v : var) (l : pvars) : option Q :=
  match l with
  | [] => None
  | (k, q) :: r => if String.eqb k v then Some q else assoc v r
  end.
Definition has_key (v : var) (l : pvars) : bool :=        (* k in d *)
  match assoc v l with Some _ => true | None => false end.
(* d[k] = q : overwrite in place, or append *)
Fixpoint dict_set (l : pvars) (k : var) (q : Q) : pvars :=
  match l with
  | [] => [(k, q)]
  | (k', q') :: r => if String.eqb k' k then (k', q) :: r else (k', q') :: dict_set r k q
  end.
(* the dict after d.pop(k), k present *)
Definition dict_pop (l : pvars) (k : var) : pvars :=
  filter (fun p => negb (String.eqb (fst p) k)) l.
Definition keys (l : pvars) : list var := map fst l.

(* ================================================================== *)
(* vocabulary used only by gen/TermGen.v                               *)

(* ---------- numbers ---------- *)
Definition py_float (q : Q) : Q := q.                     (* float(x) *)
Definition qge (a b : Q) : bool := qle b a.               (* a >= b *)
Definition qgt (a b : Q) : bool := qlt b a.               (* a > b *)
Definition q_eqb (a b : Q) : bool := Qeq_bool a b.        (* a == b on numbers *)
Definition q_neb (a b : Q) : bool := negb (Qeq_bool a b). (* a != b on numbers *)
Definition np_equal (a b : Q) : bool := Qeq_bool a b.     (* np.equal(a, b) on scalars *)
(* a / b on floats: ZeroDivisionError when b == 0 *)
Definition py_div (a b : Q) : M Q :=
  if qzero b then raise (Escape "ZeroDivisionError") else ret (qdiv a b).

(* ---------- dict {Var: float} ---------- *)
Definition dict_empty : pvars := [].                      (* {} *)
Definition dict_keys (d : pvars) : list var := keys d.    (* d.keys() (a view; order = insertion order) *)
Definition py_list (l : list var) : list var := l.        (* list(view) *)
(* d[k] : KeyError when absent *)
Definition dict_get (d : pvars) (k : var) : M Q :=
  match assoc k d with Some q => ret q | None => raise (Escape "KeyError") end.
(* d.pop(k) used as a statement: the new dict; KeyError when absent *)
Definition dict_pop_m (d : pvars) (k : var) : M pvars :=
  if has_key k d then ret (dict_pop d k) else raise (Escape "KeyError").
(* d1.keys() == d2.keys() : comparison of key views as sets *)
Definition keyview_eqb (k1 k2 : list var) : bool :=
  forallb (fun k => py_in k k2) k1 && forallb (fun k => py_in k k1) k2.

(* ---------- dict {Var: bool} (the argument of get_matching_vars) ---------- *)
Definition bdict := list (var * bool).
Fixpoint bassoc (v : var) (l : bdict) : option bool :=
  match l with
  | [] => None
  | (k, b) :: r => if String.eqb k v then Some b else bassoc v r
  end.
Definition bdict_keys (d : bdict) : list var := map fst d.
Definition bdict_get (d : bdict) (k : var) : M bool :=
  match bassoc k d with Some b => ret b | None => raise (Escape "KeyError") end.

(* ---------- lists ---------- *)
Definition list_empty : list var := [].                   (* [] *)
Definition list_append (l : list var) (x : var) : list var := l ++ [x].   (* l.append(x) *)

(* ---------- objects ---------- *)
(* obj.variables = d on an object no one else refers to *)
Definition set_variables (t : pterm) (d : pvars) : pterm := mkT d (tconst t).

(* ---------- loops ---------- *)
(* what one execution of a loop body does to the variables it assigns: fall off the end
   (Continue) or `break` (Break) *)
Inductive ctl (A : Type) : Type := Continue (a : A) | Break (a : A).
Arguments Continue {A} a.
Arguments Break {A} a.

(* for x in l: body     (acc = the variables assigned in the body) *)
Fixpoint for_list {X A : Type} (l : list X) (acc : A) (body : A -> X -> ctl A) : A :=
  match l with
  | [] => acc
  | x :: r => match body acc x with Continue a => for_list r a body | Break a => a end
  end.
Fixpoint for_list_m {X A : Type} (l : list X) (acc : A) (body : A -> X -> M (ctl A)) : M A :=
  match l with
  | [] => ret acc
  | x :: r => bind (body acc x)
                   (fun c => match c with Continue a => for_list_m r a body | Break a => ret a end)
  end.
(* for k, v in d.items(): body *)
Definition for_items {A : Type} (d : pvars) (acc : A) (body : A -> var -> Q -> ctl A) : A :=
  for_list d acc (fun a p => body a (fst p) (snd p)).
Definition for_items_m {A : Type} (d : pvars) (acc : A) (body : A -> var -> Q -> M (ctl A)) : M A :=
  for_list_m d acc (fun a p => body a (fst p) (snd p)).

(* {key k v : value k v  for k, v in d.items()  if cond k v}
   Python evaluates, per item: the condition, then the key, then the value, then stores. *)
Definition dict_comp (d : pvars) (cond : var -> Q -> bool) (key : var -> Q -> var) (value : var -> Q -> Q) : pvars :=
  for_items d dict_empty
    (fun acc k v => if cond k v then Continue (dict_set acc (key k v) (value k v)) else Continue acc).
Definition dict_comp_m (d : pvars) (cond : var -> Q -> bool) (key : var -> Q -> var) (value : var -> Q -> M Q)
  : M pvars :=
  for_items_m d dict_empty
    (fun acc k v => if cond k v then bind (value k v) (fun x => ret (Continue (dict_set acc (key k v) x)))
                    else ret (Continue acc)).
