(* base/PyHeap.v — a heap-level effect language for the purity property C13.

   Objects are mutable CELLS addressed by references; aliasing is real (two variables holding the same reference see
   each other's writes); "an operand was modified" is expressible as "a cell that existed before the call differs
   afterwards".  The file holds
     * the syntax of effect programs (what translator/py2coq_heap.py extracts from the Python source),
     * an executable, fuelled big-step interpreter [exec]/[eval]/[run] in which every nondeterministic choice (branch
       taken, number of loop iterations, element read, callee chosen by dynamic dispatch, what an external returns,
       value of a module-level name) is resolved by an oracle stream, so the model can be RUN,
     * a static ownership checker [check_prog] (a forward abstract interpretation over variable statuses).
   proofs/PyHeapFacts.v proves the checker sound for the interpreter (frame theorem).

   Ghost tag.  Every cell carries an immutable boolean [deep], fixed at allocation.  It has no influence on execution;
   it is the claim "everything ever stored in this cell is an immutable value or a reference allocated during the
   activation that allocated the cell".  The checker enforces the claim at every write, which is what makes the
   pattern  [new = self.copy(); new.terms.remove(t)]  checkable: the object returned by [copy] is tagged, so the list
   found in its field is known to be new. *)
Require Import String List ZArith Bool Arith Lia.
Import ListNotations.
Open Scope string_scope.
Open Scope list_scope.

Definition ref := nat.
Inductive val := VAtom (z : Z) | VRef (r : ref).
Record obj := mkobj { deep : bool; fields : list (string * val); elems : list val }.
Definition heap := list obj.
Definition env := list (string * val).
Definition oracle := list nat.

(* ------------------------------------------------------------------ statuses (the abstract domain of the checker) *)
(*              Other
               /     \
            Self    AnyFresh          Atom     : an immutable value
              |    /      \           Fresh    : atom, or a cell allocated in this activation with tag deep=false
            Fresh         Deep        Deep     : atom, or a cell allocated in this activation with tag deep=true
               \         /            AnyFresh : atom, or a cell allocated in this activation
                 Atom                 Self     : Fresh, or the receiver of a function that declares mutates_self
                                      Other    : anything (parameters, loads, module-level names, unknown results) *)
Inductive status := Atom | Fresh | Deep | AnyFresh | Self | Other.

Inductive expr :=
| EAtom
| EVar (x : string)
| EAttr (x f : string)
| EElem (x : string)
| ENew (d : bool) (fs : list (string * string)) (es : list string)
| ECall (cands : list string) (args : list string)
| EExt (args : list string).

Inductive stmt :=
| SAssign (x : string) (e : expr)
| SSetAttr (x f y : string)
| SMutElems (x : string) (ys : list string)
| SSeq (a b : stmt)
| SIf (a b : stmt)
| SLoop (body : stmt)
| SSkip
| SReturn (x : string).

(* [mutates_self] and [result] are CLAIMS emitted with the program and CHECKED for every function, so the checker needs
   no inter-procedural fixpoint.  result = Fresh/Deep/AnyFresh/Atom: "what I return is immutable or new". *)
Record fundef := mkfun { params : list string; body : stmt; mutates_self : bool; result : status }.
Definition prog := list (string * fundef).

Definition fresh_result (fd : fundef) : bool :=
  match result fd with Atom | Fresh | Deep | AnyFresh => true | _ => false end.

(* ------------------------------------------------------------------ environment, oracle, heap primitives *)
Fixpoint lookup {A} (l : list (string * A)) (x : string) : option A :=
  match l with [] => None | (y, a) :: l' => if String.eqb x y then Some a else lookup l' x end.

Definition find_fun (P : prog) (f : string) : option fundef := lookup P f.

Definition pick (o : oracle) : nat * oracle := match o with [] => (0, []) | n :: o' => (n, o') end.

(* an arbitrary value: what a name that no function binds (a module-level object) may hold *)
Definition val_of_nat (n : nat) : val := if Nat.even n then VAtom (Z.of_nat (Nat.div2 n)) else VRef (Nat.div2 n).

Definition getv (o : oracle) (rho : env) (x : string) : oracle * val :=
  match lookup rho x with
  | Some v => (o, v)
  | None => let (n, o') := pick o in (o', val_of_nat n)
  end.

Fixpoint getvs (o : oracle) (rho : env) (xs : list string) : oracle * list val :=
  match xs with
  | [] => (o, [])
  | x :: xs' => let (o1, v) := getv o rho x in let (o2, vs) := getvs o1 rho xs' in (o2, v :: vs)
  end.

Fixpoint set_nth (h : heap) (r : nat) (c : obj) : heap :=
  match h, r with
  | [], _ => []
  | _ :: t, 0 => c :: t
  | a :: t, S r' => a :: set_nth t r' c
  end.

Definition upd (h : heap) (r : ref) (f : obj -> obj) : heap :=
  match nth_error h r with Some c => set_nth h r (f c) | None => h end.

Definition wr_field (f : string) (v : val) (c : obj) : obj := mkobj (deep c) ((f, v) :: fields c) (elems c).
(* truncate-and-append covers append/extend/insert/pop/remove/clear/item store; the order of elements is irrelevant here *)
Definition wr_elems (n : nat) (vs : list val) (c : obj) : obj := mkobj (deep c) (fields c) (firstn n (elems c) ++ vs).

Definition store_field (h : heap) (vx : val) (f : string) (vy : val) : heap :=
  match vx with VRef r => upd h r (wr_field f vy) | VAtom _ => h end.
Definition store_elems (h : heap) (vx : val) (n : nat) (vs : list val) : heap :=
  match vx with VRef r => upd h r (wr_elems n vs) | VAtom _ => h end.

Definition load_field (h : heap) (v : val) (f : string) : val :=
  match v with
  | VRef r => match nth_error h r with
              | Some c => match lookup (fields c) f with Some w => w | None => VAtom 0 end
              | None => VAtom 0 end
  | VAtom _ => VAtom 0
  end.
Definition load_elem (h : heap) (v : val) (n : nat) : val :=
  match v with
  | VRef r => match nth_error h r with Some c => nth n (elems c) (VAtom 0) | None => VAtom 0 end
  | VAtom _ => VAtom 0
  end.

(* parameters without an argument are bound to None (an atom); the extractor models a default value by a prologue *)
Fixpoint bind (ps : list string) (vs : list val) : env :=
  match ps with
  | [] => []
  | p :: ps' => (p, hd (VAtom 0) vs) :: bind ps' (tl vs)
  end.

Inductive outcome := Normal | Ret (v : val).
Definition outval (out : outcome) : val := match out with Normal => VAtom 0 | Ret v => v end.

(* ------------------------------------------------------------------ the interpreter *)
Fixpoint exec (P : prog) (fuel : nat) (o : oracle) (rho : env) (h : heap) (s : stmt) {struct fuel}
  : option (oracle * env * heap * outcome) :=
  match fuel with
  | 0 => None
  | S f =>
    match s with
    | SSkip => Some (o, rho, h, Normal)
    | SReturn x => let (o1, v) := getv o rho x in Some (o1, rho, h, Ret v)
    | SAssign x e =>
        match eval P f o rho h e with
        | Some (o1, h1, v) => Some (o1, (x, v) :: rho, h1, Normal)
        | None => None
        end
    | SSetAttr x fl y =>
        let (o1, vx) := getv o rho x in
        let (o2, vy) := getv o1 rho y in
        Some (o2, rho, store_field h vx fl vy, Normal)
    | SMutElems x ys =>
        let (o1, vx) := getv o rho x in
        let (o2, vs) := getvs o1 rho ys in
        let (n, o3) := pick o2 in
        Some (o3, rho, store_elems h vx n vs, Normal)
    | SSeq a b =>
        match exec P f o rho h a with
        | Some (o1, rho1, h1, Normal) => exec P f o1 rho1 h1 b
        | r => r
        end
    | SIf a b =>
        let (n, o1) := pick o in
        if Nat.even n then exec P f o1 rho h a else exec P f o1 rho h b
    | SLoop b =>
        let (n, o1) := pick o in
        if Nat.eqb n 0 then Some (o1, rho, h, Normal)
        else match exec P f o1 rho h b with
             | Some (o2, rho2, h2, Normal) => exec P f o2 rho2 h2 (SLoop b)
             | r => r
             end
    end
  end
with eval (P : prog) (fuel : nat) (o : oracle) (rho : env) (h : heap) (e : expr) {struct fuel}
  : option (oracle * heap * val) :=
  match fuel with
  | 0 => None
  | S f =>
    match e with
    | EAtom => let (n, o1) := pick o in Some (o1, h, VAtom (Z.of_nat n))
    | EVar x => let (o1, v) := getv o rho x in Some (o1, h, v)
    | EAttr x fl => let (o1, v) := getv o rho x in Some (o1, h, load_field h v fl)
    | EElem x => let (o1, v) := getv o rho x in let (n, o2) := pick o1 in Some (o2, h, load_elem h v n)
    | ENew d fs es =>
        let (o1, vf) := getvs o rho (map snd fs) in
        let (o2, ve) := getvs o1 rho es in
        Some (o2, h ++ [mkobj d (combine (map fst fs) vf) ve], VRef (length h))
    | EExt args =>
        let (o1, vs) := getvs o rho args in
        let (n, o2) := pick o1 in
        if Nat.eqb n 0 then Some (o2, h, VAtom 0)
        else Some (o2, h ++ [mkobj false [] vs], VRef (length h))
    | ECall cands args =>
        let (o1, vs) := getvs o rho args in
        let (n, o2) := pick o1 in
        match nth_error cands (n mod length cands) with
        | None => None
        | Some c =>
          match find_fun P c with
          | None => None
          | Some fd =>
            match exec P f o2 (bind (params fd) vs) h (body fd) with
            | Some (o3, _, h3, out) => Some (o3, h3, outval out)
            | None => None
            end
          end
        end
    end
  end.

Definition run (P : prog) (f : string) (args : list val) (h : heap) (fuel : nat) (o : oracle) : option (heap * val) :=
  match find_fun P f with
  | None => None
  | Some fd =>
    match exec P fuel o (bind (params fd) args) h (body fd) with
    | Some (_, _, h', out) => Some (h', outval out)
    | None => None
    end
  end.

(* ------------------------------------------------------------------ the static checker *)
Definition sleb (a b : status) : bool :=
  match a, b with
  | Atom, _ => true
  | _, Other => true
  | Fresh, (Fresh | AnyFresh | Self) => true
  | Deep, (Deep | AnyFresh) => true
  | AnyFresh, AnyFresh => true
  | Self, Self => true
  | _, _ => false
  end.

Definition sjoin (a b : status) : status :=
  if sleb a b then b else if sleb b a then a else
  match a, b with
  | Fresh, Deep | Deep, Fresh => AnyFresh
  | _, _ => Other
  end.

Definition senv := list (string * status).
Definition sl (st : senv) (x : string) : status := match lookup st x with Some s => s | None => Other end.

Definition keys (st : senv) : list string := map fst st.
Definition senv_join (a b : senv) : senv :=
  map (fun x => (x, sjoin (sl a x) (sl b x))) (nodup string_dec (keys a ++ keys b)).
Definition senv_leb (a b : senv) : bool :=
  forallb (fun x => sleb (sl a x) (sl b x)) (keys a ++ keys b).

(* a write through x of the value of y *)
Definition wr_ok (sx sy : status) : bool :=
  match sx with
  | Atom | Fresh | Self => true
  | Deep | AnyFresh => sleb sy AnyFresh
  | Other => false
  end.

Definition load_status (sx : status) : status :=
  match sx with Atom => Atom | Deep => AnyFresh | _ => Other end.

Definition arg0_ok (st : senv) (args : list string) : bool :=
  match args with
  | [] => true
  | a :: _ => match sl st a with Atom | Fresh | Self => true | _ => false end
  end.

Definition call_status (r : status) : status := match r with Self => Other | s => s end.

Fixpoint check_cands (P : prog) (st : senv) (args : list string) (cands : list string) : option status :=
  match cands with
  | [] => Some Atom
  | c :: cs =>
    match find_fun P c with
    | None => None
    | Some fd =>
      if negb (mutates_self fd) || arg0_ok st args
      then option_map (sjoin (call_status (result fd))) (check_cands P st args cs)
      else None
    end
  end.

Definition check_expr (P : prog) (st : senv) (e : expr) : option status :=
  match e with
  | EAtom => Some Atom
  | EVar x => Some (sl st x)
  | EAttr x _ => Some (load_status (sl st x))
  | EElem x => Some (load_status (sl st x))
  | ENew d fs es =>
      if d then (if forallb (fun y => sleb (sl st y) AnyFresh) (map snd fs ++ es) then Some Deep else None)
      else Some Fresh
  | EExt _ => Some Fresh
  | ECall cands args => match cands with [] => None | _ => check_cands P st args cands end
  end.

Definition ojoin (a b : option senv) : option senv :=
  match a, b with
  | None, r => r
  | r, None => r
  | Some x, Some y => Some (senv_join x y)
  end.

(* a stable state for a loop body; [None] = the body is rejected or no stable state within the bound (fail closed) *)
Fixpoint loop_fix (chk : senv -> option (option senv)) (n : nat) (st : senv) : option senv :=
  match n with
  | 0 => None
  | S n' =>
    match chk st with
    | None => None
    | Some None => Some st
    | Some (Some st1) => if senv_leb st1 st then Some st else loop_fix chk n' (senv_join st st1)
    end
  end.

Definition loop_bound : nat := 50.

(* outer None: rejected.  Some None: accepted, the end of the statement is unreachable (every path returned).
   Some (Some st'): accepted, st' describes the variables afterwards. *)
Fixpoint check_stmt (P : prog) (res : status) (s : stmt) (st : senv) {struct s} : option (option senv) :=
  match s with
  | SSkip => Some (Some st)
  | SReturn x => if sleb (sl st x) res then Some None else None
  | SAssign x e => match check_expr P st e with Some t => Some (Some ((x, t) :: st)) | None => None end
  | SSetAttr x _ y => if wr_ok (sl st x) (sl st y) then Some (Some st) else None
  | SMutElems x ys =>
      if wr_ok (sl st x) Atom && forallb (fun y => wr_ok (sl st x) (sl st y)) ys then Some (Some st) else None
  | SSeq a b =>
      match check_stmt P res a st with
      | Some (Some st1) => check_stmt P res b st1
      | r => r
      end
  | SIf a b =>
      match check_stmt P res a st, check_stmt P res b st with
      | Some ra, Some rb => Some (ojoin ra rb)
      | _, _ => None
      end
  | SLoop b => option_map Some (loop_fix (check_stmt P res b) loop_bound st)
  end.

Definition init_senv (fd : fundef) : senv :=
  match params fd with
  | p :: _ => if mutates_self fd then [(p, Self)] else []
  | [] => []
  end.

Definition check_fun (P : prog) (fd : fundef) : bool :=
  match result fd with
  | Self => false
  | _ => match check_stmt P (result fd) (body fd) (init_senv fd) with Some _ => true | None => false end
  end.

Definition check_prog (P : prog) : bool := forallb (fun nf => check_fun P (snd nf)) P.
Definition failing (P : prog) : list string := map fst (filter (fun nf => negb (check_fun P (snd nf))) P).
Definition mutates_self_of (P : prog) (f : string) : bool :=
  match find_fun P f with Some fd => mutates_self fd | None => true end.
Definition defined (P : prog) (f : string) : bool := match find_fun P f with Some _ => true | None => false end.
