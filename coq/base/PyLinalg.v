(* PyLinalg.v — vocabulary of the T1 generator translator/py2coq_tlp.py (-> gen/TlpGen.v): the last pieces of the
   variable-elimination code of pacti.terms.polyhedra.polyhedra — PolyhedralTermList._get_tlp_context (tactic 5),
   PolyhedralTermList._context_reduction (tactics 1, 3, 5) and PolyhedralTerm.solve_for_variables.  Hand-written and
   stable.  On top of PyDict.v / PyLoop.v / PyTermList.v / PyNumpy.v it adds

   * the numpy constructs these functions use and PyNumpy.v does not have yet: a.T (np_transpose), np.where(c)[0]
     (np_where_idx), res["slack"] used as an array (np_asarray_opt);
   * dicts {Var: PolyhedralTerm} (tdict: what solve_for_variables returns);
   * try: ... except np.linalg.LinAlgError (try_except_linalg);
   * the NAMED PRIMITIVES that are not translated (class LinalgPrims): np.linalg.solve, np.isclose on an array, and the
     sympy round trip of solve_for_variables (PolyhedralTerm.to_symbolic, sympy.symbols, sympy.solve, the solution
     mapping it returns, PolyhedralTerm.to_term).  proofs/TlpGenBase.v instantiates every field with the functions
     of the hand model model/Tactics.v (exact Gauss-Jordan elimination, the tolerance 1e-8 of isclose0).

   Conventions
   * np.linalg.LinAlgError is its own error kind, Escape "LinAlgError".  In numpy it is a subclass of ValueError; the
     model does not carry that subclass relation, so the translator accepts np.linalg.solve only directly inside a
     `try: ... except np.linalg.LinAlgError:` whose handler raises: the kind never reaches a place where the
     relation would matter;
   * an index array (the result of np.where(c)[0]) is the list of its entries (list nat): it is only iterated, measured
     with len() and used to index a Python list. *)
From Coq Require Import List String Bool Arith ZArith QArith.
Import ListNotations.
Require Import Py Sem PyDict PyLoop PyTermList PyNumpy.
Open Scope py_scope.

(* ---------- numpy ---------- *)
(* a.T : the transpose of a 2-D array (shape (n, m) -> (m, n)); a 1-D array is its own transpose.  Entry (j, i) of
   the result is entry (i, j) of a (rows of a well-formed array have exactly m entries) *)
Definition np_transpose (a : ndarray) : ndarray :=
  match a with
  | A1 v => A1 v
  | A2 m rows => A2 (len rows) (map (fun j => map (fun r => nth j r (0 # 1)%Q) rows) (seq 0 m))
  end.
(* np.where(c)[0] : the indices (along the first axis) of the true entries, in row-major order *)
Fixpoint true_indices (i : nat) (v : list bool) : list nat :=
  match v with
  | [] => []
  | b :: r => if b then i :: true_indices (S i) r else true_indices (S i) r
  end.
Definition np_where_idx (c : barray) : list nat :=
  match c with
  | A1 v => true_indices 0 v
  | A2 _ rows => List.concat (map (fun p => map (fun _ => fst p) (filter (fun b : bool => b) (snd p)))
                                  (combine (seq 0 (len rows)) rows))
  end.
(* res["slack"] handed to a numpy function: the 1-D array of the slacks; None (status <> 0) makes the ufunc raise
   TypeError *)
Definition np_asarray_opt (o : option (list Q)) : M ndarray :=
  match o with Some v => ret (A1 v) | None => raise (Escape "TypeError") end.

(* ---------- try: body  except np.linalg.LinAlgError: handler ---------- *)
Definition is_linalg_error (e : err) : bool :=
  match e with Escape k => String.eqb k "LinAlgError" | _ => false end.
Definition try_except_linalg {A : Type} (body handler : M A) : M A :=
  match body with
  | inl a => inl a
  | inr e => if is_linalg_error e then handler else inr e
  end.

(* ---------- dicts {Var: PolyhedralTerm} ---------- *)
Definition tdict := list (var * pterm).
Definition tdict_empty : tdict := [].                                  (* {} *)
Fixpoint tassoc (k : var) (d : tdict) : option pterm :=
  match d with
  | [] => None
  | (k', t) :: r => if String.eqb k' k then Some t else tassoc k r
  end.
(* d[k] = t : overwrite in place, or append *)
Fixpoint tdict_set (d : tdict) (k : var) (t : pterm) : tdict :=
  match d with
  | [] => [(k, t)]
  | (k', t') :: r => if String.eqb k' k then (k', t) :: r else (k', t') :: tdict_set r k t
  end.
Definition tdict_keys (d : tdict) : list var := map fst d.            (* d.keys() *)
(* d[k] : KeyError when absent *)
Definition tdict_get (d : tdict) (k : var) : M pterm :=
  match tassoc k d with Some t => ret t | None => raise (Escape "KeyError") end.
(* {key x: value x for x in l} : per item the key, then the value, then the store *)
Definition tdict_comp_m {X : Type} (l : list X) (key : X -> M var) (value : X -> M pterm) : M tdict :=
  for_list_m l tdict_empty
    (fun acc x => bind (key x) (fun k => bind (value x) (fun t => ret (Continue (tdict_set acc k t))))).

(* ---------- the primitives that are NOT translated ---------- *)
Class LinalgPrims := {
  (* np.linalg.solve(a, b) : the solution x of a x = b; LinAlgError (Escape "LinAlgError") when a is not a square 2-D
     array or is singular *)
  la_solve : ndarray -> ndarray -> M ndarray;
  (* np.isclose(a, k), a an array, k a scalar *)
  la_isclose : ndarray -> Q -> barray;
  (* --- sympy --- *)
  sym_expr : Type;                      (* sympy expression *)
  sym_symbol : Type;                    (* sympy Symbol *)
  sym_sols : Type;                      (* what sympy.solve returns: [] or a mapping Symbol -> expression *)
  sym_to_symbolic : pterm -> M sym_expr;                        (* PolyhedralTerm.to_symbolic(term) *)
  sym_symbols : var -> sym_symbol;                              (* sympy.symbols(var.name) *)
  sym_solve : list sym_expr -> list sym_symbol -> M sym_sols;   (* sympy.solve(exprs, *symbols) *)
  sym_len : sym_sols -> nat;                                    (* len(sols) *)
  sym_keys : sym_sols -> M (list sym_symbol);                   (* sols.keys() *)
  sym_get : sym_sols -> sym_symbol -> M sym_expr;               (* sols[key] *)
  sym_var : sym_symbol -> var;                                  (* Var(str(key)) *)
  sym_to_term : sym_expr -> M pterm                             (* PolyhedralTerm.to_term(expression) *)
}.
