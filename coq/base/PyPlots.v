(* PyPlots.v — vocabulary of the T1 generator for the vertex routine of pacti.utils.plots
   (translator/py2coq_plots.py -> gen/PlotsGen.v):
     _gen_boundary_constraints, _substitute_in_termlist, _get_feasible_point, _get_bounding_vertices,
     constraints_to_vertices
   Hand-written and stable.  One named primitive per Python / numpy construct that the older vocabularies do not
   have yet, so that the generated text can be read side by side with the Python.  Builds on
     base/PyDict.v      floats = the exact rationals they denote (qneg, qsub, py_div ...), dict {Var: float} as an
                        association list in insertion order, for_list[_m] / for_items[_m]
     base/PyLoop.v      Var / var_name
     base/PyTermList.v  l[i] (list_get_m / list_set_m: IndexError), map_m, try_except (except ValueError)
     base/PyPrint.v     dict_items, list_truth, py_append, py_reverse
   Definitions only; the lemmas are in proofs/PlotsGenBase.v.

   Conventions (in addition to those of the files above)
   * a 2-D numpy array is the list of its rows ([np_matrix] = list (list Q)); a 1-D array, a tuple of floats that is
     used as a sequence and a list of floats are all [list Q]; an (n, 2) array whose rows are used as points is a
     list of pairs.  The number of columns of an array WITHOUT rows is not represented (it is taken to fit);
   * Python tuples of length 2 are pairs, the 5-tuple returned by termlist_to_polytope is a nested pair with the
     projections [tuple5_0] .. [tuple5_4];
   * np.array(v) of a value v that may be None is [option (list Q)]: indexing or slicing the 0-d object array
     np.array(None) raises IndexError ([npo_index], [npo_slice_0_m1]);
   * math.atan2(y, x) is symbolic: the pair [(y, x)] ([py_atan2]); what is done with it (the angular order, with the
     float noise at the branch cut) is the business of the sorting primitive;
   * NOT translated, but the fields of the class [PlotPrims], which the generated section is generic in:
     PolyhedralTermList.termlist_to_polytope, np.linalg.norm(.., axis=1, keepdims=True), scipy's linprog (with ALL the
     arguments the Python passes, including bounds; an omitted bounds argument is filled in with scipy's default
     (0, None) by the translator), the fields "status" / "x" of its result, scipy.spatial.HalfspaceIntersection
     (Qhull; raises QhullError = [Escape "QhullError"]) with its attribute .intersections, and
     sorted(points, key=lambda p: atan2(..)).  proofs/PlotsGenBase.v instantiates them with the oracles of
     model/Plots.v. *)
From Coq Require Import List String Bool QArith Arith ZArith.
Import ListNotations.
Require Import Py Sem PyDict PyLoop PySyntax PyTermList PyPrint.
Open Scope py_scope.

(* ------------------------------------------------------------------ *)
(** * shapes *)
Definition np_matrix : Type := list (list Q).          (* 2-D float array: rows *)
Definition np_vector : Type := list Q.                 (* 1-D float array / tuple or list of floats *)
Definition point : Type := (Q * Q)%type.               (* a pair of floats: (x, y) *)
Definition angle : Type := (Q * Q)%type.               (* atan2(y, x), symbolically *)
(* bounds=(lo, hi) of linprog, applied to every variable; None = unbounded on that side *)
Definition lp_bounds : Type := (option Q * option Q)%type.
(* b_ub of linprog: scipy accepts a 1-D array and an (n, 1) column *)
Inductive lp_rhs : Type := Rhs1 (b : np_vector) | Rhs2 (b : np_matrix).

(* ------------------------------------------------------------------ *)
(** * exceptions *)
(* assert c *)
Definition py_assert (c : bool) : M unit := if c then ret tt else raise (Escape "AssertionError"%string).
(* try: body  except <Cls>: handler     for a class that is neither ValueError nor one of its subclasses and that
   is rendered as Escape kind (QhullError): exactly that kind is caught *)
Definition try_except_escape {A : Type} (kind : string) (body handler : M A) : M A :=
  match body with
  | inr (Escape k) => if String.eqb k kind then handler else body
  | _ => body
  end.

(* ------------------------------------------------------------------ *)
(** * dicts, tuples *)
(* {k1: v1, k2: v2, ...} : items stored left to right (a repeated key keeps its first position, last value) *)
Definition dict_literal (items : list (var * Q)) : pvars :=
  fold_left (fun d p => dict_set d (fst p) (snd p)) items dict_empty.

Definition tuple5_0 {A B C D E : Type} (t : A * B * C * D * E) : A := fst (fst (fst (fst t))).
Definition tuple5_1 {A B C D E : Type} (t : A * B * C * D * E) : B := snd (fst (fst (fst t))).
Definition tuple5_2 {A B C D E : Type} (t : A * B * C * D * E) : C := snd (fst (fst t)).
Definition tuple5_3 {A B C D E : Type} (t : A * B * C * D * E) : D := snd (fst t).
Definition tuple5_4 {A B C D E : Type} (t : A * B * C * D * E) : E := snd t.

(* ------------------------------------------------------------------ *)
(** * numbers and sequences of numbers *)
(* an int that counts (len(..)) used as a number *)
Definition nat_float (n : nat) : Q := inject_Z (Z.of_nat n).
(* sum(l) : 0 + l[0] + l[1] + ... *)
Definition py_sum (l : list Q) : Q := fold_left qadd l 0.
(* zip(a, b) of two sequences (stops at the shorter one) *)
Definition py_zip {A B : Type} (a : list A) (b : list B) : list (A * B) := combine a b.
(* x, y = zip( *l ) for a sequence l of pairs / an (n, 2) array: the two columns.  zip of NO argument is empty, and
   unpacking it into two names raises ValueError ("not enough values to unpack") *)
Definition py_unzip2 {A B : Type} (l : list (A * B)) : M (list A * list B) :=
  match l with
  | [] => raise ValueErr
  | _ => ret (map fst l, map snd l)
  end.
(* math.atan2(y, x) / np.arctan2(y, x) on scalars *)
Definition py_atan2 (y x : Q) : angle := (y, x).

(* ------------------------------------------------------------------ *)
(** * numpy *)
(* np.array([[..], ..]) / np.array([..]) of float literals or floats *)
Definition np_array_2d (m : list (list Q)) : np_matrix := m.
Definition np_array_1d (v : list Q) : np_vector := v.
(* np.reshape(b, (-1, 1)) of a 1-D array: one column *)
Definition np_reshape_col (b : np_vector) : np_matrix := map (fun c => [c]) b.
(* -m, -v : exact negation of every entry *)
Definition np_neg_2d (m : np_matrix) : np_matrix := map (map Qopp) m.
Definition np_neg_1d (v : np_vector) : np_vector := map Qopp v.
(* np.concatenate((a, b), axis=1) : row i of a followed by row i of b; ValueError unless both have the same number
   of rows *)
Fixpoint np_concat_axis1 (a b : np_matrix) : M np_matrix :=
  match a, b with
  | [], [] => ret []
  | r :: a', s :: b' => bind (np_concat_axis1 a' b') (fun rest => ret ((r ++ s)%list :: rest))
  | _, _ => raise ValueErr
  end.
(* np.concatenate((a, b), axis=0) : the rows of a followed by the rows of b; ValueError unless all rows have the
   same length *)
Definition same_width (m : np_matrix) : bool :=
  match m with
  | [] => true
  | r :: m' => forallb (fun s => Nat.eqb (List.length s) (List.length r)) m'
  end.
Definition np_concat_axis0 (a b : np_matrix) : M np_matrix :=
  if same_width (a ++ b) then ret (a ++ b)%list else raise ValueErr.
(* m[:, [j1, j2, ...]] : a NEW array with the listed columns; IndexError when a column does not exist *)
Definition row_get_cols (r : list Q) (idx : list nat) : M (list Q) := map_m (list_get_m r) idx.
Definition np_get_cols (m : np_matrix) (idx : list nat) : M np_matrix := map_m (fun r => row_get_cols r idx) m.
(* m[:, [j1, j2, ...]] = v on an array no other name refers to: column jk of m becomes column k of v (left to
   right); ValueError when the shapes do not match, IndexError when a column does not exist *)
Fixpoint row_set_cols (r : list Q) (idx : list nat) (v : list Q) : M (list Q) :=
  match idx, v with
  | [], [] => ret r
  | j :: idx', x :: v' => bind (list_set_m r j x) (fun r' => row_set_cols r' idx' v')
  | _, _ => raise ValueErr
  end.
Fixpoint np_set_cols (m : np_matrix) (idx : list nat) (v : np_matrix) : M np_matrix :=
  match m, v with
  | [], [] => ret []
  | r :: m', w :: v' =>
      bind (row_set_cols r idx w) (fun r' => bind (np_set_cols m' idx v') (fun rest => ret (r' :: rest)))
  | _, _ => raise ValueErr
  end.

(* np.array(v) where v may be None (res["x"] of a failed LP): a 1-D array or the 0-d object array np.array(None) *)
Definition np_array_opt (v : option (list Q)) : option np_vector := v.
(* a[i] : IndexError on np.array(None) ("too many indices") and past the end *)
Definition npo_index (a : option np_vector) (i : nat) : M Q :=
  match a with
  | None => raise (Escape "IndexError"%string)
  | Some l => list_get_m l i
  end.
(* a[0:-1] : everything but the last entry; IndexError on np.array(None) *)
Definition npo_slice_0_m1 (a : option np_vector) : M np_vector :=
  match a with
  | None => raise (Escape "IndexError"%string)
  | Some l => ret (removelast l)
  end.

(* ------------------------------------------------------------------ *)
(** * what is NOT translated *)
Class PlotPrims := {
  plp_result : Type;                       (* scipy OptimizeResult *)
  phs_t : Type;                            (* scipy.spatial.HalfspaceIntersection object *)
  (* PolyhedralTermList.termlist_to_polytope(terms, context) : variables, A, b, a_h, b_h *)
  pp_termlist_to_polytope :
    list pterm -> list pterm -> M (list var * np_matrix * np_vector * np_matrix * np_vector);
  (* np.linalg.norm(a, axis=1, keepdims=True) : the Euclidean norm of every row, as a column (irrational) *)
  pp_norm_rows : np_matrix -> np_matrix;
  (* linprog(c=.., A_ub=.., b_ub=.., bounds=..) : argument order c, A_ub, b_ub, bounds *)
  pp_linprog : np_vector -> np_matrix -> lp_rhs -> lp_bounds -> M plp_result;
  pp_res_status : plp_result -> nat;                      (* res["status"] *)
  pp_res_x : plp_result -> option (list Q);               (* res["x"]  (None when there is no solution) *)
  (* HalfspaceIntersection(halfspaces, interior_point); raises QhullError *)
  pp_HalfspaceIntersection : np_matrix -> np_vector -> M phs_t;
  pp_intersections : phs_t -> list point;                 (* hs.intersections, an (n, 2) array *)
  (* sorted(points, key=lambda p: atan2(..)) : stable, by the angle *)
  pp_sorted_by_atan2 : list point -> (point -> angle) -> list point
}.
