(* Py.v — the small "Python runtime" the models are written against:
   error monad (DESIGN 3.4), variables, the list primitives whose Python
   originals are built-ins (in / len / set-duplicate test / index assignment /
   remove), and the abstract constraint domain the algebra layer is generic in.
   Everything here is hand-written and stable; the *translation* of
   pacti/utils/lists.py and pacti/iocontract/iocontract.py lives in gen/. *)
From Coq Require Import List String Bool Arith ZArith.
Import ListNotations.
Local Open Scope string_scope.

(* ---------- errors ---------- *)
Inductive err : Type :=
| IncompatibleArgs            (* pacti.utils.errors.IncompatibleArgsError (a ValueError) *)
| ValueErr                    (* ValueError *)
| SyntaxErr                   (* PolyhedralSyntaxException *)
| ConvexErr                   (* PolyhedralSyntaxConvexException *)
| FormatErr                   (* ContractFormatError *)
| Escape (kind : string)      (* any other exception type: AssertionError, KeyError, ... *)
| OracleMiss.                 (* replay table asked a question the implementation never asked *)

Definition M (A : Type) : Type := (A + err)%type.
Definition ret {A} (a : A) : M A := inl a.
Definition raise {A} (e : err) : M A := inr e.
Definition bind {A B} (m : M A) (f : A -> M B) : M B :=
  match m with inl a => f a | inr e => inr e end.

(* `except ValueError` catches ValueError and its subclass IncompatibleArgsError *)
Definition is_value_error (e : err) : bool :=
  match e with IncompatibleArgs | ValueErr => true | _ => false end.
Definition try_value_error {A} (body : M A) (handler : M A) : M A :=
  match body with
  | inl a => inl a
  | inr e => if is_value_error e then handler else inr e
  end.

Declare Scope py_scope.
Notation "x <- m ;; k" := (bind m (fun x => k))
  (at level 61, m at next level, right associativity) : py_scope.
Notation "' p <- m ;; k" := (bind m (fun p => k))
  (at level 61, p pattern, m at next level, right associativity) : py_scope.
Open Scope py_scope.

Lemma bind_inl {A B} (m : M A) (f : A -> M B) b :
  bind m f = inl b -> exists a, m = inl a /\ f a = inl b.
Proof. destruct m as [a|e]; simpl; intros H; [eauto|discriminate]. Qed.

Lemma bind_inr {A B} (m : M A) (f : A -> M B) e :
  bind m f = inr e -> m = inr e \/ exists a, m = inl a /\ f a = inr e.
Proof. destruct m as [a|e']; simpl; intros H; [right; eauto|left; congruence]. Qed.

(* ---------- variables ---------- *)
Definition var := string.

(* Python's == as used by `in`, list.index, list.remove, set() *)
Class PyEq (A : Type) := { py_eqb : A -> A -> bool }.
#[global] Instance PyEq_var : PyEq var := {| py_eqb := String.eqb |}.
#[global] Instance PyEq_nat : PyEq nat := {| py_eqb := Nat.eqb |}.

(* list == list : same length and element-wise == *)
Fixpoint list_eqb {A} `{PyEq A} (l1 l2 : list A) : bool :=
  match l1, l2 with
  | [], [] => true
  | x :: r1, y :: r2 => py_eqb x y && list_eqb r1 r2
  | _, _ => false
  end.
#[global] Instance PyEq_list {A} `{PyEq A} : PyEq (list A) := {| py_eqb := list_eqb |}.

Definition py_in {A} `{PyEq A} (x : A) (l : list A) : bool := existsb (py_eqb x) l.
Definition nonempty {A} (l : list A) : bool := match l with [] => false | _ => true end.
Definition opt_nonempty {A} (o : option (list A)) : bool :=
  match o with Some l => nonempty l | None => false end.
Definition opt_list {A} (o : option (list A)) : list A :=
  match o with Some l => l | None => [] end.
Definition is_none {A} (o : option A) : bool := match o with None => true | _ => false end.
Definition len {A} (l : list A) : nat := List.length l.

(* len(l) != len(set(l)) *)
Fixpoint has_dup {A} `{PyEq A} (l : list A) : bool :=
  match l with [] => false | x :: r => py_in x r || has_dup r end.

(* l[l.index(x)] = y   (first occurrence; caller guarantees x in l) *)
Fixpoint replace_first {A} `{PyEq A} (x y : A) (l : list A) : list A :=
  match l with
  | [] => []
  | z :: r => if py_eqb z x then y :: r else z :: replace_first x y r
  end.
(* l.remove(x)   (first occurrence) *)
Fixpoint remove_first {A} `{PyEq A} (x : A) (l : list A) : list A :=
  match l with
  | [] => []
  | z :: r => if py_eqb z x then r else z :: remove_first x r
  end.

(* ---------- tactic statistics (time field dropped) ---------- *)
Definition stats := list (Z * Z).   (* (tactic number, invocation count) per processed term *)

(* ---------- the abstract constraint domain ---------- *)
(* A TermList is `list term`; Term/TermList abstract methods are the fields.
   copy() is the identity in a value model (aliasing is C13's business). *)
Class Domain := {
  term : Type;
  term_vars : term -> list var;                         (* Term.vars *)
  term_eqb : term -> term -> bool;                      (* Term.__eq__ *)
  term_rename : term -> var -> var -> term;             (* Term.rename_variable(source, target) *)
  p_elim_refine : list term -> list term -> list var -> bool -> list nat -> M (list term * stats);
  p_elim_relax  : list term -> list term -> list var -> bool -> list nat -> M (list term * stats);
  p_simplify : list term -> option (list term) -> M (list term);
  p_refines : list term -> list term -> M bool;
  p_is_empty : list term -> M bool
}.
#[global] Instance PyEq_term `{Domain} : PyEq term := {| py_eqb := term_eqb |}.
