(* PyPrint.v — vocabulary of the T1 generator for the string PRINTER of polyhedral term lists
   (translator/py2coq_printer.py -> gen/PrinterGen.v):
     pacti/terms/polyhedra/serializer.py   _number_to_string, _are_numbers_approximatively_equal, _lhs_str,
                                           _are_polyhedral_terms_opposite, polyhedral_term_list_to_strings
     pacti/terms/polyhedra/polyhedra.py    PolyhedralTermList.to_str_list
   Hand-written and stable.  One named primitive per Python construct that the older vocabularies do not have
   yet, so that the generated text can be read side by side with the Python.  Builds on
     base/PyDict.v      floats = the exact rationals they denote (qneg, qgt, py_float ...), dict {Var: float} as an
                        association list in insertion order (dict_get: KeyError, dict_keys), for_list / for_list_m
     base/PyLoop.v      loops whose body may `return` (for_ret / for_ret_m), enumerate, Var / var_name
     base/PyTermList.v  l[i] (list_get_m: IndexError), l.remove(x) over an equality that may raise
                        (list_remove_m: ValueError when absent), list(l) / l.copy() (py_list_copy)
     base/PySyntax.v    l[n:] (py_slice_from), the code-point order on str (str_leb)
   Definitions only; the lemmas are in proofs/PrinterGenBase.v.

   Conventions (in addition to those of the files above)
   * a str is a Coq [string]; `a + b` / `s += e` is [append] (written ++ in string_scope); an f-string is the
     concatenation of its pieces; str(v) of a Var and v.name are the name ([var_name]);
   * TWO things are NOT translated but are named primitives, the fields of the class [PrintPrims]: the number
     formatting f"{x:.4g}" of a float ([format_4g]) and numpy's / math's closeness tests ([np_isclose],
     [math_isclose]).  proofs/PrinterGenBase.v instantiates them with the functions of model/Printer.v ([fmt4],
     proved correct in proofs/PrinterFacts.v; the isclose formula with one binary64 rounding per operation).
     Everything around them — which numbers are compared, which tolerance goes to which argument position, what is
     printed in which order, how the list is consumed — is translated;
   * NaN does not exist in the rational model: math.isnan(x) is [false], np.isclose's equal_nan is ignored;
   * a `while` loop is rendered with explicit fuel ([while_fuel_m]); running out of fuel with the condition still
     true is the error [Escape "fuel"], so an equality with a result [ret _] shows the fuel sufficient. *)
From Coq Require Import List String Bool QArith Arith.
Import ListNotations.
Require Import Py Sem PyDict PyLoop PySyntax PyTermList.
Open Scope py_scope.

(* ------------------------------------------------------------------ *)
(** * the primitives that are not translated *)
Class PrintPrims := {
  (* f"{x:.4g}" of a float (format(x, ".4g")) *)
  format_4g : Q -> string;
  (* bool(np.isclose(a, b, rtol=rtol, atol=atol)) on two float scalars: argument order a, b, rtol, atol *)
  np_isclose : Q -> Q -> Q -> Q -> bool;
  (* math.isclose(a, b, rel_tol=rel_tol, abs_tol=abs_tol): argument order a, b, rel_tol, abs_tol *)
  math_isclose : Q -> Q -> Q -> Q -> bool
}.

(* ------------------------------------------------------------------ *)
(** * numbers and booleans *)
(* bool(b) of a (numpy) bool *)
Definition py_bool (b : bool) : bool := b.
(* math.isnan(x): there is no NaN among the rationals *)
Definition math_isnan (x : Q) : bool := false.

(* ------------------------------------------------------------------ *)
(** * dict {Var: float} views *)
(* d.items() (a view; order = insertion order) *)
Definition dict_items (d : pvars) : list (var * Q) := d.
(* d.values() *)
Definition dict_values (d : pvars) : list Q := map snd d.

(* ------------------------------------------------------------------ *)
(** * lists *)
(* truthiness of a list: `if l:` / `while l:` / `not l` *)
Definition list_truth {A : Type} (l : list A) : bool := nonempty l.
(* l[:b] and l[a:b] with non-negative bounds (out-of-range bounds are clamped, as Python does) *)
Definition py_slice_to {A : Type} (l : list A) (b : nat) : list A := firstn b l.
Definition py_slice_between {A : Type} (l : list A) (a b : nat) : list A := firstn (b - a) (skipn a l).
(* l.append(x) / l.reverse() on a list no other name refers to *)
Definition py_append {A : Type} (l : list A) (x : A) : list A := l ++ [x].
Definition py_reverse {A : Type} (l : list A) : list A := rev l.

(* l.sort(key=f) / sorted(l, key=f) with a str-valued key: stable, code-point order on the keys
   (insertion sort: an element goes after every element whose key is <= its own) *)
Fixpoint insert_by_str {A : Type} (key : A -> string) (x : A) (l : list A) : list A :=
  match l with
  | [] => [x]
  | y :: r => if str_leb (key y) (key x) then y :: insert_by_str key x r else x :: y :: r
  end.
Definition list_sort_by_str {A : Type} (l : list A) (key : A -> string) : list A :=
  fold_left (fun acc x => insert_by_str key x acc) l [].

(* ------------------------------------------------------------------ *)
(** * while loops, on explicit fuel *)
(* while cond(acc): acc = body(acc)       (acc = the variables assigned in the body; Continue = fall off the
   end of the body or `continue`, Break = `break`).  The condition is evaluated before every iteration; when
   the fuel is used up and the condition still holds the result is Escape "fuel". *)
Fixpoint while_fuel_m {A : Type} (fuel : nat) (acc : A) (cond : A -> bool) (body : A -> M (ctl A)) : M A :=
  if cond acc then
    match fuel with
    | O => raise (Escape "fuel")
    | S f => bind (body acc)
                  (fun c => match c with Continue a => while_fuel_m f a cond body | Break a => ret a end)
    end
  else ret acc.
