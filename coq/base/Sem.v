(* Sem.v — polyhedral terms and their meaning (DESIGN 3.1).
   A term is  Σ aᵢ·xᵢ ≤ c  with exact rational coefficients (a float *is* the
   rational it denotes); points are REAL valuations, so "for every point" is
   literal.  Definitions only. *)
From Coq Require Import List String Bool QArith Reals Qreals.
Import ListNotations.
Require Import Py.

Definition pvars := list (var * Q).                 (* a Python dict {Var: float}, insertion order kept *)
Record pterm := mkT { tvars : pvars; tconst : Q }.  (* PolyhedralTerm: variables, constant *)

Definition val := var -> R.
Fixpoint lin (rho : val) (l : pvars) : R :=
  match l with
  | [] => 0%R
  | (x, a) :: r => (Q2R a * rho x + lin rho r)%R
  end.
Definition sat (rho : val) (t : pterm) : Prop := (lin rho (tvars t) <= Q2R (tconst t))%R.
Definition sat_list (rho : val) (ts : list pterm) : Prop := Forall (sat rho) ts.

(* tolerance reading: violated by more than tau*(1+|c|) *)
Definition sat_tol (tau : Q) (rho : val) (t : pterm) : Prop :=
  (lin rho (tvars t) <= Q2R (tconst t) + Q2R tau * (1 + Rabs (Q2R (tconst t))))%R.

(* rational points, executable *)
Definition qval := var -> Q.
Fixpoint linQ (p : qval) (l : pvars) : Q :=
  match l with
  | [] => 0
  | (x, a) :: r => a * p x + linQ p r
  end.
Definition satQb (p : qval) (t : pterm) : bool := Qle_bool (linQ p (tvars t)) (tconst t).
Definition q2r_val (p : qval) : val := fun x => Q2R (p x).
