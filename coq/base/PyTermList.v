(* PyTermList.v — vocabulary of the fourth T1 generator (translator/py2coq_termlist.py -> gen/TermListGen.v):
   the pure-Python part of pacti.terms.polyhedra.polyhedra.PolyhedralTermList (the glue around the LP / sympy /
   numpy calls).  Hand-written and stable.  One named primitive per Python construct that the vocabularies
   of base/PyDict.v (dicts of floats, loops with break) and base/PyLoop.v (loops with return, enumerate)
   do not have yet.

   Conventions (on top of those of PyDict.v / PyLoop.v)
   * a PolyhedralTermList object is the list stored in its only field `terms` (list pterm); a Python
     list of terms is a list pterm as well;
   * `==` on terms is PolyhedralTerm.__eq__, which the second generator renders as a function that may
     raise (gen/TermGen.v:PolyhedralTerm_eq : pterm -> pterm -> M bool).  `x in l`, `l.remove(x)` and the
     list functions of pacti/utils/lists.py applied to lists of terms therefore take the equality as a
     monadic parameter ([py_in_m], [list_remove_m], [list_diff_m] ...); on lists of Var the pure functions
     of gen/ListsGen.v are used.  (CPython tries `is` before `==` in `in`/`remove`; a term equals itself,
     so this shortcut is not observable without NaN coefficients, which are not modelled.)
   * Python ints that count or index are [nat] (negative indices are rejected by the translator), ints
     that are returned next to the literal -1 are [Z], ints mixed with floats are [Q];
   * wall-clock values (time.time() and differences of them) carry no information in the model: they
     are the unit value [py_time] and are erased from tuples (base/Py.v:stats has no time field). *)
From Coq Require Import List String Bool Arith ZArith QArith.
Import ListNotations.
Require Import Py Sem PyDict PyLoop.
Open Scope py_scope.

(* ---------- comprehensions / filters whose element or condition may raise ---------- *)
(* [f x for x in l] *)
Fixpoint map_m {X Y : Type} (f : X -> M Y) (l : list X) : M (list Y) :=
  match l with
  | [] => ret []
  | x :: r => bind (f x) (fun y => bind (map_m f r) (fun ys => ret (y :: ys)))
  end.
(* [x for x in l if f x] *)
Fixpoint filter_m {X : Type} (f : X -> M bool) (l : list X) : M (list X) :=
  match l with
  | [] => ret []
  | x :: r => bind (f x) (fun b => bind (filter_m f r) (fun xs => ret (if b then x :: xs else xs)))
  end.

(* ---------- `in`, list.remove and pacti/utils/lists.py over an equality that may raise ---------- *)
Section EqM.
Context {A : Type} (eqm : A -> A -> M bool).
(* x in l : left to right, stops at the first equal element *)
Fixpoint py_in_m (x : A) (l : list A) : M bool :=
  match l with
  | [] => ret false
  | y :: r => bind (eqm x y) (fun b => if b then ret true else py_in_m x r)
  end.
(* [el for el in list1 if el in list2] *)
Definition list_intersection_m (list1 list2 : list A) : M (list A) :=
  filter_m (fun el => py_in_m el list2) list1.
(* [el for el in list1 if (el not in list2)] *)
Definition list_diff_m (list1 list2 : list A) : M (list A) :=
  filter_m (fun el => bind (py_in_m el list2) (fun b => ret (negb b))) list1.
(* list1 + [el for el in list2 if (el not in list1)] *)
Definition list_union_m (list1 list2 : list A) : M (list A) :=
  bind (filter_m (fun el => bind (py_in_m el list1) (fun b => ret (negb b))) list2)
       (fun r => ret (list1 ++ r)).
(* l.remove(x) : removes the first element equal to x; ValueError when there is none *)
Fixpoint list_remove_m (x : A) (l : list A) : M (list A) :=
  match l with
  | [] => raise ValueErr
  | z :: r => bind (eqm z x) (fun b => if b then ret r
                                       else bind (list_remove_m x r) (fun r' => ret (z :: r')))
  end.
End EqM.

(* ---------- lists with integer indices ---------- *)
(* l[i] with i >= 0 : IndexError when i >= len(l) *)
Fixpoint list_get_m {X : Type} (l : list X) (i : nat) : M X :=
  match l, i with
  | x :: _, O => ret x
  | _ :: r, S k => list_get_m r k
  | [], _ => raise (Escape "IndexError")
  end.
(* l[i] = v on a list no other name refers to *)
Fixpoint list_set_m {X : Type} (l : list X) (i : nat) (v : X) : M (list X) :=
  match l, i with
  | _ :: r, O => ret (v :: r)
  | x :: r, S k => bind (list_set_m r k v) (fun r' => ret (x :: r'))
  | [], _ => raise (Escape "IndexError")
  end.
(* range(n) *)
Definition py_range (n : nat) : list nat := seq 0 n.
(* list(l) : a new list with the same elements *)
Definition py_list_copy {X : Type} (l : list X) : list X := l.

(* ---------- dicts ---------- *)
(* {k: f k for k in l} : per item the key, then the value, then the store *)
Definition dict_of_list_m (l : list var) (f : var -> M Q) : M pvars :=
  for_list_m l dict_empty (fun acc k => bind (f k) (fun v => ret (Continue (dict_set acc k v)))).

(* ---------- None ---------- *)
(* o.attr / o.method(...) where o may be None : AttributeError *)
Definition py_deref {X : Type} (o : option X) : M X :=
  match o with Some x => ret x | None => raise (Escape "AttributeError") end.
(* arithmetic on a value that may be None : TypeError *)
Definition py_num (o : option Q) : M Q :=
  match o with Some x => ret x | None => raise (Escape "TypeError") end.

(* ---------- objects ---------- *)
(* obj.constant = c on an object no one else refers to *)
Definition set_constant (t : pterm) (c : Q) : pterm := mkT (tvars t) c.

(* ---------- time ---------- *)
Definition time_t : Type := unit.
Definition py_time : time_t := tt.              (* time.time(), tb - ta, and the literal 0 stored in a time slot *)

(* ---------- try: body  except ValueError: handler ---------- *)
(* everything the body does (including `return` / `continue` / `break`, which the translator renders as
   values) happens inside the guarded region; the handler runs when the body raises ValueError or its
   subclass IncompatibleArgsError; other exceptions propagate *)
Definition try_except {A : Type} (body handler : M A) : M A := try_value_error body handler.
(* try: body  except Exception: handler  /  bare except.  OracleMiss is not a Python exception (it means
   that the replay table of the correspondence harness has no answer) and is never caught. *)
Definition try_except_any {A : Type} (body handler : M A) : M A :=
  match body with
  | inl a => inl a
  | inr OracleMiss => inr OracleMiss
  | inr _ => handler
  end.

(* ---------- the functions of PolyhedralTermList that are NOT translated ---------- *)
(* they call scipy.optimize.linprog, sympy.solve or build numpy matrices; a translated function that
   calls one of them is generic in it.  proofs/TermListGenBase.v instantiates each field with the
   corresponding hand model (model/Poly.v, model/Tactics.v). *)
Class TLPrims := {
  matrix : Type;                       (* numpy 2-D array *)
  vector : Type;                       (* numpy 1-D array *)
  lp_result : Type;                    (* scipy OptimizeResult *)
  (* self.simplify(context) *)
  p_simplify : list pterm -> option (list pterm) -> M (list pterm);
  (* PolyhedralTermList._context_reduction(term, context, vars_to_elim, refine, strategy) *)
  p_context_reduction : pterm -> list pterm -> list var -> bool -> nat -> M pterm;
  (* PolyhedralTermList.termlist_to_polytope(terms, context) *)
  p_termlist_to_polytope : list pterm -> list pterm -> M (list var * matrix * vector * matrix * vector);
  (* linprog(c=..., A_ub=..., b_ub=..., bounds=(None, None)) *)
  p_linprog : list Q -> matrix -> vector -> M lp_result;
  p_res_status : lp_result -> M nat;           (* res["status"] *)
  p_res_fun : lp_result -> M (option Q)        (* res["fun"]  (None unless status 0) *)
}.
