(* PyJson.v — vocabulary of the fourth T1 generator (translator/py2coq_json.py -> gen/JsonGen.v): the
   DYNAMICALLY TYPED side of pacti (dictionaries / JSON values as json.load returns them).  One named
   primitive per Python construct applied to a value whose type is only known at run time, so that the
   generated text can be read side by side with the Python.  Hand-written and stable.  Definitions only;
   the lemmas are in proofs/JsonGenBase.v.

   The value type is the inductive [json] of model/Json.v (nothing is moved or redefined: this file
   imports it); every primitive is defined by cases over it and raises, as [Escape "<type name>"], the
   exception Python raises implicitly at that place:
     x[k]            json_getitem    KeyError (dict without k), TypeError (any non-dict: list/str indices must be
                                     integers, 'NoneType'/'int'/'float'/'bool' object is not subscriptable)
     k in x          json_contains   TypeError (argument of type 'NoneType'/'int'/... is not iterable)
     x.items() ...   json_items      AttributeError
     for y in x      json_iter       TypeError          (= Json.py_iter)
     float(x)        json_float      TypeError / ValueError / OverflowError   (= Json.py_float)
     f( **x)          call_kwargs     TypeError          (= Json.bind_kwargs)
   isinstance(x, C) never raises.  [bool] IS an [int] for isinstance (JBool is an instance of CInt).

   Conventions (the same as model/Json.v): a dict is an association list in insertion order, a Python dict
   has pairwise distinct keys ([json_wf]); the primitives are total on lists with a repeated key but
   `d[k] = v` / a dict comprehension ([sdict_set] / [sdict_comp]) overwrite the first binding as Python
   does, so the equality theorems assume distinct keys where the Python builds a dict from another dict's
   items.  str(x) of a non-str and float(s) of a str are the parameters [pstr] / [s2f] of model/Json.v. *)
From Coq Require Import List String Bool QArith ZArith.
Import ListNotations.
Require Import Py Sem PyDict PyLoop Term Json.
Open Scope py_scope.
Local Open Scope string_scope.

(* ------------------------------------------------------------------ *)
(** * isinstance *)
Inductive pyclass : Type := CDict | CList | CStr | CInt | CFloat | CBool.

(* isinstance(j, c) for one class *)
Definition instance_of (j : json) (c : pyclass) : bool :=
  match c, j with
  | CDict, JObj _ => true
  | CList, JList _ => true
  | CStr, JStr _ => true
  | CBool, JBool _ => true
  | CInt, JBool _ => true                 (* bool is a subclass of int: isinstance(True, int) *)
  | CInt, JNum _ true => true
  | CFloat, JNum _ false => true
  | _, _ => false
  end.
(* isinstance(j, (c1, ..., cn)) ; isinstance(j, c) is the one-element case *)
Definition py_isinstance (j : json) (cs : list pyclass) : bool := existsb (instance_of j) cs.

(* ------------------------------------------------------------------ *)
(** * boxing: a statically known Python value seen as a json value *)
Definition jstr (s : string) : json := JStr s.             (* a str *)
Definition jfloat (q : Q) : json := JNum q false.          (* a float *)
Definition jbool (b : bool) : json := JBool b.             (* a bool *)
Definition jlist (l : list json) : json := JList l.        (* a list *)
Definition jdict (d : list (string * json)) : json := JObj d.   (* a dict with str keys *)
Definition jstrs (l : list string) : json := JList (map JStr l).   (* a list of str *)

(* ------------------------------------------------------------------ *)
(** * operations on a value of unknown type *)
(* x == "literal"  (a str is equal to a str only) *)
Definition json_eq_str (x : json) (s : string) : bool :=
  match x with JStr t => String.eqb t s | _ => false end.

(* k in s for two str: substring test *)
Fixpoint str_infix (k s : string) : bool :=
  prefix k s || match s with EmptyString => false | String _ r => str_infix k r end.

(* k in x, k a str *)
Definition json_contains (x : json) (k : string) : M bool :=
  match x with
  | JObj fs => ret (jhas k fs)
  | JList l => ret (existsb (fun y => json_eq_str y k) l)
  | JStr s => ret (str_infix k s)
  | _ => raise (Escape "TypeError")
  end.

(* x[k], k a str *)
Definition json_getitem (x : json) (k : string) : M json :=
  match x with
  | JObj fs => match jget k fs with Some v => ret v | None => raise (Escape "KeyError") end
  | _ => raise (Escape "TypeError")
  end.

(* x.items() / x.values() / x.keys() *)
Definition json_items (x : json) : M (list (string * json)) :=
  match x with JObj fs => ret fs | _ => raise (Escape "AttributeError") end.
Definition json_values (x : json) : M (list json) :=
  match x with JObj fs => ret (map snd fs) | _ => raise (Escape "AttributeError") end.
Definition json_keys (x : json) : M (list string) :=
  match x with JObj fs => ret (map fst fs) | _ => raise (Escape "AttributeError") end.

(* iter(x): for y in x / comprehensions / all(... for y in x) / enumerate(x) / zip(x, ...) *)
Definition json_iter (x : json) : M (list json) := py_iter x.

(* float(x) ; bool(x) ; x != 0 ; Var(x) *)
Definition json_float (s2f : string -> option Q) (x : json) : M Q := Json.py_float s2f x.
Definition json_truth (x : json) : bool := py_truth x.
Definition json_ne_zero (x : json) : bool := ne_zero x.
Definition json_var (pstr : json -> string) (x : json) : var := py_var pstr x.

(* zip(a, b) of two lists: stops at the shorter one *)
Definition py_zip {A B : Type} (a : list A) (b : list B) : list (A * B) := combine a b.

(* ------------------------------------------------------------------ *)
(** * dicts with str (or Var) keys built by the code: association lists in insertion order *)
(* d[k] = v : overwrite in place, or append *)
Fixpoint sdict_set {A : Type} (d : list (string * A)) (k : string) (v : A) : list (string * A) :=
  match d with
  | [] => [(k, v)]
  | (k', v') :: r => if String.eqb k' k then (k', v) :: r else (k', v') :: sdict_set r k v
  end.
(* {key x: value x for x in l if cond x} *)
Definition sdict_comp {X A : Type} (l : list X) (cond : X -> bool) (key : X -> string) (value : X -> A)
  : list (string * A) :=
  fold_left (fun acc x => if cond x then sdict_set acc (key x) (value x) else acc) l [].

(* [f x for x in l] with a body that may raise: left to right, stops at the first exception *)
Definition list_comp_m {X Y : Type} (l : list X) (f : X -> M Y) : M (list Y) := mapM f l.

(* l[i] on a list, i a non-negative int ; assert b *)
Definition list_getitem {A : Type} (l : list A) (i : nat) : M A :=
  match nth_error l i with Some x => ret x | None => raise (Escape "IndexError") end.
Definition py_assert (b : bool) : M unit := if b then ret tt else raise (Escape "AssertionError").

(* ------------------------------------------------------------------ *)
(** * f( **x) *)
(* binding the keyword arguments: x must be a mapping, every key a parameter name, every parameter without
   default given; otherwise TypeError *)
Definition call_kwargs (required optional : list string) (x : json) : M unit := bind_kwargs required optional x.
(* the value bound to parameter k after a successful call_kwargs: given / default *)
Definition kwarg (k : string) (x : json) : json := jget_or_null k x.
Definition kwarg_default (k : string) (default : json) (x : json) : json :=
  match x with
  | JObj fs => match jget k fs with Some v => v | None => default end
  | _ => default
  end.

(* ------------------------------------------------------------------ *)
(** * List[IoContract] as handed to write_contracts_to_file: dispatch by isinstance on the class *)
(* K: the type of PolyhedralIoContractCompound objects (its to_dict is a parameter of the generated code) *)
Inductive any_contract (K : Type) : Type :=
| APoly (c : pcontract)                  (* isinstance(c, PolyhedralIoContract) *)
| ACompound (k : K)                      (* isinstance(c, PolyhedralIoContractCompound) *)
| AOther.                                (* neither *)
Arguments APoly {K} c.
Arguments ACompound {K} k.
Arguments AOther {K}.
