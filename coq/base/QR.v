(* QR.v — bridging the Qred-normalising rational arithmetic of model/Term.v
   (qadd, qmul, ...) to the reals through Q2R, as Leibniz equalities in R.
   The rewrite database [q2r] turns goals about Q2R (q* ...) into goals that
   [lra] / [nra] / [field] close. *)
From Coq Require Import List String Bool QArith Qabs ZArith Reals Qreals Lra.
Require Import Py ListsGen Sem Term.
Local Open Scope R_scope.

Lemma Q2R_0 : Q2R 0 = 0.
Proof. unfold Q2R. simpl. lra. Qed.
Lemma Q2R_1 : Q2R 1 = 1.
Proof. unfold Q2R. simpl. lra. Qed.

Lemma Q2R_Qred q : Q2R (Qred q) = Q2R q.
Proof. apply Qeq_eqR. apply Qred_correct. Qed.

Lemma Q2R_qadd a b : Q2R (qadd a b) = Q2R a + Q2R b.
Proof. unfold qadd. rewrite Q2R_Qred. apply Q2R_plus. Qed.
Lemma Q2R_qsub a b : Q2R (qsub a b) = Q2R a - Q2R b.
Proof. unfold qsub. rewrite Q2R_Qred. apply Q2R_minus. Qed.
Lemma Q2R_qmul a b : Q2R (qmul a b) = Q2R a * Q2R b.
Proof. unfold qmul. rewrite Q2R_Qred. apply Q2R_mult. Qed.
Lemma Q2R_qneg a : Q2R (qneg a) = - Q2R a.
Proof. unfold qneg. rewrite Q2R_Qred. apply Q2R_opp. Qed.
Lemma Q2R_qdiv a b : ~ (b == 0)%Q -> Q2R (qdiv a b) = Q2R a / Q2R b.
Proof. intros Hb. unfold qdiv. rewrite Q2R_Qred. apply Q2R_div. exact Hb. Qed.

Lemma Q2R_Qabs a : Q2R (Qabs a) = Rabs (Q2R a).
Proof.
  apply Qabs_case; intros Ha.
  - apply Qle_Rle in Ha. rewrite Q2R_0 in Ha. rewrite Rabs_pos_eq; [reflexivity|exact Ha].
  - apply Qle_Rle in Ha. rewrite Q2R_0 in Ha. rewrite Q2R_opp.
    rewrite <- Rabs_Ropp. rewrite Rabs_pos_eq; [reflexivity|lra].
Qed.
Lemma Q2R_qabs a : Q2R (qabs a) = Rabs (Q2R a).
Proof. unfold qabs. rewrite Q2R_Qred. apply Q2R_Qabs. Qed.

Lemma Q2R_eq0 q : (q == 0)%Q <-> Q2R q = 0.
Proof.
  split; intros H.
  - rewrite <- Q2R_0. apply Qeq_eqR. exact H.
  - apply eqR_Qeq. rewrite Q2R_0. exact H.
Qed.
Lemma Q2R_neq0 q : ~ (q == 0)%Q <-> Q2R q <> 0.
Proof. rewrite Q2R_eq0. tauto. Qed.

Lemma qzero_true q : qzero q = true -> Q2R q = 0.
Proof. unfold qzero. intros H. apply Qeq_bool_eq in H. apply Q2R_eq0. exact H. Qed.
Lemma qzero_false q : qzero q = false -> Q2R q <> 0.
Proof. unfold qzero. intros H. apply Qeq_bool_neq in H. apply Q2R_neq0. exact H. Qed.
Lemma qzero_true_iff q : qzero q = true <-> (q == 0)%Q.
Proof. unfold qzero. apply Qeq_bool_iff. Qed.
Lemma qzero_false_iff q : qzero q = false <-> ~ (q == 0)%Q.
Proof. rewrite <- qzero_true_iff. destruct (qzero q); split; intros; try congruence; tauto. Qed.

Lemma qle_true a b : qle a b = true -> Q2R a <= Q2R b.
Proof. unfold qle. intros H. apply Qle_Rle. apply Qle_bool_iff. exact H. Qed.
Lemma qle_false a b : qle a b = false -> Q2R b < Q2R a.
Proof.
  unfold qle. intros H. apply Qlt_Rlt. apply Qnot_le_lt. intros Hle.
  apply Qle_bool_iff in Hle. congruence.
Qed.
Lemma qlt_true a b : qlt a b = true -> Q2R a < Q2R b.
Proof. unfold qlt. rewrite negb_true_iff. apply (qle_false b a). Qed.
Lemma qlt_false a b : qlt a b = false -> Q2R b <= Q2R a.
Proof. unfold qlt. rewrite negb_false_iff. apply (qle_true b a). Qed.

Lemma Qeq_bool_Q2R a b : Qeq_bool a b = true -> Q2R a = Q2R b.
Proof. intros H. apply Qeq_eqR. apply Qeq_bool_eq. exact H. Qed.

#[global] Hint Rewrite Q2R_0 Q2R_1 Q2R_Qred Q2R_qadd Q2R_qsub Q2R_qmul Q2R_qneg Q2R_qabs
  Q2R_plus Q2R_minus Q2R_mult Q2R_opp : q2r.
#[global] Hint Rewrite Q2R_qdiv using assumption : q2r.
