(* PySyntax.v — vocabulary of the fourth T1 generator (translator/py2coq_syntax.py -> gen/SyntaxGen.v):
   the syntax layer behind property C09
     pacti/terms/polyhedra/syntax/data.py      (the PolyhedralSyntax* dataclasses)
     pacti/terms/polyhedra/syntax/grammar.py   (the parse ACTIONS _parse_*, not the pyparsing grammar objects)
     pacti/terms/polyhedra/serializer.py       (_expression_to_polyhedral_terms and helpers).
   Hand-written and stable.  One named primitive per Python construct, so that the generated text can be
   read side by side with the Python.  Builds on base/PyDict.v (dict {str: float}, floats = exact rationals,
   loops with break) and base/PyLoop.v (enumerate, Var).

   Conventions (in addition to those of PyDict.v)
   * Python ints are Z ([zlen], [py_index] with Python's negative indices); an int literal used where a float
     is expected is the rational it denotes.
   * Optional[float] is [option Q].
   * a string built by str(x) / repr that is only collected or put into an exception message is the opaque
     value [tt : msg]; the string f"{x}" of a float is the abstract value [float_repr x], which can only be
     compared with the canonical repr of a float constant ([float_repr_is]: repr of floats is injective;
     0.0 and -0.0 are one rational).
   * f"{tl}" of a PolyhedralSyntaxTermList (its __repr__) is NOT translated: it is the abstract value
     [stl_repr_key constant factors] = (items sorted by variable name, constant), compared with [repr_key_eqb]
     (numbers as numbers).  This is an ASSUMPTION about PolyhedralSyntaxTermList.__repr__ / _factor_repr
     (injectivity up to signed zero, for finite floats and grammar-valid names), stated by the translator,
     pinned to the sha256 of the normalised source of the two functions and tested on the real code.
   * pyparsing tokens are dynamically typed: [tok].  Every operation Python performs on a value of the wrong
     dynamic type is an explicit error of the monad (Escape "TypeError" / "IndexError" / "AttributeError"). *)
From Coq Require Import List String Bool QArith ZArith Ascii NArith.
Import ListNotations.
Require Import Py Sem PyDict PyLoop.
Open Scope py_scope.

(* ---------- ints and lists ---------- *)
Definition zlen {A : Type} (l : list A) : Z := Z.of_nat (List.length l).        (* len(l) *)
(* l[i] : Python's negative indices; IndexError outside the range *)
Definition py_index {A : Type} (l : list A) (i : Z) : M A :=
  let n := zlen l in
  let j := if (i <? 0)%Z then (i + n)%Z else i in
  if ((j <? 0) || (n <=? j))%Z then raise (Escape "IndexError")
  else match nth_error l (Z.to_nat j) with
       | Some x => ret x
       | None => raise (Escape "IndexError")
       end.
(* l[n:]   (n a non-negative literal) *)
Definition py_slice_from {A : Type} (l : list A) (n : nat) : list A := skipn n l.
(* l[start::step]   (start >= 0, step >= 1 literals) *)
Fixpoint stride {A : Type} (step k : nat) (l : list A) : list A :=
  match l with
  | [] => []
  | x :: r => match k with
              | O => x :: stride step (Nat.pred step) r
              | S k' => stride step k' r
              end
  end.
Definition py_slice_step {A : Type} (l : list A) (start step : nat) : list A := stride step 0 (skipn start l).
(* l[lo:hi]   (int literals; negative bounds count from the end; out-of-range bounds are clamped) *)
Definition py_slice_range {A : Type} (l : list A) (lo hi : Z) : list A :=
  let n := zlen l in
  let norm := fun i : Z => if (i <? 0)%Z then Z.max 0 (i + n) else Z.min i n in
  let a := norm lo in
  let b := norm hi in
  firstn (Z.to_nat (b - a)) (skipn (Z.to_nat a) l).
(* zip(a, b) *)
Definition py_zip {A B : Type} (a : list A) (b : list B) : list (A * B) := combine a b.
(* enumerate(l) with int indices *)
Definition enumerate_z {X : Type} (l : list X) : list (Z * X) :=
  map (fun p => (Z.of_nat (fst p), snd p)) (enumerate l).
(* itertools.product(l, repeat=n) : the first position varies slowest *)
Fixpoint py_product {A : Type} (l : list A) (n : nat) : list (list A) :=
  match n with
  | O => [[]]
  | S k => flat_map (fun x => map (cons x) (py_product l k)) l
  end.
Definition py_product_z {A : Type} (l : list A) (n : Z) : list (list A) := py_product l (Z.to_nat n).
(* l.append(x) on a list this function built itself *)
Definition py_append {A : Type} (l : list A) (x : A) : list A := l ++ [x].
(* [f(x) for x in l] with a raising f; for x in l: <update x in place> *)
Fixpoint py_map_m {A B : Type} (f : A -> M B) (l : list A) : M (list B) :=
  match l with
  | [] => ret []
  | x :: r => y <- f x ;; ys <- py_map_m f r ;; ret (y :: ys)
  end.

(* ---------- Optional[float] ---------- *)
(* `o or d` : None and 0.0 are falsy *)
Definition opt_or (o : option Q) (d : Q) : Q :=
  match o with
  | None => d
  | Some v => if qzero v then d else v
  end.

(* ---------- strings that are only compared or collected ---------- *)
Definition msg := unit.                                          (* str(x): contents not modelled *)
Definition py_str {A : Type} (x : A) : msg := tt.
Definition float_repr (q : Q) : Q := q.                          (* f"{x}" of a float *)
Definition float_repr_is (r : Q) (c : Q) : bool := Qeq_bool r c.  (* f"{x}" == "<repr of the float c>" *)

(* ---------- sorted(...) on names ---------- *)
Definition chr_cmp (a b : ascii) : comparison := N.compare (N_of_ascii a) (N_of_ascii b).
Fixpoint str_cmp (s1 s2 : string) : comparison :=
  match s1, s2 with
  | EmptyString, EmptyString => Eq
  | EmptyString, _ => Lt
  | _, EmptyString => Gt
  | String a r1, String b r2 => match chr_cmp a b with Eq => str_cmp r1 r2 | c => c end
  end.
Definition str_leb (s1 s2 : string) : bool := match str_cmp s1 s2 with Gt => false | _ => true end.
Fixpoint insert_name (s : string) (l : list string) : list string :=
  match l with
  | [] => [s]
  | q :: r => if str_leb q s then q :: insert_name s r else s :: q :: r
  end.
(* sorted(d) / sorted(l) : stable *)
Definition py_sorted (l : list string) : list string := fold_left (fun acc s => insert_name s acc) l [].

(* ---------- what PolyhedralSyntaxTermList.__repr__ is assumed to be an injective function of ---------- *)
Fixpoint insert_item (p : var * Q) (l : pvars) : pvars :=
  match l with
  | [] => [p]
  | q :: r => if str_leb (fst q) (fst p) then q :: insert_item p r else p :: q :: r
  end.
Definition sorted_items (d : pvars) : pvars := fold_left (fun acc p => insert_item p acc) d [].
Definition repr_key : Type := (pvars * Q)%type.
Definition stl_repr_key (constant : Q) (factors : pvars) : repr_key := (sorted_items factors, constant).
Fixpoint items_eqb (l1 l2 : pvars) : bool :=
  match l1, l2 with
  | [], [] => true
  | (k1, q1) :: r1, (k2, q2) :: r2 => String.eqb k1 k2 && Qeq_bool q1 q2 && items_eqb r1 r2
  | _, _ => false
  end.
Definition repr_key_eqb (a b : repr_key) : bool := items_eqb (fst a) (fst b) && Qeq_bool (snd a) (snd b).

(* ---------- dict {str: float} ---------- *)
Definition dict_len (d : pvars) : Z := zlen d.                    (* len(d) *)
(* d1 == d2 : same keys, equal values; insertion order is not compared *)
Definition dict_eqb (d1 d2 : pvars) : bool :=
  forallb (fun p => match assoc (fst p) d2 with Some q => Qeq_bool (snd p) q | None => false end) d1
  && forallb (fun k => has_key k d1) (keys d2).

(* ---------- pyparsing tokens ---------- *)
(* a token is a str, a float, one of the objects built by earlier parse actions, or a ParseResults
   (pp.Group / the argument `tokens` itself): a list of tokens *)
Section Tokens.
Context {TL AT ATL EX : Type}.
Inductive tok : Type :=
| TokStr (s : string)
| TokFloat (q : Q)
| TokTermList (t : TL)              (* PolyhedralSyntaxTermList *)
| TokAbsTerm (a : AT)               (* PolyhedralSyntaxAbsoluteTerm *)
| TokAbsTermList (l : ATL)          (* PolyhedralSyntaxAbsoluteTermList *)
| TokExpr (e : EX)                  (* PolyhedralSyntaxExpression *)
| TokGroup (l : list tok).          (* pp.ParseResults *)

Fixpoint str_chars (s : string) : list string :=
  match s with
  | EmptyString => []
  | String a r => String a EmptyString :: str_chars r
  end.
(* iter(t): the items of a ParseResults, the characters of a str; TypeError otherwise *)
Definition tok_items (t : tok) : M (list tok) :=
  match t with
  | TokGroup l => ret l
  | TokStr s => ret (map TokStr (str_chars s))
  | _ => raise (Escape "TypeError")
  end.
Definition tok_len (t : tok) : M Z := l <- tok_items t ;; ret (zlen l).                 (* len(t) *)
Definition tok_index (t : tok) (i : Z) : M tok := l <- tok_items t ;; py_index l i.      (* t[i] *)
Definition tok_slice_step (t : tok) (start step : nat) : M (list tok) :=                 (* t[start::step] *)
  l <- tok_items t ;; ret (py_slice_step l start step).
(* t.asList() : only a ParseResults has it *)
Definition tok_as_list (t : tok) : M (list tok) :=
  match t with
  | TokGroup l => ret l
  | _ => raise (Escape "AttributeError")
  end.
(* t == "literal" : False for anything that is not a str *)
Definition tok_eq_str (t : tok) (s : string) : bool :=
  match t with
  | TokStr s' => String.eqb s' s
  | _ => false
  end.
(* t in {"a", "b"} : the dataclass objects are unhashable (eq=True without frozen) *)
Definition tok_in_strs (t : tok) (l : list string) : M bool :=
  match t with
  | TokStr s => ret (existsb (String.eqb s) l)
  | TokFloat _ | TokGroup _ => ret false
  | _ => raise (Escape "TypeError")
  end.
(* dynamic float arithmetic; anything else than two floats is rendered as TypeError *)
Definition tok_arith (op : Q -> Q -> M Q) (a b : tok) : M tok :=
  match a, b with
  | TokFloat x, TokFloat y => q <- op x y ;; ret (TokFloat q)
  | _, _ => raise (Escape "TypeError")
  end.
Definition tok_add : tok -> tok -> M tok := tok_arith (fun x y => ret (qadd x y)).
Definition tok_sub : tok -> tok -> M tok := tok_arith (fun x y => ret (qsub x y)).
Definition tok_mul : tok -> tok -> M tok := tok_arith (fun x y => ret (qmul x y)).
Definition tok_div : tok -> tok -> M tok := tok_arith py_div.
(* a token handed to a method that is annotated with a class: the callee's first attribute access fails *)
Definition tok_as_term_list (t : tok) : M TL :=
  match t with TokTermList x => ret x | _ => raise (Escape "AttributeError") end.
End Tokens.
Arguments tok : clear implicits.
