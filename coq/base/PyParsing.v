(* PyParsing.v — the vocabulary of gen/GrammarGen.v that model/Grammar.v does not already provide: one
   combinator per pyparsing construct that translator/py2coq_grammar.py maps and that has no direct counterpart
   among  bind / alt / opt / many / many1 / lit / lit_raw / variable / digits1  of model/Grammar.v.
   Definitions only (hand-written, NOT generated); the facts used by the equality proofs are in
   proofs/GrammarGenBase.v.

     pp.Or([a, b]) , a ^ b      por a b            longest match, ties to the first alternative
     Or over a rule whose parse actions evaluate (and may raise)    or_actions (por a b)
     pp.oneOf("s1 s2 ...")      one_of [(s1, v1); ...]   (outside a Combine: the tree value of each spelling)
                                one_of_raw [s1; ...]     (inside a Combine: the matched text)
     "t" / pp.Literal("t") inside a Combine         lit_text_raw t
     pp.CaselessLiteral("t") inside a Combine       caseless_literal_raw t   (returns t, NOT the matched text)
     a + b  inside a Combine    cat a b            texts concatenated
     pp.Optional(a) inside a Combine                opt_text a
     pp.Combine(a)              combine a          whitespace skipped once, before the token; none inside
     pp.infixNotation(base, [(op, 2, LEFT, action), ...])           infix_notation base levels n *)
From Coq Require Import List String Ascii Bool NArith Arith.
Import ListNotations.
Require Import Py Ast Grammar.
Local Open Scope string_scope.

Definition pfail {A} : parser A := fun _ => RFail.

(* ---------------------------------------------------------------- Or (longest match) *)
(* pyparsing's Or tries EVERY alternative at the same position (parse actions off), keeps the one that
   consumed most — the first one among equals — and re-parses it with parse actions on.  An exception that is
   not a ParseException (here: running out of fuel, ZeroDivisionError) escapes from whichever alternative
   raises it. *)
Definition por {A} (p q : parser A) : parser A :=
  fun s => match p s with
           | ROk a r => match q s with
                        | ROk b r' => if Nat.ltb (String.length r') (String.length r) then ROk b r' else ROk a r
                        | RFail => ROk a r
                        | ROut => ROut
                        | RDiv => RDiv
                        end
           | RFail => q s
           | ROut => ROut
           | RDiv => RDiv
           end.
(* The parse actions of a constant (float(...), _parse_arithmetic_chain) EVALUATE it; inside an Or they are
   switched off while the alternatives are compared and run when the winner is re-parsed: the constant is
   evaluated exactly when the whole alternative matched, and a division by zero then escapes. *)
Definition or_actions (p : parser cexpr) : parser cexpr := e <- p ;; div_check e.

(* ---------------------------------------------------------------- oneOf *)
(* pp.oneOf tries the spellings in the given order once none of them is a proper prefix of a later one (the
   translator checks this; otherwise oneOf reorders them). *)
Fixpoint one_of {A} (l : list (string * A)) : parser A :=
  match l with
  | [] => pfail
  | [(t, a)] => skip lit t ;; ret a
  | (t, a) :: r => alt (skip lit t ;; ret a) (one_of r)
  end.
Fixpoint one_of_raw (l : list string) : parser string :=
  match l with
  | [] => pfail
  | [t] => skip lit_raw t ;; ret t
  | t :: r => alt (skip lit_raw t ;; ret t) (one_of_raw r)
  end.

(* ---------------------------------------------------------------- inside a Combine: texts *)
Definition lit_text_raw (t : string) : parser string := skip lit_raw t ;; ret t.

Definition to_upper (c : ascii) : ascii :=
  if in_range "a" "z" c then ascii_of_N (N_of_ascii c - 32) else c.
Fixpoint strip_prefix_caseless (t s : string) : option string :=
  match t with
  | EmptyString => Some s
  | String a t' => match s with
                   | String b s' => if Ascii.eqb (to_upper a) (to_upper b) then strip_prefix_caseless t' s' else None
                   | EmptyString => None
                   end
  end.
(* pp.CaselessLiteral(t): the token is the DEFINING string t whatever the case of the input *)
Definition caseless_literal_raw (t : string) : parser string :=
  fun s => match strip_prefix_caseless t s with Some r => ROk t r | None => RFail end.

Definition cat (p q : parser string) : parser string := x <- p ;; y <- q ;; ret (x ++ y).
Definition opt_text (p : parser string) : parser string := o <- opt p ;; ret (str_or_empty o).
Definition combine {A} (p : parser A) : parser A := fun s => p (skip_ws s).

(* ---------------------------------------------------------------- infixNotation *)
(* pyparsing builds, for the levels in the given order (tightest first),
     level_i = FollowedBy(level_{i-1} op level_{i-1}) + Group(level_{i-1} (op level_{i-1})+) | level_{i-1}
   with  level_0 = base | "(" whole ")"  (parentheses suppressed); a LEFT-associative binary level hands the whole
   chain to its parse action at once. *)
Definition infix_level (A Op : Type) : Type := (parser Op * (A -> list (Op * A) -> A))%type.
Definition infix_chain {A Op} (lv : infix_level A Op) (p : parser A) : parser A :=
  a <- p ;;
  l <- many (o <- fst lv ;; b <- p ;; ret (o, b)) ;;
  ret (match l with [] => a | _ => snd lv a l end).
Fixpoint infix_levels {A Op} (p : parser A) (levels : list (infix_level A Op)) : parser A :=
  match levels with
  | [] => p
  | lv :: rest => infix_levels (infix_chain lv p) rest
  end.
Fixpoint infix_notation {A Op} (base : parser A) (levels : list (infix_level A Op)) (n : nat) : parser A :=
  match n with
  | O => pout
  | S n' => infix_levels
              (alt base (skip lit "(" ;; e <- infix_notation base levels n' ;; skip lit ")" ;; ret e)) levels
  end.

(* ---------------------------------------------------------------- trees of the intermediate rules *)
(* what first_term / signed_term return: a sign and a term *)
Definition sterm : Type := (sign * lterm)%type.
(* abs_term: [coefficient] | terms | *)
Definition absterm : Type := (option cexpr * lterms)%type.
(* paren_abs_or_terms: [coefficient] ( abs_or_terms ) *)
Definition pgroup : Type := (option cexpr * list aterm)%type.

(* _parse_number_and_variable scales the term list it receives as last token (asserting that its constant is 0);
   on the tree of `variable` this is TNumVar; total: k * (t) in general. *)
Definition num_times_var (k : cexpr) (t : lterm) : lterm :=
  match t with
  | TVar v => TNumVar k v
  | _ => TNumParen k (Terms Plus t [])
  end.
