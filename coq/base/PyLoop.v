(* PyLoop.v — vocabulary of the third T1 generator (gen/CompoundGen.v, gen/WrapGen.v): one named
   primitive per Python construct, so that the generated text mirrors the source line by line.
   Hand-written and stable.  Loops without `return` use [for_list]/[for_list_m] of base/PyDict.v
   (Continue = fall off the end of the body or `continue`, Break = `break`); loops whose body contains a
   `return` use [for_ret]/[for_ret_m] below. *)
From Coq Require Import List String Bool Arith.
Import ListNotations.
Require Import Py PyDict.
Open Scope py_scope.

(* ---------- loops whose body may `return` ---------- *)
(* what one execution of the body does: fall off the end / `continue` (Next), `break` (Stop),
   `return r` (Return) *)
Inductive step (A R : Type) : Type := Next (a : A) | Stop (a : A) | Return (r : R).
Arguments Next {A R} a.
Arguments Stop {A R} a.
Arguments Return {A R} r.
(* what the whole loop did: ran to its end or was left by `break` (Done, with the final values of the
   variables assigned in the body) or executed a `return` (Returned) *)
Inductive outcome (A R : Type) : Type := Done (a : A) | Returned (r : R).
Arguments Done {A R} a.
Arguments Returned {A R} r.

Fixpoint for_ret {X A R : Type} (l : list X) (acc : A) (body : A -> X -> step A R) : outcome A R :=
  match l with
  | [] => Done acc
  | x :: r => match body acc x with
              | Next a => for_ret r a body
              | Stop a => Done a
              | Return v => Returned v
              end
  end.
Fixpoint for_ret_m {X A R : Type} (l : list X) (acc : A) (body : A -> X -> M (step A R)) : M (outcome A R) :=
  match l with
  | [] => ret (Done acc)
  | x :: r => bind (body acc x)
                   (fun c => match c with
                             | Next a => for_ret_m r a body
                             | Stop a => ret (Done a)
                             | Return v => ret (Returned v)
                             end)
  end.

(* ---------- enumerate(l) ---------- *)
Fixpoint enumerate_from {X : Type} (n : nat) (l : list X) : list (nat * X) :=
  match l with
  | [] => []
  | x :: r => (n, x) :: enumerate_from (S n) r
  end.
Definition enumerate {X : Type} (l : list X) : list (nat * X) := enumerate_from 0 l.

(* ---------- try: x = m ; rest-of-body  except ValueError: h ---------- *)
(* [m] is the only operation of the try body that can raise (the translator checks that what follows
   it inside the body cannot); [k] is the rest of the body AND what follows the try statement;
   [h] is the handler, which the translator requires to end in continue/break/return/raise. *)
Definition try_bind {A B : Type} (m : M A) (k : A -> M B) (h : M B) : M B :=
  match m with
  | inl a => k a
  | inr e => if is_value_error e then h else inr e
  end.

(* ---------- all(f(x) for x in l) / any(f(x) for x in l) : left to right, short-circuit ---------- *)
Definition py_all {X : Type} (l : list X) (f : X -> bool) : bool := forallb f l.
Definition py_any {X : Type} (l : list X) (f : X -> bool) : bool := existsb f l.
Fixpoint all_m {X : Type} (l : list X) (f : X -> M bool) : M bool :=
  match l with
  | [] => ret true
  | x :: r => bind (f x) (fun b => if b then all_m r f else ret false)
  end.
Fixpoint any_m {X : Type} (l : list X) (f : X -> M bool) : M bool :=
  match l with
  | [] => ret false
  | x :: r => bind (f x) (fun b => if b then ret true else any_m r f)
  end.

(* ---------- Var ---------- *)
(* Var(name): self._name = str(name); str of a str is itself and str of a Var is its name, so in the
   name model (var = string) the constructor is the identity on both *)
Definition Var (name : string) : var := name.
(* v.name *)
Definition var_name (v : var) : string := v.

(* ---------- the term-list type NestedTermList / IoContractCompound are generic in ---------- *)
(* one field per operation of the TermList subclass that compundiocontract.py calls *)
Class TLDomain := {
  tlist : Type;                                            (* the TermList subclass *)
  behavior_t : Type;                                       (* Dict[Var, numeric] *)
  tl_or : tlist -> tlist -> tlist;                         (* a | b   (TermList.__or__) *)
  tl_is_empty : tlist -> M bool;                           (* a.is_empty() *)
  tl_le : tlist -> tlist -> M bool;                        (* a <= b   (TermList.__le__ = refines) *)
  tl_simplify : tlist -> tlist -> M tlist;                 (* a.simplify(context) *)
  tl_contains_behavior : tlist -> behavior_t -> M bool;    (* a.contains_behavior(behavior) *)
  tl_copy : tlist -> tlist;                                (* a.copy() *)
  tl_vars : tlist -> list var                              (* a.vars *)
}.

(* map over the result of a monadic computation (used to state equalities across record types) *)
Definition mmap {A B : Type} (f : A -> B) (m : M A) : M B :=
  match m with inl a => inl (f a) | inr e => inr e end.
