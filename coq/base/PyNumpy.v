(* PyNumpy.v — vocabulary of the T1 generator translator/py2coq_poly.py (-> gen/PolyGen.v): the numpy / scipy part of
   pacti.terms.polyhedra.polyhedra (termlist_to_polytope, polytope_to_termlist, reduce_polytope, simplify,
   is_polytope_empty, is_empty, verify_polytope_containment, refines, optimize).  Hand-written and stable.  One NAMED
   primitive per numpy construct, so that the generated text can be read side by side with the Python.

   Conventions (on top of those of PyDict.v / PyLoop.v / PyTermList.v)
   * floats are the exact rationals they denote (qadd, qmul, ... of PyDict.v); dtype is not modelled (every array
     built by the translated functions holds Python floats); NaN, inf, rounding, warnings: not modelled;
   * an ndarray is its SHAPE and its entries: a 1-D array (A1 v, shape (len v,)) or a 2-D array (A2 m rows, shape
     (len rows, m); well-formed when every row has length m).  The column count is kept because numpy keeps it when
     there is no row: np.array([[]]) has shape (1, 0), np.delete of the last row of an (1, m) array has shape (0, m),
     whereas np.array([]) has shape (0,).  0-d arrays and arrays of more than two dimensions are not modelled;
   * every site where numpy / Python raises is an explicit error of the monad M: shape mismatches and failed
     unpacking are ValueError (ValueErr), bad indices Escape "IndexError", list(<scalar>) Escape "TypeError";
   * where the typed model cannot follow the Python (an expression x[i] used as a float on a 2-D array, or used as
     an array on a 1-D array: numpy would go on with a value of the other kind) the primitive raises
     Escape "NumpyShape": the model says that it does not know.  The equality theorems of proofs/PolyGen*.v show
     that this never happens on the shapes that the translated functions build;
   * arrays are immutable values.  b[i] += v on a local array that was built by the same function (np.copy,
     np.delete, np.array, ...) and that no live name aliases is the rebinding  b <- np_setitem b i (... + v)  (the
     translator checks the aliasing condition syntactically);
   * scipy.optimize.linprog is ONE abstract primitive (class LPSolver).  Its first argument names the columns (the
     variable list produced by termlist_to_polytope): the replay oracle of model/Poly.v matches recorded problems by
     column name.  The Python passes no such argument: the translator threads it as a ghost parameter lp_vars. *)
From Coq Require Import List String Bool Arith ZArith QArith.
Import ListNotations.
Require Import Py Sem PyDict PyLoop PyTermList.
Open Scope py_scope.

(* ---------- arrays ---------- *)
Inductive ndarr (A : Type) : Type :=
| A1 (v : list A)                          (* shape (len v,) *)
| A2 (m : nat) (rows : list (list A)).     (* shape (len rows, m) *)
Arguments A1 {A} v.
Arguments A2 {A} m rows.
Notation ndarray := (ndarr Q).             (* float entries *)
Notation barray := (ndarr bool).           (* result of an element-wise comparison *)

Definition same_len {A : Type} (m : nat) (rows : list (list A)) : bool :=
  forallb (fun r => Nat.eqb (len r) m) rows.
Definition wf_arr {A : Type} (a : ndarr A) : Prop :=
  match a with A1 _ => True | A2 m rows => same_len m rows = true end.

(* np.array(l), l a list of floats (also np.array([]), np.array([x])) *)
Definition np_array_1d (l : list Q) : ndarray := A1 l.
(* np.array(l), l a list of lists of floats: an empty list gives the 1-D empty array; ragged rows: ValueError *)
Definition np_array_2d (l : list (list Q)) : M ndarray :=
  match l with
  | [] => ret (A1 [])
  | r :: _ => if same_len (len r) l then ret (A2 (len r) l) else raise ValueErr
  end.
(* np.zeros((n, m)) *)
Definition np_zeros_2d (n m : nat) : ndarray := A2 m (repeat (repeat (0 # 1)%Q m) n).
(* np.copy(a) *)
Definition np_copy (a : ndarray) : ndarray := a.

(* a.shape *)
Definition np_shape {A : Type} (a : ndarr A) : list nat :=
  match a with A1 v => [len v] | A2 m rows => [len rows; m] end.
(* len(a) : the first dimension *)
Definition np_len {A : Type} (a : ndarr A) : nat :=
  match a with A1 v => len v | A2 _ rows => len rows end.
(* a.size *)
Definition np_size {A : Type} (a : ndarr A) : nat :=
  match a with A1 v => len v | A2 m rows => (len rows * m)%nat end.
(* x, y = t   on a tuple / shape of unknown length: ValueError unless it has exactly two components *)
Definition py_unpack2 {X : Type} (l : list X) : M (X * X) :=
  match l with [x; y] => ret (x, y) | _ => raise ValueErr end.

(* ---------- indexing ---------- *)
Fixpoint remove_nth {X : Type} (i : nat) (l : list X) : list X :=
  match l, i with
  | [], _ => []
  | _ :: r, O => r
  | x :: r, S k => x :: remove_nth k r
  end.
(* a[i, :]  : row i of a 2-D array as a 1-D array; on a 1-D array: IndexError (too many indices) *)
Definition np_row (a : ndarray) (i : nat) : M ndarray :=
  match a with
  | A2 _ rows => bind (list_get_m rows i) (fun r => ret (A1 r))
  | A1 _ => raise (Escape "IndexError")
  end.
(* a[i] where an ARRAY is expected (e.g. as the objective of linprog): row i of a 2-D array; on a 1-D array numpy
   yields a scalar, which this model does not follow *)
Definition np_index_arr (a : ndarray) (i : nat) : M ndarray :=
  match a with
  | A2 _ rows => bind (list_get_m rows i) (fun r => ret (A1 r))
  | A1 v => bind (list_get_m v i) (fun _ => raise (Escape "NumpyShape"))
  end.
(* a[i] where a FLOAT is expected: entry i of a 1-D array; on a 2-D array numpy yields a row, which this model does
   not follow *)
Definition np_item (a : ndarray) (i : nat) : M Q :=
  match a with
  | A1 v => list_get_m v i
  | A2 _ rows => bind (list_get_m rows i) (fun _ => raise (Escape "NumpyShape"))
  end.
(* list(a[i]) : the entries of row i; on a 1-D array a[i] is a scalar and list(scalar) raises TypeError *)
Definition np_row_list (a : ndarray) (i : nat) : M (list Q) :=
  match a with
  | A2 _ rows => list_get_m rows i
  | A1 v => bind (list_get_m v i) (fun _ => raise (Escape "TypeError"))
  end.
(* a[[i1, ..., ik], :]  (fancy indexing: a new 2-D array with the listed rows) *)
Definition np_rows (a : ndarray) (idx : list nat) : M ndarray :=
  match a with
  | A2 m rows => bind (map_m (fun i => list_get_m rows i) idx) (fun rs => ret (A2 m rs))
  | A1 _ => raise (Escape "IndexError")
  end.
(* a[idx], idx a list of ints (fancy indexing along the first axis) *)
Definition np_take (a : ndarray) (idx : list nat) : M ndarray :=
  match a with
  | A1 v => bind (map_m (fun i => list_get_m v i) idx) (fun xs => ret (A1 xs))
  | A2 m rows => bind (map_m (fun i => list_get_m rows i) idx) (fun rs => ret (A2 m rs))
  end.
(* a[i] = x on an array no live name aliases: entry i of a 1-D array; on a 2-D array the scalar is broadcast over row i *)
Definition np_setitem (a : ndarray) (i : nat) (x : Q) : M ndarray :=
  match a with
  | A1 v => bind (list_set_m v i x) (fun v' => ret (A1 v'))
  | A2 m rows => bind (list_set_m rows i (repeat x m)) (fun rs => ret (A2 m rs))
  end.
(* np.delete(a, i, 0) *)
Definition np_delete_axis0 (a : ndarray) (i : nat) : M ndarray :=
  match a with
  | A1 v => if Nat.ltb i (len v) then ret (A1 (remove_nth i v)) else raise (Escape "IndexError")
  | A2 m rows => if Nat.ltb i (len rows) then ret (A2 m (remove_nth i rows)) else raise (Escape "IndexError")
  end.
(* np.delete(a, i)  (no axis: the array is flattened first) *)
Definition np_delete_flat (a : ndarray) (i : nat) : M ndarray :=
  let v := match a with A1 v => v | A2 _ rows => List.concat rows end in
  if Nat.ltb i (len v) then ret (A1 (remove_nth i v)) else raise (Escape "IndexError").

(* ---------- combining ---------- *)
(* np.concatenate((a, b), axis=0) / np.concatenate((a, b)) : ValueError unless both have the same number of
   dimensions and, for 2-D arrays, the same number of columns *)
Definition np_concatenate (a b : ndarray) : M ndarray :=
  match a, b with
  | A1 v, A1 w => ret (A1 (v ++ w))
  | A2 m r, A2 m' s => if Nat.eqb m m' then ret (A2 m (r ++ s)) else raise ValueErr
  | _, _ => raise ValueErr
  end.

(* ---------- element-wise arithmetic with a scalar ---------- *)
Definition np_map {A B : Type} (f : A -> B) (a : ndarr A) : ndarr B :=
  match a with A1 v => A1 (map f v) | A2 m rows => A2 m (map (map f) rows) end.
Definition np_scale (a : ndarray) (k : Q) : ndarray := np_map (fun x => qmul x k) a.     (* a * k, k * a *)
Definition np_add_scalar (a : ndarray) (k : Q) : ndarray := np_map (fun x => qadd x k) a. (* a + k *)
Definition np_sub_scalar (a : ndarray) (k : Q) : ndarray := np_map (fun x => qsub x k) a. (* a - k *)
Definition np_neg (a : ndarray) : ndarray := np_map qneg a.                              (* -a *)
Definition np_abs (a : ndarray) : ndarray := np_map qabs a.                              (* np.abs(a) *)
(* a / k : numpy answers inf / nan with a warning when k == 0, which is not modelled *)
Definition np_div_scalar (a : ndarray) (k : Q) : M ndarray :=
  if qzero k then raise (Escape "NumpyNonFinite") else ret (np_map (fun x => qdiv x k) a).
Definition np_flat {A : Type} (a : ndarr A) : list A :=
  match a with A1 v => v | A2 _ rows => List.concat rows end.
(* np.max(a) / a.max() : ValueError on an array without entries *)
Definition np_max (a : ndarray) : M Q :=
  match np_flat a with
  | [] => raise ValueErr
  | x :: r => ret (fold_left (fun acc y => if qlt acc y then y else acc) r x)
  end.

(* ---------- element-wise comparisons with a scalar, any / all ---------- *)
Definition np_lt (a : ndarray) (k : Q) : barray := np_map (fun x => qlt x k) a.          (* a < k *)
Definition np_le (a : ndarray) (k : Q) : barray := np_map (fun x => qle x k) a.          (* a <= k *)
Definition np_gt (a : ndarray) (k : Q) : barray := np_map (fun x => qgt x k) a.          (* a > k *)
Definition np_ge (a : ndarray) (k : Q) : barray := np_map (fun x => qge x k) a.          (* a >= k *)
Definition np_eq (a : ndarray) (k : Q) : barray := np_map (fun x => q_eqb x k) a.        (* a == k *)
Definition np_ne (a : ndarray) (k : Q) : barray := np_map (fun x => q_neb x k) a.        (* a != k *)
Definition np_any (b : barray) : bool := existsb (fun x => x) (np_flat b).               (* np.any(b) *)
Definition np_all (b : barray) : bool := forallb (fun x => x) (np_flat b).               (* np.all(b) *)
Definition np_invert (b : barray) : barray := np_map negb b.                             (* ~b *)
(* np.isclose(x, y) on scalars with the default tolerances rtol = 1e-05, atol = 1e-08 (the doubles, exactly) *)
Definition np_rtol : Q := (5902958103587057 # 590295810358705651712)%Q.
Definition np_atol : Q := (3022314549036573 # 302231454903657293676544)%Q.
Definition np_isclose (x y : Q) : bool := qle (qabs (qsub x y)) (qadd np_atol (qmul np_rtol (qabs y))).
(* np.isclose(a, k), a an array *)
Definition np_isclose_arr (a : ndarray) (k : Q) : barray := np_map (fun x => np_isclose x k) a.
(* np.array_equal(a, b) : same shape and same entries *)
Definition np_array_equal (a b : ndarray) : bool :=
  py_eqb (np_shape a) (np_shape b)
  && forallb (fun p => q_eqb (fst p) (snd p)) (combine (np_flat a) (np_flat b)).
(* np.where(c, a, k), a an array, k a scalar: ValueError when the shapes of c and a differ (no broadcasting modelled) *)
Definition np_where (c : barray) (a : ndarray) (k : Q) : M ndarray :=
  let pick := fun (p : bool * Q) => if fst p then snd p else k in
  match c, a with
  | A1 cv, A1 v => if Nat.eqb (len cv) (len v) then ret (A1 (map pick (combine cv v))) else raise ValueErr
  | A2 m cr, A2 m' r =>
      if Nat.eqb m m' && Nat.eqb (len cr) (len r)
      then ret (A2 m (map (fun p => map pick (combine (fst p) (snd p))) (combine cr r)))
      else raise ValueErr
  | _, _ => raise ValueErr
  end.

(* ---------- ints that count ---------- *)
(* n -= k on an int that counts (nat): the model does not follow negative counts *)
Definition py_nat_sub (n k : nat) : M nat :=
  if Nat.leb k n then ret (n - k)%nat else raise (Escape "NegativeCount").

(* ---------- while ---------- *)
(* while cond: body    with explicit fuel (the translator names the expression it uses; Escape "fuel" when the
   condition still holds after that many iterations).  Continue = fall off the end of the body or `continue`,
   Break = `break` *)
Fixpoint while_m {A : Type} (fuel : nat) (acc : A) (cond : A -> bool) (body : A -> M (ctl A)) : M A :=
  if cond acc then
    match fuel with
    | O => raise (Escape "fuel")
    | S k => bind (body acc) (fun c => match c with Continue a => while_m k a cond body | Break a => ret a end)
    end
  else ret acc.

(* ---------- scipy.optimize.linprog ---------- *)
(* the fields of the OptimizeResult that are read (always present in a result of linprog); fun / x / slack are None
   unless status == 0 *)
Record lp_result := mkRes {
  res_status : nat;                 (* res["status"] *)
  res_fun : option Q;               (* res["fun"] *)
  res_x : option (list Q);          (* res["x"] *)
  res_slack : option (list Q)       (* res["slack"] *)
}.
(* linprog(c=c, A_ub=a, b_ub=b, bounds=(None, None)); the first argument names the columns (ghost) *)
Class LPSolver := {
  np_linprog : list var -> ndarray -> ndarray -> ndarray -> M lp_result
}.
