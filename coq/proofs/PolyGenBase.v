(* PolyGenBase.v — shared helpers for the T1 tie of the LP / numpy functions of polyhedra.py (gen/PolyGen.v, generated
   by translator/py2coq_poly.py) to the hand model model/Poly.v (see PolyGenFacts.v):
   the instance of the one abstract primitive (class LPSolver of base/PyNumpy.v: scipy's linprog) built from the
   oracle O of model/Poly.v behind scipy's input validation, the arrays that termlist_to_polytope builds from rows,
   and "shape" lemmas reading the loops of the generated text as maps. *)
From Coq Require Import List String Bool Arith QArith ZArith Lia.
Import ListNotations.
Require Import Py ListsGen ConstGen Sem PyDict PyLoop PyTermList PyNumpy Term Poly TermGen ListsFacts TermFacts
  TermGenFacts TermListGenBase.
Open Scope py_scope.
Local Open Scope nat_scope.

(* ------------------------------------------------------------------ *)
(** * linprog, instantiated with the oracle *)
(* scipy squeezes c and b_ub: singleton dimensions disappear *)
Definition lp_squeeze (a : ndarray) : option (list Q) :=
  match a with
  | A1 v => Some v
  | A2 m rows => match rows with
                 | [r] => Some r
                 | _ => if Nat.eqb m 1 then Some (List.concat rows) else None
                 end
  end.
Definition lp_result_of (r : lp_answer) : M lp_result :=
  match r with
  | LpOpt f s => ret (mkRes 0 (Some f) None (Some s))       (* x is not part of lp_answer: no translated function reads it *)
  | LpInfeasible => ret (mkRes 2 None None None)
  | LpUnbounded => ret (mkRes 3 None None None)
  | LpOther _ => ret (mkRes 1 None None None)               (* status 1 / 4: neither 0, 2 nor 3; res.fun is None *)
  | LpMiss => raise OracleMiss
  end.
(* linprog(c=c, A_ub=a, b_ub=b, bounds=(None, None)) : "Invalid input for linprog" (ValueError) unless c squeezes to a
   non-empty vector, A_ub is 2-D with len(c) columns and b_ub squeezes to one bound per row; then the solver *)
Definition oracle_linprog (O : oracle) (vs : list var) (c a b : ndarray) : M lp_result :=
  match lp_squeeze c with
  | None | Some [] => raise ValueErr
  | Some cv =>
      match a with
      | A1 _ => raise ValueErr
      | A2 m rows =>
          if negb (Nat.eqb m (len cv)) then raise ValueErr else
          match lp_squeeze b with
          | None => raise ValueErr
          | Some bv => if Nat.eqb (len bv) (len rows) then lp_result_of (O (mkLP vs cv (combine rows bv)))
                       else raise ValueErr
          end
      end
  end.
Definition poly_lp (O : oracle) : LPSolver := {| np_linprog := oracle_linprog O |}.

(* ------------------------------------------------------------------ *)
(** * The arrays built from rows *)
(* np.array(a), a the list of coefficient rows: no row gives the 1-D empty array *)
Definition mat_of (m : nat) (rows : list (list Q)) : ndarray :=
  match rows with [] => A1 [] | _ => A2 m rows end.
(* a_h_ret of termlist_to_polytope: np.array([[]]) (shape (1, 0)) when there is no context term *)
Definition ctx_mat_of (m : nat) (rows : list (list Q)) : ndarray :=
  match rows with [] => A2 0 [[]] | _ => A2 m rows end.
Definition rows_len (m : nat) (rows : list (list Q)) : Prop := Forall (fun r => List.length r = m) rows.

Lemma same_len_rows m rows : rows_len m rows -> same_len m rows = true.
Proof.
  intros H. unfold rows_len in H. unfold same_len. apply forallb_forall. intros r Hr. rewrite Forall_forall in H.
  unfold len. rewrite (H r Hr). apply Nat.eqb_refl.
Qed.
Lemma np_array_2d_rows m rows : rows_len m rows -> np_array_2d rows = ret (mat_of m rows).
Proof.
  intros H. destruct rows as [|r rest]; [reflexivity|].
  unfold np_array_2d. pose proof (Forall_inv H) as Hr. cbn beta in Hr. unfold len. rewrite Hr.
  rewrite (same_len_rows m (r :: rest) H). reflexivity.
Qed.
Lemma rows_len_terms vs (ts : list pterm) : rows_len (List.length vs) (map (fun t => fst (term_to_row vs t)) ts).
Proof.
  unfold rows_len. apply Forall_forall. intros r Hr. apply in_map_iff in Hr. destruct Hr as [t [<- _]].
  unfold term_to_row. cbn [fst]. apply map_length.
Qed.
Lemma combine_fst_snd {A B} (l : list (A * B)) : combine (map fst l) (map snd l) = l.
Proof. induction l as [|[a b] r IH]; [reflexivity|]. cbn. rewrite IH. reflexivity. Qed.
Lemma map_fst_rows vs (ts : list pterm) :
  map fst (map (term_to_row vs) ts) = map (fun t => fst (term_to_row vs t)) ts.
Proof. rewrite map_map. reflexivity. Qed.
Lemma map_snd_rows vs (ts : list pterm) : map snd (map (term_to_row vs) ts) = map tconst ts.
Proof. rewrite map_map. reflexivity. Qed.

(* ------------------------------------------------------------------ *)
(** * Loops *)
(* for x in l: acc.append(g x) *)
Lemma loop_m_map {X Y} (g : X -> Y) body (l : list X) acc :
  (forall a x, body a x = ret (Continue (a ++ [g x]))) ->
  for_list_m l acc body = ret (acc ++ map g l).
Proof.
  intros Hb. revert acc. induction l as [|x r IH]; intros acc; cbn [for_list_m map].
  - rewrite app_nil_r. reflexivity.
  - rewrite Hb, bind_ret_l, IH, <- app_assoc. reflexivity.
Qed.
(* two lists filled in the same loop *)
Lemma loop_m_map2 {X Y Z} (g : X -> Y) (h : X -> Z) body (l : list X) a b :
  (forall a b x, body (a, b) x = ret (Continue (a ++ [g x], b ++ [h x]))) ->
  for_list_m l (a, b) body = ret (a ++ map g l, b ++ map h l).
Proof.
  intros Hb. revert a b. induction l as [|x r IH]; intros a b; cbn [for_list_m map].
  - rewrite !app_nil_r. reflexivity.
  - rewrite Hb, bind_ret_l, IH, <- !app_assoc. reflexivity.
Qed.

Lemma remove_nth_app {X} (l1 : list X) x l2 : remove_nth (List.length l1) (l1 ++ x :: l2) = l1 ++ l2.
Proof. induction l1 as [|y r IH]; [reflexivity|]. cbn. rewrite IH. reflexivity. Qed.
Lemma list_get_m_app {X} (l1 : list X) x l2 : list_get_m (l1 ++ x :: l2) (List.length l1) = ret x.
Proof. induction l1 as [|y r IH]; [reflexivity|]. cbn. exact IH. Qed.
Lemma list_set_m_app {X} (l1 : list X) x l2 v :
  list_set_m (l1 ++ x :: l2) (List.length l1) v = ret (l1 ++ v :: l2).
Proof. induction l1 as [|y r IH]; [reflexivity|]. cbn. rewrite IH. reflexivity. Qed.

(* ------------------------------------------------------------------ *)
(** * Rationals in canonical form *)
(* model arithmetic normalises with Qred; a constant that is not in lowest terms denotes the same number but is a
   different value of type Q.  (b + 1) - 1 = b holds for canonical b (in exact arithmetic: in floats it does not) *)
Definition qcanon (q : Q) : Prop := Qred q = q.
Lemma qsub_qadd_1 b : qcanon b -> qsub (qadd b 1) 1 = b.
Proof.
  intros Hb. unfold qcanon in Hb. unfold qsub, qadd. rewrite <- Hb at 2. apply Qred_complete. rewrite Qred_correct. ring.
Qed.
Lemma qmul_m1 x : qmul x (-1 # 1) = qneg x.
Proof. unfold qmul, qneg. apply Qred_complete. ring. Qed.
Lemma map_qmul_m1 l : map (fun x => qmul x (-1 # 1)) l = map qneg l.
Proof. apply map_ext. intros x. apply qmul_m1. Qed.

(* ------------------------------------------------------------------ *)
(** * Arrays of rows, accessed at the position after a prefix *)
Section At.
Context (m : nat) (kept : list row) (r : row) (rest : list row).
Lemma len_map_fst : List.length (map fst kept) = List.length kept. Proof. apply map_length. Qed.
Lemma len_map_snd : List.length (map snd kept) = List.length kept. Proof. apply map_length. Qed.
Lemma np_row_at : np_row (A2 m (map fst (kept ++ r :: rest))) (List.length kept) = ret (A1 (fst r)).
Proof.
  unfold np_row. rewrite map_app. cbn [map]. rewrite <- len_map_fst, list_get_m_app. reflexivity.
Qed.
Lemma np_rows_at : np_rows (A2 m (map fst (kept ++ r :: rest))) [List.length kept] = ret (A2 m [fst r]).
Proof.
  unfold np_rows. cbn [map_m]. rewrite map_app. cbn [map]. rewrite <- len_map_fst, list_get_m_app. reflexivity.
Qed.
Lemma np_item_at : np_item (A1 (map snd (kept ++ r :: rest))) (List.length kept) = ret (snd r).
Proof. unfold np_item. rewrite map_app. cbn [map]. rewrite <- len_map_snd, list_get_m_app. reflexivity. Qed.
Lemma np_setitem_at v :
  np_setitem (A1 (map snd (kept ++ r :: rest))) (List.length kept) v = ret (A1 (map snd (kept ++ (fst r, v) :: rest))).
Proof.
  unfold np_setitem. rewrite !map_app. cbn [map snd]. rewrite <- len_map_snd, list_set_m_app. reflexivity.
Qed.
Lemma np_delete_axis0_at :
  np_delete_axis0 (A2 m (map fst (kept ++ r :: rest))) (List.length kept) = ret (A2 m (map fst (kept ++ rest))).
Proof.
  unfold np_delete_axis0, len. rewrite map_length, app_length. cbn [List.length].
  replace (Nat.ltb (List.length kept) (List.length kept + S (List.length rest))) with true
    by (symmetry; apply Nat.ltb_lt; lia).
  rewrite !map_app. cbn [map]. rewrite <- len_map_fst, remove_nth_app. reflexivity.
Qed.
Lemma np_delete_flat_at :
  np_delete_flat (A1 (map snd (kept ++ r :: rest))) (List.length kept) = ret (A1 (map snd (kept ++ rest))).
Proof.
  unfold np_delete_flat, len. rewrite map_length, app_length. cbn [List.length].
  replace (Nat.ltb (List.length kept) (List.length kept + S (List.length rest))) with true
    by (symmetry; apply Nat.ltb_lt; lia).
  rewrite !map_app. cbn [map]. rewrite <- len_map_snd, remove_nth_app. reflexivity.
Qed.
Lemma map_fst_upd v : map fst (kept ++ (fst r, v) :: rest) = map fst (kept ++ r :: rest).
Proof. rewrite !map_app. reflexivity. Qed.
End At.

(* linprog on an objective, a matrix of rows and their bounds: the validation passes, the oracle answers *)
Lemma oracle_linprog_rows O vs m (a : list Q) (L : list row) :
  a <> [] -> List.length a = m ->
  oracle_linprog O vs (A1 a) (A2 m (map fst L)) (A1 (map snd L)) = lp_result_of (O (mkLP vs a L)).
Proof.
  intros Ha Hm. unfold oracle_linprog. cbn [lp_squeeze]. destruct a as [|x a']; [congruence|].
  unfold len. rewrite Hm, Nat.eqb_refl. cbn [negb]. rewrite !map_length, Nat.eqb_refl, combine_fst_snd. reflexivity.
Qed.
Lemma py_nat_sub_S k r : py_nat_sub (k + S r) 1 = ret (k + r).
Proof.
  unfold py_nat_sub. destruct (Nat.leb_spec 1 (k + S r)) as [_|Hlt]; [|lia]. unfold ret. f_equal. lia.
Qed.

Lemma match_nonnil {A B} (l : list A) (x y : B) : l <> [] -> match l with [] => x | _ :: _ => y end = y.
Proof. destruct l; [congruence|reflexivity]. Qed.
Lemma nil_or_cons {T} (l : list T) : l = [] \/ l <> [].
Proof. destruct l; [left; reflexivity|right; discriminate]. Qed.
