(* TermGenCore.v — T1 tie: vars, contains_var, get_coefficient, __init__, copy, __eq__ (see TermGenFacts.v). *)
From Coq Require Import List String Bool QArith ZArith Lia.
Import ListNotations.
Require Import Py ListsGen Sem PyDict Term TermGen ListsFacts TermFacts TermGenBase.
Open Scope py_scope.
Local Open Scope Q_scope.

(* ------------------------------------------------------------------ *)
(** * The obligations *)

(** vars, contains_var, get_coefficient: unconditional *)
Theorem vars_eq t : PolyhedralTerm_vars t = term_vars_p t.
Proof. reflexivity. Qed.
Theorem contains_var_eq t v : PolyhedralTerm_contains_var t v = contains_var t v.
Proof. reflexivity. Qed.
(* in particular `self.variables[var]` never raises KeyError there *)
Theorem get_coefficient_eq t v : PolyhedralTerm_get_coefficient t v = ret (get_coefficient t v).
Proof.
  unfold PolyhedralTerm_get_coefficient, get_coefficient. rewrite contains_var_eq.
  destruct (contains_var t v) eqn:E; [|reflexivity].
  apply contains_var_in in E. unfold term_vars_p in E. rewrite (dict_get_coef _ _ E). reflexivity.
Qed.

(** __init__ : for an argument that is a dict *)
Theorem init_eq vs c : NoDup (keys vs) -> PolyhedralTerm_init vs c = mk_term vs c.
Proof.
  intros Hnd. unfold PolyhedralTerm_init, mk_term.
  rewrite (for_items_fold (fun a k v => if q_neb v 0 then dict_set a k (py_float v) else a)).
  - rewrite (fold_build (fun _ v => q_neb v 0) (fun _ v => py_float v) vs dict_empty Hnd).
    unfold py_float. cbn [app dict_empty]. rewrite map_pair_eta. reflexivity.
  - intros a k v _. destruct (q_neb v (0 # 1)); reflexivity.
Qed.

(** copy *)
Theorem copy_eq t : wft t -> PolyhedralTerm_copy t = term_copy t.
Proof. intros H. unfold PolyhedralTerm_copy, term_copy. apply init_eq. exact H. Qed.

(** __eq__ : unconditional; `other.variables[k]` never raises because the key sets were compared first *)
Lemma forallb_ext' {A} (f g : A -> bool) l : (forall x, f x = g x) -> forallb f l = forallb g l.
Proof. intros H. induction l as [|x r IH]; [reflexivity|]. cbn. rewrite H, IH. reflexivity. Qed.
Lemma keyview_keys_equal l1 l2 : keyview_eqb (dict_keys l1) (dict_keys l2) = keys_equal l1 l2.
Proof.
  unfold keyview_eqb, keys_equal, dict_keys. f_equal; apply forallb_ext'; intros k; apply py_in_keys.
Qed.
Lemma eq_loop (l2 : pvars) (body : bool -> var -> Q -> M (ctl bool)) l m :
  (forall a k v, body a k v =
     bind (if a then bind (dict_get l2 k) (fun t => ret (np_equal v t)) else ret false)
          (fun a' => ret (Continue a'))) ->
  (forall k, In k (keys l) -> has_key k l2 = true) ->
  for_items_m l m body = ret (m && forallb (cmatch l2) l).
Proof.
  intros Hb. revert m. unfold for_items_m. induction l as [|[k v] r IH]; intros m Hk.
  - cbn. rewrite andb_true_r. reflexivity.
  - cbn [for_list_m fst snd]. rewrite Hb. destruct m.
    + destruct (has_key_assoc k l2 (Hk k (or_introl eq_refl))) as [q Hq].
      unfold dict_get. rewrite Hq. cbn [bind ret]. rewrite IH.
      * cbn [forallb andb]. unfold cmatch at 2. cbn [fst snd]. rewrite Hq. reflexivity.
      * intros k' Hk'. apply Hk. right. exact Hk'.
    + cbn [bind ret]. rewrite IH; [reflexivity|]. intros k' Hk'. apply Hk. right. exact Hk'.
Qed.
Theorem eq_eq t1 t2 : PolyhedralTerm_eq t1 t2 = ret (term_eqb_p t1 t2).
Proof.
  unfold PolyhedralTerm_eq. cbv zeta. rewrite keyview_keys_equal, term_eqb_unfold.
  destruct (keys_equal (tvars t1) (tvars t2)) eqn:E; [|reflexivity].
  rewrite (eq_loop (tvars t2)).
  - reflexivity.
  - intros a k v. reflexivity.
  - intros k Hk. apply has_key_in. apply (proj1 (keys_equal_iff _ _) E). exact Hk.
Qed.
Local Open Scope string_scope.
Example repeated_key_init :
  PolyhedralTerm_init [("x", 1); ("x", 2 # 1)] 0 = mkT [("x", 2 # 1)] 0
  /\ mk_term [("x", 1); ("x", 2 # 1)] 0 = mkT [("x", 1); ("x", 2 # 1)] 0.
Proof. split; reflexivity. Qed.
