(* GrammarFacts.v — facts about the parser model model/Grammar.v.
   A. expr_eqb / presult_eqb decide equality of syntax trees (expr_eqb_eq, presult_eqb_eq, mismatches_nil).
   B. Totality: with fuel > length of the input no rule runs out of fuel; parse_expr never answers OutOfFuel
      (parse_expr_fuel_total, parse_expr_total, parse_expr_decides).
   C. Fuel irrelevance: more fuel never changes an Ok / Reject / DivZero answer; any fuel > length gives
      parse_expr (parse_expr_fuel_mono, parse_expr_fuel_irrelevant).
   D. Leading whitespace never matters (parse_expr_leading_ws).
   E. Whitespace between tokens, by a simulation argument generic in the similarity relation:
      - whitespace runs may be resized and re-spelled, trailing whitespace added or dropped
        (parse_expr_wsim, parse_expr_trailing_ws, parse_expr_ws_run, parse_expr_squeeze, parse_expr_squeeze_eq);
      - whitespace may be inserted or removed next to the delimiters ( ) | * / and next to the comparison
        operators (parse_expr_W2, parse_expr_delim_ws, parse_expr_op_ws).
      NOT claimed (false in general): inserting whitespace inside a run of other characters, e.g. between a
      coefficient and a variable ("2e3" / "2 e3") or next to + and - ("2e+3" / "2e +3"); see the examples.
   F. Examples (by computation, NOT general theorems): every grammar alternative, every spelling variant,
      and the surprising PEG behaviours of the real grammar, all cross-checked against pyparsing by
      harness/grammar_cases.py. *)
From Coq Require Import List String Ascii Bool NArith ZArith QArith Arith Lia.
Import ListNotations.
Require Import Py Ast Grammar.
Local Open Scope string_scope.

(* ================================================================ A. decidable equality *)
Lemma sign_eqb_eq a b : sign_eqb a b = true <-> a = b.
Proof. destruct a, b; simpl; split; congruence. Qed.

Lemma Q_eqb_eq a b : Q_eqb a b = true <-> a = b.
Proof.
  destruct a as [n d], b as [n' d']; unfold Q_eqb; simpl.
  rewrite andb_true_iff, Z.eqb_eq, Pos.eqb_eq. split; [intros [-> ->]; reflexivity | intros H; injection H; auto].
Qed.

Lemma cexpr_eqb_eq a b : cexpr_eqb a b = true <-> a = b.
Proof.
  revert b; induction a; destruct b; simpl; try (split; [discriminate | congruence]);
    try (rewrite andb_true_iff, IHa1, IHa2; split; [intros [-> ->]; reflexivity | intros H; injection H; auto]).
  rewrite Q_eqb_eq. split; congruence.
Qed.

Lemma option_eqb_eq {A} (f : A -> A -> bool) :
  (forall x y, f x y = true <-> x = y) -> forall a b, option_eqb f a b = true <-> a = b.
Proof.
  intros Hf [x|] [y|]; simpl; try (split; [discriminate | congruence]); [|tauto].
  rewrite Hf. split; congruence.
Qed.

Lemma list_eqb_eq {A} (f : A -> A -> bool) :
  (forall x y, f x y = true <-> x = y) -> forall a b, list_eqb f a b = true <-> a = b.
Proof.
  intros Hf a; induction a as [|x a IH]; intros [|y b]; simpl; try (split; [discriminate | congruence]); [tauto|].
  rewrite andb_true_iff, Hf, IH. split; [intros [-> ->]; reflexivity | intros H; injection H; auto].
Qed.

Lemma lterm_eqb_sound : forall a b, lterm_eqb a b = true -> a = b
with lterms_eqb_sound : forall a b, lterms_eqb a b = true -> a = b.
Proof.
  - destruct a; destruct b; simpl; intros H; try discriminate.
    + apply String.eqb_eq in H. congruence.
    + apply andb_true_iff in H as [H1 H2]. apply cexpr_eqb_eq in H1. apply String.eqb_eq in H2. congruence.
    + apply cexpr_eqb_eq in H. congruence.
    + apply lterms_eqb_sound in H. congruence.
    + apply andb_true_iff in H as [H1 H2]. apply cexpr_eqb_eq in H1. apply lterms_eqb_sound in H2. congruence.
  - destruct a as [s t r]; destruct b as [s' t' r']; simpl; intros H.
    apply andb_true_iff in H as [H H3]. apply andb_true_iff in H as [H1 H2].
    apply sign_eqb_eq in H1. apply lterm_eqb_sound in H2. subst s' t'. f_equal.
    revert r' H3. revert r. fix IH 1.
    intros [|[s1 t1] x] [|[s2 t2] y] H3; try discriminate; [reflexivity|].
    apply andb_true_iff in H3 as [H H5]. apply andb_true_iff in H as [H3 H4].
    apply sign_eqb_eq in H3. apply lterm_eqb_sound in H4. apply IH in H5. congruence.
Qed.

Lemma lterm_eqb_refl : forall a, lterm_eqb a a = true
with lterms_eqb_refl : forall a, lterms_eqb a a = true.
Proof.
  - destruct a; simpl; rewrite ?andb_true_iff; repeat split;
      try apply String.eqb_refl; try (apply cexpr_eqb_eq; reflexivity); apply lterms_eqb_refl.
  - destruct a as [s t r]; simpl. rewrite !andb_true_iff; repeat split.
    + apply sign_eqb_eq; reflexivity.
    + apply lterm_eqb_refl.
    + revert r. fix IH 1. intros [|[s1 t1] x]; [reflexivity|].
      rewrite !andb_true_iff; repeat split; [apply sign_eqb_eq; reflexivity | apply lterm_eqb_refl | apply IH].
Qed.

Lemma lterm_eqb_eq a b : lterm_eqb a b = true <-> a = b.
Proof. split; [apply lterm_eqb_sound | intros ->; apply lterm_eqb_refl]. Qed.
Lemma lterms_eqb_eq a b : lterms_eqb a b = true <-> a = b.
Proof. split; [apply lterms_eqb_sound | intros ->; apply lterms_eqb_refl]. Qed.

Lemma aterm_eqb_eq a b : aterm_eqb a b = true <-> a = b.
Proof.
  destruct a, b; simpl; try (split; [discriminate | congruence]).
  - rewrite andb_true_iff, sign_eqb_eq, lterm_eqb_eq. split; [intros [-> ->]; reflexivity | intros H; injection H; auto].
  - rewrite !andb_true_iff, sign_eqb_eq, (option_eqb_eq _ cexpr_eqb_eq), lterms_eqb_eq.
    split; [intros [[-> ->] ->]; reflexivity | intros H; injection H; auto].
Qed.

Lemma pitem_eqb_eq a b : pitem_eqb a b = true <-> a = b.
Proof.
  destruct a, b; simpl; try (split; [discriminate | congruence]).
  - rewrite !andb_true_iff, sign_eqb_eq, (option_eqb_eq _ cexpr_eqb_eq), (list_eqb_eq _ aterm_eqb_eq).
    split; [intros [[-> ->] ->]; reflexivity | intros H; injection H; auto].
  - rewrite aterm_eqb_eq. split; congruence.
Qed.

Lemma side_eqb_eq a b : side_eqb a b = true <-> a = b.
Proof. apply list_eqb_eq, pitem_eqb_eq. Qed.

Theorem expr_eqb_eq a b : expr_eqb a b = true <-> a = b.
Proof.
  destruct a, b; simpl; try (split; [discriminate | congruence]).
  - rewrite andb_true_iff, !lterms_eqb_eq. split; [intros [-> ->]; reflexivity | intros H; injection H; auto].
  - rewrite (list_eqb_eq _ side_eqb_eq). split; congruence.
  - rewrite (list_eqb_eq _ side_eqb_eq). split; congruence.
Qed.

Theorem presult_eqb_eq a b : presult_eqb a b = true <-> a = b.
Proof.
  destruct a, b; simpl; try (split; [discriminate | congruence]); try tauto.
  rewrite expr_eqb_eq. split; congruence.
Qed.

(* the harness' comparison is sound: an empty list of mismatches means every case evaluates as expected *)
Lemma mismatches_nil l : forall i, mismatches i l = [] -> Forall (fun c => parse_expr (fst c) = snd c) l.
Proof.
  induction l as [|[s w] l IH]; intros i H; [constructor|].
  simpl in H. destruct (presult_eqb (parse_expr s) w) eqn:E; [|discriminate].
  constructor; [apply presult_eqb_eq; exact E | eapply IH; exact H].
Qed.

(* ================================================================ B. totality *)
Notation len := String.length.
Close Scope Q_scope.
Local Open Scope nat_scope.

(* a parser never returns more input than it was given / consumes at least one character *)
Definition shrink {A} (p : parser A) := forall s a r, p s = ROk a r -> len r <= len s.
Definition strict {A} (p : parser A) := forall s a r, p s = ROk a r -> len r < len s.
(* it does not run out of fuel on inputs shorter than k *)
Definition total_below {A} (k : nat) (p : parser A) := forall s, len s < k -> p s <> ROut.
Definition good {A} (k : nat) (p : parser A) := shrink p /\ total_below k p.
Definition sgood {A} (k : nat) (p : parser A) := strict p /\ total_below k p.

Lemma sgood_good {A} k (p : parser A) : sgood k p -> good k p.
Proof. intros [H1 H2]; split; [|exact H2]. intros s a r H. apply H1 in H. lia. Qed.
Lemma good_down {A} k (p : parser A) : good (S k) p -> good k p.
Proof. intros [H1 H2]; split; [exact H1|]. intros s H. apply H2. lia. Qed.
Lemma sgood_down {A} k (p : parser A) : sgood (S k) p -> sgood k p.
Proof. intros [H1 H2]; split; [exact H1|]. intros s H. apply H2. lia. Qed.

Lemma good_ret {A} k (a : A) : good k (ret a).
Proof. split; [intros s x r H; injection H as _ <-; lia | intros s _; discriminate]. Qed.

Lemma good_div_check k e : good k (div_check e).
Proof.
  split; [intros s a r H | intros s _ H]; unfold div_check in H; destruct (ceval e); try discriminate.
  injection H as _ <-. lia.
Qed.

Lemma sgood_pout {A} : sgood 0 (@pout A).
Proof. split; [intros s a r H; discriminate | intros s H; lia]. Qed.

Lemma good_bind {A B} k (p : parser A) (f : A -> parser B) :
  good k p -> (forall a, good k (f a)) -> good k (bind p f).
Proof.
  intros [Hs Ht] Hf; split.
  - intros s b r H. unfold bind in H. destruct (p s) as [a r1| | |] eqn:E; try discriminate.
    apply Hs in E. apply (proj1 (Hf a)) in H. lia.
  - intros s Hl H. unfold bind in H. destruct (p s) as [a r1| | |] eqn:E; try discriminate.
    + apply Hs in E. apply (proj2 (Hf a) r1); [lia | exact H].
    + exact (Ht s Hl E).
Qed.

(* consuming first: the continuation only has to be total on strictly shorter inputs *)
Lemma sgood_bind_step {A B} k (p : parser A) (f : A -> parser B) :
  sgood (S k) p -> (forall a, good k (f a)) -> sgood (S k) (bind p f).
Proof.
  intros [Hs Ht] Hf; split.
  - intros s b r H. unfold bind in H. destruct (p s) as [a r1| | |] eqn:E; try discriminate.
    apply Hs in E. apply (proj1 (Hf a)) in H. lia.
  - intros s Hl H. unfold bind in H. destruct (p s) as [a r1| | |] eqn:E; try discriminate.
    + apply Hs in E. apply (proj2 (Hf a) r1); [lia | exact H].
    + exact (Ht s Hl E).
Qed.

Lemma sgood_bind_l {A B} k (p : parser A) (f : A -> parser B) :
  sgood k p -> (forall a, good k (f a)) -> sgood k (bind p f).
Proof.
  intros Hp Hf. destruct k as [|k].
  - split; [|intros s H; lia]. destruct Hp as [Hs _].
    intros s b r H. unfold bind in H. destruct (p s) as [a r1| | |] eqn:E; try discriminate.
    apply Hs in E. apply (proj1 (Hf a)) in H. lia.
  - apply sgood_bind_step; [exact Hp | intros a; apply good_down, Hf].
Qed.

Lemma sgood_bind_r {A B} k (p : parser A) (f : A -> parser B) :
  good k p -> (forall a, sgood k (f a)) -> sgood k (bind p f).
Proof.
  intros Hp Hf. split; [|apply good_bind; [exact Hp | intros a; apply sgood_good, Hf]].
  destruct Hp as [Hs _]. intros s b r H. unfold bind in H. destruct (p s) as [a r1| | |] eqn:E; try discriminate.
  apply Hs in E. apply (proj1 (Hf a)) in H. lia.
Qed.

Lemma good_alt {A} k (p q : parser A) : good k p -> good k q -> good k (alt p q).
Proof.
  intros [Hs Ht] [Hs' Ht']; split.
  - intros s a r H. unfold alt in H. destruct (p s) eqn:E; try discriminate; [rewrite <- E in H; eauto | eauto].
  - intros s Hl H. unfold alt in H. destruct (p s) eqn:E; try discriminate; [exact (Ht' s Hl H) | exact (Ht s Hl E)].
Qed.
Lemma sgood_alt {A} k (p q : parser A) : sgood k p -> sgood k q -> sgood k (alt p q).
Proof.
  intros [Hs Ht] [Hs' Ht']; split.
  - intros s a r H. unfold alt in H. destruct (p s) eqn:E; try discriminate; [rewrite <- E in H; eauto | eauto].
  - intros s Hl H. unfold alt in H. destruct (p s) eqn:E; try discriminate; [exact (Ht' s Hl H) | exact (Ht s Hl E)].
Qed.

Lemma good_opt {A} k (p : parser A) : good k p -> good k (opt p).
Proof.
  intros [Hs Ht]; split.
  - intros s a r H. unfold opt in H. destruct (p s) eqn:E; try discriminate; injection H as _ <-; [eauto | lia].
  - intros s Hl H. unfold opt in H. destruct (p s) eqn:E; try discriminate. exact (Ht s Hl E).
Qed.

Lemma many_f_shrink {A} (p : parser A) : shrink p -> forall m, shrink (many_f p m).
Proof.
  intros Hs m; induction m as [|m IH]; intros s l r H; simpl in H; [discriminate|].
  destruct (p s) as [a r1| | |] eqn:E; try discriminate.
  - destruct (many_f p m r1) as [l' r'| | |] eqn:E'; try discriminate. injection H as _ <-.
    apply Hs in E. apply IH in E'. lia.
  - injection H as _ <-. lia.
Qed.
Lemma many_f_total {A} (p : parser A) k : sgood k p -> forall m s, len s < m -> len s < k -> many_f p m s <> ROut.
Proof.
  intros [Hs Ht] m; induction m as [|m IH]; intros s Hm Hk H; [lia|]. simpl in H.
  destruct (p s) as [a r1| | |] eqn:E; try discriminate.
  - destruct (many_f p m r1) as [l' r'| | |] eqn:E'; try discriminate.
    apply Hs in E. apply (IH r1); [lia | lia | exact E'].
  - exact (Ht s Hk E).
Qed.
Lemma good_many {A} k (p : parser A) : sgood k p -> good k (many p).
Proof.
  intros Hp; split.
  - intros s l r H. unfold many in H. eapply many_f_shrink; [|exact H]. intros x a y Hx. apply (proj1 Hp) in Hx. lia.
  - intros s Hl. unfold many. apply (many_f_total p k Hp); [lia | exact Hl].
Qed.
Lemma sgood_many1 {A} k (p : parser A) : sgood k p -> sgood k (many1 p).
Proof.
  intros Hp. unfold many1. apply sgood_bind_l; [exact Hp|]. intros a.
  apply good_bind; [apply good_many, Hp | intros l; apply good_ret].
Qed.

(* ---------------------------------------------------------------- tokens *)
Lemma skip_ws_len s : len (skip_ws s) <= len s.
Proof. induction s as [|c s IH]; simpl; [lia|]. destruct (is_ws c); simpl; lia. Qed.
Lemma strip_prefix_len t : forall s r, strip_prefix t s = Some r -> len s = len t + len r.
Proof.
  induction t as [|a t IH]; intros s r H; simpl in *; [injection H as ->; reflexivity|].
  destruct s as [|b s]; [discriminate|]. destruct (Ascii.eqb a b); [|discriminate]. apply IH in H. simpl. lia.
Qed.
Lemma take_while_len f : forall s w r, take_while f s = (w, r) -> len s = len w + len r.
Proof.
  induction s as [|c s IH]; intros w r H; simpl in H; [injection H as <- <-; reflexivity|].
  destruct (f c).
  - destruct (take_while f s) as [w' r'] eqn:E. injection H as <- <-. specialize (IH _ _ eq_refl). simpl. lia.
  - injection H as <- <-. reflexivity.
Qed.

Lemma sgood_lit_raw k c t : sgood k (lit_raw (String c t)).
Proof.
  split.
  - intros s a r H. unfold lit_raw in H. destruct (strip_prefix (String c t) s) eqn:E; [|discriminate].
    injection H as _ <-. apply strip_prefix_len in E. simpl in E. lia.
  - intros s _ H. unfold lit_raw in H. destruct (strip_prefix (String c t) s); discriminate.
Qed.
Lemma sgood_lit k c t : sgood k (lit (String c t)).
Proof.
  destruct (sgood_lit_raw k c t) as [Hs Ht]. split.
  - intros s a r H. unfold lit in H. apply Hs in H. pose proof (skip_ws_len s). lia.
  - intros s _ H. unfold lit, lit_raw in H. destruct (strip_prefix (String c t) (skip_ws s)); discriminate.
Qed.
Lemma sgood_variable k : sgood k variable.
Proof.
  split.
  - intros s a r H. unfold variable in H. pose proof (skip_ws_len s) as Hw.
    destruct (skip_ws s) as [|c s']; [discriminate|]. destruct (is_alpha c); [|discriminate].
    destruct (take_while is_word_char s') as [w r'] eqn:E. injection H as _ <-.
    apply take_while_len in E. simpl in Hw. lia.
  - intros s _ H. unfold variable in H. destruct (skip_ws s) as [|c s']; [discriminate|].
    destruct (is_alpha c); [|discriminate]. destruct (take_while is_word_char s'); discriminate.
Qed.
Lemma sgood_digits1 k : sgood k digits1.
Proof.
  split.
  - intros s a r H. unfold digits1 in H. destruct (take_while is_digit s) as [w r'] eqn:E.
    destruct w as [|c w]; [discriminate|]. injection H as _ <-. apply take_while_len in E. simpl in E. lia.
  - intros s _ H. unfold digits1 in H. destruct (take_while is_digit s) as [w r']. destruct w; discriminate.
Qed.

Create HintDb peg.
#[local] Hint Resolve sgood_lit_raw sgood_lit sgood_variable sgood_digits1 : peg.

(* syntax-directed search through the combinator lemmas *)
Ltac solve_sgood :=
  cbv beta; first
  [ solve [auto with peg]
  | apply sgood_alt; solve_sgood
  | apply sgood_many1; solve_sgood
  | solve [apply sgood_bind_l; [solve_sgood | intros ?; solve_good]]
  | solve [apply sgood_bind_r; [solve_good | intros ?; solve_sgood]] ]
with solve_good :=
  cbv beta; first
  [ apply good_ret
  | apply good_div_check
  | apply good_opt; solve_good
  | apply good_many; solve_sgood
  | apply good_alt; solve_good
  | solve [apply good_bind; [solve_good | intros ?; solve_good]]
  | solve [apply sgood_good; solve_sgood] ].

Lemma sgood_fpn_raw k : sgood k fpn_raw.
Proof. unfold fpn_raw, fpn_mantissa, fpn_exponent. solve_sgood. Qed.
Lemma sgood_fpn k : sgood k fpn.
Proof.
  destruct (sgood_fpn_raw k) as [Hs Ht]. split.
  - intros s a r H. unfold fpn in H. apply Hs in H. pose proof (skip_ws_len s). lia.
  - intros s Hl H. unfold fpn in H. apply (Ht (skip_ws s)); [pose proof (skip_ws_len s); lia | exact H].
Qed.
#[local] Hint Resolve sgood_fpn : peg.
Lemma sgood_symbol k : sgood k symbol.
Proof. unfold symbol. solve_sgood. Qed.
Lemma sgood_mulop k : sgood k mulop.
Proof. unfold mulop. solve_sgood. Qed.
Lemma sgood_addop k : sgood k addop.
Proof. unfold addop. solve_sgood. Qed.
Lemma sgood_eq_op k : sgood k eq_op.
Proof. unfold eq_op. solve_sgood. Qed.
#[local] Hint Resolve sgood_symbol sgood_mulop sgood_addop sgood_eq_op : peg.

Section Totality.
Variable fold : cexpr -> list (aop * cexpr) -> cexpr.

Lemma sgood_fpn_c k : sgood k fpn_c.
Proof. unfold fpn_c. solve_sgood. Qed.
Hint Resolve sgood_fpn_c : peg.

Lemma sgood_chain k p op : sgood k p -> sgood k op -> sgood k (chain fold p op).
Proof. intros Hp Ho. unfold chain. solve_sgood. Qed.
Hint Resolve sgood_chain : peg.

Lemma sgood_arith : forall n, sgood n (p_arith fold n).
Proof.
  induction n as [|n IH]; [apply sgood_pout|].
  cbn [p_arith]. apply sgood_chain; [apply sgood_chain|]; auto with peg.
  apply sgood_alt; [auto with peg|].
  apply sgood_bind_step; [auto with peg|]. intros _. solve_good.
Qed.
Hint Resolve sgood_arith : peg.

Lemma sgood_number n : sgood n (number fold n).
Proof. unfold number, paren_arith. solve_sgood. Qed.
Hint Resolve sgood_number : peg.
Lemma sgood_coef n : sgood n (coef fold n).
Proof. unfold coef. solve_sgood. Qed.
Hint Resolve sgood_coef : peg.

Lemma sgood_terms_of k pt : sgood k pt -> sgood k (terms_of pt).
Proof. intros H. unfold terms_of. solve_sgood. Qed.
Hint Resolve sgood_terms_of : peg.

Lemma sgood_term : forall n, sgood n (p_term fold n).
Proof.
  induction n as [|n IH]; [apply sgood_pout|].
  assert (Hp : sgood (S n) (paren_of (p_term fold n))).
  { unfold paren_of. apply sgood_bind_step; [auto with peg|]. intros _. solve_good. }
  cbn [p_term]. solve_sgood.
Qed.
Hint Resolve sgood_term : peg.

Lemma sgood_terms n : sgood n (terms fold n).
Proof. unfold terms. auto with peg. Qed.
Hint Resolve sgood_terms : peg.
Lemma sgood_abs_term n : sgood n (abs_term fold n).
Proof. unfold abs_term. solve_sgood. Qed.
Hint Resolve sgood_abs_term : peg.
Lemma sgood_first_abs_or_term n : sgood n (first_abs_or_term fold n).
Proof. unfold first_abs_or_term, first_abs_term, first_term. solve_sgood. Qed.
Lemma sgood_addl_abs_or_term n : sgood n (addl_abs_or_term fold n).
Proof. unfold addl_abs_or_term, signed_abs_term, signed_term. solve_sgood. Qed.
Hint Resolve sgood_first_abs_or_term sgood_addl_abs_or_term : peg.
Lemma sgood_abs_or_terms n : sgood n (abs_or_terms fold n).
Proof. unfold abs_or_terms. solve_sgood. Qed.
Hint Resolve sgood_abs_or_terms : peg.
Lemma sgood_paren_abs_or_terms n : sgood n (paren_abs_or_terms fold n).
Proof. unfold paren_abs_or_terms. solve_sgood. Qed.
Hint Resolve sgood_paren_abs_or_terms : peg.
Lemma sgood_first_paren n : sgood n (first_paren_abs_or_terms fold n).
Proof. unfold first_paren_abs_or_terms. solve_sgood. Qed.
Lemma sgood_addl_paren n : sgood n (addl_paren_abs_or_terms fold n).
Proof. unfold addl_paren_abs_or_terms. solve_sgood. Qed.
Hint Resolve sgood_first_paren sgood_addl_paren : peg.
Lemma sgood_multi n : sgood n (multi fold n).
Proof. unfold multi. solve_sgood. Qed.
Hint Resolve sgood_multi : peg.
Lemma sgood_equality n : sgood n (equality_expression fold n).
Proof. unfold equality_expression. solve_sgood. Qed.
Lemma sgood_ineq n c t mk : sgood n (ineq_expression fold n (String c t) mk).
Proof. unfold ineq_expression. solve_sgood. Qed.
Hint Resolve sgood_equality sgood_ineq : peg.
Lemma sgood_expression n : sgood n (expression fold n).
Proof. unfold expression, leq_expression, geq_expression. solve_sgood. Qed.

(* every rule consumes input and, given fuel > length of the input, does not run out of fuel *)
Theorem parse_gen_fuel_total n s : len s < n -> parse_gen_fuel fold n s <> OutOfFuel.
Proof.
  intros Hl. unfold parse_gen_fuel. destruct (expression fold n s) as [e r| | |] eqn:E.
  - destruct (skip_ws r); discriminate.
  - discriminate.
  - exfalso. exact (proj2 (sgood_expression n) s Hl E).
  - discriminate.
Qed.
End Totality.

Theorem parse_expr_fuel_total n s : len s < n -> parse_expr_fuel n s <> OutOfFuel.
Proof. apply parse_gen_fuel_total. Qed.

(* the parser is a total function into {Ok e, Reject, DivZero} *)
Theorem parse_expr_total s : parse_expr s <> OutOfFuel.
Proof. unfold parse_expr. apply parse_expr_fuel_total. lia. Qed.
Theorem parse_expr_prefix_bug_total s : parse_expr_prefix_bug s <> OutOfFuel.
Proof. unfold parse_expr_prefix_bug. apply parse_gen_fuel_total. lia. Qed.

Corollary parse_expr_decides s : {e | parse_expr s = Ok e} + {parse_expr s = Reject} + {parse_expr s = DivZero}.
Proof.
  destruct (parse_expr s) as [e| | |] eqn:E;
    [left; left; exists e; reflexivity | left; right; reflexivity | | right; reflexivity].
  exfalso. exact (parse_expr_total s E).
Qed.

(* ================================================================ C. fuel irrelevance *)
(* q answers like p wherever p has enough fuel *)
Definition refines {A} (p q : parser A) := forall s, p s <> ROut -> q s = p s.

Lemma refines_refl {A} (p : parser A) : refines p p.
Proof. intros s _; reflexivity. Qed.
Lemma refines_trans {A} (p q r : parser A) : refines p q -> refines q r -> refines p r.
Proof. intros H1 H2 s H. rewrite <- (H1 s H). apply H2. rewrite (H1 s H). exact H. Qed.
Lemma refines_pout {A} (q : parser A) : refines pout q.
Proof. intros s H. exfalso. apply H. reflexivity. Qed.

Ltac ref_cases Hp E H :=
  try (exfalso; apply H; reflexivity);
  rewrite (Hp _) by (rewrite E; discriminate); rewrite E.

Lemma refines_bind {A B} (p p' : parser A) (f f' : A -> parser B) :
  refines p p' -> (forall a, refines (f a) (f' a)) -> refines (bind p f) (bind p' f').
Proof.
  intros Hp Hf s H. unfold bind in *. destruct (p s) as [a r| | |] eqn:E; ref_cases Hp E H;
    [apply Hf; exact H | reflexivity | reflexivity].
Qed.
Lemma refines_alt {A} (p p' q q' : parser A) : refines p p' -> refines q q' -> refines (alt p q) (alt p' q').
Proof.
  intros Hp Hq s H. unfold alt in *. destruct (p s) as [a r| | |] eqn:E; ref_cases Hp E H;
    [reflexivity | apply Hq; exact H | reflexivity].
Qed.
Lemma refines_opt {A} (p p' : parser A) : refines p p' -> refines (opt p) (opt p').
Proof.
  intros Hp s H. unfold opt in *. destruct (p s) as [a r| | |] eqn:E; ref_cases Hp E H; reflexivity.
Qed.
Lemma refines_many_f {A} (p p' : parser A) : refines p p' -> forall m, refines (many_f p m) (many_f p' m).
Proof.
  intros Hp m; induction m as [|m IH]; intros s H; [exfalso; apply H; reflexivity|].
  simpl in *. destruct (p s) as [a r| | |] eqn:E; ref_cases Hp E H; try reflexivity.
  destruct (many_f p m r) as [l r'| | |] eqn:E'; ref_cases IH E' H; reflexivity.
Qed.
Lemma refines_many {A} (p p' : parser A) : refines p p' -> refines (many p) (many p').
Proof. intros Hp s. unfold many. apply refines_many_f. exact Hp. Qed.
Lemma refines_many1 {A} (p p' : parser A) : refines p p' -> refines (many1 p) (many1 p').
Proof.
  intros Hp. unfold many1. apply refines_bind; [exact Hp|]. intros a.
  apply refines_bind; [apply refines_many, Hp | intros l; apply refines_refl].
Qed.

Create HintDb pegref.
Ltac solve_ref :=
  cbv beta; first
  [ solve [auto with pegref]
  | apply refines_refl
  | apply refines_bind; [solve_ref | intros ?; solve_ref]
  | apply refines_alt; solve_ref
  | apply refines_opt; solve_ref
  | apply refines_many; solve_ref
  | apply refines_many1; solve_ref ].

Section FuelIrrelevance.
Variable fold : cexpr -> list (aop * cexpr) -> cexpr.

Lemma refines_chain p p' op : refines p p' -> refines (chain fold p op) (chain fold p' op).
Proof. intros H. unfold chain. solve_ref. Qed.

Lemma refines_arith : forall n, refines (p_arith fold n) (p_arith fold (S n)).
Proof.
  induction n as [|n IH]; [apply refines_pout|].
  cbn [p_arith]. do 2 apply refines_chain. solve_ref.
Qed.
Hint Resolve refines_arith : pegref.
Lemma refines_number n : refines (number fold n) (number fold (S n)).
Proof. unfold number, paren_arith. solve_ref. Qed.
Hint Resolve refines_number : pegref.
Lemma refines_coef n : refines (coef fold n) (coef fold (S n)).
Proof. unfold coef. solve_ref. Qed.
Hint Resolve refines_coef : pegref.
Lemma refines_terms_of pt pt' : refines pt pt' -> refines (terms_of pt) (terms_of pt').
Proof. intros H. unfold terms_of. solve_ref. Qed.
Lemma refines_paren_of pt pt' : refines pt pt' -> refines (paren_of pt) (paren_of pt').
Proof. intros H. unfold paren_of. pose proof (refines_terms_of _ _ H). solve_ref. Qed.

Lemma refines_term : forall n, refines (p_term fold n) (p_term fold (S n)).
Proof.
  induction n as [|n IH]; [apply refines_pout|].
  pose proof (refines_paren_of _ _ IH) as Hp.
  cbn [p_term]. cbv zeta. solve_ref.
Qed.
Hint Resolve refines_term : pegref.

Lemma refines_terms n : refines (terms fold n) (terms fold (S n)).
Proof. unfold terms. apply refines_terms_of. auto with pegref. Qed.
Hint Resolve refines_terms : pegref.
Lemma refines_abs_term n : refines (abs_term fold n) (abs_term fold (S n)).
Proof. unfold abs_term. solve_ref. Qed.
Hint Resolve refines_abs_term : pegref.
Lemma refines_first_abs_or_term n : refines (first_abs_or_term fold n) (first_abs_or_term fold (S n)).
Proof. unfold first_abs_or_term, first_abs_term, first_term. solve_ref. Qed.
Lemma refines_addl_abs_or_term n : refines (addl_abs_or_term fold n) (addl_abs_or_term fold (S n)).
Proof. unfold addl_abs_or_term, signed_abs_term, signed_term. solve_ref. Qed.
Hint Resolve refines_first_abs_or_term refines_addl_abs_or_term : pegref.
Lemma refines_abs_or_terms n : refines (abs_or_terms fold n) (abs_or_terms fold (S n)).
Proof. unfold abs_or_terms. solve_ref. Qed.
Hint Resolve refines_abs_or_terms : pegref.
Lemma refines_paren_abs_or_terms n : refines (paren_abs_or_terms fold n) (paren_abs_or_terms fold (S n)).
Proof. unfold paren_abs_or_terms. solve_ref. Qed.
Hint Resolve refines_paren_abs_or_terms : pegref.
Lemma refines_first_paren n : refines (first_paren_abs_or_terms fold n) (first_paren_abs_or_terms fold (S n)).
Proof. unfold first_paren_abs_or_terms. solve_ref. Qed.
Lemma refines_addl_paren n : refines (addl_paren_abs_or_terms fold n) (addl_paren_abs_or_terms fold (S n)).
Proof. unfold addl_paren_abs_or_terms. solve_ref. Qed.
Hint Resolve refines_first_paren refines_addl_paren : pegref.
Lemma refines_multi n : refines (multi fold n) (multi fold (S n)).
Proof. unfold multi. solve_ref. Qed.
Hint Resolve refines_multi : pegref.
Lemma refines_expression_step n : refines (expression fold n) (expression fold (S n)).
Proof. unfold expression, equality_expression, leq_expression, geq_expression, ineq_expression. solve_ref. Qed.

Lemma refines_expression n m : n <= m -> refines (expression fold n) (expression fold m).
Proof.
  induction 1 as [|m _ IH]; [apply refines_refl|].
  eapply refines_trans; [exact IH | apply refines_expression_step].
Qed.

(* more fuel never changes an Ok / Reject answer *)
Theorem parse_gen_fuel_mono n m s :
  n <= m -> parse_gen_fuel fold n s <> OutOfFuel -> parse_gen_fuel fold m s = parse_gen_fuel fold n s.
Proof.
  intros Hle H. unfold parse_gen_fuel in *.
  rewrite (refines_expression n m Hle s); [reflexivity|].
  intros E. rewrite E in H. apply H. reflexivity.
Qed.
End FuelIrrelevance.

Theorem parse_expr_fuel_mono n m s :
  n <= m -> parse_expr_fuel n s <> OutOfFuel -> parse_expr_fuel m s = parse_expr_fuel n s.
Proof. apply parse_gen_fuel_mono. Qed.

(* any fuel above the length of the input gives the answer of parse_expr: the fuel is only a termination
   device, the model denotes one function string -> {Ok e, Reject, DivZero} *)
Theorem parse_expr_fuel_irrelevant n s : len s < n -> parse_expr_fuel n s = parse_expr s.
Proof.
  intros H. unfold parse_expr. apply parse_expr_fuel_mono; [lia|]. apply parse_expr_fuel_total. lia.
Qed.

(* ================================================================ D. whitespace in front of a rule *)
(* Every grammar rule starts by skipping whitespace: it cannot see whitespace in front of its input.
   (Whitespace INSIDE the input is covered only by the examples of part E and by the harness; note that
   it is significant inside numbers and words: "2e3" / "2 e3", "= =" / "==", "x y" / "xy".) *)
Definition front_skipping {A} (p : parser A) := forall s, p (skip_ws s) = p s.

Lemma skip_ws_idem s : skip_ws (skip_ws s) = skip_ws s.
Proof. induction s as [|c s IH]; simpl; [reflexivity|]. destruct (is_ws c) eqn:E; [exact IH|]. simpl. rewrite E. reflexivity. Qed.

Lemma fs_lit t : front_skipping (lit t).
Proof. intros s. unfold lit. rewrite skip_ws_idem. reflexivity. Qed.
Lemma fs_variable : front_skipping variable.
Proof. intros s. unfold variable. rewrite skip_ws_idem. reflexivity. Qed.
Lemma fs_fpn : front_skipping fpn.
Proof. intros s. unfold fpn. rewrite skip_ws_idem. reflexivity. Qed.
Lemma fs_pout {A} : front_skipping (@pout A).
Proof. intros s. reflexivity. Qed.
Lemma fs_bind {A B} (p : parser A) (f : A -> parser B) : front_skipping p -> front_skipping (bind p f).
Proof. intros H s. unfold bind. rewrite H. reflexivity. Qed.
Lemma fs_alt {A} (p q : parser A) : front_skipping p -> front_skipping q -> front_skipping (alt p q).
Proof. intros Hp Hq s. unfold alt. rewrite Hp, Hq. reflexivity. Qed.
(* an Optional in front: what follows it must skip whitespace too *)
Lemma fs_bind_opt {A B} (p : parser A) (f : option A -> parser B) :
  front_skipping p -> (forall a, front_skipping (f a)) -> front_skipping (bind (opt p) f).
Proof. intros Hp Hf s. unfold bind, opt. rewrite Hp. destruct (p s); try reflexivity. apply Hf. Qed.

Create HintDb pegfs.
#[local] Hint Resolve fs_lit fs_variable fs_fpn fs_pout : pegfs.
Ltac solve_fs :=
  cbv beta; first
  [ solve [auto with pegfs]
  | apply fs_alt; solve_fs
  | apply fs_bind_opt; [solve_fs | intros ?; solve_fs]
  | apply fs_bind; solve_fs ].

Section FrontSkipping.
Variable fold : cexpr -> list (aop * cexpr) -> cexpr.

Lemma fs_symbol : front_skipping symbol.
Proof. unfold symbol. solve_fs. Qed.
Lemma fs_fpn_c : front_skipping fpn_c.
Proof. unfold fpn_c. solve_fs. Qed.
Hint Resolve fs_symbol fs_fpn_c : pegfs.
Lemma fs_arith n : front_skipping (p_arith fold n).
Proof. destruct n; cbn [p_arith]; [apply fs_pout|]. unfold chain. solve_fs. Qed.
Lemma fs_number n : front_skipping (number fold n).
Proof. unfold number, paren_arith. solve_fs. Qed.
Hint Resolve fs_number : pegfs.
Lemma fs_coef n : front_skipping (coef fold n).
Proof. unfold coef. solve_fs. Qed.
Hint Resolve fs_coef : pegfs.
Lemma fs_term n : front_skipping (p_term fold n).
Proof. destruct n; cbn [p_term]; [apply fs_pout|]. cbv zeta. unfold paren_of. solve_fs. Qed.
Hint Resolve fs_term : pegfs.
Lemma fs_terms n : front_skipping (terms fold n).
Proof. unfold terms, terms_of. solve_fs. Qed.
Hint Resolve fs_terms : pegfs.
Lemma fs_multi n : front_skipping (multi fold n).
Proof.
  unfold multi, first_paren_abs_or_terms, paren_abs_or_terms, first_abs_or_term, first_abs_term, first_term,
    abs_term. solve_fs.
Qed.
Hint Resolve fs_multi : pegfs.
Lemma fs_expression n : front_skipping (expression fold n).
Proof. unfold expression, equality_expression, leq_expression, geq_expression, ineq_expression. solve_fs. Qed.
End FrontSkipping.

Definition all_ws (w : string) : Prop := skip_ws w = EmptyString.
Lemma skip_ws_app w s : all_ws w -> skip_ws (w ++ s) = skip_ws s.
Proof.
  unfold all_ws. induction w as [|c w IH]; simpl; intros H; [reflexivity|].
  destruct (is_ws c); [apply IH, H | discriminate].
Qed.
Lemma len_app a b : len (a ++ b) = len a + len b.
Proof. induction a as [|c a IH]; simpl; [reflexivity | rewrite IH; reflexivity]. Qed.

(* leading whitespace (spaces, tabs, newlines, carriage returns) never matters *)
Theorem parse_expr_leading_ws w s : all_ws w -> parse_expr (w ++ s) = parse_expr s.
Proof.
  intros Hw. rewrite <- (parse_expr_fuel_irrelevant (S (len (w ++ s))) s) by (rewrite len_app; lia).
  unfold parse_expr, parse_expr_fuel, parse_gen_fuel.
  rewrite <- (fs_expression fold_left_assoc _ (w ++ s)), (skip_ws_app w s Hw), (fs_expression fold_left_assoc _ s).
  reflexivity.
Qed.

(* ================================================================ E. whitespace between tokens *)
(* Method: a similarity relation W on inputs such that every rule maps similar inputs to similar results.
   E1/E2 do this once for an arbitrary W whose token parsers (literals, variable, number) respect it;
   E3 instantiates W with "same up to the extent and kind of whitespace runs, and trailing whitespace";
   E5 with the coarser "... and up to whitespace next to the delimiters ( ) | * /".
   What is NOT covered (and is false in general): inserting whitespace between two characters that are not
   next to one of ( ) | * /, e.g. "2e3"/"2 e3", "2e+3"/"2e +3", "=="/"= =", "xy"/"x y", "<="/"< =". *)

(* ---------------------------------------------------------------- E1. combinators, for any relation *)
Section SimGeneric.
Variable W : string -> string -> Prop.

Definition rel {A} (x y : res A) : Prop :=
  match x, y with
  | ROk a r, ROk a' r' => a = a' /\ W r r'
  | RFail, RFail | ROut, ROut | RDiv, RDiv => True
  | _, _ => False
  end.
Definition respects {A} (p : parser A) := forall s s', W s s' -> rel (p s) (p s').

Lemma resp_ret {A} (a : A) : respects (ret a).
Proof. intros s s' H; simpl; auto. Qed.
Lemma resp_pout {A} : respects (@pout A).
Proof. intros s s' H; exact I. Qed.
Lemma resp_div_check e : respects (div_check e).
Proof. intros s s' H. unfold div_check. destruct (ceval e); simpl; auto. Qed.
Lemma resp_bind {A B} (p : parser A) (f : A -> parser B) :
  respects p -> (forall a, respects (f a)) -> respects (bind p f).
Proof.
  intros Hp Hf s s' H. unfold bind. specialize (Hp s s' H).
  destruct (p s), (p s'); simpl in Hp; try contradiction; try exact I.
  destruct Hp as [<- Hr]. apply Hf. exact Hr.
Qed.
Lemma resp_alt {A} (p q : parser A) : respects p -> respects q -> respects (alt p q).
Proof.
  intros Hp Hq s s' H. unfold alt. specialize (Hp s s' H).
  destruct (p s), (p s'); simpl in Hp; try contradiction; try exact I; [exact Hp | apply Hq; exact H].
Qed.
Lemma resp_opt {A} (p : parser A) : respects p -> respects (opt p).
Proof.
  intros Hp s s' H. unfold opt. specialize (Hp s s' H).
  destruct (p s), (p s'); simpl in *; try contradiction; try exact I; [|auto].
  destruct Hp as [<- Hr]. auto.
Qed.

Lemma sgood_strict {A} k (p : parser A) : sgood k p -> strict p.
Proof. intros [H _]; exact H. Qed.

Lemma resp_many_f {A} (p : parser A) : respects p -> strict p ->
  forall m m' s s', W s s' -> len s < m -> len s' < m' -> rel (many_f p m s) (many_f p m' s').
Proof.
  intros Hp Hs m; induction m as [|m IH]; intros m' s s' H Hm Hm'; [lia|].
  destruct m' as [|m']; [lia|]. simpl. specialize (Hp s s' H).
  destruct (p s) as [a r| | |] eqn:E, (p s') as [a' r'| | |] eqn:E'; simpl in Hp; try contradiction; try exact I.
  - destruct Hp as [<- Hr]. apply Hs in E. apply Hs in E'.
    specialize (IH m' r r' Hr ltac:(lia) ltac:(lia)).
    destruct (many_f p m r), (many_f p m' r'); simpl in *; try contradiction; try exact I.
    destruct IH as [<- Hr']. auto.
  - simpl. auto.
Qed.
Lemma resp_many {A} k (p : parser A) : respects p -> sgood k p -> respects (many p).
Proof.
  intros Hp Hs s s' H. unfold many. apply resp_many_f; [exact Hp | exact (sgood_strict k p Hs) | exact H | lia | lia].
Qed.
Lemma resp_many1 {A} k (p : parser A) : respects p -> sgood k p -> respects (many1 p).
Proof.
  intros Hp Hs. unfold many1. apply resp_bind; [exact Hp|]. intros a.
  apply resp_bind; [apply (resp_many k); assumption | intros l; apply resp_ret].
Qed.
End SimGeneric.

#[local] Hint Resolve sgood_fpn_c sgood_chain sgood_arith sgood_number sgood_coef sgood_terms_of sgood_term sgood_terms
  sgood_abs_term sgood_first_abs_or_term sgood_addl_abs_or_term sgood_abs_or_terms sgood_paren_abs_or_terms
  sgood_first_paren sgood_addl_paren sgood_multi : peg.

(* character classes.  A "word" is a maximal run of operator characters < > = or a maximal run of characters
   that are neither whitespace, delimiters ( ) | * / nor operator characters. *)
Definition is_delim (c : ascii) : bool :=
  Ascii.eqb c "(" || Ascii.eqb c ")" || Ascii.eqb c "|" || Ascii.eqb c "*" || Ascii.eqb c "/".
Definition is_op (c : ascii) : bool := Ascii.eqb c "<" || Ascii.eqb c ">" || Ascii.eqb c "=".
(* what ends a word of operator characters (o = true) / of ordinary characters (o = false) *)
Definition stp (o : bool) (c : ascii) : bool :=
  if o then negb (is_op c) else is_ws c || is_delim c || is_op c.
Fixpoint plain (o : bool) (u : string) : bool :=
  match u with EmptyString => true | String c r => negb (stp o c) && plain o r end.
(* the literal tokens of the grammar: a single delimiter, or a word *)
Definition tokb (t : string) : bool :=
  match t with
  | EmptyString => false
  | String d r => (match r with EmptyString => is_delim d | _ => false end) || plain false t || plain true t
  end.

Create HintDb pegresp.
Ltac solve_resp W k :=
  cbv beta; first
  [ solve [auto with pegresp]
  | apply resp_ret
  | apply resp_div_check
  | apply resp_alt; solve_resp W k
  | apply resp_opt; solve_resp W k
  | apply (resp_many W k); [solve_resp W k | solve_sgood]
  | apply (resp_many1 W k); [solve_resp W k | solve_sgood]
  | apply resp_bind; [solve_resp W k | intros ?; solve_resp W k] ].

(* ---------------------------------------------------------------- E2. the grammar, for any relation *)
Section SimGrammar.
Variable W : string -> string -> Prop.
Variable fold : cexpr -> list (aop * cexpr) -> cexpr.
Hypothesis H_lit : forall t, tokb t = true -> respects W (lit t).
Hypothesis H_var : respects W variable.
Hypothesis H_fpn : respects W fpn.
Hypothesis H_end : forall r r', W r r' -> (skip_ws r = EmptyString <-> skip_ws r' = EmptyString).

Ltac lit_leaf := apply H_lit; reflexivity.
Hint Resolve H_var H_fpn : pegresp.
Hint Extern 1 (respects _ (lit _)) => lit_leaf : pegresp.

Lemma resp_symbol : respects W symbol.
Proof. unfold symbol. solve_resp W 0. Qed.
Lemma resp_mulop : respects W mulop.
Proof. unfold mulop. solve_resp W 0. Qed.
Lemma resp_addop : respects W addop.
Proof. unfold addop. solve_resp W 0. Qed.
Lemma resp_eq_op : respects W eq_op.
Proof. unfold eq_op. solve_resp W 0. Qed.
Hint Resolve resp_symbol resp_mulop resp_addop resp_eq_op : pegresp.

Lemma resp_fpn_c : respects W fpn_c.
Proof. unfold fpn_c. solve_resp W 0. Qed.
Hint Resolve resp_fpn_c : pegresp.
Lemma resp_chain k p op :
  respects W p -> sgood k p -> respects W op -> sgood k op -> respects W (chain fold p op).
Proof. intros. unfold chain. solve_resp W k. Qed.

Lemma resp_arith : forall n, respects W (p_arith fold n).
Proof.
  induction n as [|n IH]; [apply resp_pout|].
  cbn [p_arith].
  assert (Ha : respects W (alt fpn_c (skip lit "(" ;; e <- p_arith fold n ;; skip lit ")" ;; ret e)))
    by solve_resp W n.
  assert (Sa : sgood n (alt fpn_c (skip lit "(" ;; e <- p_arith fold n ;; skip lit ")" ;; ret e))) by solve_sgood.
  apply (resp_chain n); auto with peg pegresp. apply (resp_chain n); auto with peg pegresp.
Qed.
Hint Resolve resp_arith : pegresp.
Lemma resp_number n : respects W (number fold n).
Proof. unfold number, paren_arith. solve_resp W n. Qed.
Hint Resolve resp_number : pegresp.
Lemma resp_coef n : respects W (coef fold n).
Proof. unfold coef. solve_resp W n. Qed.
Hint Resolve resp_coef : pegresp.
Lemma resp_terms_of k pt : respects W pt -> sgood k pt -> respects W (terms_of pt).
Proof. intros. unfold terms_of. solve_resp W k. Qed.

Lemma resp_term : forall n, respects W (p_term fold n).
Proof.
  induction n as [|n IH]; [apply resp_pout|].
  assert (Hp : respects W (paren_of (p_term fold n))).
  { unfold paren_of. pose proof (resp_terms_of n _ IH (sgood_term fold n)). solve_resp W n. }
  cbn [p_term]. cbv zeta. solve_resp W (S n).
Qed.
Hint Resolve resp_term : pegresp.

Lemma resp_terms n : respects W (terms fold n).
Proof. unfold terms. apply (resp_terms_of n); auto with peg pegresp. Qed.
Hint Resolve resp_terms : pegresp.
Lemma resp_abs_term n : respects W (abs_term fold n).
Proof. unfold abs_term. solve_resp W n. Qed.
Hint Resolve resp_abs_term : pegresp.
Lemma resp_first_abs_or_term n : respects W (first_abs_or_term fold n).
Proof. unfold first_abs_or_term, first_abs_term, first_term. solve_resp W n. Qed.
Lemma resp_addl_abs_or_term n : respects W (addl_abs_or_term fold n).
Proof. unfold addl_abs_or_term, signed_abs_term, signed_term. solve_resp W n. Qed.
Hint Resolve resp_first_abs_or_term resp_addl_abs_or_term : pegresp.
Lemma resp_abs_or_terms n : respects W (abs_or_terms fold n).
Proof. unfold abs_or_terms. solve_resp W n. Qed.
Hint Resolve resp_abs_or_terms : pegresp.
Lemma resp_paren_abs_or_terms n : respects W (paren_abs_or_terms fold n).
Proof. unfold paren_abs_or_terms. solve_resp W n. Qed.
Hint Resolve resp_paren_abs_or_terms : pegresp.
Lemma resp_first_paren n : respects W (first_paren_abs_or_terms fold n).
Proof. unfold first_paren_abs_or_terms. solve_resp W n. Qed.
Lemma resp_addl_paren n : respects W (addl_paren_abs_or_terms fold n).
Proof. unfold addl_paren_abs_or_terms. solve_resp W n. Qed.
Hint Resolve resp_first_paren resp_addl_paren : pegresp.
Lemma resp_multi n : respects W (multi fold n).
Proof. unfold multi. solve_resp W n. Qed.
Hint Resolve resp_multi : pegresp.
Lemma resp_expression n : respects W (expression fold n).
Proof.
  unfold expression, equality_expression, leq_expression, geq_expression, ineq_expression. solve_resp W n.
Qed.

Lemma parse_gen_fuel_sim n s s' : W s s' -> parse_gen_fuel fold n s = parse_gen_fuel fold n s'.
Proof.
  intros H. unfold parse_gen_fuel. pose proof (resp_expression n s s' H) as R.
  destruct (expression fold n s) as [e r| | |], (expression fold n s') as [e' r'| | |]; simpl in R;
    try contradiction; try reflexivity.
  destruct R as [<- R]. apply H_end in R.
  destruct (skip_ws r) eqn:E, (skip_ws r') eqn:E'; try reflexivity.
  - destruct R as [R _]. specialize (R eq_refl). discriminate.
  - destruct R as [_ R]. specialize (R eq_refl). discriminate.
Qed.
End SimGrammar.

(* similar inputs get the same answer *)
Lemma parse_expr_sim (W : string -> string -> Prop) :
  (forall t, tokb t = true -> respects W (lit t)) -> respects W variable -> respects W fpn ->
  (forall r r', W r r' -> (skip_ws r = EmptyString <-> skip_ws r' = EmptyString)) ->
  forall s s', W s s' -> parse_expr s = parse_expr s'.
Proof.
  intros H1 H2 H3 H4 s s' H. pose (N := S (Nat.max (len s) (len s'))).
  rewrite <- (parse_expr_fuel_irrelevant N s), <- (parse_expr_fuel_irrelevant N s') by (unfold N; lia).
  apply (parse_gen_fuel_sim W); assumption.
Qed.

(* ---------------------------------------------------------------- E3. whitespace runs *)
(* Two strings are wsim-similar when they differ only in the EXTENT and KIND of their whitespace runs (every
   non-empty run may be replaced by any other non-empty run) and in trailing whitespace. *)
Inductive wsim : string -> string -> Prop :=
| ws_end w w' : all_ws w -> all_ws w' -> wsim w w'
| ws_char c s s' : is_ws c = false -> wsim s s' -> wsim (String c s) (String c s')
| ws_run c c' r r' : is_ws c = true -> is_ws c' = true -> wsim (skip_ws r) (skip_ws r') ->
                     wsim (String c r) (String c' r').

Lemma skip_ws_head s c r : skip_ws s = String c r -> is_ws c = false.
Proof.
  induction s as [|b s IH]; simpl; [discriminate|]. destruct (is_ws b) eqn:E; [exact IH|].
  intros H; injection H as <- _; exact E.
Qed.
Lemma all_ws_skip s : all_ws (skip_ws s) -> skip_ws s = EmptyString.
Proof. unfold all_ws. rewrite skip_ws_idem. auto. Qed.
Lemma all_ws_head c w : all_ws (String c w) -> is_ws c = true.
Proof. unfold all_ws; simpl. destruct (is_ws c); [reflexivity | discriminate]. Qed.

Lemma wsim_skip s s' : wsim s s' -> wsim (skip_ws s) (skip_ws s').
Proof.
  intros H; destruct H as [w w' Hw Hw'|c s s' Hc H|c c' r r' Hc Hc' H].
  - unfold all_ws in *. rewrite Hw, Hw'. apply ws_end; reflexivity.
  - simpl. rewrite Hc. apply ws_char; assumption.
  - simpl. rewrite Hc, Hc'. exact H.
Qed.
Lemma wsim_nil_l t : wsim EmptyString t -> all_ws t.
Proof. intros H. inversion H; subst; assumption. Qed.
Lemma wsim_nil_r t : wsim t EmptyString -> all_ws t.
Proof. intros H. inversion H; subst; assumption. Qed.
Lemma wsim_empty_iff r r' : wsim r r' -> (skip_ws r = EmptyString <-> skip_ws r' = EmptyString).
Proof.
  intros H. apply wsim_skip in H. split; intros E; rewrite E in H.
  - apply all_ws_skip, wsim_nil_l, H.
  - apply all_ws_skip, wsim_nil_r, H.
Qed.
Lemma wresp_skip {A} (p : parser A) : respects wsim p -> respects wsim (fun s => p (skip_ws s)).
Proof. intros Hp s s' H. apply Hp, wsim_skip, H. Qed.

Fixpoint no_ws (t : string) : Prop :=
  match t with EmptyString => True | String c t' => is_ws c = false /\ no_ws t' end.
Lemma eqb_ws a b : is_ws a = false -> is_ws b = true -> Ascii.eqb a b = false.
Proof. intros Ha Hb. destruct (Ascii.eqb a b) eqn:E; [apply Ascii.eqb_eq in E; subst; congruence | reflexivity]. Qed.

Lemma wresp_strip t : no_ws t -> forall s s', wsim s s' ->
  match strip_prefix t s, strip_prefix t s' with
  | Some r, Some r' => wsim r r' | None, None => True | _, _ => False
  end.
Proof.
  induction t as [|a t IH]; intros Hn s s' H; simpl; [exact H|]. destruct Hn as [Ha Hn].
  destruct H as [w w' Hw Hw'|c s s' Hc H|c c' r r' Hc Hc' H].
  - destruct w as [|b w], w' as [|b' w']; try exact I;
      try (apply all_ws_head in Hw; rewrite (eqb_ws a b Ha Hw));
      try (apply all_ws_head in Hw'; rewrite (eqb_ws a b' Ha Hw')); exact I.
  - destruct (Ascii.eqb a c); [apply IH; assumption | exact I].
  - rewrite (eqb_ws a c Ha Hc), (eqb_ws a c' Ha Hc'). exact I.
Qed.
Lemma wresp_lit_raw t : no_ws t -> respects wsim (lit_raw t).
Proof.
  intros Hn s s' H. unfold lit_raw. pose proof (wresp_strip t Hn s s' H) as R.
  destruct (strip_prefix t s), (strip_prefix t s'); simpl; auto.
Qed.
Lemma wresp_lit t : no_ws t -> respects wsim (lit t).
Proof. intros Hn. exact (wresp_skip _ (wresp_lit_raw t Hn)). Qed.

Lemma ws_not_delim c : is_ws c = true -> is_delim c = false.
Proof. destruct c as [[|] [|] [|] [|] [|] [|] [|] [|]]; vm_compute; intros; congruence. Qed.
Lemma ws_not_op c : is_ws c = true -> is_op c = false.
Proof. destruct c as [[|] [|] [|] [|] [|] [|] [|] [|]]; vm_compute; intros; congruence. Qed.
Lemma stp_ws o c : is_ws c = true -> stp o c = true.
Proof. intros H. destruct o; simpl; [rewrite (ws_not_op c H) | rewrite H]; reflexivity. Qed.
Lemma plain_no_ws o t : plain o t = true -> no_ws t.
Proof.
  induction t as [|c t IH]; simpl; [auto|]. intros H.
  apply andb_true_iff in H as [H1 H2]. split; [|auto].
  destruct (is_ws c) eqn:E; [|reflexivity]. rewrite (stp_ws o c E) in H1. discriminate.
Qed.
Lemma tokb_no_ws t : tokb t = true -> no_ws t.
Proof.
  destruct t as [|d r]; [discriminate|]. unfold tokb. intros H.
  apply orb_true_iff in H as [H|H]; [apply orb_true_iff in H as [H|H]|].
  - destruct r; [|discriminate]. split; [|exact I].
    destruct (is_ws d) eqn:E; [rewrite (ws_not_delim d E) in H; discriminate | reflexivity].
  - exact (plain_no_ws false _ H).
  - exact (plain_no_ws true _ H).
Qed.

Lemma wresp_take_while f : (forall c, is_ws c = true -> f c = false) -> forall s s', wsim s s' ->
  fst (take_while f s) = fst (take_while f s') /\ wsim (snd (take_while f s)) (snd (take_while f s')).
Proof.
  intros Hf s s' H; induction H as [w w' Hw Hw'|c s s' Hc H IH|c c' r r' Hc Hc' H IH].
  - assert (T : forall w, all_ws w -> take_while f w = (EmptyString, w)).
    { intros [|b x] Hx; [reflexivity|]. simpl. rewrite (Hf b (all_ws_head b x Hx)). reflexivity. }
    rewrite (T w Hw), (T w' Hw'). split; [reflexivity | apply ws_end; assumption].
  - simpl. destruct (f c).
    + destruct (take_while f s) as [x y], (take_while f s') as [x' y']; simpl in *.
      destruct IH as [-> IH]. split; [reflexivity | exact IH].
    + simpl. split; [reflexivity | apply ws_char; assumption].
  - simpl. rewrite (Hf c Hc), (Hf c' Hc'). simpl. split; [reflexivity | apply ws_run; assumption].
Qed.
Lemma ws_not_digit c : is_ws c = true -> is_digit c = false.
Proof. destruct c as [[|] [|] [|] [|] [|] [|] [|] [|]]; vm_compute; intros; congruence. Qed.
Lemma ws_not_word c : is_ws c = true -> is_word_char c = false.
Proof. destruct c as [[|] [|] [|] [|] [|] [|] [|] [|]]; vm_compute; intros; congruence. Qed.

Lemma wresp_digits1 : respects wsim digits1.
Proof.
  intros s s' H. destruct (wresp_take_while is_digit ws_not_digit s s' H) as [H1 H2]. unfold digits1.
  destruct (take_while is_digit s) as [w r], (take_while is_digit s') as [w' r']; simpl in *. subst w'.
  destruct w; simpl; auto.
Qed.
Lemma wresp_variable : respects wsim variable.
Proof.
  intros s s' H. apply wsim_skip in H. unfold variable.
  remember (skip_ws s) as t. remember (skip_ws s') as t'.
  destruct H as [w w' Hw Hw'|c x x' Hc H|c c' r r' Hc Hc' H].
  - subst w w'. rewrite (all_ws_skip s Hw), (all_ws_skip s' Hw'). exact I.
  - destruct (is_alpha c); [|exact I].
    destruct (wresp_take_while is_word_char ws_not_word x x' H) as [H1 H2].
    destruct (take_while is_word_char x) as [w r], (take_while is_word_char x') as [w' r']; simpl in *.
    subst w'. simpl. auto.
  - symmetry in Heqt. apply skip_ws_head in Heqt. congruence.
Qed.
Lemma wresp_fpn : respects wsim fpn.
Proof.
  apply wresp_skip. unfold fpn_raw, fpn_mantissa, fpn_exponent.
  repeat first [ apply resp_bind; [|intros ?] | apply resp_alt | apply resp_opt | apply resp_ret
               | apply wresp_digits1 | apply wresp_lit_raw; cbv; auto ].
Qed.

(* whitespace runs may be resized and re-spelled, trailing whitespace may be added or dropped *)
Theorem parse_expr_wsim s s' : wsim s s' -> parse_expr s = parse_expr s'.
Proof.
  apply (parse_expr_sim wsim).
  - intros t Ht. apply wresp_lit, tokb_no_ws, Ht.
  - exact wresp_variable.
  - exact wresp_fpn.
  - exact wsim_empty_iff.
Qed.

(* ---------------------------------------------------------------- E4. consequences in closed form *)
Lemma skip_ws_app_ne r d r2 x : skip_ws r = String d r2 -> skip_ws (r ++ x) = String d r2 ++ x.
Proof.
  induction r as [|c r IH]; simpl; [discriminate|]. destruct (is_ws c); [exact IH|].
  intros H; injection H as <- <-. reflexivity.
Qed.
Lemma all_ws_tail c w : all_ws (String c w) -> all_ws w.
Proof. unfold all_ws; simpl. destruct (is_ws c); [auto | discriminate]. Qed.

Lemma wsim_refl_n n : forall s, len s <= n -> wsim s s.
Proof.
  induction n as [|n IH]; intros [|c r] H; try (apply ws_end; reflexivity); simpl in H; [lia|].
  destruct (is_ws c) eqn:E.
  - apply ws_run; auto. apply IH. pose proof (skip_ws_len r). lia.
  - apply ws_char; auto. apply IH. lia.
Qed.
Lemma wsim_refl s : wsim s s.
Proof. apply (wsim_refl_n (len s)). lia. Qed.

Lemma wsim_trailing_n w : all_ws w -> forall n s, len s <= n -> wsim (s ++ w) s.
Proof.
  intros Hw n; induction n as [|n IH]; intros [|c r] H; simpl; try (apply ws_end; [exact Hw | reflexivity]);
    simpl in H; [lia|].
  destruct (is_ws c) eqn:E.
  - apply ws_run; auto. destruct (skip_ws r) as [|d r2] eqn:Er.
    + rewrite (skip_ws_app r w Er). rewrite Hw. apply ws_end; reflexivity.
    + rewrite (skip_ws_app_ne r d r2 w Er). apply IH.
      pose proof (skip_ws_len r) as L. rewrite Er in L. lia.
  - apply ws_char; auto. apply IH. lia.
Qed.

(* trailing whitespace never matters *)
Theorem parse_expr_trailing_ws s w : all_ws w -> parse_expr (s ++ w) = parse_expr s.
Proof. intros Hw. apply parse_expr_wsim. apply (wsim_trailing_n w Hw (len s)). lia. Qed.

(* canonical spelling of whitespace: every run becomes a single space *)
Fixpoint squeeze_aux (in_ws : bool) (s : string) : string :=
  match s with
  | EmptyString => EmptyString
  | String c r => if is_ws c then (if in_ws then squeeze_aux true r else String " " (squeeze_aux true r))
                  else String c (squeeze_aux false r)
  end.
Definition squeeze (s : string) : string := squeeze_aux false s.

Lemma sq_true_skip r : squeeze_aux true r = squeeze_aux true (skip_ws r).
Proof. induction r as [|c r IH]; simpl; [reflexivity|]. destruct (is_ws c) eqn:E; [exact IH|]. simpl. rewrite E. reflexivity. Qed.
Lemma sq_flag_skip r : squeeze_aux true (skip_ws r) = squeeze_aux false (skip_ws r).
Proof.
  destruct (skip_ws r) as [|c x] eqn:E; [reflexivity|]. apply skip_ws_head in E. simpl. rewrite E. reflexivity.
Qed.
Lemma skip_ws_sq r : skip_ws (squeeze_aux false (skip_ws r)) = squeeze_aux false (skip_ws r).
Proof.
  destruct (skip_ws r) as [|c x] eqn:E; [reflexivity|]. apply skip_ws_head in E. simpl. rewrite E. simpl. rewrite E. reflexivity.
Qed.
Lemma wsim_squeeze_n n : forall s, len s <= n -> wsim s (squeeze s).
Proof.
  unfold squeeze. induction n as [|n IH]; intros [|c r] H; simpl; try (apply ws_end; reflexivity); simpl in H; [lia|].
  destruct (is_ws c) eqn:E.
  - apply ws_run; [exact E | reflexivity|].
    rewrite sq_true_skip, sq_flag_skip, skip_ws_sq. apply IH. pose proof (skip_ws_len r). lia.
  - apply ws_char; auto. apply IH. lia.
Qed.

Theorem parse_expr_squeeze s : parse_expr (squeeze s) = parse_expr s.
Proof. symmetry. apply parse_expr_wsim. apply (wsim_squeeze_n (len s)). lia. Qed.
Corollary parse_expr_squeeze_eq s s' : squeeze s = squeeze s' -> parse_expr s = parse_expr s'.
Proof. intros H. rewrite <- (parse_expr_squeeze s), <- (parse_expr_squeeze s'), H. reflexivity. Qed.

Lemma squeeze_run w : forall f b, all_ws w -> w <> EmptyString ->
  squeeze_aux f (w ++ b) = ((if f then EmptyString else " ") ++ squeeze_aux true b)%string.
Proof.
  induction w as [|c w IH]; intros f b Hw Hne; [congruence|].
  pose proof (all_ws_head c w Hw) as Hc. apply all_ws_tail in Hw. simpl. rewrite Hc.
  destruct w as [|d w'].
  - destruct f; reflexivity.
  - rewrite (IH true b Hw) by discriminate. destruct f; reflexivity.
Qed.
Lemma squeeze_app a x y : (forall g, squeeze_aux g x = squeeze_aux g y) ->
  forall f, squeeze_aux f (a ++ x) = squeeze_aux f (a ++ y).
Proof.
  intros H; induction a as [|c a IH]; intros f; simpl; [apply H|].
  destruct (is_ws c), f; rewrite ?IH; reflexivity.
Qed.

(* between any two parts of the input, one non-empty whitespace run (blanks, tabs, newlines, carriage
   returns) may be replaced by any other *)
Theorem parse_expr_ws_run a w w' b :
  all_ws w -> w <> EmptyString -> all_ws w' -> w' <> EmptyString ->
  parse_expr (a ++ w ++ b) = parse_expr (a ++ w' ++ b).
Proof.
  intros Hw Hn Hw' Hn'. apply parse_expr_squeeze_eq. unfold squeeze. apply squeeze_app.
  intros g. rewrite !squeeze_run by assumption. reflexivity.
Qed.

(* ---------------------------------------------------------------- E5. whitespace next to delimiters and operators *)
(* Split an input (after its leading whitespace) into delimiters ( ) | * / and words (maximal runs of operator
   characters < > =, maximal runs of other non-blank characters).  Two inputs are W2-similar when they have
   the same delimiters and words in the same order: whitespace between any two of these items is free,
   as is its extent.  Not free: whitespace INSIDE a word, e.g. between "2" and "x", "x" and "+", "=" and "=". *)
Definition stop_head (o : bool) (x : string) : Prop :=
  match x with EmptyString => True | String c _ => stp o c = true end.
Inductive Wc : string -> string -> Prop :=
| Wc_nil : Wc EmptyString EmptyString
| Wc_delim d x x' : is_delim d = true -> Wc (skip_ws x) (skip_ws x') -> Wc (String d x) (String d x')
| Wc_word o u x x' : plain o u = true -> u <> EmptyString -> stop_head o x -> stop_head o x' ->
                     Wc (skip_ws x) (skip_ws x') -> Wc (u ++ x) (u ++ x').
Definition W2 (s s' : string) : Prop := Wc (skip_ws s) (skip_ws s').

(* a token reader that only looks at the characters of one kind of word cannot see what follows the word *)
Definition stable {A} (o : bool) (q : parser A) := forall u x, plain o u = true -> stop_head o x ->
  match q u with
  | ROk a r => q (u ++ x) = ROk a (r ++ x) /\ plain o r = true
  | RFail => q (u ++ x) = RFail
  | ROut => q (u ++ x) = ROut
  | RDiv => q (u ++ x) = RDiv
  end.

Lemma stable_ret {A} o (a : A) : stable o (ret a).
Proof. intros u x Hu Hx. simpl. auto. Qed.
Lemma stable_bind {A B} o (p : parser A) (f : A -> parser B) :
  stable o p -> (forall a, stable o (f a)) -> stable o (bind p f).
Proof.
  intros Hp Hf u x Hu Hx. unfold bind. specialize (Hp u x Hu Hx).
  destruct (p u) as [a r| | |]; [|rewrite Hp; reflexivity..].
  destruct Hp as [-> Hr]. apply Hf; assumption.
Qed.
Lemma stable_alt {A} o (p q : parser A) : stable o p -> stable o q -> stable o (alt p q).
Proof.
  intros Hp Hq u x Hu Hx. unfold alt. specialize (Hp u x Hu Hx).
  destruct (p u) as [a r| | |].
  - destruct Hp as [-> Hr]. auto.
  - rewrite Hp. apply Hq; assumption.
  - rewrite Hp. reflexivity.
  - rewrite Hp. reflexivity.
Qed.
Lemma stable_opt {A} o (p : parser A) : stable o p -> stable o (opt p).
Proof.
  intros Hp u x Hu Hx. unfold opt. specialize (Hp u x Hu Hx).
  destruct (p u) as [a r| | |].
  - destruct Hp as [-> Hr]. auto.
  - rewrite Hp. auto.
  - rewrite Hp. reflexivity.
  - rewrite Hp. reflexivity.
Qed.

Lemma plain_head o c r : plain o (String c r) = true -> stp o c = false /\ plain o r = true.
Proof.
  simpl. intros H. apply andb_true_iff in H as [H1 H2].
  split; [destruct (stp o c); [discriminate | reflexivity] | exact H2].
Qed.
Lemma eqb_stop o a b : stp o a = false -> stp o b = true -> Ascii.eqb a b = false.
Proof. intros Ha Hb. destruct (Ascii.eqb a b) eqn:E; [apply Ascii.eqb_eq in E; subst; congruence | reflexivity]. Qed.

Lemma stable_lit_raw o t : plain o t = true -> stable o (lit_raw t).
Proof.
  intros Ht u x Hu Hx. unfold lit_raw. revert u Hu. induction t as [|a t IH]; intros u Hu; simpl; [auto|].
  apply plain_head in Ht as [Ha Ht]. destruct u as [|b u]; simpl.
  - destruct x as [|c x]; [reflexivity|]. simpl in Hx. rewrite (eqb_stop o a c Ha Hx). reflexivity.
  - apply plain_head in Hu as [Hb Hu]. destruct (Ascii.eqb a b); [apply IH; assumption | reflexivity].
Qed.

Lemma stable_take_while o f : (forall c, stp o c = true -> f c = false) ->
  forall u x, plain o u = true -> stop_head o x ->
  take_while f (u ++ x) = (fst (take_while f u), (snd (take_while f u) ++ x)%string) /\
  plain o (snd (take_while f u)) = true.
Proof.
  intros Hf u x Hu Hx. induction u as [|b u IH]; simpl.
  - split; [|reflexivity]. destruct x as [|c x]; [reflexivity|]. simpl in *. rewrite (Hf c Hx). reflexivity.
  - pose proof Hu as Hu'. apply plain_head in Hu' as [Hb Hu']. destruct (f b).
    + destruct (IH Hu') as [-> Hr]. destruct (take_while f u) as [w r]; simpl in *. auto.
    + simpl. auto.
Qed.
Lemma stop_not_digit c : stp false c = true -> is_digit c = false.
Proof. destruct c as [[|] [|] [|] [|] [|] [|] [|] [|]]; vm_compute; intros; congruence. Qed.
Lemma stop_not_word c : stp false c = true -> is_word_char c = false.
Proof. destruct c as [[|] [|] [|] [|] [|] [|] [|] [|]]; vm_compute; intros; congruence. Qed.
Lemma stop_not_alpha c : stp false c = true -> is_alpha c = false.
Proof. destruct c as [[|] [|] [|] [|] [|] [|] [|] [|]]; vm_compute; intros; congruence. Qed.
Lemma op_not_delim c : is_op c = true -> is_delim c = false.
Proof. destruct c as [[|] [|] [|] [|] [|] [|] [|] [|]]; vm_compute; intros; congruence. Qed.

Lemma stable_digits1 : stable false digits1.
Proof.
  intros u x Hu Hx. unfold digits1.
  destruct (stable_take_while false is_digit stop_not_digit u x Hu Hx) as [-> Hr].
  destruct (take_while is_digit u) as [w r]; simpl in *. destruct w; auto.
Qed.
Lemma stable_fpn_raw : stable false fpn_raw.
Proof.
  unfold fpn_raw, fpn_mantissa, fpn_exponent.
  repeat first [ apply stable_bind; [|intros ?] | apply stable_alt | apply stable_opt | apply stable_ret
               | apply stable_digits1 | apply stable_lit_raw; reflexivity ].
Qed.

Definition vcore (t : string) : res var :=
  match t with
  | String c r => if is_alpha c then let '(w, r') := take_while is_word_char r in ROk (String c w) r' else RFail
  | EmptyString => RFail
  end.
Lemma stable_vcore : stable false vcore.
Proof.
  intros u x Hu Hx. destruct u as [|c u]; simpl.
  - destruct x as [|c x]; [reflexivity|]. simpl in *. rewrite (stop_not_alpha c Hx). reflexivity.
  - apply plain_head in Hu as [Hc Hu]. destruct (is_alpha c); [|reflexivity].
    destruct (stable_take_while false is_word_char stop_not_word u x Hu Hx) as [-> Hr].
    destruct (take_while is_word_char u) as [w r]; simpl in *. auto.
Qed.

Lemma stp_not_ws o c : stp o c = false -> is_ws c = false.
Proof. intros H. destruct (is_ws c) eqn:E; [rewrite (stp_ws o c E) in H; discriminate | reflexivity]. Qed.
Lemma stp_not_delim o c : stp o c = false -> is_delim c = false.
Proof.
  destruct o; simpl; intros H.
  - apply negb_false_iff in H. apply op_not_delim, H.
  - apply orb_false_iff in H as [H _]. apply orb_false_iff in H as [_ H]. exact H.
Qed.
Lemma delim_stopper o d : is_delim d = true -> stp o d = true.
Proof. intros H. destruct (stp o d) eqn:E; [reflexivity|]. apply stp_not_delim in E. congruence. Qed.
(* a character of one kind of word ends the other kind *)
Lemma cross_stop o c : stp (negb o) c = false -> stp o c = true.
Proof.
  destruct o; simpl; intros H.
  - apply orb_false_iff in H as [_ H]. rewrite H. reflexivity.
  - apply negb_false_iff in H. rewrite H. apply orb_true_r.
Qed.

Lemma skip_ws_plain o c r x : plain o (String c r) = true -> skip_ws (String c r ++ x) = (String c r ++ x)%string.
Proof. intros H. apply plain_head in H as [H _]. simpl. rewrite (stp_not_ws o c H). reflexivity. Qed.
Lemma W2_app o r x x' : plain o r = true -> stop_head o x -> stop_head o x' -> Wc (skip_ws x) (skip_ws x') ->
  W2 (r ++ x) (r ++ x').
Proof.
  intros Hr Hx Hx' H. unfold W2. destruct r as [|c r]; [exact H|].
  rewrite !(skip_ws_plain o c r) by exact Hr. apply (Wc_word o); auto. discriminate.
Qed.

(* a reader of one kind of word respects W2 *)
Lemma leaf_plain {A} o (q : parser A) : stable o q -> q EmptyString = RFail ->
  respects W2 (fun s => q (skip_ws s)).
Proof.
  intros Hq H0 s s' H. unfold W2 in H.
  assert (Hfail : forall y, stop_head o y -> q y = RFail).
  { intros y Hy. pose proof (Hq EmptyString y eq_refl Hy) as E. rewrite H0 in E. exact E. }
  destruct H as [|d x x' Hd H|o' u x x' Hu Hne Hx Hx' H].
  - rewrite H0. exact I.
  - rewrite !Hfail by (simpl; apply delim_stopper, Hd). exact I.
  - destruct (Bool.bool_dec o' o) as [->|Hneq].
    + pose proof (Hq u x Hu Hx) as E. pose proof (Hq u x' Hu Hx') as E'.
      destruct (q u) as [a r| | |]; [|rewrite E, E'; exact I..].
      destruct E as [-> Hr], E' as [-> _]. simpl. split; [reflexivity|]. apply (W2_app o); assumption.
    + assert (o' = negb o) by (destruct o, o'; simpl; congruence). subst o'.
      destruct u as [|c u]; [congruence|]. apply plain_head in Hu as [Hc _].
      rewrite !Hfail by (simpl; apply cross_stop, Hc). exact I.
Qed.
(* a delimiter literal respects W2 *)
Lemma leaf_delim d : is_delim d = true -> respects W2 (lit (String d EmptyString)).
Proof.
  intros Hd s s' H. unfold lit, lit_raw, W2 in *. destruct H as [|d0 x x' Hd0 H|o u x x' Hu Hne Hx Hx' H]; simpl.
  - exact I.
  - destruct (Ascii.eqb d d0); simpl; auto.
  - destruct u as [|c u]; [congruence|]. apply plain_head in Hu as [Hc _]. simpl.
    rewrite Ascii.eqb_sym, (eqb_stop o c d Hc (delim_stopper o d Hd)). exact I.
Qed.

Lemma W2_lit t : tokb t = true -> respects W2 (lit t).
Proof.
  destruct t as [|d r]; [discriminate|]. unfold tokb. intros H.
  apply orb_true_iff in H as [H|H]; [apply orb_true_iff in H as [H|H]|].
  - destruct r; [|discriminate]. apply leaf_delim, H.
  - apply (leaf_plain false (lit_raw (String d r))); [apply stable_lit_raw, H | reflexivity].
  - apply (leaf_plain true (lit_raw (String d r))); [apply stable_lit_raw, H | reflexivity].
Qed.
Lemma W2_variable : respects W2 variable.
Proof. exact (leaf_plain false vcore stable_vcore eq_refl). Qed.
Lemma W2_fpn : respects W2 fpn.
Proof. exact (leaf_plain false fpn_raw stable_fpn_raw eq_refl). Qed.
Lemma W2_end r r' : W2 r r' -> (skip_ws r = EmptyString <-> skip_ws r' = EmptyString).
Proof.
  unfold W2. intros H. inversion H as [E1 E2|d x x' Hd H' E1 E2|o u x x' Hu Hne Hx Hx' H' E1 E2].
  - tauto.
  - split; discriminate.
  - destruct u; [congruence|]. split; discriminate.
Qed.

(* whitespace between delimiters and words is free, and so is the extent of whitespace anywhere *)
Theorem parse_expr_W2 s s' : W2 s s' -> parse_expr s = parse_expr s'.
Proof. apply (parse_expr_sim W2); [exact W2_lit | exact W2_variable | exact W2_fpn | exact W2_end]. Qed.

(* ---------------------------------------------------------------- E6. closed forms *)
Definition np (o : bool) (c : ascii) : bool := negb (stp o c).
Lemma take_while_app f s : (fst (take_while f s) ++ snd (take_while f s))%string = s.
Proof.
  induction s as [|c s IH]; simpl; [reflexivity|]. destruct (f c); [|reflexivity].
  destruct (take_while f s) as [w r]; simpl in *. rewrite IH. reflexivity.
Qed.
Lemma take_while_np_plain o s : plain o (fst (take_while (np o) s)) = true.
Proof.
  induction s as [|c s IH]; simpl; [reflexivity|]. unfold np at 1. destruct (stp o c) eqn:E; simpl; [reflexivity|].
  destruct (take_while (np o) s) as [w r]; simpl in *. rewrite E. exact IH.
Qed.
Lemma take_while_np_stop o s : stop_head o (snd (take_while (np o) s)).
Proof.
  induction s as [|c s IH]; simpl; [exact I|]. unfold np at 1. destruct (stp o c) eqn:E; simpl; [exact E|].
  destruct (take_while (np o) s) as [w r]; simpl in *. exact IH.
Qed.
Lemma len_snd_take_while f s : len (snd (take_while f s)) <= len s.
Proof. pose proof (take_while_len f s _ _ (surjective_pairing _)). lia. Qed.
(* the word at the head of an input *)
Lemma span_plain o c t : stp o c = false ->
  exists u r, String c t = (String c u ++ r)%string /\ plain o (String c u) = true /\ stop_head o r /\ len r <= len t.
Proof.
  intros Hc. exists (fst (take_while (np o) t)), (snd (take_while (np o) t)). repeat split.
  - simpl. rewrite take_while_app. reflexivity.
  - simpl. rewrite Hc. apply take_while_np_plain.
  - apply take_while_np_stop.
  - apply len_snd_take_while.
Qed.
Lemma word_kind c : is_ws c = false -> is_delim c = false -> stp (is_op c) c = false.
Proof. intros Hw Hd. destruct (is_op c) eqn:E; simpl; rewrite ?Hw, ?Hd, E; reflexivity. Qed.

Lemma Wc_refl_n n : forall t, len t <= n -> skip_ws t = t -> Wc t t.
Proof.
  induction n as [|n IH]; intros [|c t] Hl Ht; try apply Wc_nil; simpl in Hl; [lia|].
  simpl in Ht. destruct (is_ws c) eqn:Ew.
  { exfalso. pose proof (skip_ws_len t) as L. rewrite Ht in L. simpl in L. lia. }
  destruct (is_delim c) eqn:Ed.
  - apply Wc_delim; [exact Ed|]. apply IH; [pose proof (skip_ws_len t); lia | apply skip_ws_idem].
  - destruct (span_plain (is_op c) c t (word_kind c Ew Ed)) as (u & r & E & Hpl & Hst & Hlen).
    rewrite E. apply (Wc_word (is_op c)); auto; [discriminate|].
    apply IH; [pose proof (skip_ws_len r); lia | apply skip_ws_idem].
Qed.
Lemma W2_refl t : W2 t t.
Proof. unfold W2. apply (Wc_refl_n (len (skip_ws t))); [lia | apply skip_ws_idem]. Qed.

Lemma delim_not_ws d : is_delim d = true -> is_ws d = false.
Proof. destruct (is_ws d) eqn:E; [rewrite (ws_not_delim d E); discriminate | reflexivity]. Qed.
Lemma app_assoc_s (a b c : string) : ((a ++ b) ++ c = a ++ (b ++ c))%string.
Proof. induction a as [|x a IH]; simpl; [reflexivity | rewrite IH; reflexivity]. Qed.

Lemma app_nil_s (a : string) : (a ++ EmptyString)%string = a.
Proof. induction a as [|x a IH]; simpl; [reflexivity | rewrite IH; reflexivity]. Qed.

(* inserting an item Y' = (item ++ b), possibly preceded by blanks, after an arbitrary prefix a *)
Lemma W2_prefix Y Y' : Wc (skip_ws Y) (skip_ws Y') ->
  forall n a, len a <= n ->
  (forall o v, plain o v = true -> v <> EmptyString -> (exists a0, a = (a0 ++ v)%string) -> stop_head o Y /\ stop_head o Y') ->
  W2 (a ++ Y) (a ++ Y').
Proof.
  intros Hbase. induction n as [|n IH]; intros a Hl Hlast; unfold W2.
  - destruct a; [|simpl in Hl; lia]. exact Hbase.
  - destruct (skip_ws a) as [|c a1] eqn:Ea.
    + rewrite !(skip_ws_app a _ Ea). exact Hbase.
    + rewrite !(skip_ws_app_ne a c a1 _ Ea).
      pose proof (skip_ws_len a) as La. rewrite Ea in La. simpl in La.
      pose proof (skip_ws_head a c a1 Ea) as Ew.
      assert (Hsuf : exists p, a = (p ++ String c a1)%string).
      { clear -Ea. induction a as [|b a IHa]; simpl in Ea; [discriminate|]. destruct (is_ws b).
        - destruct (IHa Ea) as [p ->]. exists (String b p). reflexivity.
        - exists EmptyString. simpl. congruence. }
      destruct Hsuf as [p Hp].
      destruct (is_delim c) eqn:Ed.
      * simpl. apply Wc_delim; [exact Ed|]. apply IH; [lia|].
        intros o v Hv Hne [a0 Ha0]. apply (Hlast o v Hv Hne). exists (p ++ String c a0)%string.
        rewrite Hp, Ha0, app_assoc_s. reflexivity.
      * destruct (span_plain (is_op c) c a1 (word_kind c Ew Ed)) as (u & r & E & Hpl & Hst & Hlen).
        rewrite E. rewrite !app_assoc_s.
        assert (Hr : r = EmptyString -> stop_head (is_op c) Y /\ stop_head (is_op c) Y').
        { intros ->. apply (Hlast (is_op c) (String c u) Hpl); [discriminate|]. exists p.
          rewrite Hp, E, app_nil_s. reflexivity. }
        apply (Wc_word (is_op c)); auto; [discriminate | destruct r; [apply Hr; reflexivity | exact Hst]
                                          | destruct r; [apply Hr; reflexivity | exact Hst] |].
        apply IH; [lia|].
        intros o v Hv Hne [a0 Ha0]. apply (Hlast o v Hv Hne). exists (p ++ String c u ++ a0)%string.
        rewrite Hp, E, Ha0, !app_assoc_s. reflexivity.
Qed.

(* blanks, tabs and newlines may be inserted or removed on both sides of ( ) | * / *)
Theorem parse_expr_delim_ws a d b w w' :
  is_delim d = true -> all_ws w -> all_ws w' ->
  parse_expr (a ++ w ++ String d (w' ++ b)) = parse_expr (a ++ String d b).
Proof.
  intros Hd Hw Hw'. apply parse_expr_W2. pose proof (delim_not_ws d Hd) as Hdw.
  apply (W2_prefix _ _) with (n := len a); [| lia |].
  - rewrite (skip_ws_app w _ Hw). simpl. rewrite Hdw. apply Wc_delim; [exact Hd|].
    rewrite (skip_ws_app w' b Hw'). apply W2_refl.
  - intros o v _ _ _. split; [|simpl; apply delim_stopper, Hd].
    destruct w as [|e w]; [exact (delim_stopper o d Hd) | exact (stp_ws o e (all_ws_head e w Hw))].
Qed.

(* ... and on both sides of a comparison operator (a maximal run op of the characters < > =), provided it is
   not glued to another operator character: a must not end, and b must not start, with one of < > = *)
Fixpoint last_not_op (a : string) : Prop :=
  match a with
  | EmptyString => True
  | String c r => match r with EmptyString => is_op c = false | _ => last_not_op r end
  end.
Lemma last_not_op_app a0 v : v <> EmptyString -> last_not_op (a0 ++ v) -> last_not_op v.
Proof.
  intros Hv. induction a0 as [|c a0 IH]; simpl; [auto|]. intros H.
  destruct (a0 ++ v)%string eqn:E; [destruct a0, v; simpl in E; congruence|]. apply IH. exact H.
Qed.
Lemma last_not_op_plain v : v <> EmptyString -> plain true v = true -> last_not_op v -> False.
Proof.
  induction v as [|c v IH]; [congruence|]. intros _ Hp Hl. apply plain_head in Hp as [Hc Hp].
  destruct v as [|e v].
  - simpl in Hl, Hc. rewrite Hl in Hc. discriminate.
  - apply IH; [discriminate | exact Hp | exact Hl].
Qed.

Theorem parse_expr_op_ws a op b w w' :
  plain true op = true -> op <> EmptyString -> last_not_op a -> stop_head true b -> all_ws w -> all_ws w' ->
  parse_expr (a ++ w ++ op ++ w' ++ b) = parse_expr (a ++ op ++ b).
Proof.
  intros Hop Hne Ha Hb Hw Hw'. apply parse_expr_W2.
  destruct op as [|h op]; [congruence|]. pose proof Hop as Hh. apply plain_head in Hh as [Hh _].
  apply (W2_prefix _ _) with (n := len a); [| lia |].
  - rewrite (skip_ws_app w _ Hw). rewrite !(skip_ws_plain true h op) by exact Hop.
    apply (Wc_word true); auto.
    + destruct w' as [|e w']; [exact Hb | exact (stp_ws true e (all_ws_head e w' Hw'))].
    + rewrite (skip_ws_app w' b Hw'). apply W2_refl.
  - intros o v Hv Hvne [a0 Ha0]. destruct o.
    + exfalso. subst a. apply (last_not_op_plain v Hvne Hv). apply (last_not_op_app a0 v Hvne Ha).
    + assert (Sh : stp false h = true) by (apply (cross_stop false), Hh).
      split; [|exact Sh]. destruct w as [|e w]; [exact Sh | exact (stp_ws false e (all_ws_head e w Hw))].
Qed.

(* instances, as a sanity check that the hypotheses are the intended ones *)
Corollary parse_expr_leq_spaces a b :
  last_not_op a -> stop_head true b -> parse_expr (a ++ " <= " ++ b) = parse_expr (a ++ "<=" ++ b).
Proof.
  intros Ha Hb.
  apply (parse_expr_op_ws a "<=" b " " " "); [reflexivity | discriminate | exact Ha | exact Hb | reflexivity | reflexivity].
Qed.
Example ex_op_ws : parse_expr "2x + 1 <= |y|" = parse_expr "2x + 1<=|y|".
Proof. apply (parse_expr_leq_spaces "2x + 1" "|y|"); reflexivity. Qed.
Example ex_delim_ws : parse_expr "2 ( x - 1 ) <= | y |" = parse_expr "2(x - 1)<=|y|".
Proof.
  etransitivity; [exact (parse_expr_delim_ws "2" "(" "x - 1 ) <= | y |" " " " " eq_refl eq_refl eq_refl)|].
  etransitivity; [exact (parse_expr_delim_ws "2(x - 1" ")" "<= | y |" " " " " eq_refl eq_refl eq_refl)|].
  etransitivity; [exact (parse_expr_delim_ws "2(x - 1)<=" "|" "y |" " " " " eq_refl eq_refl eq_refl)|].
  exact (parse_expr_delim_ws "2(x - 1)<=|y" "|" "" " " "" eq_refl eq_refl eq_refl).
Qed.

(* ================================================================ F. examples *)
(* EXAMPLES, NOT GENERAL THEOREMS.  Each statement below is checked here by computation AND its right-hand
   side was produced by running the real pyparsing grammar (harness/grammar_cases.py: coq_examples()), so
   each one is a point where the model and pacti were observed to agree.  They cover every grammar
   alternative, every spelling variant of a coefficient (with/without `*`, with/without spaces, the literal
   shapes 2 / 2.0 / 2. / 2e0 / 20E-1 / .5), whitespace sensitivity inside numbers and words, the ordered-choice
   (PEG) surprises, and the escaping ZeroDivisionError. *)
Local Open Scope string_scope.
(* term alternatives *)
Example ex001 : parse_expr "x <= 1" =
  Ok (ELeq [[(PPlain (ATerm Plus (TVar "x")))]; [(PPlain (ATerm Plus (TNum (CNum (Qmake 1 1)))))]]).
Proof. vm_compute. reflexivity. Qed.
Example ex002 : parse_expr "2x <= 1" =
  Ok (ELeq [[(PPlain (ATerm Plus (TNumVar (CNum (Qmake 2 1)) "x")))]; [(PPlain (ATerm Plus (TNum (CNum (Qmake 1 1)))))]]).
Proof. vm_compute. reflexivity. Qed.
Example ex003 : parse_expr "1 <= x" =
  Ok (ELeq [[(PPlain (ATerm Plus (TNum (CNum (Qmake 1 1)))))]; [(PPlain (ATerm Plus (TVar "x")))]]).
Proof. vm_compute. reflexivity. Qed.
Example ex004 : parse_expr "(x + 1) = 2" =
  Ok (EEq (Terms Plus (TParen (Terms Plus (TVar "x") [(Plus, (TNum (CNum (Qmake 1 1))))])) []) (Terms Plus (TNum (CNum (Qmake 2 1))) [])).
Proof. vm_compute. reflexivity. Qed.
Example ex005 : parse_expr "2(x + 1) = 2" =
  Ok (EEq (Terms Plus (TNumParen (CNum (Qmake 2 1)) (Terms Plus (TVar "x") [(Plus, (TNum (CNum (Qmake 1 1))))])) []) (Terms Plus (TNum (CNum (Qmake 2 1))) [])).
Proof. vm_compute. reflexivity. Qed.
(* spellings of a coefficient: with/without *, with/without spaces, literal shapes *)
Example ex006 : parse_expr "2 x <= 1" =
  Ok (ELeq [[(PPlain (ATerm Plus (TNumVar (CNum (Qmake 2 1)) "x")))]; [(PPlain (ATerm Plus (TNum (CNum (Qmake 1 1)))))]]).
Proof. vm_compute. reflexivity. Qed.
Example ex007 : parse_expr "2*x <= 1" =
  Ok (ELeq [[(PPlain (ATerm Plus (TNumVar (CNum (Qmake 2 1)) "x")))]; [(PPlain (ATerm Plus (TNum (CNum (Qmake 1 1)))))]]).
Proof. vm_compute. reflexivity. Qed.
Example ex008 : parse_expr "2 * x <= 1" =
  Ok (ELeq [[(PPlain (ATerm Plus (TNumVar (CNum (Qmake 2 1)) "x")))]; [(PPlain (ATerm Plus (TNum (CNum (Qmake 1 1)))))]]).
Proof. vm_compute. reflexivity. Qed.
Example ex009 : parse_expr "2.0x <= 1" =
  Ok (ELeq [[(PPlain (ATerm Plus (TNumVar (CNum (Qmake 2 1)) "x")))]; [(PPlain (ATerm Plus (TNum (CNum (Qmake 1 1)))))]]).
Proof. vm_compute. reflexivity. Qed.
Example ex010 : parse_expr "2.x <= 1" =
  Ok (ELeq [[(PPlain (ATerm Plus (TNumVar (CNum (Qmake 2 1)) "x")))]; [(PPlain (ATerm Plus (TNum (CNum (Qmake 1 1)))))]]).
Proof. vm_compute. reflexivity. Qed.
Example ex011 : parse_expr "2e0x <= 1" =
  Ok (ELeq [[(PPlain (ATerm Plus (TNumVar (CNum (Qmake 2 1)) "x")))]; [(PPlain (ATerm Plus (TNum (CNum (Qmake 1 1)))))]]).
Proof. vm_compute. reflexivity. Qed.
Example ex012 : parse_expr "20E-1 x <= 1" =
  Ok (ELeq [[(PPlain (ATerm Plus (TNumVar (CNum (Qmake 2 1)) "x")))]; [(PPlain (ATerm Plus (TNum (CNum (Qmake 1 1)))))]]).
Proof. vm_compute. reflexivity. Qed.
Example ex013 : parse_expr ".5x <= 1" =
  Ok (ELeq [[(PPlain (ATerm Plus (TNumVar (CNum (Qmake 1 2)) "x")))]; [(PPlain (ATerm Plus (TNum (CNum (Qmake 1 1)))))]]).
Proof. vm_compute. reflexivity. Qed.
Example ex014 : parse_expr "0.5 x <= 1" =
  Ok (ELeq [[(PPlain (ATerm Plus (TNumVar (CNum (Qmake 1 2)) "x")))]; [(PPlain (ATerm Plus (TNum (CNum (Qmake 1 1)))))]]).
Proof. vm_compute. reflexivity. Qed.
Example ex015 : parse_expr "1.25E+2*x <= 1" =
  Ok (ELeq [[(PPlain (ATerm Plus (TNumVar (CNum (Qmake 125 1)) "x")))]; [(PPlain (ATerm Plus (TNum (CNum (Qmake 1 1)))))]]).
Proof. vm_compute. reflexivity. Qed.
Example ex016 : parse_expr "2 (x + 1) = 2" =
  Ok (EEq (Terms Plus (TNumParen (CNum (Qmake 2 1)) (Terms Plus (TVar "x") [(Plus, (TNum (CNum (Qmake 1 1))))])) []) (Terms Plus (TNum (CNum (Qmake 2 1))) [])).
Proof. vm_compute. reflexivity. Qed.
Example ex017 : parse_expr "2*(x + 1) = 2" =
  Ok (EEq (Terms Plus (TNumParen (CNum (Qmake 2 1)) (Terms Plus (TVar "x") [(Plus, (TNum (CNum (Qmake 1 1))))])) []) (Terms Plus (TNum (CNum (Qmake 2 1))) [])).
Proof. vm_compute. reflexivity. Qed.
Example ex018 : parse_expr "(2*3)x = 1" =
  Ok (EEq (Terms Plus (TNumVar (CMul (CNum (Qmake 2 1)) (CNum (Qmake 3 1))) "x") []) (Terms Plus (TNum (CNum (Qmake 1 1))) [])).
Proof. vm_compute. reflexivity. Qed.
Example ex019 : parse_expr "(2*3)*x = 1" =
  Ok (EEq (Terms Plus (TNumVar (CMul (CNum (Qmake 2 1)) (CNum (Qmake 3 1))) "x") []) (Terms Plus (TNum (CNum (Qmake 1 1))) [])).
Proof. vm_compute. reflexivity. Qed.
Example ex020 : parse_expr "(2*3)(x) = 1" =
  Ok (EEq (Terms Plus (TNumParen (CMul (CNum (Qmake 2 1)) (CNum (Qmake 3 1))) (Terms Plus (TVar "x") [])) []) (Terms Plus (TNum (CNum (Qmake 1 1))) [])).
Proof. vm_compute. reflexivity. Qed.
(* terms: signs *)
Example ex021 : parse_expr "-x + y - 2z = 0" =
  Ok (EEq (Terms Minus (TVar "x") [(Plus, (TVar "y")); (Minus, (TNumVar (CNum (Qmake 2 1)) "z"))]) (Terms Plus (TNum (CNum (Qmake 0 1))) [])).
Proof. vm_compute. reflexivity. Qed.
Example ex022 : parse_expr "+x = 1" =
  Ok (EEq (Terms Plus (TVar "x") []) (Terms Plus (TNum (CNum (Qmake 1 1))) [])).
Proof. vm_compute. reflexivity. Qed.
Example ex023 : parse_expr "x==1" =
  Ok (EEq (Terms Plus (TVar "x") []) (Terms Plus (TNum (CNum (Qmake 1 1))) [])).
Proof. vm_compute. reflexivity. Qed.
Example ex024 : parse_expr "x = -1" =
  Ok (EEq (Terms Plus (TVar "x") []) (Terms Minus (TNum (CNum (Qmake 1 1))) [])).
Proof. vm_compute. reflexivity. Qed.
(* absolute terms *)
Example ex025 : parse_expr "|x| <= 1" =
  Ok (ELeq [[(PPlain (AAbs Plus None (Terms Plus (TVar "x") [])))]; [(PPlain (ATerm Plus (TNum (CNum (Qmake 1 1)))))]]).
Proof. vm_compute. reflexivity. Qed.
Example ex026 : parse_expr "| x | <= 1" =
  Ok (ELeq [[(PPlain (AAbs Plus None (Terms Plus (TVar "x") [])))]; [(PPlain (ATerm Plus (TNum (CNum (Qmake 1 1)))))]]).
Proof. vm_compute. reflexivity. Qed.
Example ex027 : parse_expr "2|x| <= 1" =
  Ok (ELeq [[(PPlain (AAbs Plus (Some (CNum (Qmake 2 1))) (Terms Plus (TVar "x") [])))]; [(PPlain (ATerm Plus (TNum (CNum (Qmake 1 1)))))]]).
Proof. vm_compute. reflexivity. Qed.
Example ex028 : parse_expr "2*|x| <= 1" =
  Ok (ELeq [[(PPlain (AAbs Plus (Some (CNum (Qmake 2 1))) (Terms Plus (TVar "x") [])))]; [(PPlain (ATerm Plus (TNum (CNum (Qmake 1 1)))))]]).
Proof. vm_compute. reflexivity. Qed.
Example ex029 : parse_expr "2 * | x | <= 1" =
  Ok (ELeq [[(PPlain (AAbs Plus (Some (CNum (Qmake 2 1))) (Terms Plus (TVar "x") [])))]; [(PPlain (ATerm Plus (TNum (CNum (Qmake 1 1)))))]]).
Proof. vm_compute. reflexivity. Qed.
Example ex030 : parse_expr "-|x| >= -1" =
  Ok (EGeq [[(PPlain (AAbs Minus None (Terms Plus (TVar "x") [])))]; [(PPlain (ATerm Minus (TNum (CNum (Qmake 1 1)))))]]).
Proof. vm_compute. reflexivity. Qed.
Example ex031 : parse_expr "-3 |x - y| <= 1" =
  Ok (ELeq [[(PPlain (AAbs Minus (Some (CNum (Qmake 3 1))) (Terms Plus (TVar "x") [(Minus, (TVar "y"))])))]; [(PPlain (ATerm Plus (TNum (CNum (Qmake 1 1)))))]]).
Proof. vm_compute. reflexivity. Qed.
Example ex032 : parse_expr "x + |y| - 2|z| <= 1" =
  Ok (ELeq [[(PPlain (ATerm Plus (TVar "x"))); (PPlain (AAbs Plus None (Terms Plus (TVar "y") []))); (PPlain (AAbs Minus (Some (CNum (Qmake 2 1))) (Terms Plus (TVar "z") [])))]; [(PPlain (ATerm Plus (TNum (CNum (Qmake 1 1)))))]]).
Proof. vm_compute. reflexivity. Qed.
Example ex033 : parse_expr "(2*3)|x| <= 1" =
  Ok (ELeq [[(PPlain (AAbs Plus (Some (CMul (CNum (Qmake 2 1)) (CNum (Qmake 3 1)))) (Terms Plus (TVar "x") [])))]; [(PPlain (ATerm Plus (TNum (CNum (Qmake 1 1)))))]]).
Proof. vm_compute. reflexivity. Qed.
Example ex034 : parse_expr "(1+2)|x| <= 1" =
  Ok (ELeq [[(PPlain (AAbs Plus (Some (CAdd (CNum (Qmake 1 1)) (CNum (Qmake 2 1)))) (Terms Plus (TVar "x") [])))]; [(PPlain (ATerm Plus (TNum (CNum (Qmake 1 1)))))]]).
Proof. vm_compute. reflexivity. Qed.
(* parenthesised groups of a side *)
Example ex035 : parse_expr "(x) <= 1" =
  Ok (ELeq [[(PGroup Plus None [(ATerm Plus (TVar "x"))])]; [(PPlain (ATerm Plus (TNum (CNum (Qmake 1 1)))))]]).
Proof. vm_compute. reflexivity. Qed.
Example ex036 : parse_expr "-(x) <= 1" =
  Ok (ELeq [[(PGroup Minus None [(ATerm Plus (TVar "x"))])]; [(PPlain (ATerm Plus (TNum (CNum (Qmake 1 1)))))]]).
Proof. vm_compute. reflexivity. Qed.
Example ex037 : parse_expr "2(x + |y|) <= 1" =
  Ok (ELeq [[(PGroup Plus (Some (CNum (Qmake 2 1))) [(ATerm Plus (TVar "x")); (AAbs Plus None (Terms Plus (TVar "y") []))])]; [(PPlain (ATerm Plus (TNum (CNum (Qmake 1 1)))))]]).
Proof. vm_compute. reflexivity. Qed.
Example ex038 : parse_expr "-2*(|x| - y) <= 1" =
  Ok (ELeq [[(PGroup Minus (Some (CNum (Qmake 2 1))) [(AAbs Plus None (Terms Plus (TVar "x") [])); (ATerm Minus (TVar "y"))])]; [(PPlain (ATerm Plus (TNum (CNum (Qmake 1 1)))))]]).
Proof. vm_compute. reflexivity. Qed.
Example ex039 : parse_expr "(1+2)(x+y) <= 1" =
  Ok (ELeq [[(PGroup Plus (Some (CAdd (CNum (Qmake 1 1)) (CNum (Qmake 2 1)))) [(ATerm Plus (TVar "x")); (ATerm Plus (TVar "y"))])]; [(PPlain (ATerm Plus (TNum (CNum (Qmake 1 1)))))]]).
Proof. vm_compute. reflexivity. Qed.
Example ex040 : parse_expr "x - (y + z) <= 1" =
  Ok (ELeq [[(PPlain (ATerm Plus (TVar "x"))); (PGroup Minus None [(ATerm Plus (TVar "y")); (ATerm Plus (TVar "z"))])]; [(PPlain (ATerm Plus (TNum (CNum (Qmake 1 1)))))]]).
Proof. vm_compute. reflexivity. Qed.
Example ex041 : parse_expr "2x + 3(y - 1) <= |x - y|" =
  Ok (ELeq [[(PPlain (ATerm Plus (TNumVar (CNum (Qmake 2 1)) "x"))); (PGroup Plus (Some (CNum (Qmake 3 1))) [(ATerm Plus (TVar "y")); (ATerm Minus (TNum (CNum (Qmake 1 1))))])]; [(PPlain (AAbs Plus None (Terms Plus (TVar "x") [(Minus, (TVar "y"))])))]]).
Proof. vm_compute. reflexivity. Qed.
Example ex042 : parse_expr "(|x|) <= 1" =
  Ok (ELeq [[(PGroup Plus None [(AAbs Plus None (Terms Plus (TVar "x") []))])]; [(PPlain (ATerm Plus (TNum (CNum (Qmake 1 1)))))]]).
Proof. vm_compute. reflexivity. Qed.
Example ex043 : parse_expr "((x)) <= 1" =
  Ok (ELeq [[(PGroup Plus None [(ATerm Plus (TParen (Terms Plus (TVar "x") [])))])]; [(PPlain (ATerm Plus (TNum (CNum (Qmake 1 1)))))]]).
Proof. vm_compute. reflexivity. Qed.
Example ex044 : parse_expr "(2)(3) <= x" =
  Ok (ELeq [[(PGroup Plus (Some (CNum (Qmake 2 1))) [(ATerm Plus (TNum (CNum (Qmake 3 1))))])]; [(PPlain (ATerm Plus (TVar "x")))]]).
Proof. vm_compute. reflexivity. Qed.
(* chains and operators *)
Example ex045 : parse_expr "1 <= x <= 3" =
  Ok (ELeq [[(PPlain (ATerm Plus (TNum (CNum (Qmake 1 1)))))]; [(PPlain (ATerm Plus (TVar "x")))]; [(PPlain (ATerm Plus (TNum (CNum (Qmake 3 1)))))]]).
Proof. vm_compute. reflexivity. Qed.
Example ex046 : parse_expr "3 >= x >= 1" =
  Ok (EGeq [[(PPlain (ATerm Plus (TNum (CNum (Qmake 3 1)))))]; [(PPlain (ATerm Plus (TVar "x")))]; [(PPlain (ATerm Plus (TNum (CNum (Qmake 1 1)))))]]).
Proof. vm_compute. reflexivity. Qed.
Example ex047 : parse_expr "x + y = 2" =
  Ok (EEq (Terms Plus (TVar "x") [(Plus, (TVar "y"))]) (Terms Plus (TNum (CNum (Qmake 2 1))) [])).
Proof. vm_compute. reflexivity. Qed.
Example ex048 : parse_expr "x + y == 2" =
  Ok (EEq (Terms Plus (TVar "x") [(Plus, (TVar "y"))]) (Terms Plus (TNum (CNum (Qmake 2 1))) [])).
Proof. vm_compute. reflexivity. Qed.
(* constant arithmetic: precedence, left associativity, nesting, whitespace *)
Example ex049 : parse_expr "(2*3)x = 1" =
  Ok (EEq (Terms Plus (TNumVar (CMul (CNum (Qmake 2 1)) (CNum (Qmake 3 1))) "x") []) (Terms Plus (TNum (CNum (Qmake 1 1))) [])).
Proof. vm_compute. reflexivity. Qed.
Example ex050 : parse_expr "(1+2*3)x = 1" =
  Ok (EEq (Terms Plus (TNumVar (CAdd (CNum (Qmake 1 1)) (CMul (CNum (Qmake 2 1)) (CNum (Qmake 3 1)))) "x") []) (Terms Plus (TNum (CNum (Qmake 1 1))) [])).
Proof. vm_compute. reflexivity. Qed.
Example ex051 : parse_expr "(2/3/4)x = 1" =
  Ok (EEq (Terms Plus (TNumVar (CDiv (CDiv (CNum (Qmake 2 1)) (CNum (Qmake 3 1))) (CNum (Qmake 4 1))) "x") []) (Terms Plus (TNum (CNum (Qmake 1 1))) [])).
Proof. vm_compute. reflexivity. Qed.
Example ex052 : parse_expr "(8-2*3-1)x = 1" =
  Ok (EEq (Terms Plus (TNumVar (CSub (CSub (CNum (Qmake 8 1)) (CMul (CNum (Qmake 2 1)) (CNum (Qmake 3 1)))) (CNum (Qmake 1 1))) "x") []) (Terms Plus (TNum (CNum (Qmake 1 1))) [])).
Proof. vm_compute. reflexivity. Qed.
Example ex053 : parse_expr "((1+2)*3)x = 1" =
  Ok (EEq (Terms Plus (TNumVar (CMul (CAdd (CNum (Qmake 1 1)) (CNum (Qmake 2 1))) (CNum (Qmake 3 1))) "x") []) (Terms Plus (TNum (CNum (Qmake 1 1))) [])).
Proof. vm_compute. reflexivity. Qed.
Example ex054 : parse_expr "( 1 + 2 * 3 ) x = 1" =
  Ok (EEq (Terms Plus (TNumVar (CAdd (CNum (Qmake 1 1)) (CMul (CNum (Qmake 2 1)) (CNum (Qmake 3 1)))) "x") []) (Terms Plus (TNum (CNum (Qmake 1 1))) [])).
Proof. vm_compute. reflexivity. Qed.
Example ex055 : parse_expr "(2*3*4)x = 1" =
  Ok (EEq (Terms Plus (TNumVar (CMul (CMul (CNum (Qmake 2 1)) (CNum (Qmake 3 1))) (CNum (Qmake 4 1))) "x") []) (Terms Plus (TNum (CNum (Qmake 1 1))) [])).
Proof. vm_compute. reflexivity. Qed.
(* whitespace is significant inside numbers and words *)
Example ex056 : parse_expr "2e3x <= 1" =
  Ok (ELeq [[(PPlain (ATerm Plus (TNumVar (CNum (Qmake 2000 1)) "x")))]; [(PPlain (ATerm Plus (TNum (CNum (Qmake 1 1)))))]]).
Proof. vm_compute. reflexivity. Qed.
Example ex057 : parse_expr "2 e3 <= 1" =
  Ok (ELeq [[(PPlain (ATerm Plus (TNumVar (CNum (Qmake 2 1)) "e3")))]; [(PPlain (ATerm Plus (TNum (CNum (Qmake 1 1)))))]]).
Proof. vm_compute. reflexivity. Qed.
Example ex058 : parse_expr "2ex <= 1" =
  Ok (ELeq [[(PPlain (ATerm Plus (TNumVar (CNum (Qmake 2 1)) "ex")))]; [(PPlain (ATerm Plus (TNum (CNum (Qmake 1 1)))))]]).
Proof. vm_compute. reflexivity. Qed.
Example ex059 : parse_expr "1e+x <= 1" =
  Ok (ELeq [[(PPlain (ATerm Plus (TNumVar (CNum (Qmake 1 1)) "e"))); (PPlain (ATerm Plus (TVar "x")))]; [(PPlain (ATerm Plus (TNum (CNum (Qmake 1 1)))))]]).
Proof. vm_compute. reflexivity. Qed.
Example ex060 : parse_expr "x <= 1e" =
  Ok (ELeq [[(PPlain (ATerm Plus (TVar "x")))]; [(PPlain (ATerm Plus (TNumVar (CNum (Qmake 1 1)) "e")))]]).
Proof. vm_compute. reflexivity. Qed.
Example ex061 : parse_expr "x2 <= 1" =
  Ok (ELeq [[(PPlain (ATerm Plus (TVar "x2")))]; [(PPlain (ATerm Plus (TNum (CNum (Qmake 1 1)))))]]).
Proof. vm_compute. reflexivity. Qed.
Example ex062 : parse_expr "x_1 <= 1" =
  Ok (ELeq [[(PPlain (ATerm Plus (TVar "x_1")))]; [(PPlain (ATerm Plus (TNum (CNum (Qmake 1 1)))))]]).
Proof. vm_compute. reflexivity. Qed.
Example ex063 : parse_expr "x y <= 1" =
  Reject.
Proof. vm_compute. reflexivity. Qed.
Example ex064 : parse_expr "xy <= 1" =
  Ok (ELeq [[(PPlain (ATerm Plus (TVar "xy")))]; [(PPlain (ATerm Plus (TNum (CNum (Qmake 1 1)))))]]).
Proof. vm_compute. reflexivity. Qed.
Example ex065 : parse_expr "x = = 1" =
  Reject.
Proof. vm_compute. reflexivity. Qed.
Example ex066 : parse_expr "x < = 1" =
  Reject.
Proof. vm_compute. reflexivity. Qed.
Example ex067 : parse_expr "1 .5 <= x" =
  Reject.
Proof. vm_compute. reflexivity. Qed.
Example ex068 : parse_expr "2 3 x <= 1" =
  Reject.
Proof. vm_compute. reflexivity. Qed.
(* PEG surprises: ordered choice commits to paren_terms before a parenthesised number is tried *)
Example ex069 : parse_expr "(1+2)x <= 1" =
  Reject.
Proof. vm_compute. reflexivity. Qed.
Example ex070 : parse_expr "(2)x <= 1" =
  Reject.
Proof. vm_compute. reflexivity. Qed.
Example ex071 : parse_expr "(10)*z <= 1" =
  Reject.
Proof. vm_compute. reflexivity. Qed.
Example ex072 : parse_expr "(1+2*3)x <= 1" =
  Ok (ELeq [[(PPlain (ATerm Plus (TNumVar (CAdd (CNum (Qmake 1 1)) (CMul (CNum (Qmake 2 1)) (CNum (Qmake 3 1)))) "x")))]; [(PPlain (ATerm Plus (TNum (CNum (Qmake 1 1)))))]]).
Proof. vm_compute. reflexivity. Qed.
Example ex073 : parse_expr "(1+2)(x) <= 1" =
  Ok (ELeq [[(PGroup Plus (Some (CAdd (CNum (Qmake 1 1)) (CNum (Qmake 2 1)))) [(ATerm Plus (TVar "x"))])]; [(PPlain (ATerm Plus (TNum (CNum (Qmake 1 1)))))]]).
Proof. vm_compute. reflexivity. Qed.
Example ex074 : parse_expr "(1+2) <= x" =
  Ok (ELeq [[(PPlain (ATerm Plus (TParen (Terms Plus (TNum (CNum (Qmake 1 1))) [(Plus, (TNum (CNum (Qmake 2 1))))]))))]; [(PPlain (ATerm Plus (TVar "x")))]]).
Proof. vm_compute. reflexivity. Qed.
Example ex075 : parse_expr "2*3x <= 1" =
  Reject.
Proof. vm_compute. reflexivity. Qed.
(* PEG surprises: no backtracking into a matched alternative / operator mixing *)
Example ex076 : parse_expr "x <= 1 >= y" =
  Reject.
Proof. vm_compute. reflexivity. Qed.
Example ex077 : parse_expr "1 <= x = 2" =
  Reject.
Proof. vm_compute. reflexivity. Qed.
Example ex078 : parse_expr "x = 1 <= 2" =
  Reject.
Proof. vm_compute. reflexivity. Qed.
Example ex079 : parse_expr "x = |y|" =
  Reject.
Proof. vm_compute. reflexivity. Qed.
Example ex080 : parse_expr "|x| = 1" =
  Reject.
Proof. vm_compute. reflexivity. Qed.
Example ex081 : parse_expr "x - -y <= 1" =
  Reject.
Proof. vm_compute. reflexivity. Qed.
Example ex082 : parse_expr "|x - |y|| <= 1" =
  Reject.
Proof. vm_compute. reflexivity. Qed.
Example ex083 : parse_expr "((|x|)) <= 1" =
  Reject.
Proof. vm_compute. reflexivity. Qed.
Example ex084 : parse_expr "(x)(y) <= 1" =
  Reject.
Proof. vm_compute. reflexivity. Qed.
Example ex085 : parse_expr "x <= " =
  Reject.
Proof. vm_compute. reflexivity. Qed.
Example ex086 : parse_expr "" =
  Reject.
Proof. vm_compute. reflexivity. Qed.
Example ex087 : parse_expr "_x <= 1" =
  Reject.
Proof. vm_compute. reflexivity. Qed.
Example ex088 : parse_expr "x <= 1 <=" =
  Reject.
Proof. vm_compute. reflexivity. Qed.
(* ZeroDivisionError escapes, also from strings that are otherwise rejected *)
Example ex089 : parse_expr "(1/0)x <= 1" =
  DivZero.
Proof. vm_compute. reflexivity. Qed.
Example ex090 : parse_expr "x <= (1/(2-2))" =
  DivZero.
Proof. vm_compute. reflexivity. Qed.
Example ex091 : parse_expr "(0/0)x = 1" =
  DivZero.
Proof. vm_compute. reflexivity. Qed.
Example ex092 : parse_expr "(1/0)" =
  DivZero.
Proof. vm_compute. reflexivity. Qed.
Example ex093 : parse_expr "(1/0) <=" =
  DivZero.
Proof. vm_compute. reflexivity. Qed.
Example ex094 : parse_expr "|(2/0)" =
  DivZero.
Proof. vm_compute. reflexivity. Qed.
Example ex095 : parse_expr "(x+(2/0))" =
  DivZero.
Proof. vm_compute. reflexivity. Qed.
Example ex096 : parse_expr "(1/0 <= x" =
  Reject.
Proof. vm_compute. reflexivity. Qed.
Example ex097 : parse_expr "x (2/0)" =
  Reject.
Proof. vm_compute. reflexivity. Qed.
Example ex098 : parse_expr "(1*2/0.0)x <= 1" =
  DivZero.
Proof. vm_compute. reflexivity. Qed.

(* tabs, newlines and carriage returns are whitespace like spaces *)
Example ex_ws_chars :
  parse_expr ("2" ++ String "009"%char "x" ++ String "010"%char "<=" ++ String "013"%char (String "010"%char "1 "))
  = parse_expr "2x<=1".
Proof. vm_compute. reflexivity. Qed.
(* ... but a vertical tab or a form feed is not *)
Example ex_ws_vt : parse_expr ("x" ++ String "011"%char "<= 1") = Reject.
Proof. vm_compute. reflexivity. Qed.

(* The defect repaired by pacti commit 7bdf62f, for the record: the old parse action kept only the first
   operation of a chain of equal-precedence operators. *)
Example ex_prefix_bug_div :
  parse_expr_prefix_bug "(2/3/4)x = 1" =
  Ok (EEq (Terms Plus (TNumVar (CDiv (CNum (Qmake 2 1)) (CNum (Qmake 3 1))) "x") [])
          (Terms Plus (TNum (CNum (Qmake 1 1))) [])).
Proof. vm_compute. reflexivity. Qed.
Example ex_prefix_bug_sub :
  parse_expr_prefix_bug "(8-2-1)|x| <= 1" =
  Ok (ELeq [[PPlain (AAbs Plus (Some (CSub (CNum (Qmake 8 1)) (CNum (Qmake 2 1)))) (Terms Plus (TVar "x") []))];
            [PPlain (ATerm Plus (TNum (CNum (Qmake 1 1))))]]).
Proof. vm_compute. reflexivity. Qed.
Example ex_prefix_bug_differs : parse_expr_prefix_bug "(8-2-1)|x| <= 1" <> parse_expr "(8-2-1)|x| <= 1".
Proof. vm_compute. discriminate. Qed.
(* the old reading also hid divisions by zero beyond the first operation *)
Example ex_prefix_bug_hides_divzero :
  parse_expr "(1*2/0)x <= 1" = DivZero /\ parse_expr_prefix_bug "(1*2/0)x <= 1" <> DivZero.
Proof. split; vm_compute; [reflexivity | discriminate]. Qed.

(* the value of literals: exact decimal value (Python rounds it to the nearest double) *)
Example ex_literal_values :
  map literal_value ["2"; "2.0"; "2."; "2e0"; "20E-1"; ".5"; "0.5"; "1.25"; "3e2"; ".75"; "2.5e-1"; "1E1"; "1e+1"; "0"; "0.1"]
  = [Qmake 2 1; Qmake 2 1; Qmake 2 1; Qmake 2 1; Qmake 2 1; Qmake 1 2; Qmake 1 2; Qmake 5 4; Qmake 300 1;
     Qmake 3 4; Qmake 1 4; Qmake 10 1; Qmake 10 1; Qmake 0 1; Qmake 1 10].
Proof. vm_compute. reflexivity. Qed.
