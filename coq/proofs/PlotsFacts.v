(* PlotsFacts.v — facts about model/Plots.v (C18: constraints_to_vertices).
   1. [corners] is sound and complete for the corner points of a system of rows (over Q).
   2. glue: the rows handed to the oracles describe exactly the slice of the constraints and the limits
      at the given values (over R); the error cases.
   3. the angular sort: permutation, sortedness, the comparison is a total preorder.
   4. C18: relative to the Qhull spec, constraints_to_vertices returns exactly the corners, angularly sorted.
   5. the leftover-variable assert is unreachable. *)
From Coq Require Import List String Bool QArith Qabs ZArith Arith Reals Qreals Lra Lia Lqa Psatz
  Permutation Sorted Qfield.
Import ListNotations.
Require Import Py ListsGen Sem Term Poly QR ListsFacts TermFacts PolySpec PolyLP PolyFacts Plots.

(* ================================================================== *)
(** * 1. The reference enumerator *)
Section Corners.
Local Open Scope Q_scope.

Definition peq (p q : pt) : Prop := fst p == fst q /\ snd p == snd q.
Definition InP (v : pt) (l : list pt) : Prop := exists w, In w l /\ peq v w.
Definition sat3Q (p : pt) (r : row3) : Prop := lhs3 r p <= rhs3 r.
Definition tight (p : pt) (r : row3) : Prop := lhs3 r p == rhs3 r.
Definition feasQ (P : list row3) (p : pt) : Prop := forall r, In r P -> sat3Q p r.
(* a corner: feasible, and two non-parallel boundary lines pass through it *)
Definition is_corner (P : list row3) (v : pt) : Prop :=
  feasQ P v /\ exists r1 r2, In r1 P /\ In r2 P /\ ~ det r1 r2 == 0 /\ tight v r1 /\ tight v r2.

Lemma peq_refl p : peq p p.
Proof. split; reflexivity. Qed.
Lemma peq_sym p q : peq p q -> peq q p.
Proof. intros [H1 H2]; split; symmetry; assumption. Qed.
Lemma peq_trans p q r : peq p q -> peq q r -> peq p r.
Proof. intros [H1 H2] [H3 H4]; split; [rewrite H1|rewrite H2]; assumption. Qed.

Lemma pt_eqb_iff p q : pt_eqb p q = true <-> peq p q.
Proof. unfold pt_eqb, peq. rewrite andb_true_iff, !Qeq_bool_iff. tauto. Qed.

Lemma In_InP v l : In v l -> InP v l.
Proof. intros H. exists v. split; [exact H|apply peq_refl]. Qed.
Lemma InP_peq v w l : peq v w -> InP w l -> InP v l.
Proof. intros H [u [Hu Hw]]. exists u. split; [exact Hu|]. eapply peq_trans; eassumption. Qed.

Lemma lhs3_peq r p q : peq p q -> lhs3 r p == lhs3 r q.
Proof. destruct r as [[a b] c]. intros [H1 H2]. unfold lhs3. rewrite H1, H2. reflexivity. Qed.
Lemma sat3Q_peq r p q : peq p q -> sat3Q p r -> sat3Q q r.
Proof. intros H. unfold sat3Q. rewrite (lhs3_peq r p q H). tauto. Qed.
Lemma tight_peq r p q : peq p q -> tight p r -> tight q r.
Proof. intros H. unfold tight. rewrite (lhs3_peq r p q H). tauto. Qed.
Lemma feasQ_peq P p q : peq p q -> feasQ P p -> feasQ P q.
Proof. intros H Hf r Hr. eapply sat3Q_peq; [exact H|apply Hf; exact Hr]. Qed.

Lemma sat3b_iff p r : sat3b p r = true <-> sat3Q p r.
Proof. unfold sat3b, sat3Q. apply Qle_bool_iff. Qed.
Lemma feasb_iff P p : feasb P p = true <-> feasQ P p.
Proof.
  unfold feasb, feasQ. rewrite forallb_forall. split; intros H r Hr; apply sat3b_iff; apply H; exact Hr.
Qed.

Lemma dedup_incl l w : In w (dedup l) -> In w l.
Proof.
  induction l as [|p r IH]; simpl; [tauto|].
  destruct (existsb (pt_eqb p) r); simpl; intros H; [right; apply IH; exact H|].
  destruct H as [H|H]; [left; exact H|right; apply IH; exact H].
Qed.
Lemma dedup_InP l v : InP v (dedup l) <-> InP v l.
Proof.
  split.
  - intros [w [Hw Hv]]. exists w. split; [apply dedup_incl; exact Hw|exact Hv].
  - induction l as [|p r IH]; intros [w [Hw Hv]]; [destruct Hw|].
    simpl. destruct (existsb (pt_eqb p) r) eqn:E.
    + destruct Hw as [->|Hw].
      * apply existsb_exists in E. destruct E as [u [Hu He]]. apply pt_eqb_iff in He.
        apply IH. exists u. split; [exact Hu|eapply peq_trans; eassumption].
      * apply IH. exists w. tauto.
    + destruct Hw as [->|Hw].
      * exists w. split; [left; reflexivity|exact Hv].
      * destruct IH as [u [Hu Hu']]; [exists w; tauto|]. exists u. split; [right; exact Hu|exact Hu'].
Qed.
(* no two listed corners are equal *)
Lemma dedup_nodup l : forall p q r1 r2 r3, dedup l = r1 ++ p :: r2 ++ q :: r3 -> ~ peq p q.
Proof.
  induction l as [|a r IH]; intros p q r1 r2 r3 H.
  - destruct r1; discriminate.
  - simpl in H. destruct (existsb (pt_eqb a) r) eqn:E; [eapply IH; exact H|].
    destruct r1 as [|b r1]; simpl in H.
    + injection H as -> H. intros Hpq.
      assert (Hin : In q (dedup r)) by (rewrite H; apply in_or_app; right; left; reflexivity).
      apply dedup_incl in Hin.
      assert (existsb (pt_eqb p) r = true).
      { apply existsb_exists. exists q. split; [exact Hin|apply pt_eqb_iff; exact Hpq]. }
      congruence.
    + injection H as _ H. eapply IH; exact H.
Qed.

Lemma det_sym_neq r1 r2 : ~ det r1 r2 == 0 -> ~ det r2 r1 == 0.
Proof.
  destruct r1 as [[a1 b1] c1], r2 as [[a2 b2] c2]. unfold det. intros H H'. apply H.
  setoid_replace (a1 * b2 - a2 * b1) with (- (a2 * b1 - a1 * b2)) by ring. rewrite H'. reflexivity.
Qed.

(* Cramer's rule: the meet of two non-parallel lines lies on both *)
Lemma meet_tight r1 r2 : ~ det r1 r2 == 0 -> tight (meet r1 r2) r1 /\ tight (meet r1 r2) r2.
Proof.
  destruct r1 as [[a1 b1] c1], r2 as [[a2 b2] c2]. unfold det, tight, meet, lhs3, rhs3. cbn [fst snd].
  intros Hd. rewrite !Qred_correct. split; field; exact Hd.
Qed.
(* ... and it is the only such point *)
Lemma meet_unique r1 r2 v : ~ det r1 r2 == 0 -> tight v r1 -> tight v r2 -> peq v (meet r1 r2).
Proof.
  destruct r1 as [[a1 b1] c1], r2 as [[a2 b2] c2], v as [x y].
  unfold det, tight, meet, lhs3, rhs3, peq. cbn [fst snd].
  intros Hd H1 H2. rewrite !Qred_correct, <- H1, <- H2. split; field; exact Hd.
Qed.

Lemma in_meets P w :
  In w (meets P) <-> exists r1 r2, In r1 P /\ In r2 P /\ ~ det r1 r2 == 0 /\ w = meet r1 r2.
Proof.
  unfold meets. rewrite in_flat_map. split.
  - intros [r1 [H1 H]]. apply in_flat_map in H. destruct H as [r2 [H2 H]].
    destruct (Qeq_bool (det r1 r2) 0) eqn:E; [destruct H|].
    destruct H as [<-|[]]. exists r1, r2. repeat split; try assumption.
    intros Hd. apply Qeq_bool_iff in Hd. congruence.
  - intros [r1 [r2 [H1 [H2 [Hd ->]]]]]. exists r1. split; [exact H1|].
    apply in_flat_map. exists r2. split; [exact H2|].
    destruct (Qeq_bool (det r1 r2) 0) eqn:E; [apply Qeq_bool_iff in E; contradiction|left; reflexivity].
Qed.

Theorem corners_sound P v : InP v (corners P) -> is_corner P v.
Proof.
  unfold corners. rewrite dedup_InP. intros [w [Hw Hv]].
  apply filter_In in Hw. destruct Hw as [Hm Hf]. apply feasb_iff in Hf.
  apply in_meets in Hm. destruct Hm as [r1 [r2 [H1 [H2 [Hd ->]]]]].
  destruct (meet_tight r1 r2 Hd) as [T1 T2]. apply peq_sym in Hv. split.
  - eapply feasQ_peq; eassumption.
  - exists r1, r2. repeat split; try assumption; eapply tight_peq; eassumption.
Qed.
Theorem corners_complete P v : is_corner P v -> InP v (corners P).
Proof.
  intros [Hf [r1 [r2 [H1 [H2 [Hd [T1 T2]]]]]]]. unfold corners. rewrite dedup_InP.
  exists (meet r1 r2). pose proof (meet_unique r1 r2 v Hd T1 T2) as Hv. split; [|exact Hv].
  apply filter_In. split.
  - apply in_meets. exists r1, r2. tauto.
  - apply feasb_iff. eapply feasQ_peq; eassumption.
Qed.
Theorem corners_iff P v : InP v (corners P) <-> is_corner P v.
Proof. split; [apply corners_sound|apply corners_complete]. Qed.
(* with Leibniz membership *)
Corollary corners_in_sound P v : In v (corners P) -> is_corner P v.
Proof. intros H. apply corners_sound. apply In_InP. exact H. Qed.
Corollary corners_feasible P v : In v (corners P) -> feasQ P v.
Proof. intros H. apply (corners_in_sound P v H). Qed.
End Corners.

(* ================================================================== *)
(** * 3. The angular sort *)
Section Angular.
Local Open Scope Q_scope.

Lemma aclass_cases low d :
  (aclass low d = 1%nat /\ snd d < 0) \/ (aclass low d = 2%nat /\ snd d == 0 /\ 0 <= fst d) \/
  (aclass low d = 3%nat /\ 0 < snd d) \/
  ((aclass low d = 0%nat \/ aclass low d = 4%nat) /\ snd d == 0 /\ fst d < 0).
Proof.
  unfold aclass. destruct (Qcompare (snd d) 0) eqn:E.
  - apply Qeq_alt in E. destruct (Qcompare (fst d) 0) eqn:F.
    + apply Qeq_alt in F. right; left. repeat split; [exact E|rewrite F; apply Qle_refl].
    + apply Qlt_alt in F. right; right; right. destruct low; tauto.
    + apply Qgt_alt in F. right; left. repeat split; [exact E|apply Qlt_le_weak; exact F].
  - apply Qlt_alt in E. left. tauto.
  - apply Qgt_alt in E. right; right; left. tauto.
Qed.
(* the noise flag only matters for a point exactly on the branch cut *)
Lemma aclass_off_cut low d : ~ (snd d == 0 /\ fst d < 0) -> aclass low d = aclass false d.
Proof.
  intros H. unfold aclass. destruct (Qcompare (snd d) 0) eqn:E; try reflexivity.
  destruct (Qcompare (fst d) 0) eqn:F; try reflexivity.
  exfalso. apply H. split; [apply Qeq_alt; exact E|apply Qlt_alt; exact F].
Qed.
Lemma ang_leb_gen_off_cut l1 d1 l2 d2 :
  ~ (snd d1 == 0 /\ fst d1 < 0) -> ~ (snd d2 == 0 /\ fst d2 < 0) ->
  ang_leb_gen l1 d1 l2 d2 = ang_leb d1 d2.
Proof.
  intros H1 H2. unfold ang_leb, ang_leb_gen. rewrite (aclass_off_cut l1 d1 H1), (aclass_off_cut l2 d2 H2). reflexivity.
Qed.

Lemma ang_leb_gen_refl l d : ang_leb_gen l d l d = true.
Proof.
  unfold ang_leb_gen. rewrite Nat.ltb_irrefl.
  destruct (Nat.eqb (aclass l d) 1 || Nat.eqb (aclass l d) 3); [|reflexivity].
  apply Qle_bool_iff. unfold cross. setoid_replace (fst d * snd d - snd d * fst d) with 0 by ring. apply Qle_refl.
Qed.

Lemma cross_anti d1 d2 : cross d2 d1 == - cross d1 d2.
Proof. unfold cross. ring. Qed.

Lemma ang_leb_gen_total l1 d1 l2 d2 : ang_leb_gen l1 d1 l2 d2 = false -> ang_leb_gen l2 d2 l1 d1 = true.
Proof.
  unfold ang_leb_gen. destruct (Nat.ltb (aclass l1 d1) (aclass l2 d2)) eqn:L1; [discriminate|].
  destruct (Nat.ltb (aclass l2 d2) (aclass l1 d1)) eqn:L2; [reflexivity|].
  apply Nat.ltb_ge in L1, L2. assert (E : aclass l1 d1 = aclass l2 d2) by lia. rewrite E.
  destruct (Nat.eqb (aclass l2 d2) 1 || Nat.eqb (aclass l2 d2) 3); [|discriminate].
  intros H. apply Qle_bool_iff. rewrite cross_anti.
  destruct (Qlt_le_dec (cross d1 d2) 0) as [Hlt|Hge].
  - lra.
  - apply Qle_bool_iff in Hge. congruence.
Qed.

Lemma ang_leb_gen_trans l1 d1 l2 d2 l3 d3 :
  ang_leb_gen l1 d1 l2 d2 = true -> ang_leb_gen l2 d2 l3 d3 = true -> ang_leb_gen l1 d1 l3 d3 = true.
Proof.
  unfold ang_leb_gen.
  destruct (Nat.ltb (aclass l1 d1) (aclass l2 d2)) eqn:L12.
  - intros _. apply Nat.ltb_lt in L12.
    destruct (Nat.ltb (aclass l2 d2) (aclass l3 d3)) eqn:L23.
    + intros _. apply Nat.ltb_lt in L23.
      assert (L : Nat.ltb (aclass l1 d1) (aclass l3 d3) = true) by (apply Nat.ltb_lt; lia). rewrite L. reflexivity.
    + destruct (Nat.ltb (aclass l3 d3) (aclass l2 d2)) eqn:L32; [discriminate|].
      apply Nat.ltb_ge in L23, L32. intros _.
      assert (L : Nat.ltb (aclass l1 d1) (aclass l3 d3) = true) by (apply Nat.ltb_lt; lia). rewrite L. reflexivity.
  - destruct (Nat.ltb (aclass l2 d2) (aclass l1 d1)) eqn:L21; [discriminate|].
    apply Nat.ltb_ge in L12, L21. assert (E12 : aclass l1 d1 = aclass l2 d2) by lia. rewrite E12.
    destruct (Nat.ltb (aclass l2 d2) (aclass l3 d3)) eqn:L23; [reflexivity|].
    destruct (Nat.ltb (aclass l3 d3) (aclass l2 d2)) eqn:L32; [discriminate|].
    destruct (Nat.eqb (aclass l2 d2) 1 || Nat.eqb (aclass l2 d2) 3) eqn:C; [|reflexivity].
    apply Nat.ltb_ge in L23, L32. assert (E23 : aclass l2 d2 = aclass l3 d3) by lia.
    intros H12 H23. apply Qle_bool_iff in H12, H23. apply Qle_bool_iff.
    unfold cross in *.
    destruct d1 as [x1 y1], d2 as [x2 y2], d3 as [x3 y3]. cbn [fst snd] in *.
    apply orb_true_iff in C. rewrite !Nat.eqb_eq in C.
    destruct (aclass_cases l1 (x1, y1)) as [[A1 S1]|[[A1 S1]|[[A1 S1]|[A1 S1]]]];
    destruct (aclass_cases l2 (x2, y2)) as [[A2 S2]|[[A2 S2]|[[A2 S2]|[A2 S2]]]];
    destruct (aclass_cases l3 (x3, y3)) as [[A3 S3]|[[A3 S3]|[[A3 S3]|[A3 S3]]]];
    cbn [fst snd] in *; try lia.
    + (* all three below the axis *)
      assert (K : 0 <= (- y2) * (x1 * y3 - y1 * x3)).
      { setoid_replace ((- y2) * (x1 * y3 - y1 * x3))
          with ((- y3) * (x1 * y2 - y1 * x2) + (- y1) * (x2 * y3 - y2 * x3)) by ring.
        assert (0 <= (- y3) * (x1 * y2 - y1 * x2)) by (apply Qmult_le_0_compat; lra).
        assert (0 <= (- y1) * (x2 * y3 - y2 * x3)) by (apply Qmult_le_0_compat; lra). lra. }
      destruct (Qlt_le_dec (x1 * y3 - y1 * x3) 0) as [Hlt|Hge]; [|exact Hge].
      assert (0 < (- y2) * (- (x1 * y3 - y1 * x3))) by (apply Qmult_lt_0_compat; lra). lra.
    + (* all three above the axis *)
      assert (K : 0 <= y2 * (x1 * y3 - y1 * x3)).
      { setoid_replace (y2 * (x1 * y3 - y1 * x3))
          with (y3 * (x1 * y2 - y1 * x2) + y1 * (x2 * y3 - y2 * x3)) by ring.
        assert (0 <= y3 * (x1 * y2 - y1 * x2)) by (apply Qmult_le_0_compat; lra).
        assert (0 <= y1 * (x2 * y3 - y2 * x3)) by (apply Qmult_le_0_compat; lra). lra. }
      destruct (Qlt_le_dec (x1 * y3 - y1 * x3) 0) as [Hlt|Hge]; [|exact Hge].
      assert (0 < y2 * (- (x1 * y3 - y1 * x3))) by (apply Qmult_lt_0_compat; lra). lra.
Qed.

(* the exact comparison (no noise) is a total preorder on ALL vectors *)
Definition ang_le (d1 d2 : pt) : Prop := ang_leb d1 d2 = true.
Lemma ang_leb_refl d : ang_leb d d = true.
Proof. apply ang_leb_gen_refl. Qed.
Lemma ang_leb_total d1 d2 : ang_leb d1 d2 = false -> ang_leb d2 d1 = true.
Proof. apply ang_leb_gen_total. Qed.
Lemma ang_leb_trans d1 d2 d3 : ang_leb d1 d2 = true -> ang_leb d2 d3 = true -> ang_leb d1 d3 = true.
Proof. apply ang_leb_gen_trans. Qed.
(* inside an open half-plane it is the sign of the cross product *)
Lemma ang_leb_upper d1 d2 : 0 < snd d1 -> 0 < snd d2 -> (ang_leb d1 d2 = true <-> 0 <= cross d1 d2).
Proof.
  intros H1 H2. unfold ang_leb, ang_leb_gen.
  destruct (aclass_cases false d1) as [[A1 S1]|[[A1 S1]|[[A1 S1]|[A1 S1]]]]; try lra.
  destruct (aclass_cases false d2) as [[A2 S2]|[[A2 S2]|[[A2 S2]|[A2 S2]]]]; try lra.
  rewrite A1, A2. simpl. apply Qle_bool_iff.
Qed.
Lemma ang_leb_lower d1 d2 : snd d1 < 0 -> snd d2 < 0 -> (ang_leb d1 d2 = true <-> 0 <= cross d1 d2).
Proof.
  intros H1 H2. unfold ang_leb, ang_leb_gen.
  destruct (aclass_cases false d1) as [[A1 S1]|[[A1 S1]|[[A1 S1]|[A1 S1]]]]; try lra.
  destruct (aclass_cases false d2) as [[A2 S2]|[[A2 S2]|[[A2 S2]|[A2 S2]]]]; try lra.
  rewrite A1, A2. simpl. apply Qle_bool_iff.
Qed.

(* the order at a centre, for any noise oracle *)
Definition ang_le_at (low : pt -> bool) (c p q : pt) : Prop := ang_leb_at low c p q = true.
Lemma ang_le_at_refl low c p : ang_le_at low c p p.
Proof. apply ang_leb_gen_refl. Qed.
Lemma ang_le_at_total low c p q : ang_le_at low c p q \/ ang_le_at low c q p.
Proof.
  unfold ang_le_at, ang_leb_at.
  destruct (ang_leb_gen (low p) (vsub p c) (low q) (vsub q c)) eqn:E; [left; reflexivity|].
  right. apply ang_leb_gen_total. exact E.
Qed.
Lemma ang_le_at_trans low c p q r : ang_le_at low c p q -> ang_le_at low c q r -> ang_le_at low c p r.
Proof. apply ang_leb_gen_trans. Qed.
(* with exact arithmetic it is the exact order of the difference vectors *)
Lemma ang_le_at_exact c p q : ang_le_at exact c p q <-> ang_le (vsub p c) (vsub q c).
Proof. reflexivity. Qed.

Lemma insert_ang_perm low c p l : Permutation (insert_ang low c p l) (p :: l).
Proof.
  induction l as [|q r IH]; simpl; [apply Permutation_refl|].
  destruct (ang_leb_at low c p q); [apply Permutation_refl|].
  eapply Permutation_trans; [apply perm_skip; exact IH|apply perm_swap].
Qed.
Theorem sort_angular_perm low c l : Permutation (sort_angular low c l) l.
Proof.
  induction l as [|p r IH]; simpl; [constructor|].
  eapply Permutation_trans; [apply insert_ang_perm|apply perm_skip; exact IH].
Qed.
Corollary sort_angular_in low c l p : In p (sort_angular low c l) <-> In p l.
Proof.
  split; apply Permutation_in; [apply sort_angular_perm|apply Permutation_sym; apply sort_angular_perm].
Qed.
Corollary sort_angular_length low c l : List.length (sort_angular low c l) = List.length l.
Proof. apply Permutation_length. apply sort_angular_perm. Qed.

Lemma insert_ang_sorted low c p l :
  StronglySorted (ang_le_at low c) l -> StronglySorted (ang_le_at low c) (insert_ang low c p l).
Proof.
  induction l as [|q r IH]; intros Hs; simpl.
  - constructor; constructor.
  - inversion Hs as [|? ? Hr Hq]; subst. destruct (ang_leb_at low c p q) eqn:E.
    + constructor; [exact Hs|]. constructor; [exact E|].
      rewrite Forall_forall in *. intros z Hz. eapply ang_le_at_trans; [exact E|apply Hq; exact Hz].
    + constructor; [apply IH; exact Hr|].
      rewrite Forall_forall in *. intros z Hz.
      apply (Permutation_in _ (insert_ang_perm low c p r)) in Hz. destruct Hz as [<-|Hz].
      * apply ang_leb_gen_total. exact E.
      * apply Hq. exact Hz.
Qed.
(* every earlier point has an angle <= every later point's *)
Theorem sort_angular_strongly_sorted low c l : StronglySorted (ang_le_at low c) (sort_angular low c l).
Proof. induction l as [|p r IH]; simpl; [constructor|apply insert_ang_sorted; exact IH]. Qed.
(* consecutive points are in non-decreasing angular order *)
Theorem sort_angular_sorted low c l : Sorted (ang_le_at low c) (sort_angular low c l).
Proof. apply StronglySorted_Sorted. apply sort_angular_strongly_sorted. Qed.

(* stability: points with the same angle keep their relative order *)
Lemma insert_ang_filter low c (f : pt -> bool) p l :
  (forall q, In q l -> f q = true -> f p = true -> ang_leb_at low c p q = true) ->
  filter f (insert_ang low c p l) = filter f (p :: l).
Proof.
  induction l as [|q r IH]; intros H; [reflexivity|].
  simpl. destruct (ang_leb_at low c p q) eqn:E; [reflexivity|].
  simpl. destruct (f q) eqn:Fq.
  - destruct (f p) eqn:Fp.
    + rewrite (H q (or_introl eq_refl) Fq eq_refl) in E. discriminate.
    + rewrite IH by (intros z Hz; apply H; right; exact Hz). simpl. rewrite Fp. reflexivity.
  - rewrite IH by (intros z Hz; apply H; right; exact Hz). reflexivity.
Qed.
Theorem sort_angular_stable low c l p0 :
  let same q := ang_leb_at low c p0 q && ang_leb_at low c q p0 in
  filter same (sort_angular low c l) = filter same l.
Proof.
  intros same. induction l as [|p r IH]; [reflexivity|].
  cbn [sort_angular fold_right]. fold (sort_angular low c r).
  rewrite insert_ang_filter.
  - cbn [filter]. rewrite IH. reflexivity.
  - intros q _ Hq Hp. unfold same in *. apply andb_true_iff in Hq, Hp.
    eapply ang_leb_gen_trans; [apply Hp|apply Hq].
Qed.

(* the noise oracle is irrelevant unless some point lies exactly on the branch cut *)
Definition on_cut (c p : pt) : Prop := snd (vsub p c) == 0 /\ fst (vsub p c) < 0.
Lemma insert_ang_ext low1 low2 c p l :
  (forall q, In q l -> ang_leb_at low1 c p q = ang_leb_at low2 c p q) ->
  insert_ang low1 c p l = insert_ang low2 c p l.
Proof.
  induction l as [|q r IH]; intros H; [reflexivity|].
  simpl. rewrite (H q (or_introl eq_refl)). destruct (ang_leb_at low2 c p q); [reflexivity|].
  f_equal. apply IH. intros z Hz. apply H. right. exact Hz.
Qed.
Theorem sort_angular_no_cut low c l :
  (forall p, In p l -> ~ on_cut c p) -> sort_angular low c l = sort_angular exact c l.
Proof.
  induction l as [|p r IH]; intros H; [reflexivity|].
  cbn [sort_angular fold_right]. fold (sort_angular low c r). fold (sort_angular exact c r).
  rewrite IH by (intros z Hz; apply H; right; exact Hz).
  apply insert_ang_ext. intros q Hq. apply sort_angular_in in Hq.
  unfold ang_leb_at. rewrite !ang_leb_gen_off_cut; try reflexivity.
  - apply (H p). left. reflexivity.
  - apply (H q). right. exact Hq.
  - apply (H p). left. reflexivity.
  - apply (H q). right. exact Hq.
Qed.
End Angular.

(* ================================================================== *)
(** * 2. Glue: the rows describe exactly the slice *)
Section Glue.
Local Open Scope R_scope.

(* the term  var = q  used by _substitute_in_termlist *)
Definition cterm (q : Q) : pterm := mk_term [] (qneg q).
Lemma wft_cterm q : wft (cterm q).
Proof. unfold wft, cterm. simpl. constructor. Qed.
Lemma subst_term_nil t : subst_term t [] = t.
Proof. reflexivity. Qed.
Lemma subst_term_cons t p vals :
  subst_term t (p :: vals) = subst_term (term_substitute_variable t (fst p) (cterm (snd p))) vals.
Proof. reflexivity. Qed.

Lemma wft_subst_term t vals : wft t -> wft (subst_term t vals).
Proof.
  revert t. induction vals as [|p r IH]; intros t H; [exact H|].
  rewrite subst_term_cons. apply IH. apply wft_substitute_variable; [exact H|apply wft_cterm].
Qed.
Lemma wft'_subst_term t vals : wft' t -> wft' (subst_term t vals).
Proof.
  revert t. induction vals as [|p r IH]; intros t H; [exact H|].
  rewrite subst_term_cons. apply IH. apply wft'_substitute_variable; [apply H|apply wft_cterm].
Qed.

(* substitution of the given values does not change the meaning at a valuation that has those values *)
Lemma subst_term_sat rho t vals :
  wft t -> (forall v q, In (v, q) vals -> rho v = Q2R q) ->
  (sat rho (subst_term t vals) <-> sat rho t).
Proof.
  revert t. induction vals as [|[v q] r IH]; intros t Ht Hr; [tauto|].
  rewrite subst_term_cons. cbn [fst snd].
  rewrite IH.
  - apply (substitute_sat rho t v (cterm q) Ht (wft_cterm q)).
    unfold cterm. rewrite mk_term_const. simpl. rewrite Q2R_qneg, (Hr v q (or_introl eq_refl)). lra.
  - apply wft_substitute_variable; [exact Ht|apply wft_cterm].
  - intros v' q' H. apply Hr. right. exact H.
Qed.

(* --- which variables survive --- *)
Lemma in_keys_filter_map (h : var -> Q) vl w :
  In w (keys (filter nzb (map (fun u => (u, h u)) vl))) <-> In w vl /\ ~ (h w == 0)%Q.
Proof.
  induction vl as [|u r IH]; simpl; [tauto|].
  unfold nzb at 1. cbn [snd]. destruct (qzero (h u)) eqn:E; cbn [negb].
  - apply qzero_true_iff in E. rewrite IH. split.
    + intros [H1 H2]. tauto.
    + intros [[->|H1] H2]; [contradiction|tauto].
  - apply qzero_false_iff in E. rewrite keys_cons. simpl. rewrite IH. split.
    + intros [->|[H1 H2]]; tauto.
    + intros [[->|H1] H2]; tauto.
Qed.
Lemma term_multiply_cterm_vars q a : term_vars_p (term_multiply (cterm q) a) = [].
Proof. reflexivity. Qed.
Lemma in_vars_term_add t1 t2 w :
  In w (term_vars_p (term_add t1 t2)) <->
  (In w (term_vars_p t1) \/ In w (term_vars_p t2)) /\
  ~ (qadd (get_coefficient t1 w) (get_coefficient t2 w) == 0)%Q.
Proof.
  unfold term_add, term_vars_p at 1. rewrite mk_term_vars.
  rewrite (in_keys_filter_map (fun v => qadd (get_coefficient t1 v) (get_coefficient t2 v))).
  rewrite in_list_union. tauto.
Qed.
Lemma coef_dict_pop_neq l v w : w <> v -> coef (dict_pop l v) w = coef l w.
Proof.
  intros Hn. unfold coef. induction l as [|[k q] r IH]; [reflexivity|].
  unfold dict_pop in *. cbn [filter fst]. destruct (String.eqb k v) eqn:E; cbn [negb].
  - apply String.eqb_eq in E. subst k. cbn [assoc].
    destruct (String.eqb v w) eqn:E2; [apply String.eqb_eq in E2; congruence|]. exact IH.
  - cbn [assoc]. destruct (String.eqb k w); [reflexivity|exact IH].
Qed.

Lemma vars_subst1_incl t v q w :
  In w (term_vars_p (term_substitute_variable t v (cterm q))) -> In w (term_vars_p t) /\ w <> v.
Proof.
  unfold term_substitute_variable. destruct (contains_var t v) eqn:E.
  - rewrite in_vars_term_add, term_multiply_cterm_vars. intros [[H|[]] _].
    apply in_vars_remove_variable. exact H.
  - intros H. apply in_vars_copy in H. split; [exact H|].
    apply contains_var_notin in E. intros ->. contradiction.
Qed.
Lemma vars_subst1_keep t v q w :
  wft' t -> In w (term_vars_p t) -> w <> v ->
  In w (term_vars_p (term_substitute_variable t v (cterm q))).
Proof.
  intros [Hw Hnz] Hin Hne. unfold term_substitute_variable. destruct (contains_var t v) eqn:E.
  - assert (Hthat : tvars (term_remove_variable t v) = dict_pop (tvars t) v).
    { unfold term_remove_variable. rewrite E, (term_copy_id t Hnz). reflexivity. }
    apply in_vars_term_add. split.
    + left. unfold term_vars_p. rewrite Hthat. apply in_keys_dict_pop. split; assumption.
    + rewrite (get_coefficient_notin (term_multiply (cterm q) (get_coefficient t v)) w)
        by (rewrite term_multiply_cterm_vars; intros []).
      rewrite get_coefficient_coef, Hthat, coef_dict_pop_neq by exact Hne.
      intros H0. apply (coef_nonzero (tvars t) w Hnz Hin).
      unfold qadd in H0. rewrite Qred_correct in H0. rewrite <- H0. ring.
  - rewrite (term_copy_id t Hnz). exact Hin.
Qed.
Lemma vars_subst_incl t vals w :
  In w (term_vars_p (subst_term t vals)) -> In w (term_vars_p t) /\ ~ In w (keys vals).
Proof.
  revert t. induction vals as [|[v q] r IH]; intros t H; [split; [exact H|intros []]|].
  rewrite subst_term_cons in H. apply IH in H. destruct H as [H1 H2]. cbn [fst snd] in H1.
  apply vars_subst1_incl in H1. destruct H1 as [H1 H3]. split; [exact H1|].
  rewrite keys_cons. intros [->|H]; [congruence|contradiction].
Qed.
Lemma vars_subst_keep t vals w :
  wft' t -> In w (term_vars_p t) -> ~ In w (keys vals) -> In w (term_vars_p (subst_term t vals)).
Proof.
  revert t. induction vals as [|[v q] r IH]; intros t Hw Hin Hn; [exact Hin|].
  rewrite subst_term_cons. cbn [fst snd]. rewrite keys_cons in Hn. apply IH.
  - apply wft'_substitute_variable; [apply Hw|apply wft_cterm].
  - apply vars_subst1_keep; [exact Hw|exact Hin|]. intros ->. apply Hn. left. reflexivity.
  - intros H. apply Hn. right. exact H.
Qed.

(* --- _substitute_in_termlist --- *)
Definition live (t : pterm) : bool := nonempty (term_vars_p t).
Lemma sub_tl_ok ts vals out :
  substitute_in_termlist ts vals = inl out ->
  out = filter live (map (fun t => subst_term t vals) ts) /\
  (forall t, In t ts -> live (subst_term t vals) = false -> qlt (tconst (subst_term t vals)) 0 = false).
Proof.
  revert out. induction ts as [|t r IH]; intros out H.
  - simpl in H. injection H as <-. split; [reflexivity|intros t []].
  - cbn [substitute_in_termlist] in H. cbn [map filter]. unfold live at 1.
    destruct (nonempty (term_vars_p (subst_term t vals))) eqn:E.
    + apply bind_inl in H. destruct H as [rest [H1 H2]]. injection H2 as <-.
      destruct (IH rest H1) as [-> IH2]. split; [reflexivity|].
      intros t' [<-|Hin] Hl; [unfold live in Hl; congruence|apply IH2; assumption].
    + destruct (qlt (tconst (subst_term t vals)) 0) eqn:E2; [discriminate|].
      destruct (IH out H) as [-> IH2]. split; [reflexivity|].
      intros t' [<-|Hin] Hl; [exact E2|apply IH2; assumption].
Qed.
Lemma sub_tl_err ts vals e :
  substitute_in_termlist ts vals = inr e ->
  e = ValueErr /\ exists t, In t ts /\ live (subst_term t vals) = false /\
                            qlt (tconst (subst_term t vals)) 0 = true.
Proof.
  induction ts as [|t r IH]; intros H; [discriminate|].
  cbn [substitute_in_termlist] in H.
  destruct (nonempty (term_vars_p (subst_term t vals))) eqn:E.
  - apply bind_inr in H. destruct H as [H|[a [_ H]]]; [|discriminate].
    destruct (IH H) as [-> [t' [H1 H2]]]. split; [reflexivity|]. exists t'. split; [right; exact H1|exact H2].
  - destruct (qlt (tconst (subst_term t vals)) 0) eqn:E2.
    + injection H as <-. split; [reflexivity|]. exists t. split; [left; reflexivity|]. split; assumption.
    + destruct (IH H) as [-> [t' [H1 H2]]]. split; [reflexivity|]. exists t'. split; [right; exact H1|exact H2].
Qed.

(* --- TermList.__or__ --- *)
Lemma in_union_terms (l1 l2 : list pterm) t : In t (list_union l1 l2) -> In t l1 \/ In t l2.
Proof.
  unfold list_union. intros H. apply in_app_or in H. destruct H as [H|H]; [left; exact H|].
  apply filter_In in H. right. tauto.
Qed.
Lemma in_union_l (l1 l2 : list pterm) t : In t l1 -> In t (list_union l1 l2).
Proof. intros H. unfold list_union. apply in_or_app. left. exact H. Qed.
Lemma union_has (l1 l2 : list pterm) b :
  Forall wft l1 -> wft b -> In b l2 ->
  exists t, In t (list_union l1 l2) /\ term_eqb_p b t = true.
Proof.
  intros H1 Hb Hin. destruct (py_in b l1) eqn:E.
  - unfold py_in in E. apply existsb_exists in E. destruct E as [t [Ht He]].
    exists t. split; [apply in_union_l; exact Ht|exact He].
  - exists b. split; [|apply term_eqb_refl; exact Hb].
    unfold list_union. apply in_or_app. right. apply filter_In. rewrite E. tauto.
Qed.
Lemma Forall_sat_union rho (l1 l2 : list pterm) :
  Forall wft l1 -> Forall wft l2 ->
  (Forall (sat rho) (list_union l1 l2) <-> Forall (sat rho) l1 /\ Forall (sat rho) l2).
Proof.
  intros W1 W2. rewrite !Forall_forall in *. split.
  - intros H. split; intros t Ht.
    + apply H. apply in_union_l. exact Ht.
    + destruct (union_has l1 l2 t) as [u [Hu He]]; [apply Forall_forall; exact W1|apply W2; exact Ht|exact Ht|].
      assert (Wu : wft u).
      { apply in_union_terms in Hu. destruct Hu as [Hu|Hu]; [apply W1|apply W2]; exact Hu. }
      apply (term_eqb_sat t u (W2 t Ht) Wu He rho). apply H. exact Hu.
  - intros [H1 H2] t Ht. apply in_union_terms in Ht. destruct Ht as [Ht|Ht]; [apply H1|apply H2]; exact Ht.
Qed.

Lemma wft_boundary x y xl yl : Forall wft (gen_boundary x y xl yl).
Proof.
  unfold gen_boundary.
  repeat (apply Forall_cons; [apply wft_mk_term; simpl; constructor; [intros []|constructor]|]). constructor.
Qed.
Lemma Forall_map_copy (P : pterm -> Prop) l :
  (forall t, P t -> P (term_copy t)) -> Forall P l -> Forall P (map term_copy l).
Proof. intros H Hl. induction Hl; simpl; constructor; auto. Qed.
Lemma wft'_map_copy l : Forall wft l -> Forall wft' (map term_copy l).
Proof. intros Hl. induction Hl; simpl; constructor; [apply wft'_copy; assumption|assumption]. Qed.
Lemma wft'_wft t : wft' t -> wft t.
Proof. intros [H _]. exact H. Qed.
Lemma Forall_wft'_wft l : Forall wft' l -> Forall wft l.
Proof. apply Forall_impl. apply wft'_wft. Qed.

Lemma wft'_tl_or a b : Forall wft a -> Forall wft b -> Forall wft' (tl_or a b).
Proof.
  intros Ha Hb. unfold tl_or. apply Forall_forall. intros t Ht. apply in_union_terms in Ht.
  pose proof (wft'_map_copy a Ha) as Ha'. pose proof (wft'_map_copy b Hb) as Hb'.
  rewrite Forall_forall in Ha', Hb'. destruct Ht as [Ht|Ht]; [apply Ha'|apply Hb']; exact Ht.
Qed.
Lemma sat_tl_or rho a b :
  Forall wft a -> Forall wft b ->
  (Forall (sat rho) (tl_or a b) <-> Forall (sat rho) a /\ Forall (sat rho) b).
Proof.
  intros Ha Hb. unfold tl_or.
  rewrite Forall_sat_union by (apply Forall_wft'_wft; apply wft'_map_copy; assumption).
  rewrite !Forall_map.
  assert (E : forall l, Forall (fun t => sat rho (term_copy t)) l <-> Forall (sat rho) l).
  { intros l. rewrite !Forall_forall. split; intros H t Ht; apply (sat_copy rho t); apply H; exact Ht. }
  rewrite !E. tauto.
Qed.
Lemma vars_tl_or a b t v :
  In t (tl_or a b) -> In v (term_vars_p t) -> In v (tl_vars a) \/ In v (tl_vars b).
Proof.
  unfold tl_or. intros Ht Hv. apply in_union_terms in Ht.
  destruct Ht as [Ht|Ht]; apply in_map_iff in Ht; destruct Ht as [t0 [<- Ht0]]; apply in_vars_copy in Hv;
    [left|right]; apply in_tl_vars; exists t0; tauto.
Qed.
Lemma tl_or_has a b t0 :
  Forall wft a -> Forall wft b -> In t0 b ->
  exists t, In t (tl_or a b) /\ (forall v, In v (term_vars_p (term_copy t0)) <-> In v (term_vars_p t)).
Proof.
  intros Ha Hb Hin. unfold tl_or.
  assert (W0 : wft (term_copy t0)).
  { apply wft_copy. rewrite Forall_forall in Hb. apply Hb. exact Hin. }
  destruct (union_has (map term_copy a) (map term_copy b) (term_copy t0)) as [t [Ht He]].
  - apply Forall_wft'_wft. apply wft'_map_copy. exact Ha.
  - exact W0.
  - apply in_map. exact Hin.
  - exists t. split; [exact Ht|].
    assert (Wt : wft t).
    { pose proof (wft'_tl_or a b Ha Hb) as H. rewrite Forall_forall in H. apply wft'_wft. apply H. exact Ht. }
    apply (term_eqb_coeff _ _ W0 Wt) in He. apply He.
Qed.

Lemma tl_vars_boundary x y xl yl v : In v (tl_vars (gen_boundary x y xl yl)) -> v = x \/ v = y.
Proof.
  intros H. apply in_tl_vars in H. destruct H as [t [Ht Hv]]. unfold gen_boundary in Ht.
  simpl in Ht. destruct Ht as [<-|[<-|[<-|[<-|[]]]]]; simpl in Hv; intuition congruence.
Qed.

(* the valuation of the slice *)
Definition slice_val (x y : var) (vals : behavior) (px py : R) : val :=
  fun v => if String.eqb v x then px else if String.eqb v y then py else Q2R (coef vals v).
Definition sat3R (px py : R) (r : row3) : Prop :=
  let '(a, b, c) := r in Q2R a * px + Q2R b * py <= Q2R c.

Lemma slice_val_x x y vals px py : slice_val x y vals px py x = px.
Proof. unfold slice_val. rewrite String.eqb_refl. reflexivity. Qed.
Lemma slice_val_y x y vals px py : x <> y -> slice_val x y vals px py y = py.
Proof.
  intros H. unfold slice_val. destruct (String.eqb y x) eqn:E; [apply String.eqb_eq in E; congruence|].
  rewrite String.eqb_refl. reflexivity.
Qed.
Lemma slice_val_agrees x y vals px py :
  NoDup (keys vals) -> ~ In x (keys vals) -> ~ In y (keys vals) ->
  forall v q, In (v, q) vals -> slice_val x y vals px py v = Q2R q.
Proof.
  intros Hnd Hx Hy v q Hin. unfold slice_val.
  assert (Hk : In v (keys vals)) by (eapply in_keys; exact Hin).
  destruct (String.eqb v x) eqn:E1; [apply String.eqb_eq in E1; congruence|].
  destruct (String.eqb v y) eqn:E2; [apply String.eqb_eq in E2; congruence|].
  rewrite (coef_in vals v q Hnd Hin). reflexivity.
Qed.

Lemma sat_boundary rho x y xl yl :
  Forall (sat rho) (gen_boundary x y xl yl) <->
  (Q2R (fst xl) <= rho x <= Q2R (snd xl) /\ Q2R (fst yl) <= rho y <= Q2R (snd yl)).
Proof.
  unfold gen_boundary. rewrite !Forall_cons_iff. unfold sat. rewrite !lin_mk_term, !mk_term_const.
  cbn [lin]. rewrite !Q2R_qneg. rewrite Q2R_opp. replace (Q2R 1) with 1 by (symmetry; apply Q2R_1).
  split.
  - intros [H1 [H2 [H3 [H4 _]]]]. lra.
  - intros [[H1 H2] [H3 H4]]. repeat split; try lra. constructor.
Qed.

(* a term over x and y only is its matrix row *)
Lemma row_sat rho t x y :
  wft t -> x <> y -> (forall v, In v (term_vars_p t) -> v = x \/ v = y) ->
  (sat3R (rho x) (rho y) (get_coefficient t x, get_coefficient t y, tconst t) <-> sat rho t).
Proof.
  intros Hw Hxy Hv. unfold sat3R, sat.
  rewrite (lin_get_coefficient rho t [x; y] Hw).
  - simpl. split; intros H; lra.
  - constructor; [simpl; intros [H|[]]; congruence|constructor; [intros []|constructor]].
  - intros v H. destruct (Hv v H) as [->| ->]; simpl; tauto.
Qed.

Lemma two_vars (vs : list var) x y :
  NoDup vs -> In x vs -> In y vs -> x <> y -> (forall v, In v vs -> v = x \/ v = y) ->
  vs = [x; y] \/ vs = [y; x].
Proof.
  intros Hnd Hx Hy Hxy Hall.
  destruct vs as [|a [|b [|c r]]].
  - destruct Hx.
  - simpl in Hx, Hy. destruct Hx as [->|[]]. destruct Hy as [->|[]]. congruence.
  - inversion Hnd as [|? ? Ha Hnd']; subst. simpl in Ha.
    destruct (Hall a (or_introl eq_refl)) as [->| ->]; destruct (Hall b (or_intror (or_introl eq_refl))) as [->| ->];
      try tauto.
  - exfalso. inversion Hnd as [|? ? Ha Hnd']; subst. inversion Hnd' as [|? ? Hb Hnd'']; subst. simpl in Ha, Hb.
    destruct (Hall a (or_introl eq_refl)) as [->| ->];
    destruct (Hall b (or_intror (or_introl eq_refl))) as [->| ->];
    destruct (Hall c (or_intror (or_intror (or_introl eq_refl)))) as [->| ->]; tauto.
Qed.

(* the rows of a term list over the two plot variables *)
Definition slice_rows (x y : var) (ts : list pterm) : list row3 :=
  map (fun t => (get_coefficient t x, get_coefficient t y, tconst t)) ts.
Lemma rows_xy x y ts :
  map row_triple (map (term_to_row [x; y]) ts) = slice_rows x y ts.
Proof. unfold slice_rows. rewrite map_map. reflexivity. Qed.
Lemma rows_yx x y ts :
  map row_triple (map swap01 (map (term_to_row [y; x]) ts)) = slice_rows x y ts.
Proof. unfold slice_rows. rewrite !map_map. reflexivity. Qed.

(* ---- the structure of a run of plot_rows ---- *)
Definition checks_pass (cs : list pterm) (x y : var) (vals : behavior) : Prop :=
  ~ In x (keys vals) /\ ~ In y (keys vals) /\
  (forall v, In v (tl_vars cs) -> v = x \/ v = y \/ In v (keys vals)).

Lemma checks_dec cs x y vals :
  (py_in x (keys vals) = false /\ py_in y (keys vals) = false /\
   nonempty (list_diff (tl_vars cs) (list_union [x; y] (keys vals))) = false) <-> checks_pass cs x y vals.
Proof.
  unfold checks_pass. rewrite !py_in_var_false, nonempty_false. split.
  - intros [H1 [H2 H3]]. split; [exact H1|]. split; [exact H2|]. intros v Hv.
    destruct (in_dec string_dec v (list_union [x; y] (keys vals))) as [Hi|Hi].
    + apply in_list_union in Hi. simpl in Hi. destruct Hi as [[<-|[<-|[]]]|Hi]; tauto.
    + exfalso. assert (Hd : In v (list_diff (tl_vars cs) (list_union [x; y] (keys vals)))) by (apply in_list_diff; tauto).
      rewrite H3 in Hd. destruct Hd.
  - intros [H1 [H2 H3]]. split; [exact H1|]. split; [exact H2|].
    destruct (list_diff (tl_vars cs) (list_union [x; y] (keys vals))) as [|v r] eqn:E; [reflexivity|exfalso].
    assert (Hd : In v (list_diff (tl_vars cs) (list_union [x; y] (keys vals)))) by (rewrite E; left; reflexivity).
    apply in_list_diff in Hd. destruct Hd as [Hd1 Hd2]. apply Hd2. apply in_list_union. simpl.
    destruct (H3 v Hd1) as [->|[->|H]]; tauto.
Qed.

Section Run.
Variables (cs : list pterm) (x y : var) (vals : behavior) (xl yl : Q * Q).
Hypothesis Hwf : Forall wft cs.
Hypothesis Hxy : x <> y.
Hypothesis Hchk : checks_pass cs x y vals.
Let term_list := tl_or cs (gen_boundary x y xl yl).
Let plot_tl := filter live (map (fun t => subst_term t vals) term_list).

Lemma plot_tl_wft : Forall wft plot_tl.
Proof.
  apply Forall_forall. intros t Ht. apply filter_In in Ht. destruct Ht as [Ht _].
  apply in_map_iff in Ht. destruct Ht as [t0 [<- Ht0]]. apply wft_subst_term.
  pose proof (wft'_tl_or cs _ Hwf (wft_boundary x y xl yl)) as H. rewrite Forall_forall in H.
  apply wft'_wft. apply H. exact Ht0.
Qed.
(* 5. what the assert checks always holds *)
Lemma plot_tl_vars t v : In t plot_tl -> In v (term_vars_p t) -> v = x \/ v = y.
Proof.
  intros Ht Hv. apply filter_In in Ht. destruct Ht as [Ht _].
  apply in_map_iff in Ht. destruct Ht as [t0 [<- Ht0]].
  apply vars_subst_incl in Hv. destruct Hv as [Hv Hn].
  destruct (vars_tl_or _ _ _ _ Ht0 Hv) as [H|H].
  - destruct Hchk as [_ [_ H3]]. destruct (H3 v H) as [->|[->|Hk]]; tauto.
  - apply tl_vars_boundary in H. exact H.
Qed.
Lemma plot_tl_assert : nonempty (list_diff (tl_vars plot_tl) [x; y]) = false.
Proof.
  apply nonempty_false. destruct (list_diff (tl_vars plot_tl) [x; y]) as [|v r] eqn:E; [reflexivity|exfalso].
  assert (Hd : In v (list_diff (tl_vars plot_tl) [x; y])) by (rewrite E; left; reflexivity).
  apply in_list_diff in Hd. destruct Hd as [H1 H2]. apply in_tl_vars in H1. destruct H1 as [t [Ht Hv]].
  apply H2. simpl. destruct (plot_tl_vars t v Ht Hv) as [->| ->]; tauto.
Qed.
Lemma plot_tl_has t0 v :
  In t0 (gen_boundary x y xl yl) -> In v (term_vars_p (term_copy t0)) -> ~ In v (keys vals) ->
  In v (tl_vars plot_tl).
Proof.
  intros Hin Hv Hn.
  destruct (tl_or_has cs _ t0 Hwf (wft_boundary x y xl yl) Hin) as [t [Ht Hvars]].
  apply in_tl_vars. exists (subst_term t vals).
  assert (W : wft' t).
  { pose proof (wft'_tl_or cs _ Hwf (wft_boundary x y xl yl)) as H. rewrite Forall_forall in H. apply H. exact Ht. }
  assert (Hk : In v (term_vars_p (subst_term t vals))).
  { apply vars_subst_keep; [exact W|apply Hvars; exact Hv|exact Hn]. }
  split; [|exact Hk]. apply filter_In. split; [apply (in_map (fun t => subst_term t vals)); exact Ht|].
  unfold live. destruct (term_vars_p (subst_term t vals)); [destruct Hk|reflexivity].
Qed.
Lemma plot_tl_vs : polytope_vars plot_tl [] = [x; y] \/ polytope_vars plot_tl [] = [y; x].
Proof.
  assert (E : polytope_vars plot_tl [] = tl_vars plot_tl).
  { unfold polytope_vars, list_union. simpl. apply app_nil_r. }
  rewrite E. destruct Hchk as [Hx [Hy _]]. apply two_vars.
  - apply NoDup_tl_vars. apply plot_tl_wft.
  - apply (plot_tl_has (mk_term [(x, 1%Q)] (snd xl))); [left; reflexivity|left; reflexivity|exact Hx].
  - apply (plot_tl_has (mk_term [(y, 1%Q)] (snd yl))); [right; right; left; reflexivity|left; reflexivity|exact Hy].
  - exact Hxy.
  - intros v Hv. apply in_tl_vars in Hv. destruct Hv as [t [Ht Hv]]. eapply plot_tl_vars; eassumption.
Qed.

(* after a successful substitution, plot_rows returns the rows of plot_tl *)
Lemma plot_rows_unfold :
  plot_rows cs x y vals xl yl =
  (tl <- substitute_in_termlist term_list vals ;;
   if nonempty (list_diff (tl_vars tl) [x; y]) then raise (Escape "AssertionError") else
   let vs := polytope_vars tl [] in
   let rows := map (term_to_row vs) tl in
   match vs with
   | [] => raise (Escape "IndexError")
   | v0 :: _ =>
       if String.eqb v0 y then
         if Nat.ltb (List.length vs) 2 then raise (Escape "IndexError")
         else ret (map row_triple (map swap01 rows))
       else ret (map row_triple rows)
   end).
Proof.
  apply checks_dec in Hchk. destruct Hchk as [H1 [H2 H3]].
  unfold plot_rows. rewrite H1, H2, H3. reflexivity.
Qed.
Lemma plot_rows_after_subst :
  substitute_in_termlist term_list vals = inl plot_tl ->
  plot_rows cs x y vals xl yl = inl (slice_rows x y plot_tl).
Proof.
  intros Hs. rewrite plot_rows_unfold, Hs. cbn [bind]. rewrite plot_tl_assert. cbv zeta.
  destruct plot_tl_vs as [E|E]; rewrite E.
  - destruct (String.eqb x y) eqn:Exy; [apply String.eqb_eq in Exy; contradiction|].
    unfold ret. rewrite rows_xy. reflexivity.
  - rewrite String.eqb_refl. cbn [List.length Nat.ltb Nat.leb]. unfold ret. rewrite rows_yx. reflexivity.
Qed.

Lemma slice_rows_sat px py :
  Forall (sat3R px py) (slice_rows x y plot_tl) <-> Forall (sat (slice_val x y vals px py)) plot_tl.
Proof.
  unfold slice_rows. rewrite Forall_map, !Forall_forall.
  pose proof plot_tl_wft as W. rewrite Forall_forall in W.
  split; intros H t Ht; specialize (H t Ht);
    pose proof (row_sat (slice_val x y vals px py) t x y (W t Ht) Hxy (fun v => plot_tl_vars t v Ht)) as E;
    rewrite slice_val_x, slice_val_y in E by exact Hxy; apply E; exact H.
Qed.
End Run.

Lemma live_false_tvars t : live t = false -> tvars t = [].
Proof.
  unfold live, term_vars_p, keys. intros H. apply nonempty_false in H. apply map_eq_nil in H. exact H.
Qed.
Lemma dead_sat rho t : live t = false -> (sat rho t <-> qlt (tconst t) 0 = false).
Proof.
  intros H. unfold sat. rewrite (live_false_tvars t H). cbn [lin]. split.
  - intros Hs. destruct (qlt (tconst t) 0) eqn:E; [|reflexivity].
    apply qlt_true in E. rewrite Q2R_0 in E. lra.
  - intros E. apply qlt_false in E. rewrite Q2R_0 in E. exact E.
Qed.

Lemma filter_live_sat rho ts vals :
  Forall wft ts -> (forall v q, In (v, q) vals -> rho v = Q2R q) ->
  (forall t, In t ts -> live (subst_term t vals) = false -> qlt (tconst (subst_term t vals)) 0 = false) ->
  (Forall (sat rho) (filter live (map (fun t => subst_term t vals) ts)) <-> Forall (sat rho) ts).
Proof.
  intros W Hr Hd. rewrite !Forall_forall in *. split.
  - intros H t Ht. apply (subst_term_sat rho t vals (W t Ht) Hr).
    destruct (live (subst_term t vals)) eqn:L.
    + apply H. apply filter_In. split; [apply (in_map (fun t => subst_term t vals)); exact Ht|exact L].
    + apply (dead_sat rho _ L). apply Hd; assumption.
  - intros H t' Ht'. apply filter_In in Ht'. destruct Ht' as [Ht' _].
    apply in_map_iff in Ht'. destruct Ht' as [t [<- Ht]].
    apply (subst_term_sat rho t vals (W t Ht) Hr). apply H. exact Ht.
Qed.

Lemma plot_rows_inl_checks cs x y vals xl yl rows :
  plot_rows cs x y vals xl yl = inl rows -> checks_pass cs x y vals.
Proof.
  intros H. apply checks_dec. unfold plot_rows in H.
  destruct (py_in x (keys vals)); [discriminate|].
  destruct (py_in y (keys vals)); [discriminate|].
  destruct (nonempty (list_diff (tl_vars cs) (list_union [x; y] (keys vals)))); [discriminate|].
  tauto.
Qed.
Lemma checks_fail_error cs x y vals xl yl :
  ~ checks_pass cs x y vals -> plot_rows cs x y vals xl yl = inr ValueErr.
Proof.
  intros H. unfold plot_rows.
  destruct (py_in x (keys vals)) eqn:E1; [reflexivity|].
  destruct (py_in y (keys vals)) eqn:E2; [reflexivity|].
  destruct (nonempty (list_diff (tl_vars cs) (list_union [x; y] (keys vals)))) eqn:E3; [reflexivity|].
  exfalso. apply H. apply checks_dec. tauto.
Qed.
Lemma checks_pass_dec cs x y vals : checks_pass cs x y vals \/ ~ checks_pass cs x y vals.
Proof.
  destruct (py_in x (keys vals)) eqn:E1; [right; intros H; apply checks_dec in H; destruct H; congruence|].
  destruct (py_in y (keys vals)) eqn:E2; [right; intros H; apply checks_dec in H; destruct H as [_ [H _]]; congruence|].
  destruct (nonempty (list_diff (tl_vars cs) (list_union [x; y] (keys vals)))) eqn:E3;
    [right; intros H; apply checks_dec in H; destruct H as [_ [_ H]]; congruence|].
  left. apply checks_dec. tauto.
Qed.

(* a successful run: the structure *)
Lemma plot_rows_inl_structure cs x y vals xl yl rows :
  Forall wft cs -> x <> y -> plot_rows cs x y vals xl yl = inl rows ->
  let term_list := tl_or cs (gen_boundary x y xl yl) in
  let plot_tl := filter live (map (fun t => subst_term t vals) term_list) in
  checks_pass cs x y vals /\
  substitute_in_termlist term_list vals = inl plot_tl /\
  rows = slice_rows x y plot_tl.
Proof.
  intros Hwf Hxy H term_list plot_tl. pose proof (plot_rows_inl_checks _ _ _ _ _ _ _ H) as Hc.
  split; [exact Hc|].
  destruct (substitute_in_termlist term_list vals) as [tl|e] eqn:Es.
  - destruct (sub_tl_ok _ _ _ Es) as [-> _]. split; [reflexivity|].
    rewrite (plot_rows_after_subst cs x y vals xl yl Hwf Hxy Hc Es) in H. injection H as <-. reflexivity.
  - rewrite (plot_rows_unfold cs x y vals xl yl Hc) in H. fold term_list in H. rewrite Es in H. discriminate.
Qed.

(** ** The glue theorem: success case *)
Theorem plot_rows_glue cs x y vals xl yl rows :
  Forall wft cs -> NoDup (keys vals) -> x <> y ->
  plot_rows cs x y vals xl yl = inl rows ->
  forall px py : R,
    Forall (sat3R px py) rows <->
    (Forall (sat (slice_val x y vals px py)) cs /\
     Q2R (fst xl) <= px <= Q2R (snd xl) /\ Q2R (fst yl) <= py <= Q2R (snd yl)).
Proof.
  intros Hwf Hnd Hxy H px py.
  destruct (plot_rows_inl_structure _ _ _ _ _ _ _ Hwf Hxy H) as [Hc [Hs ->]].
  rewrite (slice_rows_sat cs x y vals xl yl Hwf Hxy Hc).
  destruct (sub_tl_ok _ _ _ Hs) as [_ Hd]. destruct Hc as [Hx [Hy H3]].
  pose proof (wft_boundary x y xl yl) as Wb.
  rewrite filter_live_sat.
  - rewrite sat_tl_or by assumption. rewrite sat_boundary, slice_val_x, slice_val_y by exact Hxy. tauto.
  - apply Forall_wft'_wft. apply wft'_tl_or; assumption.
  - apply slice_val_agrees; assumption.
  - exact Hd.
Qed.

(** ** 5. The assert is unreachable (no hypothesis at all) *)
Theorem assert_unreachable cs x y vals xl yl :
  plot_rows cs x y vals xl yl <> inr (Escape "AssertionError").
Proof.
  intros H. destruct (checks_pass_dec cs x y vals) as [Hc|Hc].
  - rewrite (plot_rows_unfold cs x y vals xl yl Hc) in H.
    destruct (substitute_in_termlist (tl_or cs (gen_boundary x y xl yl)) vals) as [tl|e] eqn:Es.
    + destruct (sub_tl_ok _ _ _ Es) as [-> _]. cbn [bind] in H.
      rewrite (plot_tl_assert cs x y vals xl yl Hc) in H. cbv zeta in H.
      destruct (polytope_vars _ _) as [|v0 r]; [discriminate|].
      destruct (String.eqb v0 y); [|discriminate].
      destruct (Nat.ltb _ _); discriminate.
    + destruct (sub_tl_err _ _ _ Es) as [-> _]. discriminate.
  - rewrite (checks_fail_error _ _ _ _ xl yl Hc) in H. discriminate.
Qed.

(** ** The error cases *)
Theorem plot_rows_error cs x y vals xl yl e :
  Forall wft cs -> x <> y -> plot_rows cs x y vals xl yl = inr e -> e = ValueErr.
Proof.
  intros Hwf Hxy H. destruct (checks_pass_dec cs x y vals) as [Hc|Hc].
  - destruct (substitute_in_termlist (tl_or cs (gen_boundary x y xl yl)) vals) as [tl|e'] eqn:Es.
    + destruct (sub_tl_ok _ _ _ Es) as [-> _].
      rewrite (plot_rows_after_subst cs x y vals xl yl Hwf Hxy Hc Es) in H. discriminate.
    + rewrite (plot_rows_unfold cs x y vals xl yl Hc), Es in H. injection H as <-.
      apply (sub_tl_err _ _ _ Es).
  - rewrite (checks_fail_error _ _ _ _ xl yl Hc) in H. congruence.
Qed.

(* a constraint all of whose variables are assigned, and which the assignment violates *)
Definition vals_val (vals : behavior) : val := fun v => Q2R (coef vals v).
Definition violated (cs : list pterm) (vals : behavior) : Prop :=
  exists t, In t cs /\ (forall v, In v (term_vars_p t) -> In v (keys vals)) /\ ~ sat (vals_val vals) t.

Lemma vals_val_agrees vals : NoDup (keys vals) -> forall v q, In (v, q) vals -> vals_val vals v = Q2R q.
Proof. intros Hnd v q H. unfold vals_val. rewrite (coef_in vals v q Hnd H). reflexivity. Qed.

Lemma all_assigned_dead t vals :
  (forall v, In v (term_vars_p t) -> In v (keys vals)) -> live (subst_term t vals) = false.
Proof.
  intros H. unfold live. apply nonempty_false.
  destruct (term_vars_p (subst_term t vals)) as [|v r] eqn:E; [reflexivity|exfalso].
  assert (Hv : In v (term_vars_p (subst_term t vals))) by (rewrite E; left; reflexivity).
  apply vars_subst_incl in Hv. destruct Hv as [H1 H2]. apply H2. apply H. exact H1.
Qed.
Lemma dead_all_assigned t vals :
  wft' t -> live (subst_term t vals) = false -> forall v, In v (term_vars_p t) -> In v (keys vals).
Proof.
  intros W H v Hv. destruct (in_dec string_dec v (keys vals)) as [Hi|Hn]; [exact Hi|exfalso].
  pose proof (vars_subst_keep t vals v W Hv Hn) as Hk. unfold live in H. apply nonempty_false in H.
  rewrite H in Hk. destruct Hk.
Qed.

Lemma sub_err_violated cs x y vals xl yl t :
  Forall wft' cs -> NoDup (keys vals) -> checks_pass cs x y vals ->
  In t (tl_or cs (gen_boundary x y xl yl)) ->
  live (subst_term t vals) = false -> qlt (tconst (subst_term t vals)) 0 = true ->
  violated cs vals.
Proof.
  intros Hwf Hnd [Hx [Hy _]] Ht Hl Hq.
  assert (Hwf0 : Forall wft cs) by (apply Forall_wft'_wft; exact Hwf).
  assert (W : wft' t).
  { pose proof (wft'_tl_or cs _ Hwf0 (wft_boundary x y xl yl)) as H. rewrite Forall_forall in H. apply H. exact Ht. }
  pose proof (dead_all_assigned t vals W Hl) as Hall.
  unfold tl_or in Ht. apply in_union_terms in Ht. destruct Ht as [Ht|Ht]; apply in_map_iff in Ht;
    destruct Ht as [t0 [<- Ht0]].
  - rewrite Forall_forall in Hwf. destruct (Hwf t0 Ht0) as [W0 Hnz].
    rewrite (term_copy_id t0 Hnz) in *. exists t0. split; [exact Ht0|]. split; [exact Hall|].
    intros Hs. apply (subst_term_sat _ t0 vals W0 (vals_val_agrees vals Hnd)) in Hs.
    apply (dead_sat _ _ Hl) in Hs. congruence.
  - exfalso. unfold gen_boundary in Ht0. simpl in Ht0.
    destruct Ht0 as [<-|[<-|[<-|[<-|[]]]]];
      [apply Hx; apply Hall|apply Hx; apply Hall|apply Hy; apply Hall|apply Hy; apply Hall]; left; reflexivity.
Qed.

Lemma success_not_violated cs x y vals xl yl rows :
  Forall wft' cs -> NoDup (keys vals) -> x <> y ->
  plot_rows cs x y vals xl yl = inl rows -> ~ violated cs vals.
Proof.
  intros Hwf Hnd Hxy H [t [Ht [Hall Hns]]].
  assert (Hwf0 : Forall wft cs) by (apply Forall_wft'_wft; exact Hwf).
  destruct (plot_rows_inl_structure _ _ _ _ _ _ _ Hwf0 Hxy H) as [_ [Hs _]].
  destruct (sub_tl_ok _ _ _ Hs) as [_ Hd].
  rewrite Forall_forall in Hwf. destruct (Hwf t Ht) as [W Hnz].
  assert (Hin : In t (tl_or cs (gen_boundary x y xl yl))).
  { unfold tl_or. apply in_union_l. rewrite <- (term_copy_id t Hnz). apply in_map. exact Ht. }
  pose proof (all_assigned_dead t vals Hall) as Hl.
  apply Hns. apply (subst_term_sat _ t vals W (vals_val_agrees vals Hnd)).
  apply (dead_sat _ _ Hl). apply Hd; assumption.
Qed.

(* success exactly when the argument checks pass and no fully assigned constraint is violated *)
Theorem plot_rows_ok_iff cs x y vals xl yl :
  Forall wft' cs -> NoDup (keys vals) -> x <> y ->
  ((exists rows, plot_rows cs x y vals xl yl = inl rows) <->
   checks_pass cs x y vals /\ ~ violated cs vals).
Proof.
  intros Hwf Hnd Hxy. assert (Hwf0 : Forall wft cs) by (apply Forall_wft'_wft; exact Hwf). split.
  - intros [rows H]. split; [eapply plot_rows_inl_checks; exact H|eapply success_not_violated; eassumption].
  - intros [Hc Hnv].
    destruct (substitute_in_termlist (tl_or cs (gen_boundary x y xl yl)) vals) as [tl|e] eqn:Es.
    + destruct (sub_tl_ok _ _ _ Es) as [-> _]. eexists.
      apply (plot_rows_after_subst cs x y vals xl yl Hwf0 Hxy Hc Es).
    + exfalso. apply Hnv. destruct (sub_tl_err _ _ _ Es) as [_ [t [Ht [Hl Hq]]]].
      eapply sub_err_violated; eassumption.
Qed.
(* ValueError exactly when a plot variable is assigned, a needed variable has no value,
   or a fully assigned constraint is violated; and no other exception is possible *)
Theorem plot_rows_valueerr_iff cs x y vals xl yl :
  Forall wft' cs -> NoDup (keys vals) -> x <> y ->
  (plot_rows cs x y vals xl yl = inr ValueErr <->
   In x (keys vals) \/ In y (keys vals) \/
   (exists v, In v (tl_vars cs) /\ v <> x /\ v <> y /\ ~ In v (keys vals)) \/
   violated cs vals).
Proof.
  intros Hwf Hnd Hxy. assert (Hwf0 : Forall wft cs) by (apply Forall_wft'_wft; exact Hwf).
  pose proof (plot_rows_ok_iff cs x y vals xl yl Hwf Hnd Hxy) as Hok. split.
  - intros H.
    destruct (py_in x (keys vals)) eqn:E1; [left; apply py_in_var; exact E1|].
    destruct (py_in y (keys vals)) eqn:E2; [right; left; apply py_in_var; exact E2|].
    destruct (nonempty (list_diff (tl_vars cs) (list_union [x; y] (keys vals)))) eqn:E3.
    + right; right; left.
      destruct (list_diff (tl_vars cs) (list_union [x; y] (keys vals))) as [|v r] eqn:E; [discriminate|].
      assert (Hd : In v (list_diff (tl_vars cs) (list_union [x; y] (keys vals)))) by (rewrite E; left; reflexivity).
      apply in_list_diff in Hd. destruct Hd as [Hd1 Hd2]. exists v. split; [exact Hd1|].
      rewrite in_list_union in Hd2. simpl in Hd2. repeat split; intros K; apply Hd2; subst; tauto.
    + right; right; right.
      assert (Hc : checks_pass cs x y vals) by (apply checks_dec; tauto).
      destruct (substitute_in_termlist (tl_or cs (gen_boundary x y xl yl)) vals) as [tl|e] eqn:Es.
      * destruct (sub_tl_ok _ _ _ Es) as [-> _].
        rewrite (plot_rows_after_subst cs x y vals xl yl Hwf0 Hxy Hc Es) in H. discriminate.
      * destruct (sub_tl_err _ _ _ Es) as [_ [t [Ht [Hl Hq]]]]. eapply sub_err_violated; eassumption.
  - intros H. destruct (plot_rows cs x y vals xl yl) as [rows|e] eqn:E.
    + exfalso. destruct Hok as [Hok _]. destruct (Hok (ex_intro _ rows eq_refl)) as [[Hx [Hy H3]] Hnv].
      destruct H as [H|[H|[[v [H1 [H2 [H4 H5]]]]|H]]]; try contradiction.
      destruct (H3 v H1) as [->|[->|K]]; contradiction.
    + f_equal. eapply plot_rows_error; eassumption.
Qed.
End Glue.

(* ================================================================== *)
(** * 4. C18: constraints_to_vertices relative to the specifications of the foreign routines *)
Section Main.

(* --- the centroid does not depend on the order --- *)
Lemma qsum_acc l a : (fold_left Qplus l a == a + fold_left Qplus l 0)%Q.
Proof.
  revert a. induction l as [|x r IH]; intros a; simpl; [ring|].
  rewrite (IH (a + x)%Q), (IH (0 + x)%Q). ring.
Qed.
Lemma qsum_cons x l : (qsum (x :: l) == x + qsum l)%Q.
Proof. unfold qsum. simpl. rewrite qsum_acc. ring. Qed.
Lemma qsum_perm l l' : Permutation l l' -> (qsum l == qsum l')%Q.
Proof.
  induction 1.
  - reflexivity.
  - rewrite !qsum_cons, IHPermutation. reflexivity.
  - rewrite !qsum_cons. ring.
  - rewrite IHPermutation1. exact IHPermutation2.
Qed.
Lemma mean_perm l l' : Permutation l l' -> mean l = mean l'.
Proof.
  intros H. unfold mean. apply Qred_complete.
  rewrite (qsum_perm l l' H), (Permutation_length H). reflexivity.
Qed.
Lemma centroid_perm l l' : Permutation l l' -> centroid l = centroid l'.
Proof.
  intros H. unfold centroid.
  rewrite (mean_perm _ _ (Permutation_map fst H)), (mean_perm _ _ (Permutation_map snd H)). reflexivity.
Qed.

Lemma InP_perm l l' v : Permutation l l' -> InP v l -> InP v l'.
Proof. intros H [w [Hw Hv]]. exists w. split; [eapply Permutation_in; eassumption|exact Hv]. Qed.

(* rational feasibility is real feasibility at the rational point *)
Lemma sat3_QR v r : sat3Q v r <-> sat3R (Q2R (fst v)) (Q2R (snd v)) r.
Proof.
  destruct r as [[a b] c]. unfold sat3Q, sat3R, lhs3, rhs3.
  rewrite <- !Q2R_mult, <- Q2R_plus. split; [apply Qle_Rle|apply Rle_Qle].
Qed.
Lemma feas_QR P v : feasQ P v <-> Forall (sat3R (Q2R (fst v)) (Q2R (snd v))) P.
Proof.
  unfold feasQ. rewrite Forall_forall. split; intros H r Hr; apply sat3_QR; apply H; exact Hr.
Qed.

(* --- what _get_bounding_vertices does with the points it obtained --- *)
Definition oracle_points (O : oracles) (rows : list row3) (pts : list pt) : Prop :=
  (Q_hull O rows = Some pts /\ pts <> []) \/
  (Q_hull O rows = None /\
   exists p1 p2 p3 p4, extreme O rows (0, 1)%Q = Some p1 /\ extreme O rows (0, -(1))%Q = Some p2 /\
                       extreme O rows (1, 0)%Q = Some p3 /\ extreme O rows (-(1), 0)%Q = Some p4 /\
                       pts = [p1; p2; p3; p4]).

Lemma bounding_vertices_inl O rows res :
  bounding_vertices O rows = inl res ->
  centre O rows <> None /\
  exists pts, oracle_points O rows pts /\ res = sort_angular (cut_low O) (centroid pts) pts.
Proof.
  unfold bounding_vertices. destruct (centre O rows) as [c|]; [|discriminate].
  intros H. split; [discriminate|]. apply bind_inl in H. destruct H as [pts [H1 H2]].
  injection H2 as <-. exists pts. split; [|reflexivity].
  unfold oracle_points. destruct (Q_hull O rows) as [[|p l]|].
  - discriminate.
  - injection H1 as <-. left. split; [reflexivity|discriminate].
  - right. split; [reflexivity|].
    destruct (extreme O rows (0, 1)%Q) as [p1|]; [|discriminate].
    destruct (extreme O rows (0, -(1))%Q) as [p2|]; [|discriminate].
    destruct (extreme O rows (1, 0)%Q) as [p3|]; [|discriminate].
    destruct (extreme O rows (-(1), 0)%Q) as [p4|]; [|discriminate].
    injection H1 as <-. exists p1, p2, p3, p4. repeat split; reflexivity.
Qed.

(* the result is a rearrangement of the oracle's points, sorted by angle around ITS OWN centroid *)
Theorem bounding_vertices_sorted O rows res :
  bounding_vertices O rows = inl res ->
  exists pts, oracle_points O rows pts /\ Permutation res pts /\
              StronglySorted (ang_le_at (cut_low O) (centroid res)) res.
Proof.
  intros H. destruct (bounding_vertices_inl O rows res H) as [_ [pts [Hp ->]]].
  exists pts. split; [exact Hp|]. split; [apply sort_angular_perm|].
  rewrite (centroid_perm _ _ (sort_angular_perm (cut_low O) (centroid pts) pts)). apply sort_angular_strongly_sorted.
Qed.

(* the only errors of the geometric part *)
Lemma bounding_vertices_inr O rows e :
  bounding_vertices O rows = inr e ->
  (e = ValueErr /\ (centre O rows = None \/ Q_hull O rows = Some [])) \/
  (e = Escape "IndexError" /\ Q_hull O rows = None /\ exists c, In c fallback_dirs /\ extreme O rows c = None).
Proof.
  unfold bounding_vertices. destruct (centre O rows) as [c|]; [|intros H; injection H as <-; left; tauto].
  intros H. apply bind_inr in H. destruct H as [H|[a [_ H]]]; [|discriminate].
  destruct (Q_hull O rows) as [[|p l]|].
  - injection H as <-. left. tauto.
  - discriminate.
  - right.
    destruct (extreme O rows (0, 1)%Q) as [p1|] eqn:E1;
      [|injection H as <-; split; [reflexivity|split; [reflexivity|exists (0, 1)%Q; simpl; tauto]]].
    destruct (extreme O rows (0, -(1))%Q) as [p2|] eqn:E2;
      [|injection H as <-; split; [reflexivity|split; [reflexivity|exists (0, -(1))%Q; simpl; tauto]]].
    destruct (extreme O rows (1, 0)%Q) as [p3|] eqn:E3;
      [|injection H as <-; split; [reflexivity|split; [reflexivity|exists (1, 0)%Q; simpl; tauto]]].
    destruct (extreme O rows (-(1), 0)%Q) as [p4|] eqn:E4;
      [discriminate|injection H as <-; split; [reflexivity|split; [reflexivity|exists (-(1), 0)%Q; simpl; tauto]]].
Qed.

(* --- specifications of the foreign routines (validated per recorded call by the harness) --- *)
(* Qhull: the intersections are exactly the corner points (as a set; repetitions allowed) *)
Definition hull_spec (O : oracles) : Prop :=
  forall rows l, Q_hull O rows = Some l -> forall v, InP v l <-> InP v (corners rows).
(* linprog: the optimum it reports is a corner point (a vertex solution) *)
Definition extreme_spec (O : oracles) : Prop :=
  forall rows c p, extreme O rows c = Some p -> InP p (corners rows).
(* the Chebyshev-centre LP is infeasible exactly when no real point satisfies the rows *)
Definition centre_spec (O : oracles) : Prop :=
  forall rows, centre O rows = None <-> ~ exists px py : R, Forall (sat3R px py) rows.

(* the slice of the constraints and the axis limits at the given values *)
Definition in_slice (cs : list pterm) (x y : var) (vals : behavior) (xl yl : Q * Q) (px py : R) : Prop :=
  Forall (sat (slice_val x y vals px py)) cs /\
  (Q2R (fst xl) <= px <= Q2R (snd xl))%R /\ (Q2R (fst yl) <= py <= Q2R (snd yl))%R.

Lemma ctv_inl O cs x y vals xl yl res :
  constraints_to_vertices O cs x y vals xl yl = inl res ->
  exists rows, plot_rows cs x y vals xl yl = inl rows /\ bounding_vertices O rows = inl res.
Proof. unfold constraints_to_vertices. intros H. apply bind_inl in H. exact H. Qed.

(** ** C18, Qhull branch: exactly the corners, every one feasible and in the slice, angularly sorted *)
Theorem C18_main O cs x y vals xl yl res :
  Forall wft cs -> NoDup (keys vals) -> x <> y ->
  hull_spec O ->
  constraints_to_vertices O cs x y vals xl yl = inl res ->
  exists rows,
    plot_rows cs x y vals xl yl = inl rows /\
    (* the rows are the slice *)
    (forall px py : R, Forall (sat3R px py) rows <-> in_slice cs x y vals xl yl px py) /\
    (* the list is sorted by angle around its centroid *)
    StronglySorted (ang_le_at (cut_low O) (centroid res)) res /\
    (Q_hull O rows <> None ->
       (* no corner is missing, nothing else is returned *)
       (forall v, InP v res <-> is_corner rows v) /\
       (* every returned point satisfies every row, i.e. lies in the slice *)
       (forall v, In v res -> feasQ rows v /\ in_slice cs x y vals xl yl (Q2R (fst v)) (Q2R (snd v)))).
Proof.
  intros Hwf Hnd Hxy Hspec H. destruct (ctv_inl _ _ _ _ _ _ _ _ H) as [rows [Hr Hb]].
  exists rows. split; [exact Hr|].
  pose proof (plot_rows_glue cs x y vals xl yl rows Hwf Hnd Hxy Hr) as Hglue.
  split; [exact Hglue|].
  destruct (bounding_vertices_sorted O rows res Hb) as [pts [Hp [Hperm Hs]]].
  split; [exact Hs|]. intros Hh.
  destruct Hp as [[Hq _]|[Hq _]]; [|contradiction].
  assert (Hset : forall v, InP v res <-> is_corner rows v).
  { intros v. rewrite <- corners_iff, <- (Hspec rows pts Hq v). split; apply InP_perm;
      [exact Hperm|apply Permutation_sym; exact Hperm]. }
  split; [exact Hset|]. intros v Hv.
  assert (Hf : feasQ rows v) by (apply (Hset v); apply In_InP; exact Hv).
  split; [exact Hf|]. apply Hglue. apply feas_QR. exact Hf.
Qed.

(** ** fallback branch (QhullError): every returned point is a corner of the slice, sorted *)
Theorem C18_fallback O cs x y vals xl yl res :
  Forall wft cs -> NoDup (keys vals) -> x <> y ->
  extreme_spec O ->
  constraints_to_vertices O cs x y vals xl yl = inl res ->
  exists rows,
    plot_rows cs x y vals xl yl = inl rows /\
    (Q_hull O rows = None ->
       List.length res = 4%nat /\
       forall v, In v res -> is_corner rows v /\ in_slice cs x y vals xl yl (Q2R (fst v)) (Q2R (snd v))).
Proof.
  intros Hwf Hnd Hxy Hspec H. destruct (ctv_inl _ _ _ _ _ _ _ _ H) as [rows [Hr Hb]].
  exists rows. split; [exact Hr|]. intros Hq.
  pose proof (plot_rows_glue cs x y vals xl yl rows Hwf Hnd Hxy Hr) as Hglue.
  destruct (bounding_vertices_sorted O rows res Hb) as [pts [Hp [Hperm _]]].
  destruct Hp as [[Hq' _]|[_ [p1 [p2 [p3 [p4 [E1 [E2 [E3 [E4 ->]]]]]]]]]]; [congruence|].
  split; [rewrite (Permutation_length Hperm); reflexivity|].
  intros v Hv. apply (Permutation_in _ Hperm) in Hv.
  assert (Hc : is_corner rows v).
  { apply corners_iff. simpl in Hv.
    destruct Hv as [<-|[<-|[<-|[<-|[]]]]]; eapply Hspec; eassumption. }
  split; [exact Hc|]. apply Hglue. apply feas_QR. apply Hc.
Qed.

(* ... and no corner is missing when the four LPs return OPTIMAL corner points and the polygon is
   degenerate (at most two corners: the only situation in which Qhull was seen to fail) *)
Definition dotq (c p : pt) : Q := (fst c * fst p + snd c * snd p)%Q.
Definition extreme_opt_spec (O : oracles) : Prop :=
  forall rows c p, extreme O rows c = Some p ->
    InP p (corners rows) /\ forall q, In q (corners rows) -> (dotq c p <= dotq c q)%Q.
Definition at_most_two (l : list pt) : Prop :=
  forall a b c, In a l -> In b l -> In c l -> peq a b \/ peq a c \/ peq b c.

Theorem C18_fallback_complete O rows res :
  extreme_opt_spec O ->
  bounding_vertices O rows = inl res ->
  Q_hull O rows = None ->
  at_most_two (corners rows) ->
  forall v, InP v (corners rows) -> InP v res.
Proof.
  intros Hspec Hb Hq H2 v [w [Hw Hvw]].
  destruct (bounding_vertices_sorted O rows res Hb) as [pts [Hp [Hperm _]]].
  destruct Hp as [[Hq' _]|[_ [p1 [p2 [p3 [p4 [E1 [E2 [E3 [E4 ->]]]]]]]]]]; [congruence|].
  apply (InP_perm _ _ v (Permutation_sym Hperm)). apply (InP_peq v w _ Hvw).
  destruct (Hspec _ _ _ E1) as [[w1 [I1 Q1]] O1]. destruct (Hspec _ _ _ E2) as [[w2 [I2 Q2]] O2].
  destruct (Hspec _ _ _ E3) as [[w3 [I3 Q3]] O3]. destruct (Hspec _ _ _ E4) as [[w4 [I4 Q4]] O4].
  unfold dotq in O1, O2, O3, O4. cbn [fst snd] in O1, O2, O3, O4.
  assert (Hin : forall p, peq w p -> In p [p1; p2; p3; p4] -> InP w [p1; p2; p3; p4]).
  { intros p Hpq Hi. exists p. tauto. }
  destruct (H2 w w1 w2 Hw I1 I2) as [K|[K|K]].
  - apply (Hin p1); [eapply peq_trans; [exact K|apply peq_sym; exact Q1]|simpl; tauto].
  - apply (Hin p2); [eapply peq_trans; [exact K|apply peq_sym; exact Q2]|simpl; tauto].
  - destruct (H2 w w3 w4 Hw I3 I4) as [L|[L|L]].
    + apply (Hin p3); [eapply peq_trans; [exact L|apply peq_sym; exact Q3]|simpl; tauto].
    + apply (Hin p4); [eapply peq_trans; [exact L|apply peq_sym; exact Q4]|simpl; tauto].
    + (* min y = max y and min x = max x over the corners: a single point *)
      apply (Hin p1); [|simpl; tauto].
      pose proof (O1 w Hw) as A1. pose proof (O2 w Hw) as A2. pose proof (O3 w Hw) as A3. pose proof (O4 w Hw) as A4.
      pose proof (O3 w1 I1) as B3. pose proof (O4 w1 I1) as B4.
      destruct Q1 as [Q1x Q1y], Q2 as [Q2x Q2y], Q3 as [Q3x Q3y], Q4 as [Q4x Q4y], K as [Kx Ky], L as [Lx Ly].
      unfold peq. split; lra.
Qed.

(** ** errors: an empty slice raises ValueError *)
Theorem C18_empty O cs x y vals xl yl :
  Forall wft cs -> NoDup (keys vals) -> x <> y ->
  centre_spec O ->
  (exists rows, plot_rows cs x y vals xl yl = inl rows) ->
  (forall px py : R, ~ in_slice cs x y vals xl yl px py) ->
  constraints_to_vertices O cs x y vals xl yl = inr ValueErr.
Proof.
  intros Hwf Hnd Hxy Hspec [rows Hr] Hempty.
  unfold constraints_to_vertices. rewrite Hr. cbn [bind]. unfold bounding_vertices.
  assert (Hc : centre O rows = None).
  { apply Hspec. intros [px [py Hp]]. apply (Hempty px py).
    apply (plot_rows_glue cs x y vals xl yl rows Hwf Hnd Hxy Hr). exact Hp. }
  rewrite Hc. reflexivity.
Qed.
(* conversely: a ValueError of the geometric part means the slice is empty (or Qhull returned nothing) *)
Theorem C18_valueerr O cs x y vals xl yl rows :
  Forall wft cs -> NoDup (keys vals) -> x <> y ->
  centre_spec O ->
  plot_rows cs x y vals xl yl = inl rows ->
  constraints_to_vertices O cs x y vals xl yl = inr ValueErr ->
  Q_hull O rows <> Some [] ->
  forall px py : R, ~ in_slice cs x y vals xl yl px py.
Proof.
  intros Hwf Hnd Hxy Hspec Hr H Hne px py Hin.
  unfold constraints_to_vertices in H. rewrite Hr in H. cbn [bind] in H.
  destruct (bounding_vertices_inr O rows _ H) as [[_ [Hc|Hq]]|[He _]]; [|contradiction|discriminate].
  apply Hspec in Hc. apply Hc. exists px, py.
  apply (plot_rows_glue cs x y vals xl yl rows Hwf Hnd Hxy Hr). exact Hin.
Qed.

(* every exception of constraints_to_vertices is a ValueError, unless a fallback LP reports no point *)
Theorem ctv_errors O cs x y vals xl yl e :
  Forall wft cs -> x <> y ->
  constraints_to_vertices O cs x y vals xl yl = inr e ->
  e = ValueErr \/ (e = Escape "IndexError" /\ exists rows c, In c fallback_dirs /\ extreme O rows c = None).
Proof.
  intros Hwf Hxy H. unfold constraints_to_vertices in H. apply bind_inr in H.
  destruct H as [H|[rows [_ H]]].
  - left. eapply plot_rows_error; eassumption.
  - destruct (bounding_vertices_inr O rows e H) as [[-> _]|[-> [_ [c Hc]]]]; [left; reflexivity|].
    right. split; [reflexivity|]. exists rows, c. exact Hc.
Qed.

(* x_var == y_var: the single-column matrix makes the column swap raise IndexError (never a result) *)
Lemma all_same_short (vs : list var) x : NoDup vs -> (forall v, In v vs -> v = x) -> vs = [] \/ vs = [x].
Proof.
  intros Hnd Hall. destruct vs as [|a [|b r]]; [left; reflexivity| |exfalso].
  - right. rewrite (Hall a (or_introl eq_refl)). reflexivity.
  - inversion Hnd as [|? ? Ha _]; subst. apply Ha. left.
    rewrite (Hall a (or_introl eq_refl)), (Hall b (or_intror (or_introl eq_refl))). reflexivity.
Qed.
Theorem same_var_error cs x vals xl yl :
  Forall wft cs ->
  plot_rows cs x x vals xl yl = inr ValueErr \/ plot_rows cs x x vals xl yl = inr (Escape "IndexError").
Proof.
  intros Hwf. destruct (checks_pass_dec cs x x vals) as [Hc|Hc];
    [|left; apply checks_fail_error; exact Hc].
  rewrite (plot_rows_unfold cs x x vals xl yl Hc).
  destruct (substitute_in_termlist (tl_or cs (gen_boundary x x xl yl)) vals) as [tl|e] eqn:Es;
    [|left; destruct (sub_tl_err _ _ _ Es) as [-> _]; reflexivity].
  destruct (sub_tl_ok _ _ _ Es) as [-> _]. cbn [bind].
  rewrite (plot_tl_assert cs x x vals xl yl Hc). cbv zeta. right.
  set (plot_tl := filter live _).
  assert (E : polytope_vars plot_tl [] = tl_vars plot_tl).
  { unfold polytope_vars, list_union. simpl. apply app_nil_r. }
  rewrite E.
  destruct (all_same_short (tl_vars plot_tl) x) as [-> | ->].
  - apply NoDup_tl_vars. apply (plot_tl_wft cs x x vals xl yl Hwf).
  - intros v Hv. apply in_tl_vars in Hv. destruct Hv as [t [Ht Hv]].
    destruct (plot_tl_vars cs x x vals xl yl Hc t v Ht Hv); assumption.
  - reflexivity.
  - rewrite String.eqb_refl. reflexivity.
Qed.
End Main.
