(* CompoundGenContract.v — the generated methods of IoContractCompound (gen/CompoundGen.v), instantiated
   with the polyhedral primitives, are EQUAL to the hand model of model/Compound.v (up to the obvious
   bijection [to_compound] between the generated record and the hand-written one).  No precondition.
   See CompoundGenFacts.v. *)
From Coq Require Import List String Bool Arith Lia.
Import ListNotations.
Require Import Py ListsGen PyDict PyLoop Sem Term Poly Compound CompoundGen CompoundGenBase CompoundGenNested.
Open Scope py_scope.

Section Contract.
Variable O : oracle.
Local Notation D := (poly_tl O).

Lemma mmap_bind {A B C} (f : B -> C) (m : M A) (k : A -> M B) :
  mmap f (bind m k) = bind m (fun a => mmap f (k a)).
Proof. destruct m; reflexivity. Qed.

(* __init__ : the five interface checks, then the two copies (assumptions forced disjoint) *)
Theorem compound_init_eq a g i o :
  mmap to_compound (@IoContractCompound_init D a g i o) = compound_init O a g i o.
Proof.
  unfold IoContractCompound_init, compound_init. rewrite !nested_vars_eq.
  destruct (has_dup i); [reflexivity|]. destruct (has_dup o); [reflexivity|].
  destruct (nonempty (list_intersection i o)); [reflexivity|].
  destruct (nonempty (list_diff (nested_vars a) i)); [reflexivity|].
  destruct (nonempty (list_diff (nested_vars g) (list_union i o))); [reflexivity|].
  rewrite !nested_copy_eq. rewrite mmap_bind. apply mbind_ext. intros a'.
  rewrite mmap_bind. apply mbind_ext. intros g'. reflexivity.
Qed.

(* __eq__ : `and` chain with short-circuit evaluation *)
Theorem compound_eqb_eq k1 k2 :
  @IoContractCompound_eq D k1 k2 = compound_eqb O (to_compound k1) (to_compound k2).
Proof.
  unfold IoContractCompound_eq, compound_eqb. rewrite mbind_ret_r. cbn [to_compound k_inputvars k_outputvars k_a k_g].
  destruct (py_eqb (kc_inputvars k1) (kc_inputvars k2)); [|reflexivity].
  destruct (py_eqb (kc_outputvars k1) (kc_outputvars k2)); [|reflexivity].
  cbn [negb]. rewrite !nested_eqb_eq. reflexivity.
Qed.

(* merge *)
Theorem compound_merge_eq k1 k2 :
  mmap to_compound (@IoContractCompound_merge D k1 k2) = compound_merge O (to_compound k1) (to_compound k2).
Proof.
  unfold IoContractCompound_merge, compound_merge. cbv zeta. cbn [to_compound k_inputvars k_outputvars k_a k_g].
  rewrite !nested_intersect_eq. rewrite mmap_bind. apply mbind_ext. intros assumptions.
  rewrite mmap_bind. apply mbind_ext. intros guarantees. rewrite mbind_ret_r. apply compound_init_eq.
Qed.

End Contract.
