(* JsonCompoundFacts.v — facts about the dictionary form of compound contracts (model/JsonCompound.v), and the same
   facts about the code as translated on this run (gen/JsonCompoundGen.v, through proofs/JsonGenCompound.v).

   Section RoundTrip is parameterised by ANY printer / parser pair:
     tsl      : list pterm -> list string            PolyhedralTermList.to_str_list
     parse_s  : string -> M (list pterm)             serializer.polyhedral_termlist_from_string on a str
     parse_j  : json -> M (list pterm)               the same on a value of unknown type (agrees with parse_s on a str)
     ok, same : a precondition on a term list and the relation "the list read back means the same"
   with the per-list round-trip hypothesis in the shape of props/C10b.v (C10_string_roundtrip: parse_all = concat_mapM
   parse_terms):   forall ts, ok ts -> exists ts', concat_mapM parse_s (tsl ts) = inl ts' /\ same ts ts'.

   Results: to_dict emits exactly one string list per alternative, in order, for the assumptions and for the
   guarantees INDEPENDENTLY (side_strings_*: equality of the lists of string lists, hence length and element-wise);
   reading the dictionary back yields, alternative by alternative (Forall2), lists with the same meaning, and the
   interface unchanged: no alternative of either side is lost, added, merged or reordered. *)
From Coq Require Import List String Bool QArith ZArith Lia.
Import ListNotations.
Require Import Py ListsGen Sem PyDict PyLoop Term Compound Json PyJson Syntax JsonFacts JsonGen JsonGenBase.
Require Import JsonCompound JsonCompoundGen JsonGenCompound.
Open Scope py_scope.
Local Open Scope string_scope.

(* ------------------------------------------------------------------ *)
(** * what to_dict writes: one string list per alternative, in order, each side on its own *)
Section Written.
Context (tsl : list pterm -> list string).

Lemma strs_of_strs (l : list string) : strs_of (JList (map JStr l)) = l.
Proof. unfold strs_of. rewrite map_map. cbn [str_of]. apply map_id. Qed.

Theorem side_strings_written (alts : nested) : side_strings (side_to_json tsl alts) = map tsl alts.
Proof.
  unfold side_strings, side_to_json, alt_to_json. rewrite map_map. apply map_ext. intros alt. apply strs_of_strs.
Qed.

(* the four fields of the dictionary *)
Theorem to_dict_fields (k : compound) :
  let d := compound_to_dict tsl k in
  jget_or_null "assumptions" d = side_to_json tsl (k_a k) /\
  jget_or_null "guarantees" d = side_to_json tsl (k_g k) /\
  jget_or_null "input_vars" d = JList (map JStr (k_inputvars k)) /\
  jget_or_null "output_vars" d = JList (map JStr (k_outputvars k)).
Proof. repeat split; reflexivity. Qed.

(* each side: exactly the printed alternatives of THAT side, in order *)
Theorem to_dict_sides (k : compound) :
  side_strings (jget_or_null "assumptions" (compound_to_dict tsl k)) = map tsl (k_a k) /\
  side_strings (jget_or_null "guarantees" (compound_to_dict tsl k)) = map tsl (k_g k).
Proof. split; apply side_strings_written. Qed.

(* length and element-wise reading of the same fact *)
Corollary to_dict_sides_count (k : compound) :
  List.length (side_strings (jget_or_null "assumptions" (compound_to_dict tsl k))) = List.length (k_a k) /\
  List.length (side_strings (jget_or_null "guarantees" (compound_to_dict tsl k))) = List.length (k_g k).
Proof. destruct (to_dict_sides k) as [Ea Eg]. rewrite Ea, Eg, !map_length. split; reflexivity. Qed.
Corollary to_dict_sides_nth (k : compound) (i : nat) :
  nth_error (side_strings (jget_or_null "assumptions" (compound_to_dict tsl k))) i = option_map tsl (nth_error (k_a k) i) /\
  nth_error (side_strings (jget_or_null "guarantees" (compound_to_dict tsl k))) i = option_map tsl (nth_error (k_g k) i).
Proof. destruct (to_dict_sides k) as [Ea Eg]. rewrite Ea, Eg, !nth_error_map. split; reflexivity. Qed.

(* independence: what is written for one side does not depend on the other side (nor on the interface) *)
Theorem to_dict_guarantees_independent (k k' : compound) :
  k_g k = k_g k' ->
  jget_or_null "guarantees" (compound_to_dict tsl k) = jget_or_null "guarantees" (compound_to_dict tsl k').
Proof. intros E. cbn. rewrite E. reflexivity. Qed.
Theorem to_dict_assumptions_independent (k k' : compound) :
  k_a k = k_a k' ->
  jget_or_null "assumptions" (compound_to_dict tsl k) = jget_or_null "assumptions" (compound_to_dict tsl k').
Proof. intros E. cbn. rewrite E. reflexivity. Qed.

(* a guarantee alternative that prints exactly like an assumption alternative, and a repeated alternative, are
   written like any other (the printer here prints every alternative alike) *)
Example alike_alternatives_all_written :
  side_strings (jget_or_null "guarantees" (compound_to_dict (fun _ => ["x <= 1"]) (mkCompound [[]] [[]; []] [] [])))
  = [["x <= 1"]; ["x <= 1"]].
Proof. reflexivity. Qed.

(* the dictionary binds exactly the four parameters of from_strings *)
Lemma to_dict_kwargs (k : compound) : bind_kwargs contract_keywords [] (compound_to_dict tsl k) = ret tt.
Proof. reflexivity. Qed.
End Written.

(* ------------------------------------------------------------------ *)
(** * reading back *)
Section RoundTrip.
Context (tsl : list pterm -> list string).
Context (parse_s : string -> M (list pterm)) (parse_j : json -> M (list pterm)).
Context (ok : list pterm -> Prop) (same : list pterm -> list pterm -> Prop).
Hypothesis parse_j_str : forall s, parse_j (JStr s) = parse_s s.
(* "parsing the printed strings of a term list gives back a list with the same meaning" *)
Hypothesis list_roundtrip : forall ts, ok ts -> exists ts', concat_mapM parse_s (tsl ts) = inl ts' /\ same ts ts'.

Lemma concat_mapM_strs (l : list string) : concat_mapM parse_j (map JStr l) = concat_mapM parse_s l.
Proof. induction l as [|s r IH]; [reflexivity|]. cbn [map concat_mapM]. rewrite parse_j_str, IH. reflexivity. Qed.

(* one alternative *)
Lemma read_alt_written (alt : list pterm) :
  ok alt -> exists ts', read_alt parse_j (alt_to_json tsl alt) = inl ts' /\ same alt ts'.
Proof.
  intros Hok. destruct (list_roundtrip alt Hok) as [ts' [E S]]. exists ts'. split; [|exact S].
  unfold read_alt, alt_to_json. cbn [py_iter bind ret]. rewrite concat_mapM_strs. exact E.
Qed.

Lemma read_alts_written (alts : nested) :
  Forall ok alts ->
  exists alts', Json.mapM (read_alt parse_j) (map (alt_to_json tsl) alts) = inl alts' /\ Forall2 same alts alts'.
Proof.
  induction 1 as [|alt r Hoa _ [alts' [Er Sr]]].
  - exists []. split; [reflexivity|constructor].
  - destruct (read_alt_written alt Hoa) as [ts' [E S]]. exists (ts' :: alts').
    cbn [map Json.mapM]. rewrite E. cbn [bind]. rewrite Er. split; [reflexivity|]. constructor; assumption.
Qed.

(* one side: as many alternatives as were written, in the same order, each with the same meaning *)
Theorem read_side_written (alts : nested) :
  Forall ok alts ->
  exists alts', read_side parse_j (side_to_json tsl alts) = inl alts' /\ Forall2 same alts alts'.
Proof.
  intros Hok. destruct alts as [|alt r].
  - exists []. split; [reflexivity|constructor].
  - destruct (read_alts_written (alt :: r) Hok) as [alts' [E S]]. exists alts'. split; [|exact S].
    unfold read_side, side_to_json.
    assert (Ht : py_truth (JList (map (alt_to_json tsl) (alt :: r))) = true) by reflexivity.
    rewrite Ht. cbn [py_iter bind ret]. exact E.
Qed.

Lemma vars_back (l : list var) (pstr : json -> string) : map (py_var pstr) (map JStr l) = l.
Proof. rewrite map_map. cbn [py_var]. apply map_id. Qed.

(* MAIN (model): from_strings of the unpacked to_dict hands the two constructors the SAME interface and, for each
   side, a list of alternatives in one-to-one, order-preserving correspondence with the original ones, each with
   the same meaning; the assumptions are read from the assumptions only, the guarantees from the guarantees only *)
Theorem compound_roundtrip_model (pstr : json -> string) (nested_new : nested -> bool -> M nested)
        (compound_new : nested -> nested -> list var -> list var -> M compound) (k : compound) :
  Forall ok (k_a k) -> Forall ok (k_g k) ->
  exists a' g',
    Forall2 same (k_a k) a' /\ Forall2 same (k_g k) g' /\
    compound_from_dict pstr parse_j nested_new compound_new (compound_to_dict tsl k)
    = (na <- nested_new a' true ;; ng <- nested_new g' false ;;
       compound_new na ng (k_inputvars k) (k_outputvars k)).
Proof.
  intros Ha Hg.
  destruct (read_side_written (k_a k) Ha) as [a' [Ea Sa]].
  destruct (read_side_written (k_g k) Hg) as [g' [Eg Sg]].
  exists a', g'. split; [exact Sa|]. split; [exact Sg|].
  unfold compound_from_dict. rewrite to_dict_kwargs. cbn [bind ret].
  destruct (to_dict_fields tsl k) as [Fa [Fg [Fi Fo]]]. cbv zeta in Fa, Fg, Fi, Fo.
  rewrite Fa, Fg, Fi, Fo. unfold compound_from_strings.
  rewrite Ea, Eg. cbn [bind py_iter ret]. rewrite !vars_back. reflexivity.
Qed.

(* MAIN (code): the same about the functions translated from the source on this run *)
Theorem compound_roundtrip_code (pstr : json -> string) (nested_new : nested -> bool -> M nested)
        (compound_new : nested -> nested -> list var -> list var -> M compound) (k : compound) :
  Forall ok (k_a k) -> Forall ok (k_g k) ->
  let d := PolyhedralIoContractCompound_to_dict tsl k in
  exists a' g',
    Forall2 same (k_a k) a' /\ Forall2 same (k_g k) g' /\
    (_ <- call_kwargs ["assumptions"; "guarantees"; "input_vars"; "output_vars"] [] d ;;
     PolyhedralIoContractCompound_from_strings pstr parse_j nested_new compound_new
       (kwarg "assumptions" d) (kwarg "guarantees" d) (kwarg "input_vars" d) (kwarg "output_vars" d))
    = (na <- nested_new a' true ;; ng <- nested_new g' false ;;
       compound_new na ng (k_inputvars k) (k_outputvars k)).
Proof.
  intros Ha Hg d.
  destruct (compound_roundtrip_model pstr nested_new compound_new k Ha Hg) as [a' [g' [Sa [Sg E]]]].
  exists a', g'. split; [exact Sa|]. split; [exact Sg|].
  subst d. rewrite compound_from_dict_eq, compound_to_dict_eq. exact E.
Qed.

(* Forall2 read as: same count, and position by position *)
Corollary roundtrip_count (l l' : nested) : Forall2 same l l' -> List.length l' = List.length l.
Proof. induction 1 as [|x y r r' _ _ IH]; [reflexivity|]. cbn [List.length]. rewrite IH. reflexivity. Qed.
Corollary roundtrip_nth (l l' : nested) (i : nat) alt :
  Forall2 same l l' -> nth_error l i = Some alt -> exists alt', nth_error l' i = Some alt' /\ same alt alt'.
Proof.
  intros H. revert i. induction H as [|x y r r' Hxy _ IH]; intros [|i] E; try discriminate.
  - inversion E; subst. exists y. split; [reflexivity|exact Hxy].
  - apply IH. exact E.
Qed.
End RoundTrip.

(* ------------------------------------------------------------------ *)
(** * the file: written by the translated writer, read by the reader of model/Json.v (= the translated reader,
      proofs/JsonGenFile.v) *)
Theorem compound_file_read_back (s2f : string -> option Q) (pstr : json -> string)
        (tsl : list pterm -> list string) (name : string) (k : compound) :
  read_file s2f pstr (JList [write_entry_compound tsl name k])
  = inl [(name, LCompound (side_to_json tsl (k_a k)) (side_to_json tsl (k_g k))
                          (JList (map JStr (k_inputvars k))) (JList (map JStr (k_outputvars k))))].
Proof. reflexivity. Qed.
