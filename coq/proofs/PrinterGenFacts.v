(* PrinterGenFacts.v — the obligations that tie the hand model of the string printer (model/Printer.v) to the code.
   translator/py2coq_printer.py (run by py2coq.py) renders, on every run, into gen/PrinterGen.v

     serializer.py   _number_to_string, _are_numbers_approximatively_equal, _lhs_str,
                     _are_polyhedral_terms_opposite, polyhedral_term_list_to_strings
     polyhedra.py    PolyhedralTermList.to_str_list

   over the vocabulary of base/PyPrint.v, generic in the primitives PrintPrims (f"{x:.4g}", np.isclose, math.isclose:
   NOT translated).  With the primitives instantiated by the functions of the hand model ([model_prims]: fmt4, the
   isclose formula with one binary64 rounding per operation) every generated function is proved EQUAL to the hand
   model, pointwise (monadic results: values AND that no exception is raised):

     number_to_string_eq                   serializer__number_to_string n                       = fmt4 n
     are_numbers_approximatively_equal_eq  serializer__are_numbers_approximatively_equal v1 v2  = approx_equal v1 v2
     lhs_str_eq                            serializer__lhs_str t                                = lhs_str t
     terms_opposite_eq                     serializer__are_polyhedral_terms_opposite s o        = ret (terms_opposite s o)
     term_list_to_strings_eq               serializer_polyhedral_term_list_to_strings ts        = ret (term_list_to_strings ts)
                                                                                                       [Forall wft ts]
     to_str_list_eq                        PolyhedralTermList_to_str_list ts                    = ret (to_str_list ts)
                                                                                                       [Forall wft ts]

   The first four need NO precondition.  [Forall wft ts] (every term has pairwise distinct keys) is needed by the
   last two because the code removes the partner with list.remove (first element == tn by PolyhedralTerm.__eq__)
   where the hand model removes it positionally; __eq__ is reflexive only on association lists without repeated
   keys ([remove_needs_distinct_keys] in PrinterGenFold.v).  A Python dict has distinct keys, so no Python input is
   excluded.  The equality of to_str_list with a [ret _] also shows that the fuel len(ts) of the `while ts:` loop is
   sufficient.
   A semantic change of one of the functions changes gen/PrinterGen.v and one of these proofs stops compiling
   (harness/printgen_mutations.py).  The files are split (PrinterGenBase / Opposite / Lhs / Fold) so that a change
   breaks only the obligations that depend on it. *)
Require Export PrinterGenBase PrinterGenOpposite PrinterGenLhs PrinterGenFold.
From Coq Require Import List String QArith.
Import ListNotations.
Require Import Py Sem PyDict PyLoop PyPrint Term TermFacts Printer PrinterFacts PrinterGen.
Open Scope py_scope.
Local Open Scope string_scope.

Goal forall n, @serializer__number_to_string model_prims n = fmt4 n.
Proof. exact number_to_string_eq. Qed.
Goal forall v1 v2, @serializer__are_numbers_approximatively_equal model_prims v1 v2 = approx_equal v1 v2.
Proof. exact are_numbers_approximatively_equal_eq. Qed.
Goal forall t, @serializer__lhs_str model_prims t = lhs_str t.
Proof. exact lhs_str_eq. Qed.
Goal forall self other,
  @serializer__are_polyhedral_terms_opposite model_prims self other = ret (terms_opposite self other).
Proof. exact terms_opposite_eq. Qed.
Goal forall terms, Forall wft terms ->
  @serializer_polyhedral_term_list_to_strings model_prims terms = ret (term_list_to_strings terms).
Proof. exact term_list_to_strings_eq. Qed.
Goal forall ts, Forall wft ts -> @PolyhedralTermList_to_str_list model_prims ts = ret (to_str_list ts).
Proof. exact to_str_list_eq. Qed.

Print Assumptions number_to_string_eq.
Print Assumptions are_numbers_approximatively_equal_eq.
Print Assumptions lhs_str_eq.
Print Assumptions terms_opposite_eq.
Print Assumptions term_list_to_strings_eq.
Print Assumptions to_str_list_eq.

(* the facts of proofs/PrinterFacts.v about to_str_list are facts about the translated code *)
Corollary gen_to_str_list_items ts :
  Forall wft ts -> @PolyhedralTermList_to_str_list model_prims ts = ret (map item_str (items ts)).
Proof. intros H. rewrite to_str_list_eq by exact H. rewrite to_str_list_items. reflexivity. Qed.

(* ------------------------------------------------------------------ *)
(** * the generated code evaluated on concrete inputs (the same lists were printed by the real library,
      PYTHONPATH=/repo/src, pacti.__file__ under /repo/src, with the same results) *)
Notation run := (@PolyhedralTermList_to_str_list model_prims).

(* x + 2 y = 3, |x - 0.5 z| <= 4, z <= 1e+04 (PrinterFacts.demo) *)
Example gen_demo : run demo = ret ["x + 2 y = 3"; "|x - 0.5 z| <= 4"; "z <= 1e+04"].
Proof. vm_compute. reflexivity. Qed.
(* a partner over a strict SUPERSET of the variables is not folded (the first loop of
   _are_polyhedral_terms_opposite; seeded change C10) *)
Example gen_superset_not_folded :
  run [mkT [("x", 1)] 1; mkT [("x", -(1)); ("y", 2)] (-(1))] = ret ["x <= 1"; "-x + 2 y <= -1"].
Proof. vm_compute. reflexivity. Qed.
(* the terms between a pair survive the fold (ts.remove(tn); seeded change C10b) *)
Example gen_between_kept :
  run [mkT [("x", 1)] 1; mkT [("y", 1)] 2; mkT [("x", -(1))] (-(1))] = ret ["x = 1"; "y <= 2"].
Proof. vm_compute. reflexivity. Qed.
(* constants 4e-6 apart: not close (atol 1e-8, rtol 1e-5 in THIS argument order; seeded change C10c) *)
Example gen_small_constants_not_folded :
  run [mkT [("x", 1)] (4722366482869645 # 1180591620717411303424); mkT [("x", -(1))] 0]
  = ret ["x <= 4e-06"; "-x <= 0"].
Proof. vm_compute. reflexivity. Qed.
(* the partner is searched in the whole rest of the list; |LHS| <= c *)
Example gen_abs :
  run [mkT [("x", 1); ("z", -(1 # 2))] 4; mkT [("y", 3)] 7; mkT [("x", -(1)); ("z", 1 # 2)] 4]
  = ret ["|x - 0.5 z| <= 4"; "3 y <= 7"].
Proof. vm_compute. reflexivity. Qed.
(* coefficient -1 and a coefficient close to 1 print as nothing; no leading "+"; variables sorted by name *)
Example gen_units :
  run [mkT [("c", -(5 # 2)); ("b", 4503604130970123 # 4503599627370496); ("a", -(1))] (-(3))]
  = ret ["-a + b - 2.5 c <= -3"].
Proof. vm_compute. reflexivity. Qed.
(* |LHS| = 0 for two constants close to zero but not to each other's negation (both are the double 6e-9) *)
Example gen_abs_zero : run [mkT [("x", 1)] r3_c; mkT [("x", -(1))] r3_c] = ret ["|x| = 0"].
Proof. vm_compute. reflexivity. Qed.
(* the empty list: the loop body is never entered *)
Example gen_empty : run [] = ret [].
Proof. vm_compute. reflexivity. Qed.
