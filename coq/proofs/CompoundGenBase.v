(* CompoundGenBase.v — shared helpers for the T1 tie of compundiocontract.py (see CompoundGenFacts.v):
   the polyhedral instance of the abstract term-list primitives, and "shape" lemmas that read a loop of
   base/PyLoop.v / base/PyDict.v whose body behaves in a given way as the structural recursion the hand
   models use.  The lemmas quantify over the loop body and ask for its behaviour POINTWISE, so the
   proofs of CompoundGenNested.v do not depend on the names or on the let-structure the translator
   emits, only on what each body computes. *)
From Coq Require Import List String Bool Arith Lia.
Import ListNotations.
Require Import Py ListsGen PyDict PyLoop Sem Term Poly Compound CompoundGen.
Open Scope py_scope.

(* ------------------------------------------------------------------ *)
(** * The polyhedral instance of TLDomain *)
(* PolyhedralTermList: `|` and copy() are TermList.__or__ / TermList.copy over PolyhedralTerm (model/Compound.v),
   the rest are the hand models of model/Poly.v and model/Term.v *)
Definition poly_tl (O : oracle) : TLDomain :=
  Build_TLDomain
    (list pterm)                                              (* tlist *)
    behavior                                                  (* behavior_t *)
    Compound.tl_or                                            (* tl_or *)
    (poly_is_empty O)                                         (* tl_is_empty *)
    (poly_refines O)                                          (* tl_le *)
    (fun self context => poly_simplify O self (Some context)) (* tl_simplify *)
    contains_behavior                                         (* tl_contains_behavior *)
    Compound.tl_copy                                          (* tl_copy *)
    Term.tl_vars.                                             (* tl_vars *)

(* generated record <-> record of the hand model *)
Definition to_compound {O : oracle} (k : @kcontract (poly_tl O)) : compound :=
  mkCompound (@kc_a (poly_tl O) k) (@kc_g (poly_tl O) k) (@kc_inputvars (poly_tl O) k) (@kc_outputvars (poly_tl O) k).
Definition of_compound (O : oracle) (c : compound) : @kcontract (poly_tl O) :=
  @Build_kcontract (poly_tl O) (k_a c) (k_g c) (k_inputvars c) (k_outputvars c).
Lemma to_of_compound O c : to_compound (of_compound O c) = c.
Proof. destruct c; reflexivity. Qed.
Lemma of_to_compound O k : of_compound O (to_compound k) = k.
Proof. destruct k; reflexivity. Qed.

(* ------------------------------------------------------------------ *)
(** * Monad *)
Lemma mbind_ret_l {A B} (a : A) (f : A -> M B) : bind (ret a) f = f a.
Proof. reflexivity. Qed.
Lemma mbind_ret_r {A} (m : M A) : bind m (fun x => ret x) = m.
Proof. destruct m; reflexivity. Qed.
Lemma mbind_assoc {A B C} (m : M A) (f : A -> M B) (g : B -> M C) :
  bind (bind m f) g = bind m (fun a => bind (f a) g).
Proof. destruct m; reflexivity. Qed.
Lemma mbind_ext {A B} (m : M A) (f g : A -> M B) : (forall a, f a = g a) -> bind m f = bind m g.
Proof. intros Hfg. destruct m as [a|e]; [apply Hfg|reflexivity]. Qed.

(* ------------------------------------------------------------------ *)
(** * Loops that never break: folds *)
Lemma loop_fold {X A} (f : A -> X -> A) body (l : list X) acc :
  (forall a x, body a x = Continue (f a x)) ->
  for_list l acc body = fold_left f l acc.
Proof.
  intros Hb. revert acc. induction l as [|x r IH]; intros acc; [reflexivity|].
  cbn [for_list fold_left]. rewrite Hb. apply IH.
Qed.

(* for x in l: acc.append(f x) *)
Lemma loop_m_map {X Y} (f : X -> Y) body (l : list X) acc :
  (forall a x, body a x = ret (Continue (a ++ [f x]))) ->
  for_list_m l acc body = ret (acc ++ map f l).
Proof.
  intros Hb. revert acc. induction l as [|x r IH]; intros acc.
  - cbn. rewrite app_nil_r. reflexivity.
  - cbn [for_list_m map]. rewrite Hb. cbn [bind ret]. rewrite IH. rewrite <- app_assoc. reflexivity.
Qed.

(* a body that does nothing on every element of a prefix *)
Lemma loop_m_skip {X A} body (l1 l2 : list X) (acc : A) :
  (forall x, In x l1 -> body acc x = ret (Continue acc)) ->
  for_list_m (l1 ++ l2) acc body = for_list_m l2 acc body.
Proof.
  induction l1 as [|x r IH]; intros Hb; [reflexivity|].
  cbn [app for_list_m]. rewrite (Hb x) by (left; reflexivity). cbn [bind ret].
  apply IH. intros y Hy. apply Hb. right. exact Hy.
Qed.

(* ------------------------------------------------------------------ *)
(** * enumerate *)
Lemma enumerate_from_app {X} (l1 l2 : list X) n :
  enumerate_from n (l1 ++ l2) = enumerate_from n l1 ++ enumerate_from (n + List.length l1) l2.
Proof.
  revert n. induction l1 as [|x r IH]; intros n; cbn [app enumerate_from List.length].
  - rewrite Nat.add_0_r. reflexivity.
  - rewrite IH. replace (S n + List.length r) with (n + S (List.length r)) by lia. reflexivity.
Qed.
Lemma enumerate_from_index {X} (l : list X) n i x : In (i, x) (enumerate_from n l) -> n <= i < n + List.length l.
Proof.
  revert n. induction l as [|y r IH]; intros n Hin; [destruct Hin|].
  cbn [enumerate_from List.length] in *. destruct Hin as [Heq|Hin].
  - inversion Heq; subst. lia.
  - apply IH in Hin. lia.
Qed.

(* ------------------------------------------------------------------ *)
(** * The disjointness check of NestedTermList.__init__ *)
(* inner loop, over the elements after position i: raise as soon as [test tlj] answers false *)
Fixpoint scan_m {X} (test : X -> M bool) (l : list X) : M unit :=
  match l with
  | [] => ret tt
  | x :: r => bind (test x) (fun e => if e then scan_m test r else raise ValueErr)
  end.

(* for j, tlj in enumerate(l): if j > i: <raise unless test tlj> — on the part of the list after i *)
Lemma inner_after {X} (test : X -> M bool) body (l : list X) i n :
  i < n ->
  (forall j x, i < j -> body tt (j, x) = bind (test x) (fun e => if e then ret (Continue tt) else raise ValueErr)) ->
  for_list_m (enumerate_from n l) tt body = scan_m test l.
Proof.
  intros Hlt Hb. revert n Hlt. induction l as [|x r IH]; intros n Hlt; [reflexivity|].
  cbn [enumerate_from for_list_m scan_m]. rewrite (Hb n x Hlt).
  rewrite mbind_assoc. apply mbind_ext. intros [|]; cbn [bind ret raise]; [|reflexivity].
  apply IH. lia.
Qed.

Lemma inner_loop {X} (test : X -> M bool) body (pre : list X) (x : X) (suf : list X) :
  (forall j y, j <= List.length pre -> body tt (j, y) = ret (Continue tt)) ->
  (forall j y, List.length pre < j ->
     body tt (j, y) = bind (test y) (fun e => if e then ret (Continue tt) else raise ValueErr)) ->
  for_list_m (enumerate (pre ++ x :: suf)) tt body = scan_m test suf.
Proof.
  intros Hlow Hhigh. unfold enumerate.
  replace (pre ++ x :: suf) with ((pre ++ [x]) ++ suf) by (rewrite <- app_assoc; reflexivity).
  rewrite enumerate_from_app. rewrite loop_m_skip.
  - apply (inner_after test body suf (List.length pre)); [rewrite app_length; cbn; lia|exact Hhigh].
  - intros [j y] Hin. apply enumerate_from_index in Hin. apply Hlow. rewrite app_length in Hin. cbn in Hin. lia.
Qed.

(* outer loop over the positions: [row pre x suf] is what the body does at the element x between pre and suf *)
Lemma outer_loop {X} (row : X -> list X -> M unit) body (pre l : list X) :
  (forall p x s, pre ++ l = p ++ x :: s -> body tt (List.length p, x) = bind (row x s) (fun _ => ret (Continue tt))) ->
  for_list_m (enumerate_from (List.length pre) l) tt body
  = (fix go (l : list X) : M unit := match l with [] => ret tt | x :: r => bind (row x r) (fun _ => go r) end) l.
Proof.
  revert pre. induction l as [|x r IH]; intros pre Hb; [reflexivity|].
  cbn [enumerate_from for_list_m]. rewrite (Hb pre x r eq_refl). rewrite mbind_assoc.
  apply mbind_ext. intros []. cbn [bind ret].
  specialize (IH (pre ++ [x])). rewrite app_length in IH. cbn [List.length] in IH.
  replace (List.length pre + 1) with (S (List.length pre)) in IH by lia. apply IH.
  intros p y s Heq. apply Hb. rewrite <- Heq. rewrite <- app_assoc. reflexivity.
Qed.

(* ------------------------------------------------------------------ *)
(** * Collecting loops (simplify, intersect) *)
(* for x in l: <maybe append one element computed from x> *)
Fixpoint collect_m {X Y} (f : X -> M (option Y)) (l : list X) : M (list Y) :=
  match l with
  | [] => ret []
  | x :: r => bind (f x) (fun o => bind (collect_m f r) (fun rest =>
                ret (match o with Some y => y :: rest | None => rest end)))
  end.
Lemma collect_loop {X Y} (f : X -> M (option Y)) body (l : list X) acc :
  (forall a x, body a x = bind (f x) (fun o => ret (Continue (match o with Some y => a ++ [y] | None => a end)))) ->
  for_list_m l acc body = bind (collect_m f l) (fun rest => ret (acc ++ rest)).
Proof.
  intros Hb. revert acc. induction l as [|x r IH]; intros acc.
  - cbn. rewrite app_nil_r. reflexivity.
  - cbn [for_list_m collect_m]. rewrite Hb. rewrite !mbind_assoc. apply mbind_ext. intros o.
    cbn [bind ret]. rewrite IH. rewrite mbind_assoc. apply mbind_ext. intros rest. cbn [bind ret].
    destruct o as [y|]; [rewrite <- app_assoc|]; reflexivity.
Qed.
(* for x in l: <append the list computed from x> *)
Fixpoint concat_m {X Y} (g : X -> M (list Y)) (l : list X) : M (list Y) :=
  match l with
  | [] => ret []
  | x :: r => bind (g x) (fun ys => bind (concat_m g r) (fun rest => ret (ys ++ rest)))
  end.
Lemma concat_loop {X Y} (g : X -> M (list Y)) body (l : list X) acc :
  (forall a x, body a x = bind (g x) (fun ys => ret (Continue (a ++ ys)))) ->
  for_list_m l acc body = bind (concat_m g l) (fun rest => ret (acc ++ rest)).
Proof.
  intros Hb. revert acc. induction l as [|x r IH]; intros acc.
  - cbn. rewrite app_nil_r. reflexivity.
  - cbn [for_list_m concat_m]. rewrite Hb. rewrite !mbind_assoc. apply mbind_ext. intros ys.
    cbn [bind ret]. rewrite IH. rewrite mbind_assoc. apply mbind_ext. intros rest. cbn [bind ret].
    rewrite <- app_assoc. reflexivity.
Qed.

(* ------------------------------------------------------------------ *)
(** * Searching loops (__le__, contains_behavior) *)
(* found = False; for x in l: if test x: found = True; break *)
Fixpoint find_m {X} (test : X -> M bool) (l : list X) : M bool :=
  match l with
  | [] => ret false
  | x :: r => bind (test x) (fun b => if b then ret true else find_m test r)
  end.
Lemma find_loop {X} (test : X -> M bool) body (l : list X) :
  (forall x, body false x = bind (test x) (fun b => if b then ret (Break true) else ret (Continue false))) ->
  for_list_m l false body = find_m test l.
Proof.
  intros Hb. induction l as [|x r IH]; [reflexivity|].
  cbn [for_list_m find_m]. rewrite Hb. rewrite mbind_assoc. apply mbind_ext. intros [|]; cbn [bind ret]; [reflexivity|exact IH].
Qed.
(* for x in l: if not test x: return False  ...  return True *)
Fixpoint forall_m {X} (test : X -> M bool) (l : list X) : M bool :=
  match l with
  | [] => ret true
  | x :: r => bind (test x) (fun b => if b then forall_m test r else ret false)
  end.
Lemma forall_loop {X} (test : X -> M bool) (body : unit -> X -> M (step unit bool)) (l : list X) :
  (forall x, body tt x = bind (test x) (fun b => if b then ret (Next tt) else ret (Return false))) ->
  bind (for_ret_m l tt body) (fun r => match r with Done _ => ret true | Returned v => ret v end) = forall_m test l.
Proof.
  intros Hb. induction l as [|x r IH]; [reflexivity|].
  cbn [for_ret_m forall_m]. rewrite Hb. rewrite !mbind_assoc. apply mbind_ext. intros [|]; cbn [bind ret]; [exact IH|reflexivity].
Qed.
(* for x in l: <return True if test x; propagate errors as decided by test> ... return False *)
Lemma exists_loop {X} (test : X -> M bool) (body : unit -> X -> M (step unit bool)) (l : list X) :
  (forall x, body tt x = bind (test x) (fun b => if b then ret (Return true) else ret (Next tt))) ->
  bind (for_ret_m l tt body) (fun r => match r with Done _ => ret false | Returned v => ret v end) = find_m test l.
Proof.
  intros Hb. induction l as [|x r IH]; [reflexivity|].
  cbn [for_ret_m find_m]. rewrite Hb. rewrite !mbind_assoc. apply mbind_ext. intros [|]; cbn [bind ret]; [reflexivity|exact IH].
Qed.
