(* TermListGenTactic32.v — T1 tie of PolyhedralTermList._tactic_1 / _tactic_5 (thin wrappers of the abstract
   _context_reduction), _tactic_2 (glue around termlist_to_polytope and linprog, both abstract) and _tactic_3 (change of
   variable, then tactic 1).  See TermListGenFacts.v. *)
From Coq Require Import List String Bool Arith QArith ZArith Lia.
Import ListNotations.
Require Import Py ListsGen ConstGen Sem PyDict PyLoop PyTermList Term Poly Tactics TermGen ListsFacts TermFacts
  TermGenFacts TermListGen TermListGenBase TermListGenEval.
Open Scope py_scope.
Local Open Scope nat_scope.

(** _tactic_1, _tactic_5 : unconditional (over the hand model of _context_reduction) *)
Theorem tactic_1_eq O term ctx vs refine :
  @PolyhedralTermList__tactic_1 (poly_prims O) term ctx vs refine = tactic_1 O term ctx vs refine.
Proof. reflexivity. Qed.
Theorem tactic_5_eq O term ctx vs refine :
  @PolyhedralTermList__tactic_5 (poly_prims O) term ctx vs refine = tactic_5 O term ctx vs refine.
Proof. reflexivity. Qed.

(* for var in l: result = result.remove_variable(var) *)
Lemma remove_loop body :
  (forall r v, body r v = bind (PolyhedralTerm_remove_variable r v) (fun r' => ret (Continue r'))) ->
  forall l t, wft' t -> for_list_m l t body = ret (fold_left term_remove_variable l t).
Proof.
  intros Hb. induction l as [|v r IH]; intros t Ht; [reflexivity|].
  cbn [for_list_m fold_left]. rewrite Hb, (remove_variable_eq' t v Ht), !bind_ret_l.
  apply IH. apply wft'_remove_variable. apply Ht.
Qed.

(* ------------------------------------------------------------------ *)
(** _tactic_2 *)
Theorem tactic_2_eq O term ctx vs refine :
  wft term -> Forall wft ctx ->
  @PolyhedralTermList__tactic_2 (poly_prims O) term ctx vs refine = tactic_2 O term ctx vs refine.
Proof.
  intros Ht Hctx. unfold PolyhedralTermList__tactic_2, tactic_2. cbv zeta.
  change (PolyhedralTerm_vars term) with (term_vars_p term).
  set (C := fun c => negb (nonempty (list_diff (term_vars_p c) vs)) && negb (term_eqb_p c term)).
  rewrite (loop_m_filter_map C PolyhedralTerm_copy).
  2:{ intros a c. change (PolyhedralTerm_vars c) with (term_vars_p c). unfold C.
      destruct (negb (nonempty (list_diff (term_vars_p c) vs))); [|reflexivity].
      rewrite eq_eq, bind_ret_l. destruct (term_eqb_p c term); reflexivity. }
  cbn [app]. rewrite bind_ret_l.
  rewrite (map_gen_copy (filter C ctx)) by (rewrite Forall_forall in *; intros x Hx; apply filter_In in Hx; apply Hctx, Hx).
  fold C. generalize (map term_copy (filter C ctx)). intros ncl0.
  destruct ncl0 as [|c0 ncl']; [reflexivity|]. cbn [nonempty negb]. set (ncl := c0 :: ncl').
  rewrite !termlist_init_eq. cbn [opt_list]. rewrite termlist_vars_eq.
  destruct (nonempty (list_diff (list_intersection vs (term_vars_p term)) (tl_vars ncl))); [reflexivity|].
  cbn [p_termlist_to_polytope poly_prims bind ret].
  match goal with |- bind (if refine then ?a else ?b) ?K = _ =>
    transitivity (K (if refine then (-(1))%Q else 1%Q)); [destruct refine; reflexivity|] end.
  cbv beta. set (polarity := if refine then (-(1))%Q else 1%Q).
  set (variables := polytope_vars ncl []).
  rewrite (map_m_ret _ (fun v => qmul polarity (get_coefficient term v)))
    by (intros v _; rewrite get_coefficient_eq; reflexivity).
  cbn [bind ret p_linprog p_res_status p_res_fun poly_prims fst snd]. rewrite combine_rows.
  destruct (O _) as [f slack| | |st|]; cbn [lp_status lp_fun bind ret raise py_in existsb py_eqb PyEq_nat Nat.eqb orb py_num];
    try reflexivity.
  rewrite (copy_eq term Ht).
  rewrite (remove_loop _ (fun r v => eq_refl)) by (apply wft'_copy; exact Ht).
  cbn [bind ret]. unfold set_constant. reflexivity.
Qed.

(* ------------------------------------------------------------------ *)
(** _tactic_3 *)
(* building a dict from a list of distinct new keys *)
Lemma fold_set_filter (c : var -> bool) (h : var -> Q) l acc :
  NoDup (keys acc ++ l) ->
  fold_left (fun a v => if c v then dict_set a v (h v) else a) l acc
  = acc ++ map (fun v => (v, h v)) (filter c l).
Proof.
  revert acc. induction l as [|v r IH]; intros acc Hnd.
  - cbn. rewrite app_nil_r. reflexivity.
  - cbn [fold_left filter]. destruct (NoDup_app_cons_l _ _ _ Hnd) as [Hk Hnd'].
    destruct (c v).
    + rewrite (dict_set_fresh acc v _ Hk), IH.
      * cbn [map]. rewrite <- app_assoc. reflexivity.
      * rewrite keys_app. exact Hnd'.
    + apply IH. apply NoDup_remove_1 in Hnd. exact Hnd.
Qed.
Lemma assoc_map_var (h : var -> Q) l v : In v l -> assoc v (map (fun x => (x, h x)) l) = Some (h v).
Proof.
  induction l as [|x r IH]; [intros []|]. cbn [map assoc]. destruct (String.eqb x v) eqn:E.
  - apply String.eqb_eq in E. subst. reflexivity.
  - intros [->|Hi]; [rewrite String.eqb_refl in E; discriminate|apply IH; exact Hi].
Qed.

Local Open Scope string_scope.
Theorem tactic_3_eq O term ctx (vs : list var) refine :
  wft' term -> Forall wft ctx -> NoDup vs -> ~ In ("_" : var) vs ->
  @PolyhedralTermList__tactic_3 (poly_prims O) term ctx vs refine = tactic_3 O term ctx vs refine.
Proof.
  intros Ht Hctx Hnd Hus. unfold PolyhedralTermList__tactic_3, tactic_3. cbv zeta.
  change (PolyhedralTerm_vars term) with (term_vars_p term).
  remember (list_intersection vs (term_vars_p term)) as cv0 eqn:E0.
  assert (Hcv : NoDup cv0) by (subst cv0; apply NoDup_list_intersection; exact Hnd).
  assert (Hcu : ~ In ("_" : var) cv0) by (subst cv0; intros H; apply in_list_intersection in H; apply Hus, H).
  assert (Hct : forall v, In v cv0 -> In v (term_vars_p term))
    by (subst cv0; intros v H; apply in_list_intersection in H; apply H).
  clear E0. destruct cv0 as [|v0 crest]; [reflexivity|]. set (cv := v0 :: crest) in *.
  (* conflict_coeff = {var: term.get_coefficient(var) for var in conflict_vars} *)
  unfold dict_of_list_m.
  rewrite (for_list_m_fold (fun a v => dict_set a v (get_coefficient term v)))
    by (intros a v _; rewrite get_coefficient_eq; reflexivity).
  rewrite (fold_set_vars (fun v => get_coefficient term v) cv dict_empty Hcv). cbn [app dict_empty].
  rewrite bind_ret_l.
  set (D := map (fun v => (v, get_coefficient term v)) cv).
  rewrite (copy_eq term (proj1 Ht)).
  rewrite (remove_loop _ (fun r v => eq_refl)) by (apply wft'_copy; apply Ht).
  rewrite bind_ret_l.
  assert (Hv0 : In v0 cv) by (left; reflexivity).
  assert (Hget : forall v, In v cv -> dict_get D v = ret (get_coefficient term v)).
  { intros v Hv. unfold dict_get, D. rewrite (assoc_map_var _ cv v Hv). reflexivity. }
  assert (H0 : list_get_m cv 0 = ret v0) by reflexivity.
  set (c0 := get_coefficient term v0).
  assert (Hc0 : qzero c0 = false).
  { apply qzero_false. unfold c0. rewrite get_coefficient_coef. apply coef_nonzero; [apply Ht|].
    apply Hct. exact Hv0. }
  assert (Hdiv : forall x, py_div x c0 = ret (qdiv x c0)) by (intros x; unfold py_div; rewrite Hc0; reflexivity).
  rewrite H0, bind_ret_l, (Hget v0 Hv0), bind_ret_l. fold c0. rewrite Hdiv, bind_ret_l.
  (* subst_term_vars *)
  rewrite (for_list_m_fold (fun a v => if negb (String.eqb v v0) then dict_set a v (qdiv (qneg (get_coefficient term v)) c0) else a)).
  2:{ intros a v Hv. rewrite ?H0, bind_ret_l. cbn [py_eqb PyEq_var].
      destruct (negb (String.eqb v v0)); [|reflexivity].
      rewrite (Hget v Hv), bind_ret_l, ?H0, bind_ret_l, (Hget v0 Hv0), bind_ret_l. fold c0. rewrite Hdiv. reflexivity. }
  rewrite (fold_set_filter (fun v => negb (String.eqb v v0)) (fun v => qdiv (qneg (get_coefficient term v)) c0)).
  2:{ cbn [dict_set dict_empty keys map fst app]. unfold Var. constructor; [exact Hcu|exact Hcv]. }
  rewrite bind_ret_l. cbn [dict_set dict_empty app]. unfold Var.
  set (stv := ("_", qdiv 1 c0) :: map (fun v => (v, qdiv (qneg (get_coefficient term v)) c0))
                                      (filter (fun v => negb (String.eqb v v0)) cv)).
  assert (Hstv : NoDup (keys stv)).
  { unfold stv. cbn [keys map fst]. fold (keys (map (fun v => (v, qdiv (qneg (get_coefficient term v)) c0))
                                                   (filter (fun v => negb (String.eqb v v0)) cv))).
    rewrite keys_map_var. constructor.
    - intros H. apply filter_In in H. apply Hcu, H.
    - apply NoDup_filter. exact Hcv. }
  rewrite (init_eq stv _ Hstv).
  assert (Hsub : wft (mk_term stv 0)) by (apply wft_mk_term; exact Hstv).
  (* the substituted context: a comprehension (map_m) or an explicit loop with append *)
  first
  [ rewrite (map_m_ret _ (fun el => term_substitute_variable (term_copy el) v0 (mk_term stv 0)));
    [| intros el Hel; rewrite ?H0, bind_ret_l;
       assert (Hwe : wft el) by (rewrite Forall_forall in Hctx; apply Hctx; exact Hel);
       rewrite (copy_eq el Hwe); apply substitute_variable_eq'; [apply wft'_copy; exact Hwe|exact Hsub] ]
  | rewrite (loop_m_append_ret (fun el => term_substitute_variable (term_copy el) v0 (mk_term stv 0)));
    [ cbn [app]
    | intros acc_ el Hel; rewrite ?H0, bind_ret_l;
      assert (Hwe : wft el) by (rewrite Forall_forall in Hctx; apply Hctx; exact Hel);
      rewrite (copy_eq el Hwe);
      rewrite (substitute_variable_eq' (term_copy el) v0 (mk_term stv 0) (wft'_copy el Hwe) Hsub); reflexivity ] ].
  rewrite bind_ret_l, termlist_init_eq, ?H0, bind_ret_l. cbn [opt_list].
  rewrite tactic_1_eq. unfold set_variables.
  match goal with |- bind ?m _ = ?m' => change m' with m; destruct m as [[r c]|e]; reflexivity end.
Qed.

(* ------------------------------------------------------------------ *)
(** The precondition `"_" not in vars_to_elim` is necessary, and outside it the HAND MODEL differs from the code
    (checked on the real library, PYTHONPATH=/repo/src): `_` is the scratch variable of tactic 3.  When the term
    mentions it and it is to be eliminated, `subst_term_vars[Var("_")] = ...` OVERWRITES the entry `{Var("_"): 1/c0}`
    in the code, whereas the hand model conses a second binding (an association list with a repeated key; lookups see
    the first).  Input: term x + _ <= 0, context [x + z <= 3], vars_to_elim [x, _], relaxing: the code answers
    (z <= 3, 1), the hand model raises ValueError.  (DESIGN 4/C04 lists the reserved name `_` as a side condition.)
    [NoDup vs] is what the proof uses to read the dict built item by item as the model's map/filter; no input was
    found on which the final results differ when it fails (the intermediate substitution term does differ: the model
    keeps a repeated variable twice). *)
Example tactic_3_underscore :
  let term := mkT [("x", 1%Q); ("_", 1%Q)] 0%Q in
  let ctx := [mkT [("x", 1%Q); ("z", 1%Q)] (3 # 1)%Q] in
  @PolyhedralTermList__tactic_3 (poly_prims (fun _ => LpMiss)) term ctx ["x"; "_"] false
    = inl (Some (mkT [("z", 1%Q)] (3 # 1)%Q), 1%nat)
  /\ tactic_3 (fun _ => LpMiss) term ctx ["x"; "_"] false = inr ValueErr.
Proof. split; vm_compute; reflexivity. Qed.
