(* TermListGenEval.v — T1 tie of PolyhedralTermList: __init__, the inherited vars / copy / get_terms_with_vars /
   __or__, lacks_constraints, evaluate, contains_behavior  (see TermListGenFacts.v). *)
From Coq Require Import List String Bool Arith QArith ZArith Lia.
Import ListNotations.
Require Import Py ListsGen ConstGen Sem PyDict PyLoop PyTermList Term Poly Tactics TermGen ListsFacts TermFacts
  TermGenFacts TermListGen TermListGenBase.
Open Scope py_scope.
Local Open Scope nat_scope.

(** __init__ : the object is its list (the argument is copied, which is the identity on values) *)
Theorem termlist_init_eq (o : option (list pterm)) : PolyhedralTermList_init o = opt_list o.
Proof. destruct o; reflexivity. Qed.

(** vars (inherited) : unconditional *)
Theorem termlist_vars_eq ts : PolyhedralTermList_vars ts = tl_vars ts.
Proof.
  unfold PolyhedralTermList_vars, tl_vars. cbv zeta.
  apply (for_list_fold (fun acc t => list_union acc (term_vars_p t))). intros a x _. reflexivity.
Qed.

(** copy (inherited) : TermList.copy copies every term; PolyhedralTerm.copy rebuilds the dict item by item, so the
    keys of every term must be distinct (as in a Python dict) *)
Theorem termlist_copy_eq ts : Forall wft ts -> PolyhedralTermList_copy ts = map term_copy ts.
Proof. intros H. unfold PolyhedralTermList_copy. rewrite termlist_init_eq. cbn [opt_list]. apply map_gen_copy. exact H. Qed.
Corollary termlist_copy_id ts : Forall wft' ts -> PolyhedralTermList_copy ts = ts.
Proof. intros H. rewrite termlist_copy_eq by (apply Forall_wft'_wft; exact H). apply map_copy_wft'. exact H. Qed.

(** get_terms_with_vars (inherited) : unconditional *)
Theorem termlist_get_terms_with_vars_eq ts vs :
  PolyhedralTermList_get_terms_with_vars ts vs
  = filter (fun t => nonempty (list_intersection (term_vars_p t) vs)) ts.
Proof.
  unfold PolyhedralTermList_get_terms_with_vars. cbv zeta. rewrite termlist_init_eq. cbn [opt_list].
  rewrite (loop_filter_map (fun t => nonempty (list_intersection (term_vars_p t) vs)) (fun t => t)).
  - cbn [app]. rewrite map_id. reflexivity.
  - intros a x. rewrite vars_eq. destruct (nonempty _); reflexivity.
Qed.

(** __or__ (inherited) : both operands are copied, `in` uses PolyhedralTerm.__eq__ *)
Theorem termlist_or_eq a b :
  Forall wft a -> Forall wft b ->
  PolyhedralTermList_or a b = ret (list_union (map term_copy a) (map term_copy b)).
Proof.
  intros Ha Hb. unfold PolyhedralTermList_or. rewrite (termlist_copy_eq a Ha), (termlist_copy_eq b Hb), t_union_m.
  reflexivity.
Qed.

(** lacks_constraints : no hand model; characterised *)
Theorem termlist_lacks_constraints_eq ts :
  PolyhedralTermList_lacks_constraints ts = match ts with [] => true | _ => false end.
Proof. destruct ts; reflexivity. Qed.

(* ------------------------------------------------------------------ *)
(** evaluate *)
(* the inner loop: for var, val in var_values.items(): new_term = new_term.substitute_variable(...) *)
Lemma eval_inner body (b : behavior) :
  (forall nt k v, body nt k v =
     bind (PolyhedralTerm_substitute_variable nt k (PolyhedralTerm_init dict_empty (qneg v)))
          (fun nt' => ret (Continue nt'))) ->
  forall nt, wft' nt ->
  for_items_m b nt body
  = ret (fold_left (fun nt p => term_substitute_variable nt (fst p) (mk_term [] (qneg (snd p)))) b nt).
Proof.
  intros Hb. unfold for_items_m. induction b as [|[k v] r IH]; intros nt Hnt; [reflexivity|].
  cbn [for_list_m fold_left fst snd]. rewrite Hb.
  assert (Hs : wft (mk_term [] (qneg v))) by (apply wft_mk_term; constructor).
  assert (Hi : PolyhedralTerm_init dict_empty (qneg v) = mk_term [] (qneg v)) by reflexivity.
  rewrite Hi, (substitute_variable_eq' nt k _ Hnt Hs), !bind_ret_l.
  apply IH. apply wft'_substitute_variable; [apply Hnt|exact Hs].
Qed.

Theorem evaluate_eq ts b : Forall wft ts -> PolyhedralTermList_evaluate ts b = evaluate ts b.
Proof.
  intros Hts. unfold PolyhedralTermList_evaluate. cbv zeta.
  match goal with |- bind (for_list_m _ _ ?bd) _ = _ => set (body := bd) end.
  assert (Hl : forall l acc, Forall wft l ->
             for_list_m l acc body = bind (evaluate l b) (fun r => ret (acc ++ r))).
  { induction l as [|t r IH]; intros acc Hl.
    - cbn. rewrite app_nil_r. reflexivity.
    - inversion Hl as [|? ? Ht Hr]; subst. cbn [for_list_m evaluate]. unfold body at 1.
      rewrite (copy_eq t Ht), (eval_inner _ b) by (try (intros; reflexivity); apply wft'_copy; exact Ht).
      rewrite bind_ret_l. fold (eval_term t b). rewrite vars_eq.
      destruct (nonempty (term_vars_p (eval_term t b))); cbn [negb].
      + rewrite bind_ret_l, IH by exact Hr. rewrite !tbind_assoc. apply tbind_ext. intros r'.
        cbn [bind ret]. rewrite <- app_assoc. reflexivity.
      + unfold qlt at 1. fold (qlt (tconst (eval_term t b)) 0).
        destruct (qlt (tconst (eval_term t b)) 0); [reflexivity|]. rewrite bind_ret_l. apply IH. exact Hr. }
  rewrite (Hl ts [] Hts), tbind_assoc.
  destruct (evaluate ts b) as [r|e]; reflexivity.
Qed.

(* contains_behavior: proofs/TermListGenContains.v (a file of its own, so that a change to that method alone stops only its own
   obligation from checking) *)

(* ------------------------------------------------------------------ *)
(** The precondition is necessary: an association list with a repeated key denotes no Python dict; on it the
    item-by-item construction of PolyhedralTerm.copy merges the two entries, the hand model keeps both. *)
Local Open Scope string_scope.
Example evaluate_repeated_key :
  let t := mkT [("x", 1%Q); ("x", 2 # 1)] 0%Q in
  PolyhedralTermList_evaluate [t] [] = inl [mkT [("x", 2 # 1)] 0%Q]
  /\ evaluate [t] [] = inl [t].
Proof. split; reflexivity. Qed.
Example copy_repeated_key :
  let t := mkT [("x", 1%Q); ("x", 2 # 1)] 0%Q in
  PolyhedralTermList_copy [t] = [mkT [("x", 2 # 1)] 0%Q] /\ map term_copy [t] = [t].
Proof. split; reflexivity. Qed.
