(* TermListGenKaykobad.v — T1 tie of PolyhedralTermList._get_kaykobad_context (three nested loops with break /
   continue over lists of floats indexed by position) to model/Tactics.v:get_kaykobad_context (structural
   recursions kk_rows / kk_find_row / kk_sign_invalid / kk_residuals).  No precondition.  See TermListGenFacts.v. *)
From Coq Require Import List String Bool Arith QArith ZArith Lia.
Import ListNotations.
Require Import Py ListsGen ConstGen Sem PyDict PyLoop PyTermList Term Poly Tactics TermGen ListsFacts TermFacts
  TermGenFacts TermListGen TermListGenBase.
Open Scope py_scope.
Local Open Scope nat_scope.

(* ------------------------------------------------------------------ *)
(** * Lists of floats *)
Lemma nth_q_nth l j : nth_q l j = nth j l 0%Q.
Proof. revert j. induction l as [|x r IH]; intros [|k]; cbn; try reflexivity. apply IH. Qed.
Lemma map_const_repeat {X Y} (c : Y) (l : list X) : map (fun _ => c) l = repeat c (List.length l).
Proof. induction l as [|x r IH]; [reflexivity|]. cbn. rewrite IH. reflexivity. Qed.
Lemma add_lists_length a b : List.length a = List.length b -> List.length (add_lists a b) = List.length a.
Proof.
  revert b. induction a as [|x a IH]; intros [|y b] H; cbn in *; try reflexivity; try discriminate.
  rewrite IH by lia. reflexivity.
Qed.
Lemma nth_middle_len {X} (pre : list X) x suf d : nth (List.length pre) (pre ++ x :: suf) d = x.
Proof. induction pre as [|y r IH]; [reflexivity|]. cbn. exact IH. Qed.
Lemma ltb0_nonempty {X} (l : list X) : Nat.ltb 0 (len l) = nonempty l.
Proof. destruct l; reflexivity. Qed.

(* for j in range(n): partial_sums[j] += residuals[j] *)
Lemma add_loop body (R : list Q) :
  (forall ps j, body ps j =
     bind (list_get_m ps j) (fun t => bind (list_get_m R j) (fun t' =>
       bind (list_set_m ps j (qadd t t')) (fun l => ret (Continue l))))) ->
  forall a pre pre_r b, R = pre_r ++ b -> List.length pre = List.length pre_r -> List.length a = List.length b ->
  for_list_m (seq (List.length pre) (List.length a)) (pre ++ a) body = ret (pre ++ add_lists a b).
Proof.
  intros Hb. induction a as [|x a IH]; intros pre pre_r b HR Hp Hl.
  - destruct b; [|discriminate]. reflexivity.
  - destruct b as [|y b]; [discriminate|]. cbn [List.length seq for_list_m add_lists]. rewrite Hb.
    rewrite (list_get_m_nth _ _ 0%Q) by (rewrite app_length; cbn; lia). rewrite nth_middle_len, bind_ret_l.
    rewrite HR, Hp, (list_get_m_nth _ _ 0%Q) by (rewrite app_length; cbn; lia). rewrite nth_middle_len, bind_ret_l.
    rewrite <- Hp, list_set_m_nth by (rewrite app_length; cbn; lia). rewrite set_nth_app. cbn [bind ret].
    replace (S (List.length pre)) with (List.length (pre ++ [qadd x y])) by (rewrite app_length; cbn; lia).
    replace (pre ++ qadd x y :: a) with ((pre ++ [qadd x y]) ++ a) by (rewrite <- app_assoc; reflexivity).
    rewrite (IH (pre ++ [qadd x y]) (pre_r ++ [y]) b).
    + rewrite <- app_assoc. reflexivity.
    + rewrite HR, <- app_assoc. reflexivity.
    + rewrite !app_length. cbn. lia.
    + cbn in Hl. lia.
Qed.

(* ------------------------------------------------------------------ *)
(** * The two validity loops *)
(* for var in l: if P var: flag = True; break *)
Lemma loop_exists {X} (Pr : X -> bool) body (l : list X) :
  (forall a v, body a v = ret (if Pr v then Break true else Continue a)) ->
  forall a, for_list_m l a body = ret (if existsb Pr l then true else a).
Proof.
  intros Hb. induction l as [|v r IH]; intros a; [reflexivity|].
  cbn [for_list_m existsb]. rewrite Hb. destruct (Pr v); cbn [bind ret orb]; [reflexivity|apply IH].
Qed.

Section Row.
Variables (term ctx : pterm) (tc : Q) (i : nat) (i_var : var) (ps : list Q).

(* 1. sign of the nonzero matrix entries *)
Lemma sign_loop body :
  (forall a v, body a v =
     bind (PolyhedralTerm_get_coefficient ctx v) (fun t =>
       if q_neb t 0 then
         bind (PolyhedralTerm_get_sign ctx v) (fun sc => bind (PolyhedralTerm_get_sign term v) (fun st =>
           if q_neb (qmul tc sc) st then ret (Break true) else ret (Continue a)))
       else ret (Continue a))) ->
  forall l, for_list_m l false body = kk_sign_invalid term ctx tc l.
Proof.
  intros Hb. induction l as [|v r IH]; [reflexivity|].
  cbn [for_list_m kk_sign_invalid]. rewrite Hb, get_coefficient_eq, bind_ret_l.
  unfold q_neb at 1. fold (qzero (get_coefficient ctx v)).
  destruct (negb (qzero (get_coefficient ctx v))); [|cbn [bind ret]; exact IH].
  rewrite !get_sign_eq. unfold signq.
  destruct (term_get_sign ctx v) as [sc|e]; [|reflexivity]. cbn [bind].
  destruct (term_get_sign term v) as [st|e]; [|reflexivity]. cbn [bind]. unfold q_neb.
  destruct (negb (Qeq_bool (qmul tc sc) st)); cbn [bind ret]; [reflexivity|exact IH].
Qed.

(* 3. relation between matrix and vector: the residuals *)
Hypothesis Hnz : qzero (get_coefficient ctx i_var) = false.
Lemma residual_loop {B} body (K : bool * list Q -> M B) (fvars : list var) :
  (forall res inv j j_var, body (inv, res) (j, j_var) =
     bind (if negb (Nat.eqb j i) then
             bind (PolyhedralTerm_get_sign term j_var) (fun v8 =>
             bind (PolyhedralTerm_get_coefficient ctx j_var) (fun v9 =>
             bind (PolyhedralTerm_get_coefficient term i_var) (fun v10 =>
             bind (PolyhedralTerm_get_coefficient ctx i_var) (fun v11 =>
             bind (py_div (qmul (qmul v8 v9) v10) v11) (fun t12 =>
             bind (list_set_m res j t12) (fun l13 => ret l13))))))
           else ret res)
          (fun res' =>
             bind (PolyhedralTerm_get_coefficient term j_var) (fun v14 =>
             bind (list_get_m ps j) (fun t15 => bind (list_get_m res' j) (fun t16 =>
               if qle (qabs v14) (qadd t15 t16) then ret (Break (true, res')) else ret (Continue (inv, res'))))))) ->
  (forall r r', K (true, r) = K (true, r')) ->
  forall l pre, List.length ps = List.length pre + List.length l ->
  bind (for_list_m (enumerate_from (List.length pre) l) (false, pre ++ repeat 0%Q (List.length l)) body) K
  = bind (kk_residuals term ctx i i_var l (List.length pre) ps)
         (fun o => match o with Some lst => K (false, pre ++ lst) | None => K (true, []) end).
Proof.
  intros Hb HK. induction l as [|j_var r IH]; intros pre Hlen.
  - cbn. reflexivity.
  - cbn [enumerate_from for_list_m kk_residuals List.length repeat]. rewrite Hb.
    set (j := List.length pre).
    assert (Hj : j < List.length (pre ++ 0%Q :: repeat 0%Q (List.length r))) by (rewrite app_length; cbn; unfold j; lia).
    assert (Hjp : j < List.length ps) by (cbn in Hlen; unfold j; lia).
    (* both sides compute the same residual res_j, or raise the same error *)
    assert (Hres : forall (res_j : Q),
       bind (bind (bind (list_get_m ps j) (fun t15 => bind (list_get_m (pre ++ res_j :: repeat 0%Q (List.length r)) j) (fun t16 =>
                 if qle (qabs (get_coefficient term j_var)) (qadd t15 t16)
                 then ret (Break (true, pre ++ res_j :: repeat 0%Q (List.length r)))
                 else ret (Continue (false, pre ++ res_j :: repeat 0%Q (List.length r))))))
             (fun c => match c with
                       | Continue a => for_list_m (enumerate_from (S j) r) a body
                       | Break a => ret a end)) K
       = (if qle (qabs (get_coefficient term j_var)) (qadd (nth_q ps j) res_j) then
            bind (ret None) (fun o => match o with Some lst => K (false, pre ++ lst) | None => K (true, []) end)
          else bind (bind (kk_residuals term ctx i i_var r (S j) ps)
                          (fun rest => ret (match rest with Some l => Some (res_j :: l) | None => None end)))
                    (fun o => match o with Some lst => K (false, pre ++ lst) | None => K (true, []) end))).
    { intros res_j. subst j.
      rewrite (list_get_m_nth ps _ 0%Q Hjp), bind_ret_l.
      rewrite (list_get_m_nth _ _ 0%Q) by (rewrite app_length; cbn; lia).
      rewrite nth_middle_len, bind_ret_l, nth_q_nth.
      destruct (qle (qabs (get_coefficient term j_var)) (qadd (nth (List.length pre) ps 0%Q) res_j)).
      - cbn [bind ret]. apply HK.
      - cbn [bind ret].
        replace (pre ++ res_j :: repeat 0%Q (List.length r)) with ((pre ++ [res_j]) ++ repeat 0%Q (List.length r))
          by (rewrite <- app_assoc; reflexivity).
        replace (S (List.length pre)) with (List.length (pre ++ [res_j])) by (rewrite app_length; cbn; lia).
        rewrite IH by (rewrite app_length; cbn in *; lia).
        rewrite tbind_assoc. apply tbind_ext. intros [lst|]; cbn [bind ret]; [rewrite <- app_assoc; reflexivity|reflexivity]. }
    destruct (Nat.eqb j i); cbn [negb].
    + rewrite bind_ret_l, get_coefficient_eq. cbn [bind ret]. rewrite (Hres 0%Q). cbn [bind ret].
      match goal with |- context [if ?c then _ else _] => destruct c end; reflexivity.
    + rewrite get_sign_eq. unfold signq. destruct (term_get_sign term j_var) as [sj|e]; [|reflexivity].
      cbn [bind]. rewrite !get_coefficient_eq. cbn [bind ret]. unfold py_div. rewrite Hnz. cbn [bind ret].
      rewrite list_set_m_nth by exact Hj. unfold j at 1. rewrite set_nth_app. cbn [bind ret].
      rewrite Hres. cbn [bind ret].
      match goal with |- context [if ?c then _ else _] => destruct c end; reflexivity.
Qed.
End Row.

Lemma kk_residuals_length term ctx i i_var ps : forall l j lst,
  kk_residuals term ctx i i_var l j ps = inl (Some lst) -> List.length lst = List.length l.
Proof.
  induction l as [|v r IH]; intros j lst H; cbn [kk_residuals] in H.
  - inversion H. reflexivity.
  - apply bind_inl in H. destruct H as [res_j [_ H]].
    destruct (qle _ _); [discriminate|]. apply bind_inl in H. destruct H as [rest [Hr H]].
    destruct rest as [l'|]; inversion H; subst. cbn. rewrite (IH _ _ Hr). reflexivity.
Qed.
Lemma eqb0_nonempty {X} (l : list X) : Nat.eqb (len l) 0 = negb (nonempty l).
Proof. destruct l; reflexivity. Qed.

(* ------------------------------------------------------------------ *)
(** * The theorem *)
Theorem get_kaykobad_context_eq term ctx vs refine :
  PolyhedralTermList__get_kaykobad_context term ctx vs refine = get_kaykobad_context term ctx vs refine.
Proof.
  unfold PolyhedralTermList__get_kaykobad_context, get_kaykobad_context. cbv zeta.
  change (PolyhedralTerm_vars term) with (term_vars_p term).
  set (fvars := list_intersection vs (term_vars_p term)).
  set (other := list_diff vs (term_vars_p term)).
  match goal with |- bind (if refine then ?a else ?b) ?K = _ =>
    transitivity (K (if refine then 1%Q else (-(1))%Q)); [destruct refine; reflexivity|] end.
  cbv beta. set (tc := if refine then 1%Q else (-(1))%Q).
  unfold py_range, py_float, len. rewrite !map_const_repeat, seq_length.
  set (n := List.length fvars).
  match goal with |- bind (for_list_m _ _ ?b) _ = _ => set (bodyO := b) end.
  (* the loop over the rows of the matrix *)
  assert (Outer : forall B (K : list pterm * list Q * bool -> M B) (K' : list pterm * bool -> M B),
            (forall co ps rows, K (rows, ps, co) = K' (rows, co)) ->
            forall todo i rows ps co, List.length ps = n ->
            bind (for_list_m (enumerate_from i todo) (rows, ps, co) bodyO) K
            = bind (kk_rows term ctx other fvars tc todo i rows ps co) K').
  { intros B K K' HK. induction todo as [|i_var todo IH]; intros i rows ps co Hps.
    - cbn. apply HK.
    - cbn [enumerate_from for_list_m kk_rows]. unfold bodyO at 1. rewrite t_diff_m, bind_ret_l.
      match goal with |- context [for_list_m (list_diff ctx rows) _ ?b] => set (bodyM := b) end.
      (* the loop over the candidate context terms *)
      assert (Middle : forall cands,
                for_list_m cands (rows, ps, co, false) bodyM
                = bind (kk_find_row term cands other fvars tc i i_var ps)
                       (fun o => ret (match o with
                                      | None => (rows, ps, co, false)
                                      | Some (c, res) => ((rows ++ [c])%list, add_lists ps res,
                                                          co || nonempty (list_diff (term_vars_p c) fvars), true)
                                      end))).
      { induction cands as [|c cands IHc]; [reflexivity|].
        cbn [for_list_m kk_find_row]. unfold bodyM at 1. rewrite eq_eq, bind_ret_l.
        destruct (term_eqb_p c term); [cbn [bind ret]; exact IHc|].
        rewrite (loop_exists (fun v => negb (qzero (get_coefficient c v)))).
        2:{ intros a v. rewrite get_coefficient_eq, bind_ret_l. unfold q_neb. fold (qzero (get_coefficient c v)).
            destruct (negb (qzero (get_coefficient c v))); reflexivity. }
        rewrite bind_ret_l.
        destruct (existsb (fun v => negb (qzero (get_coefficient c v))) other); [cbn [bind ret]; exact IHc|].
        rewrite (sign_loop term c tc) by (intros a v; reflexivity).
        destruct (kk_sign_invalid term c tc fvars) as [inv|e]; [|reflexivity].
        cbn [bind]. rewrite get_coefficient_eq, bind_ret_l. unfold q_eqb. fold (qzero (get_coefficient c i_var)).
        destruct (qzero (get_coefficient c i_var)) eqn:Hnz; [cbn [orb bind ret]; exact IHc|].
        destruct inv; [cbn [orb bind ret]; exact IHc|]. cbn [orb].
        unfold enumerate. rewrite tbind_assoc.
        rewrite (residual_loop term c i i_var ps Hnz _ _ fvars) with (pre := []);
          [|intros res inv j j_var; rewrite <- (get_coefficient_eq c i_var); reflexivity| |cbn; exact Hps].
        2:{ intros r r'. reflexivity. }
        cbn [List.length app].
        destruct (kk_residuals term c i i_var fvars 0 ps) as [[lst|]|e] eqn:ER; cbn [bind ret negb].
        - apply kk_residuals_length in ER.
          match goal with |- context [for_list_m (seq 0 n) ps ?b] =>
            pose proof (add_loop b lst (fun ps' j => eq_refl) ps [] [] lst eq_refl eq_refl) as EA end.
          cbn [List.length app] in EA. rewrite Hps in EA. rewrite EA by (unfold n; symmetry; exact ER).
          cbn [bind ret app]. rewrite ltb0_nonempty. reflexivity.
        - exact IHc.
        - reflexivity. }
      rewrite Middle, !tbind_assoc.
      destruct (kk_find_row term (list_diff ctx rows) other fvars tc i i_var ps) as [[[c res]|]|e] eqn:EF;
        cbn [bind ret negb]; [|reflexivity|reflexivity].
      apply IH. rewrite add_lists_length; [exact Hps|].
      (* the residuals have length n *)
      clear - EF Hps. revert EF. generalize (list_diff ctx rows). intros cands.
      induction cands as [|c0 cands IHc]; cbn [kk_find_row]; [discriminate|].
      destruct (term_eqb_p c0 term); [exact IHc|].
      destruct (existsb _ other); [exact IHc|].
      destruct (kk_sign_invalid term c0 tc fvars) as [inv|e]; [|discriminate]. cbn [bind].
      destruct (qzero (get_coefficient c0 i_var) || inv); [exact IHc|].
      destruct (kk_residuals term c0 i i_var fvars 0 ps) as [[lst|]|e] eqn:ER; cbn [bind]; [|exact IHc|discriminate].
      intros H. inversion H; subst. apply kk_residuals_length in ER. fold n in ER. lia. }
  unfold enumerate.
  rewrite (Outer _ _ (fun '(rows, others) =>
            if negb others && negb (nonempty (list_diff (term_vars_p term) vs)) then raise ValueErr
            else ret (rows, fvars))).
  - unfold n. rewrite <- map_const_repeat. reflexivity.
  - intros co ps rows. cbn beta iota. unfold len. fold (len (list_diff (term_vars_p term) vs)).
    rewrite eqb0_nonempty. reflexivity.
  - apply repeat_length.
Qed.
