(* TermGenArith.v — T1 tie: __add__, multiply (see TermGenFacts.v). *)
From Coq Require Import List String Bool QArith ZArith Lia.
Import ListNotations.
Require Import Py ListsGen Sem PyDict Term TermGen ListsFacts TermFacts TermGenBase TermGenCore.
Open Scope py_scope.
Local Open Scope Q_scope.

(** __add__ *)
Theorem add_eq t1 t2 : wft t1 -> wft t2 -> PolyhedralTerm_add t1 t2 = ret (term_add t1 t2).
Proof.
  intros H1 H2. unfold PolyhedralTerm_add, term_add. cbv zeta. rewrite (vars_eq t1), (vars_eq t2).
  set (vl := list_union (term_vars_p t1) (term_vars_p t2)).
  assert (Hvl : NoDup vl) by (apply NoDup_list_union; assumption).
  rewrite (for_list_m_fold (fun a v => dict_set a v (qadd (get_coefficient t1 v) (get_coefficient t2 v)))).
  - rewrite bind_ret_l.
    rewrite (fold_set_vars (fun v => qadd (get_coefficient t1 v) (get_coefficient t2 v)) vl dict_empty Hvl).
    cbn [app dict_empty]. rewrite init_eq; [reflexivity|]. rewrite keys_map_var. exact Hvl.
  - intros a x _. rewrite !get_coefficient_eq. reflexivity.
Qed.

(** multiply *)
Theorem multiply_eq t f : wft t -> PolyhedralTerm_multiply t f = term_multiply t f.
Proof.
  intros H. unfold PolyhedralTerm_multiply, term_multiply. cbv zeta.
  rewrite (dict_comp_map (fun _ _ => true) (fun _ v => qmul f v) (tvars t) H). cbv beta.
  rewrite filter_true. apply init_eq. rewrite (keys_map_snd (fun p => qmul f (snd p))). exact H.
Qed.
