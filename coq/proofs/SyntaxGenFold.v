(* SyntaxGenFold.v — T1 tie, composition: replaying the GENERATED parse actions bottom-up over a syntax tree of
   model/Ast.v, with the token shapes the grammar's Group/And/Optional elements produce (exactly what
   harness/syntax_cases.py:_Builder does with the real parse actions), equals the hand-written fold of
   model/Syntax.v (parse_expr), and followed by the generated serializer equals fold_expr — for EVERY tree,
   with or without the optional "*" tokens, error cases (ZeroDivisionError, convexity, assertion) included.
   No well-formedness hypothesis: the dicts built by the parse actions are dicts. *)
From Coq Require Import List String Bool QArith ZArith Lia Reals.
Import ListNotations.
Require Import Py ListsGen Sem PyDict PyLoop PySyntax Term Ast Syntax TermGen SyntaxGen.
Require Import ListsFacts TermFacts TermGenBase SyntaxFacts SyntaxGenBase SyntaxGenTermList SyntaxGenAbsTerm
        SyntaxGenAbsTermList SyntaxGenSerializer SyntaxGenGrammar.
Open Scope py_scope.
Local Open Scope Q_scope.
Local Open Scope string_scope.

(* ------------------------------------------------------------------ *)
(** * What the hand-written fold produces is well-formed *)
Lemma fold_signed_wfs rest :
  Forall (fun p => forall s, fold_lterm (snd p) = inl s -> wfs s) rest ->
  forall acc r, wfs acc -> fold_signed fold_lterm rest acc = inl r -> wfs r.
Proof.
  induction 1 as [|[s t] l Hp _ IH]; intros acc r Hw H; cbn [fold_signed] in H.
  - inv_ret H. subst. exact Hw.
  - inv_bind H y Hy. apply (IH _ _ (wfs_add_c acc (apply_sign s y) Hw) H).
Qed.
Lemma fold_lterm_wfs_both :
  (forall t s, fold_lterm t = inl s -> wfs s) /\ (forall ts s, fold_lterms ts = inl s -> wfs s).
Proof.
  apply lterm_lterms_ind.
  - intros v s H. cbn [fold_lterm] in H. inv_ret H. subst. apply wfs_single.
  - intros k v s H. cbn [fold_lterm] in H. inv_bind H n Hn. inv_ret H. subst. apply wfs_scale_factors, wfs_single.
  - intros k s H. cbn [fold_lterm] in H. inv_bind H n Hn. inv_ret H. subst. constructor.
  - intros ts IH s H. cbn [fold_lterm] in H. exact (IH s H).
  - intros k ts IH s H. cbn [fold_lterm] in H. inv_bind H n Hn. inv_bind H p Hp. inv_ret H. subst.
    apply wfs_scale. exact (IH p Hp).
  - intros sg t rest IHt IHrest s H. rewrite fold_lterms_Terms in H. inv_bind H x Hx.
    apply (fold_signed_wfs rest IHrest _ _ (wfs_add_c stl_zero (apply_sign sg x) wfs_zero) H).
Qed.
Lemma fold_lterm_wfs t s : fold_lterm t = inl s -> wfs s.
Proof. apply (proj1 fold_lterm_wfs_both). Qed.
Lemma fold_lterms_wfs ts s : fold_lterms ts = inl s -> wfs s.
Proof. apply (proj2 fold_lterm_wfs_both). Qed.

Definition wf_aot (x : aot) : Prop := match x with OT t => wfs t | OA a => wfs (abody a) end.
Lemma fold_aterm_wf a x : fold_aterm a = inl x -> wf_aot x.
Proof.
  destruct a as [s t|s k body]; cbn [fold_aterm]; intros H.
  - inv_bind H y Hy. inv_ret H. subst. cbn [wf_aot]. apply wfs_apply_sign. exact (fold_lterm_wfs _ _ Hy).
  - inv_bind H c Hc. inv_bind H b Hb. inv_ret H. subst. cbn [wf_aot].
    destruct s; [|destruct c]; cbn; exact (fold_lterms_wfs _ _ Hb).
Qed.
Lemma atl_push_wfb acc x : wfb acc -> wf_aot x -> wfb (atl_push acc x).
Proof.
  intros [H1 H2] Hx. destruct x as [t|a]; cbn [atl_push wf_aot] in *; split; cbn [aterms aabs].
  - apply wfs_add_c. exact H1.
  - exact H2.
  - exact H1.
  - apply wfbodies_combine_or_append; assumption.
Qed.
Lemma wfb_zero : wfb satl_zero.
Proof. split; [apply wfs_zero|constructor]. Qed.
Lemma mapM_Forall {A B} (f : A -> M B) (P : B -> Prop) l ys :
  (forall a y, f a = inl y -> P y) -> mapM f l = inl ys -> Forall P ys.
Proof.
  intros Hf. revert ys. induction l as [|a r IH]; intros ys H; cbn [mapM] in H.
  - inv_ret H. subst. constructor.
  - inv_bind H y Hy. inv_bind H zs Hzs. inv_ret H. subst. constructor; [exact (Hf a y Hy)|exact (IH zs Hzs)].
Qed.
Lemma fold_atl_push_wfb xs acc : wfb acc -> Forall wf_aot xs -> wfb (fold_left atl_push xs acc).
Proof.
  revert acc. induction xs as [|x r IH]; intros acc Ha Hx; [exact Ha|].
  inversion Hx; subst. cbn [fold_left]. apply IH; [apply atl_push_wfb|]; assumption.
Qed.
Lemma fold_abs_or_terms_wfb items a : fold_abs_or_terms items = inl a -> wfb a.
Proof.
  unfold fold_abs_or_terms. intros H. inv_bind H xs Hxs. inv_ret H. subst.
  apply fold_atl_push_wfb; [apply wfb_zero|]. exact (mapM_Forall _ _ _ _ fold_aterm_wf Hxs).
Qed.
Lemma wfb_scale f a : wfb a -> wfb (satl_scale f a).
Proof.
  intros [H1 H2]. split; cbn [satl_scale aterms aabs].
  - apply wfs_scale. exact H1.
  - unfold wfbodies in *. apply Forall_map. rewrite Forall_forall in *. intros x Hx. exact (H2 x Hx).
Qed.
Lemma fold_pitem_wfb p a : fold_pitem p = inl a -> wfb a.
Proof.
  destruct p as [s k items|x]; cbn [fold_pitem]; intros H.
  - inv_bind H f Hf. inv_bind H b Hb. inv_ret H. subst.
    pose proof (fold_abs_or_terms_wfb _ _ Hb) as Hwb.
    apply wfb_add; [apply wfb_zero|].
    destruct s; [|apply wfb_negate]; (destruct f; [apply wfb_scale|]); exact Hwb.
  - inv_bind H y Hy. inv_ret H. subst. pose proof (fold_aterm_wf _ _ Hy) as Hw.
    destruct y as [t|b]; cbn [wf_aot] in Hw; split; cbn [aterms aabs].
    + apply wfs_add_c, wfs_zero.
    + constructor.
    + apply wfs_zero.
    + apply wfbodies_combine_or_append; [constructor|exact Hw].
Qed.
Lemma fold_satl_add_wfb xs acc : wfb acc -> Forall wfb xs -> wfb (fold_left satl_add xs acc).
Proof.
  revert acc. induction xs as [|x r IH]; intros acc Ha Hx; [exact Ha|].
  inversion Hx; subst. cbn [fold_left]. apply IH; [apply wfb_add|]; assumption.
Qed.
Lemma fold_side_wfb sd a : fold_side sd = inl a -> wfb a.
Proof.
  unfold fold_side. intros H. inv_bind H xs Hxs. inv_ret H. subst.
  apply fold_satl_add_wfb; [apply wfb_zero|]. exact (mapM_Forall _ _ _ _ fold_pitem_wfb Hxs).
Qed.

(* ------------------------------------------------------------------ *)
(** * The replay of the generated parse actions *)
Section Replay.
Variable star : bool.    (* are the optional "*" tokens present? *)

Definition as_float (t : token) : M Q :=
  match t with TokFloat q => ret q | _ => raise (Escape "TypeError") end.
(* arithmetic_expr: infixNotation calls _parse_arithmetic_chain on [operand, op, operand] *)
Fixpoint g_cexpr (c : cexpr) : M Q :=
  match c with
  | CNum q => ret q
  | CAdd l r => a <- g_cexpr l ;; b <- g_cexpr r ;;
                t <- grammar_parse_arithmetic_chain (G [TokFloat a; TokStr "+"; TokFloat b]) ;; as_float t
  | CSub l r => a <- g_cexpr l ;; b <- g_cexpr r ;;
                t <- grammar_parse_arithmetic_chain (G [TokFloat a; TokStr "-"; TokFloat b]) ;; as_float t
  | CMul l r => a <- g_cexpr l ;; b <- g_cexpr r ;;
                t <- grammar_parse_arithmetic_chain (G [TokFloat a; TokStr "*"; TokFloat b]) ;; as_float t
  | CDiv l r => a <- g_cexpr l ;; b <- g_cexpr r ;;
                t <- grammar_parse_arithmetic_chain (G [TokFloat a; TokStr "/"; TokFloat b]) ;; as_float t
  end.
Definition g_optk (k : option cexpr) : M (list token) :=
  match k with None => ret [] | Some e => n <- g_cexpr e ;; ret (TokFloat n :: star_toks star) end.

(* signed_term* *)
Definition g_signed (f : lterm -> M gstl) : list (sign * lterm) -> M (list gstl) :=
  fix go (l : list (sign * lterm)) : M (list gstl) :=
    match l with
    | [] => ret []
    | (s, t) :: r => y <- f t ;;
                     x <- grammar_parse_signed_term (G [sign_tok s; TokTermList y]) ;;
                     xs <- go r ;; ret (x :: xs)
    end.
Fixpoint g_lterm (t : lterm) : M gstl :=
  match t with
  | TVar v => inner <- grammar_parse_only_variable (TokGroup [TokStr v]) ;;
              grammar_parse_term (G [TokTermList inner])
  | TNumVar k v => n <- g_cexpr k ;;
                   x <- grammar_parse_only_variable (TokGroup [TokStr v]) ;;
                   inner <- grammar_parse_number_and_variable (TokGroup (TokFloat n :: star_toks star ++ [TokTermList x])) ;;
                   grammar_parse_term (G [TokTermList inner])
  | TNum k => n <- g_cexpr k ;; grammar_parse_term (G [TokFloat n])
  | TParen ts => p <- g_lterms ts ;;
                 inner <- grammar_parse_paren_terms (G [TokStr "("; TokTermList p; TokStr ")"]) ;;
                 grammar_parse_term (G [TokTermList inner])
  | TNumParen k ts => n <- g_cexpr k ;;
                      p <- g_lterms ts ;;
                      pt <- grammar_parse_paren_terms (G [TokStr "("; TokTermList p; TokStr ")"]) ;;
                      inner <- grammar_parse_factor_paren_terms (G (TokFloat n :: star_toks star ++ [TokTermList pt])) ;;
                      grammar_parse_term (G [TokTermList inner])
  end
with g_lterms (ts : lterms) : M gstl :=
  match ts with
  | Terms s t rest =>
      x <- g_lterm t ;;
      first <- grammar_parse_first_term (G [sign_tok s; TokTermList x]) ;;
      rs <- g_signed g_lterm rest ;;
      grammar_parse_term_list (G (map TokTermList (first :: rs)))
  end.

(* first_abs_or_term (first = true) / addl_abs_or_term *)
Definition g_aterm (first : bool) (a : aterm) : M token :=
  match a with
  | ATerm s t =>
      x <- g_lterm t ;;
      y <- (if first then grammar_parse_first_term else grammar_parse_signed_term) (G [sign_tok s; TokTermList x]) ;;
      grammar_parse_abs_or_term (G [TokTermList y])
  | AAbs s k body =>
      pre <- g_optk k ;;
      b <- g_lterms body ;;
      at_ <- grammar_parse_absolute_term (G (pre ++ [TokStr "|"; TokTermList b; TokStr "|"])) ;;
      y <- (if first then grammar_parse_first_abs_term else grammar_parse_signed_abs_term) (G [sign_tok s; TokAbsTerm at_]) ;;
      grammar_parse_abs_or_term (G [TokAbsTerm y])
  end.
Fixpoint g_aterms (first : bool) (items : list aterm) : M (list token) :=
  match items with
  | [] => ret []
  | a :: r => x <- g_aterm first a ;; xs <- g_aterms false r ;; ret (x :: xs)
  end.
Definition g_abs_or_terms (items : list aterm) : M gatl :=
  xs <- g_aterms true items ;; grammar_parse_abs_or_terms (G xs).

(* first_paren_abs_or_terms (first = true) / addl_paren_abs_or_terms *)
Definition g_pitem (first : bool) (p : pitem) : M gatl :=
  match p with
  | PGroup s k items =>
      pre <- g_optk k ;;
      atl <- g_abs_or_terms items ;;
      patl <- grammar_parse_paren_abs_or_terms (G (pre ++ [TokStr "("; TokAbsTermList atl; TokStr ")"])) ;;
      grammar_parse_first_or_addl_paren_abs_or_terms (G [sign_tok s; TokAbsTermList patl])
  | PPlain a =>
      x <- g_aterm first a ;; grammar_parse_first_or_addl_paren_abs_or_terms (G [x])
  end.
Fixpoint g_pitems (first : bool) (sd : list pitem) : M (list gatl) :=
  match sd with
  | [] => ret []
  | p :: r => x <- g_pitem first p ;; xs <- g_pitems false r ;; ret (x :: xs)
  end.
Definition g_side (sd : side) : M gatl :=
  xs <- g_pitems true sd ;; grammar_parse_multi_paren_abs_or_terms (G (map TokAbsTermList xs)).

(* leq_expression / geq_expression: the grammar produces at least two sides; for fewer the parse action cannot be
   reached (its assert group[1] == op would fail) and, like harness/syntax_cases.py, the expression object is built
   the way _parse_expression_sides builds it *)
Definition g_ineq (o : gop) (op : string) (action : token -> M gexpr) (xs : list gatl) : M gexpr :=
  match xs with
  | _ :: _ :: _ => action (G (interleave op xs))
  | _ => grammar_parse_expression_sides o (TokGroup (interleave op xs))
  end.
Definition g_expr (e : expr) : M gexpr :=
  match e with
  | EEq l r => a <- g_lterms l ;; b <- g_lterms r ;;
               x <- grammar_parse_equality_expression (G [TokTermList a; TokStr "="; TokTermList b]) ;;
               grammar_parse_expression (G [TokExpr x])
  | ELeq sides => xs <- mapM g_side sides ;;
                  x <- g_ineq PolyhedralSyntaxOperator_leq "<=" grammar_parse_leq_expression xs ;;
                  grammar_parse_expression (G [TokExpr x])
  | EGeq sides => xs <- mapM g_side sides ;;
                  x <- g_ineq PolyhedralSyntaxOperator_geq ">=" grammar_parse_geq_expression xs ;;
                  grammar_parse_expression (G [TokExpr x])
  end.

(* ------------------------------------------------------------------ *)
(** * ... equals the hand-written fold *)
Lemma g_cexpr_eq c : g_cexpr c = ceval c.
Proof.
  induction c as [q|l IHl r IHr|l IHl r IHr|l IHl r IHr|l IHl r IHr]; cbn [g_cexpr ceval]; [reflexivity| | | |];
    rewrite IHl, IHr; (destruct (ceval l) as [a|x]; [|reflexivity]); (destruct (ceval r) as [b|x]; [|reflexivity]);
    cbn [bind ret].
  - pose proof (parse_arithmetic_chain_binary OAdd a b) as Hc. cbn [aop_str aop_node] in Hc. rewrite Hc. reflexivity.
  - pose proof (parse_arithmetic_chain_binary OSub a b) as Hc. cbn [aop_str aop_node] in Hc. rewrite Hc. reflexivity.
  - pose proof (parse_arithmetic_chain_binary OMul a b) as Hc. cbn [aop_str aop_node] in Hc. rewrite Hc. reflexivity.
  - pose proof (parse_arithmetic_chain_binary ODiv a b) as Hc. cbn [aop_str aop_node] in Hc. rewrite Hc.
    cbn [ceval bind ret]. destruct (qzero b); reflexivity.
Qed.
Definition pre_toks (c : option Q) : list token :=
  match c with None => [] | Some n => TokFloat n :: star_toks star end.
Lemma g_optk_eq {A} (k : option cexpr) (f : list token -> M A) :
  bind (g_optk k) f
  = bind (match k with None => ret None | Some e => n <- ceval e ;; ret (Some n) end)
         (fun c => f (pre_toks c)).
Proof.
  destruct k as [e|]; cbn [g_optk]; [|reflexivity]. rewrite g_cexpr_eq. destruct (ceval e); reflexivity.
Qed.

Definition lt_eq (t : lterm) : Prop := g_lterm t = mmap of_stl (fold_lterm t).
Definition lts_eq (ts : lterms) : Prop := g_lterms ts = mmap of_stl (fold_lterms ts).

Lemma g_signed_eq rest :
  Forall (fun p => lt_eq (snd p)) rest ->
  forall acc,
    bind (g_signed g_lterm rest) (fun rs => ret (of_stl (fold_left stl_add (map to_stl rs) acc)))
    = mmap of_stl (fold_signed fold_lterm rest acc).
Proof.
  induction 1 as [|[s t] l Hp _ IH]; intros acc; [reflexivity|].
  cbn [g_signed fold_signed snd] in *. rewrite Hp.
  destruct (fold_lterm t) as [y|x] eqn:Ey; [|reflexivity]. cbn [mmap bind ret].
  rewrite parse_signed_term_eq. cbn [bind ret]. fold (g_signed g_lterm l).
  specialize (IH (stl_add acc (apply_sign s y))).
  destruct (g_signed g_lterm l) as [rs|x]; cbn [bind ret] in *; [|exact IH].
  cbn [map fold_left]. rewrite g_apply_sign_eq by (apply gwfs_of; exact (fold_lterm_wfs _ _ Ey)).
  rewrite to_of_stl. exact IH.
Qed.

Lemma g_lterm_both : (forall t, lt_eq t) /\ (forall ts, lts_eq ts).
Proof.
  apply lterm_lterms_ind; unfold lt_eq, lts_eq.
  - intros v. reflexivity.
  - intros k v. cbn [g_lterm fold_lterm]. rewrite g_cexpr_eq. destruct (ceval k) as [n|x]; [|reflexivity].
    cbn [bind ret mmap]. rewrite parse_only_variable_eq. cbn [bind ret].
    rewrite parse_number_and_variable_eq; [reflexivity| |reflexivity].
    unfold gwfs. cbn. constructor; [intros []|constructor].
  - intros k. cbn [g_lterm fold_lterm]. rewrite g_cexpr_eq. destruct (ceval k) as [n|x]; reflexivity.
  - intros ts IH. cbn [g_lterm fold_lterm]. rewrite IH. destruct (fold_lterms ts) as [p|x]; reflexivity.
  - intros k ts IH. cbn [g_lterm fold_lterm]. rewrite g_cexpr_eq. destruct (ceval k) as [n|x]; [|reflexivity].
    cbn [bind ret]. rewrite IH. destruct (fold_lterms ts) as [p|x] eqn:Ep; [|reflexivity].
    cbn [mmap bind ret]. rewrite parse_paren_terms_eq. cbn [bind ret].
    rewrite parse_factor_paren_terms_eq by (apply gwfs_of; exact (fold_lterms_wfs _ _ Ep)).
    cbn [bind ret]. rewrite parse_term_term_list, to_of_stl. reflexivity.
  - intros sg t rest IHt IHrest. rewrite fold_lterms_Terms. cbn [g_lterms]. rewrite IHt.
    destruct (fold_lterm t) as [x|e] eqn:Ex; [|reflexivity]. cbn [mmap bind ret].
    rewrite parse_first_term_eq. cbn [bind ret].
    rewrite <- (g_signed_eq rest IHrest).
    destruct (g_signed g_lterm rest) as [rs|e]; [|reflexivity]. cbn [bind ret].
    rewrite parse_term_list_eq. cbn [map fold_left].
    rewrite g_apply_sign_eq by (apply gwfs_of; exact (fold_lterm_wfs _ _ Ex)). rewrite to_of_stl. reflexivity.
Qed.
Theorem g_lterm_eq t : g_lterm t = mmap of_stl (fold_lterm t).
Proof. apply (proj1 g_lterm_both). Qed.
Theorem g_lterms_eq ts : g_lterms ts = mmap of_stl (fold_lterms ts).
Proof. apply (proj2 g_lterm_both). Qed.

Theorem g_aterm_eq first a : g_aterm first a = mmap aot_tok (fold_aterm a).
Proof.
  destruct a as [s t|s k body]; cbn [g_aterm fold_aterm].
  - rewrite g_lterm_eq. destruct (fold_lterm t) as [x|e] eqn:Ex; [|reflexivity]. cbn [mmap bind ret].
    assert (Hs : (if first then grammar_parse_first_term else grammar_parse_signed_term) (G [sign_tok s; TokTermList (of_stl x)])
                 = ret (g_apply_sign s (of_stl x)))
      by (destruct first; [apply parse_first_term_eq|apply parse_signed_term_eq]).
    rewrite Hs. cbn [bind ret].
    assert (Hg : g_apply_sign s (of_stl x) = of_stl (apply_sign s x)).
    { apply to_stl_inj. rewrite g_apply_sign_eq by (apply gwfs_of; exact (fold_lterm_wfs _ _ Ex)).
      rewrite !to_of_stl. reflexivity. }
    rewrite Hg. exact (parse_abs_or_term_eq (OT (apply_sign s x))).
  - rewrite g_optk_eq.
    destruct (match k with None => ret None | Some e => n <- ceval e ;; ret (Some n) end) as [c|e]; [|reflexivity].
    cbn [bind ret]. rewrite g_lterms_eq. destruct (fold_lterms body) as [b|e]; [|reflexivity]. cbn [mmap bind ret].
    assert (Ha : grammar_parse_absolute_term
                   (G (pre_toks c ++ [TokStr "|"; TokTermList (of_stl b); TokStr "|"]))
                 = ret (mkGA (of_stl b) c)).
    { destruct c as [n|]; [apply parse_absolute_term_coef|apply parse_absolute_term_plain]. }
    rewrite Ha. cbn [bind ret].
    assert (Hs : (if first then grammar_parse_first_abs_term else grammar_parse_signed_abs_term)
                   (G [sign_tok s; TokAbsTerm (mkGA (of_stl b) c)]) = ret (g_abs_sign s (mkGA (of_stl b) c)))
      by (destruct first; [apply parse_first_abs_term_eq|apply parse_signed_abs_term_eq]).
    rewrite Hs. cbn [bind ret].
    assert (Hg : g_abs_sign s (mkGA (of_stl b) c)
                 = of_sabs (match s with Plus => mkAbs b c | Minus => abs_negate (mkAbs b c) end)).
    { rewrite <- (of_to_sabs (g_abs_sign s (mkGA (of_stl b) c))), g_abs_sign_eq.
      unfold to_sabs. cbn [gbody gcoef]. rewrite to_of_stl. reflexivity. }
    rewrite Hg. exact (parse_abs_or_term_eq (OA (match s with Plus => mkAbs b c | Minus => abs_negate (mkAbs b c) end))).
Qed.
Lemma g_aterms_eq items first : g_aterms first items = mmap (map aot_tok) (mapM fold_aterm items).
Proof.
  revert first. induction items as [|a r IH]; intros first; [reflexivity|].
  cbn [g_aterms mapM]. rewrite g_aterm_eq, (IH false).
  destruct (fold_aterm a) as [x|e]; [|reflexivity]. cbn [mmap bind ret].
  destruct (mapM fold_aterm r) as [xs|e]; reflexivity.
Qed.
Theorem g_abs_or_terms_eq items : g_abs_or_terms items = mmap of_satl (fold_abs_or_terms items).
Proof.
  unfold g_abs_or_terms, fold_abs_or_terms. rewrite g_aterms_eq.
  destruct (mapM fold_aterm items) as [xs|e]; [|reflexivity]. cbn [mmap bind ret]. apply parse_abs_or_terms_eq.
Qed.

Theorem g_pitem_eq first p : g_pitem first p = mmap of_satl (fold_pitem p).
Proof.
  destruct p as [s k items|a]; cbn [g_pitem fold_pitem].
  - rewrite g_optk_eq.
    destruct (match k with None => ret None | Some e => n <- ceval e ;; ret (Some n) end) as [c|e]; [|reflexivity].
    cbn [bind ret]. rewrite g_abs_or_terms_eq. destruct (fold_abs_or_terms items) as [a|e] eqn:Ea; [|reflexivity].
    cbn [mmap bind ret]. pose proof (fold_abs_or_terms_wfb _ _ Ea) as [Hw _].
    assert (Hp : grammar_parse_paren_abs_or_terms
                   (G (pre_toks c ++ [TokStr "("; TokAbsTermList (of_satl a); TokStr ")"]))
                 = ret (of_satl (match c with None => a | Some n => satl_scale n a end))).
    { destruct c as [n|]; [|apply parse_paren_abs_or_terms_plain]. unfold pre_toks. cbn [app].
      rewrite parse_paren_abs_or_terms_factor by (apply gwfs_of; exact Hw). rewrite to_of_satl. reflexivity. }
    rewrite Hp. cbn [bind ret].
    rewrite parse_first_or_addl_group.
    + rewrite to_of_satl. reflexivity.
    + apply gwfs_of. destruct c as [n|]; [apply wfs_scale|]; exact Hw.
  - rewrite g_aterm_eq. destruct (fold_aterm a) as [x|e]; [|reflexivity]. cbn [mmap bind ret].
    apply parse_first_or_addl_plain.
Qed.
Lemma g_pitems_eq sd first : g_pitems first sd = mmap (map of_satl) (mapM fold_pitem sd).
Proof.
  revert first. induction sd as [|p r IH]; intros first; [reflexivity|].
  cbn [g_pitems mapM]. rewrite g_pitem_eq, (IH false).
  destruct (fold_pitem p) as [x|e]; [|reflexivity]. cbn [mmap bind ret].
  destruct (mapM fold_pitem r) as [xs|e]; reflexivity.
Qed.
Lemma map_to_of_satl l : map to_satl (map of_satl l) = l.
Proof. induction l as [|a r IH]; [reflexivity|]. cbn [map]. rewrite to_of_satl, IH. reflexivity. Qed.
Theorem g_side_eq sd : g_side sd = mmap of_satl (fold_side sd).
Proof.
  unfold g_side, fold_side. rewrite g_pitems_eq.
  destruct (mapM fold_pitem sd) as [xs|e]; [|reflexivity]. cbn [mmap bind ret].
  rewrite parse_multi_paren_abs_or_terms_eq, map_to_of_satl. reflexivity.
Qed.
Lemma g_sides_eq sides : mapM g_side sides = mmap (map of_satl) (mapM fold_side sides).
Proof.
  induction sides as [|sd r IH]; [reflexivity|]. cbn [mapM]. rewrite g_side_eq, IH.
  destruct (fold_side sd) as [x|e]; [|reflexivity]. cbn [mmap bind ret].
  destruct (mapM fold_side r) as [xs|e]; reflexivity.
Qed.

Lemma g_ineq_eq o op action xs :
  (forall a b rest, action (G (interleave op (a :: b :: rest)))
                    = ret (Expr_Ineq (mk_PolyhedralSyntaxIneqExpression o (a :: b :: rest)))) ->
  g_ineq o op action xs = ret (Expr_Ineq (mk_PolyhedralSyntaxIneqExpression o xs)).
Proof.
  intros Ha. destruct xs as [|a [|b rest]]; cbn [g_ineq]; [apply parse_expression_sides_eq..|apply Ha].
Qed.

(** the parse actions, replayed over any tree, build the expression the hand model builds *)
Theorem g_expr_eq e : mmap to_sexpr (g_expr e) = parse_expr e.
Proof.
  destruct e as [l r|sides|sides]; cbn [g_expr parse_expr].
  - rewrite !g_lterms_eq. destruct (fold_lterms l) as [a|x]; [|reflexivity]. cbn [mmap bind ret].
    destruct (fold_lterms r) as [b|x]; [|reflexivity]. cbn [mmap bind ret].
    rewrite (parse_equality_expression_eq "=" _ _ (or_introl eq_refl)). cbn [bind ret].
    rewrite parse_expression_eq.
    cbn [mmap ret to_sexpr PolyhedralSyntaxEqlExpression_lhs PolyhedralSyntaxEqlExpression_rhs PolyhedralSyntaxEqlExpression_new].
    rewrite !to_of_stl. reflexivity.
  - rewrite g_sides_eq. destruct (mapM fold_side sides) as [xs|x]; [|reflexivity]. cbn [mmap bind ret].
    rewrite (g_ineq_eq _ _ _ _ parse_leq_expression_eq). cbn [bind ret]. rewrite parse_expression_eq.
    cbn [mmap ret to_sexpr to_sop PolyhedralSyntaxIneqExpression_operator PolyhedralSyntaxIneqExpression_sides].
    rewrite map_to_of_satl. reflexivity.
  - rewrite g_sides_eq. destruct (mapM fold_side sides) as [xs|x]; [|reflexivity]. cbn [mmap bind ret].
    rewrite (g_ineq_eq _ _ _ _ parse_geq_expression_eq). cbn [bind ret]. rewrite parse_expression_eq.
    cbn [mmap ret to_sexpr to_sop PolyhedralSyntaxIneqExpression_operator PolyhedralSyntaxIneqExpression_sides].
    rewrite map_to_of_satl. reflexivity.
Qed.

(* what the parse actions build is well-formed *)
Lemma g_expr_wf e x : g_expr e = inl x -> gwf_expr x.
Proof.
  destruct e as [l r|sides|sides]; cbn [g_expr]; intros H.
  - rewrite !g_lterms_eq in H. destruct (fold_lterms l) as [a|y] eqn:Ea; [|discriminate H].
    destruct (fold_lterms r) as [b|y] eqn:Eb; [|discriminate H]. cbn [mmap bind ret] in H.
    rewrite (parse_equality_expression_eq "=" _ _ (or_introl eq_refl)) in H. cbn [bind ret] in H.
    rewrite parse_expression_eq in H. inv_ret H. subst. split; apply gwfs_of.
    + exact (fold_lterms_wfs _ _ Ea).
    + exact (fold_lterms_wfs _ _ Eb).
  - rewrite g_sides_eq in H. destruct (mapM fold_side sides) as [xs|y] eqn:Ex; [|discriminate H].
    cbn [mmap bind ret] in H. rewrite (g_ineq_eq _ _ _ _ parse_leq_expression_eq) in H. cbn [bind ret] in H.
    rewrite parse_expression_eq in H. inv_ret H. subst. cbn [gwf_expr PolyhedralSyntaxIneqExpression_sides].
    apply Forall_map. pose proof (mapM_Forall _ _ _ _ fold_side_wfb Ex) as Hf.
    rewrite Forall_forall in *. intros a Ha. apply gwfatl_wfb. rewrite to_of_satl. exact (Hf a Ha).
  - rewrite g_sides_eq in H. destruct (mapM fold_side sides) as [xs|y] eqn:Ex; [|discriminate H].
    cbn [mmap bind ret] in H. rewrite (g_ineq_eq _ _ _ _ parse_geq_expression_eq) in H. cbn [bind ret] in H.
    rewrite parse_expression_eq in H. inv_ret H. subst. cbn [gwf_expr PolyhedralSyntaxIneqExpression_sides].
    apply Forall_map. pose proof (mapM_Forall _ _ _ _ fold_side_wfb Ex) as Hf.
    rewrite Forall_forall in *. intros a Ha. apply gwfatl_wfb. rewrite to_of_satl. exact (Hf a Ha).
Qed.

(** parse actions then serializer = fold_expr : what polyhedral_termlist_from_string computes on a string with
    parse tree e, through the generated code only *)
Theorem g_fold_expr_eq (str_rep : string) e :
  (x <- g_expr e ;; serializer_expression_to_polyhedral_terms str_rep x) = fold_expr e.
Proof.
  unfold fold_expr. rewrite <- g_expr_eq.
  destruct (g_expr e) as [x|err] eqn:E; [|reflexivity]. cbn [mmap bind ret].
  apply expression_to_polyhedral_terms_eq. exact (g_expr_wf e x E).
Qed.
End Replay.
