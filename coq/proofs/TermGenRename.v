(* TermGenRename.v — T1 tie: rename_variable (see TermGenFacts.v). *)
From Coq Require Import List String Bool QArith ZArith Lia.
Import ListNotations.
Require Import Py ListsGen Sem PyDict Term TermGen ListsFacts TermFacts TermGenBase TermGenCore TermGenArith TermGenRemove.
Open Scope py_scope.
Local Open Scope Q_scope.

(** rename_variable : for terms as the constructor builds them (no stored 0) *)
Lemma nz_at_set l s u x c :
  (s = u -> ~ (x == 0)) -> (s <> u -> ~ (coef l s == 0)) -> nz_at (mkT (dict_set l u x) c) s.
Proof.
  intros H1 H2 q Hq. cbn [tvars] in Hq.
  assert (Hc : coef (dict_set l u x) s = q) by (unfold coef; rewrite Hq; reflexivity).
  destruct (string_dec s u) as [->|Hne].
  - rewrite coef_dict_set_eq in Hc. subst q. apply H1. reflexivity.
  - rewrite (coef_dict_set_neq l u x s Hne) in Hc. subst q. apply H2. exact Hne.
Qed.
Lemma qadd_self_nz a : ~ (a == 0) -> ~ (qadd a a == 0).
Proof.
  intros H He. apply H. unfold qadd in He. rewrite Qred_correct in He.
  assert (E2 : (2 # 1) * a == 0) by (rewrite <- He; ring).
  apply Qmult_integral in E2. destruct E2 as [E2|E2]; [discriminate|exact E2].
Qed.
Theorem rename_variable_eq t s u :
  wft' t -> PolyhedralTerm_rename_variable t s u = ret (term_rename_variable t s u).
Proof.
  intros [Hw Hnz]. unfold PolyhedralTerm_rename_variable. rewrite rename_unfold. cbv zeta.
  rewrite (vars_eq t), (copy_eq t Hw), (term_copy_id t Hnz).
  destruct (py_in s (term_vars_p t)) eqn:Es; [|reflexivity].
  apply py_in_var in Es. unfold term_vars_p in Es.
  assert (Hs0 : ~ (coef (tvars t) s == 0)) by (apply coef_nonzero; assumption).
  destruct (py_in u (term_vars_p t)) eqn:Eu; cbn [negb].
  - apply py_in_var in Eu. unfold term_vars_p in Eu.
    rewrite (dict_get_coef _ _ Eu), bind_ret_l, (dict_get_coef _ _ Es), bind_ret_l.
    unfold set_variables. rewrite remove_variable_eq; [reflexivity| |].
    + apply NoDup_keys_dict_set. exact Hw.
    + apply nz_at_set; [intros ->; apply qadd_self_nz; exact Hs0|intros _; exact Hs0].
  - apply py_in_var_false in Eu. unfold term_vars_p in Eu.
    assert (Hne : s <> u) by (intros ->; contradiction).
    unfold set_variables. cbn [tvars tconst].
    set (l1 := dict_set (tvars t) u (0 # 1)).
    assert (Eu1 : In u (keys l1)) by (apply in_keys_dict_set; right; reflexivity).
    assert (Es1 : In s (keys l1)) by (apply in_keys_dict_set; left; exact Es).
    rewrite (dict_get_coef _ _ Eu1), bind_ret_l, (dict_get_coef _ _ Es1), bind_ret_l.
    rewrite remove_variable_eq; [reflexivity| |].
    + apply NoDup_keys_dict_set. apply NoDup_keys_dict_set. exact Hw.
    + apply nz_at_set; [intros E; contradiction|intros _].
      unfold l1. rewrite (coef_dict_set_neq _ _ _ _ Hne). exact Hs0.
Qed.
Local Open Scope string_scope.
Example stored_zero_rename :
  let t := mkT [("x", 0); ("y", 1)] 1 in
  PolyhedralTerm_rename_variable t "x" "y" = inr (Escape "KeyError")
  /\ term_rename_variable t "x" "y" = mkT [("y", 1)] 1.
Proof. split; reflexivity. Qed.
