(* PlotsGenBase.v — the tie of the vertex routine of pacti.utils.plots (model/Plots.v) to the code, part 1.
   translator/py2coq_plots.py (run by py2coq.py) renders _gen_boundary_constraints, _substitute_in_termlist,
   _get_feasible_point, _get_bounding_vertices and constraints_to_vertices into gen/PlotsGen.v over the vocabulary of
   base/PyPlots.v.  What is NOT translated are the fields of the class PlotPrims.  This file
     * instantiates them with the oracles of the hand model ([plot_prims nrm O], for ANY function [nrm] standing for
       the Euclidean row norm, which the hand model does not compute): termlist_to_polytope is polytope_vars /
       term_to_row of model/Poly.v, the Chebyshev LP is [centre O], Qhull is [Q_hull O], the four fallback LPs are
       [extreme O], the atan2-keyed sort is the insertion sort of model/Plots.v over [ang_leb_gen] with the float
       noise [cut_low O].  An LP that is not one of the two the routine is known to pose (other bounds, another
       objective, a matrix of another shape) is [OracleMiss], so that an edit of the arguments breaks the equalities;
     * collects what the other files share: monad laws, the numpy list lemmas, the decoding of the Chebyshev LP,
       the sort against [sort_angular], sum / len against [mean]. *)
From Coq Require Import List String Bool QArith Qabs Qreduction ZArith Arith Lia.
Import ListNotations.
Require Import Py ListsGen Sem PyDict PyLoop PyTermList PyPrint PyPlots Term Poly Plots.
Require Import TermFacts TermGenBase PlotsGen.
Open Scope py_scope.
Local Open Scope Q_scope.

(* ------------------------------------------------------------------ *)
(** * the instances of the primitives *)
Definition list_Qeqb (l1 l2 : list Q) : bool :=
  Nat.eqb (List.length l1) (List.length l2) && forallb (fun p => Qeq_bool (fst p) (snd p)) (combine l1 l2).
(* a row of A_ub with its bound, read as the hand model reads it (model/Plots.v:row_triple) *)
Definition row3_of (r : list Q) (c : Q) : row3 := (nth 0 r 0, nth 1 r 0, c).
Fixpoint rows3_of (a : np_matrix) (b : np_vector) : list row3 :=
  match a, b with
  | r :: a', c :: b' => row3_of r c :: rows3_of a' b'
  | _, _ => []
  end.
(* the Chebyshev-centre LP of _get_feasible_point: A_ub = [A | norms ; 0 0 -1], b_ub = [b ; 0] as a column.
   [decode_rows] recovers the rows (a, b, c) and checks that the third column is the row norm. *)
Fixpoint decode_rows (nrm : list Q -> Q) (a bm : np_matrix) : option (list row3) :=
  match a, bm with
  | [], [] => Some []
  | r' :: a', [c] :: bm' =>
      let r := removelast r' in
      if Nat.eqb (List.length r') (S (List.length r)) && Qeq_bool (last r' 0) (nrm r)
      then option_map (cons (row3_of r c)) (decode_rows nrm a' bm')
      else None
  | _, _ => None
  end.
Definition decode_cheb (nrm : list Q -> Q) (a bm : np_matrix) : option (list row3) :=
  if list_Qeqb (last a []) [0; 0; -(1)]
     && match last bm [] with [z] => Qeq_bool z 0 | _ => false end
     && negb (Nat.eqb (List.length a) 0) && negb (Nat.eqb (List.length bm) 0)
  then decode_rows nrm (removelast a) (removelast bm) else None.
(* a half-space row [a; b; -c] of Qhull's input *)
Definition hs_row (r : list Q) : row3 := (nth 0 r 0, nth 1 r 0, - nth 2 r 0).
Definition pt_list (p : pt) : list Q := [fst p; snd p].

Definition lp_answer_t : Type := option (list Q).     (* res["x"]; None = no solution (status 2) *)
Definition plot_linprog (nrm : list Q -> Q) (O : oracles) (c : np_vector) (a : np_matrix) (b : lp_rhs)
    (bounds : lp_bounds) : M lp_answer_t :=
  match bounds with
  | (None, None) =>
      match b with
      | Rhs1 bv =>                                   (* the fallback LPs: minimise c·p *)
          match c with
          | [c0; c1] =>
              if Nat.eqb (List.length a) (List.length bv)
              then ret (option_map pt_list (extreme O (rows3_of a bv) (c0, c1)))
              else raise OracleMiss
          | _ => raise OracleMiss
          end
      | Rhs2 bm =>                                   (* the Chebyshev-centre LP: maximise the radius *)
          match decode_cheb nrm a bm with
          | Some rows =>
              if list_Qeqb c [0; 0; -(1)]
              then ret (option_map (fun p => [fst p; snd p; 0]) (centre O rows))    (* the radius is not modelled *)
              else raise OracleMiss
          | None => raise OracleMiss
          end
      end
  | _ => raise OracleMiss                            (* any other bounds: not an LP of the hand model *)
  end.
Definition plot_hull (O : oracles) (hs : np_matrix) (ip : np_vector) : M (list pt) :=
  let rows := map hs_row hs in
  match centre O rows, ip with
  | Some p, [px; py] =>
      if Qeq_bool px (fst p) && Qeq_bool py (snd p)
      then match Q_hull O rows with Some l => ret l | None => raise (Escape "QhullError") end
      else raise OracleMiss                          (* not the interior point the routine computed *)
  | _, _ => raise OracleMiss
  end.
(* sorted(points, key=lambda p: atan2(dy, dx)): the stable insertion sort of model/Plots.v; [key p] is (dy, dx) *)
Definition key_vec (a : angle) : pt := (snd a, fst a).
Fixpoint insert_by_angle (low : pt -> bool) (key : pt -> angle) (p : pt) (l : list pt) : list pt :=
  match l with
  | [] => [p]
  | q :: r => if ang_leb_gen (low p) (key_vec (key p)) (low q) (key_vec (key q)) then p :: q :: r
              else q :: insert_by_angle low key p r
  end.
Definition sort_by_angle (low : pt -> bool) (l : list pt) (key : pt -> angle) : list pt :=
  fold_right (insert_by_angle low key) [] l.

Definition plot_prims (nrm : list Q -> Q) (O : oracles) : PlotPrims :=
  {| plp_result := lp_answer_t;
     phs_t := list pt;
     pp_termlist_to_polytope := fun terms ctx =>
       let vs := polytope_vars terms ctx in
       ret (vs, map (fun t => fst (term_to_row vs t)) terms, map tconst terms,
            map (fun t => fst (term_to_row vs t)) ctx, map tconst ctx);     (* a_h, b_h: not used by the routine *)
     pp_norm_rows := fun m => map (fun r => [nrm r]) m;
     pp_linprog := plot_linprog nrm O;
     pp_res_status := fun r => match r with None => 2%nat | Some _ => 0%nat end;
     pp_res_x := fun r => r;
     pp_HalfspaceIntersection := plot_hull O;
     pp_intersections := fun l => l;
     pp_sorted_by_atan2 := sort_by_angle (cut_low O) |}.

(* the result shape of the Python: the tuple of x's and the tuple of y's *)
Definition unzip_pts (l : list pt) : list Q * list Q := (map fst l, map snd l).

(* ------------------------------------------------------------------ *)
(** * monad *)
Lemma pbind_assoc {A B C} (m : M A) (f : A -> M B) (g : B -> M C) :
  bind (bind m f) g = bind m (fun a => bind (f a) g).
Proof. destruct m; reflexivity. Qed.
Lemma pbind_ext {A B} (m : M A) (f g : A -> M B) : (forall a, f a = g a) -> bind m f = bind m g.
Proof. intros Hfg. destruct m as [a|e]; [apply Hfg|reflexivity]. Qed.
Lemma mmap_bind {A B C} (m : M A) (f : A -> M B) (g : B -> C) :
  mmap g (bind m f) = bind m (fun a => mmap g (f a)).
Proof. destruct m; reflexivity. Qed.

(* ------------------------------------------------------------------ *)
(** * numbers *)
Lemma Qopp_opp_eq (q : Q) : - - q = q.
Proof. destruct q as [n d]. unfold Qopp. cbn [Qnum Qden]. rewrite Z.opp_involutive. reflexivity. Qed.
Lemma Qeq_bool_refl' q : Qeq_bool q q = true.
Proof. apply Qeq_bool_iff. reflexivity. Qed.
Lemma list_Qeqb_refl l : list_Qeqb l l = true.
Proof.
  unfold list_Qeqb. rewrite Nat.eqb_refl. cbn [andb].
  induction l as [|x r IH]; [reflexivity|]. cbn [combine forallb fst snd]. rewrite Qeq_bool_refl', IH. reflexivity.
Qed.

(* ------------------------------------------------------------------ *)
(** * numpy *)
Lemma np_concat_axis1_map {X} (f g : X -> list Q) (l : list X) :
  np_concat_axis1 (map f l) (map g l) = ret (map (fun x => (f x ++ g x)%list) l).
Proof. induction l as [|x r IH]; [reflexivity|]. cbn [map np_concat_axis1]. rewrite IH. reflexivity. Qed.
Lemma same_width_all n (m : np_matrix) : Forall (fun r => List.length r = n) m -> same_width m = true.
Proof.
  intros H. destruct m as [|r m']; [reflexivity|]. cbn [same_width].
  inversion H as [|? ? Hr Hm]; subst. apply forallb_forall. intros s Hs.
  rewrite Forall_forall in Hm. rewrite (Hm s Hs). apply Nat.eqb_refl.
Qed.
Lemma np_concat_axis0_ok n (a b : np_matrix) :
  Forall (fun r => List.length r = n) a -> Forall (fun r => List.length r = n) b ->
  np_concat_axis0 a b = ret (a ++ b)%list.
Proof.
  intros Ha Hb. unfold np_concat_axis0. rewrite (same_width_all n); [reflexivity|].
  apply Forall_app. split; assumption.
Qed.

(* m[:, [0, 1]] = m[:, [1, 0]] swaps the first two columns *)
Lemma np_get_cols_cons r (m : np_matrix) idx :
  np_get_cols (r :: m) idx
  = bind (row_get_cols r idx) (fun y => bind (np_get_cols m idx) (fun ys => ret (y :: ys))).
Proof. reflexivity. Qed.
Lemma get_set_cols_swap (m : np_matrix) :
  Forall (fun r => (2 <= List.length r)%nat) m ->
  bind (np_get_cols m [1%nat; 0%nat]) (fun v => np_set_cols m [0%nat; 1%nat] v)
  = ret (map (fun r => match r with a :: b :: rest => b :: a :: rest | _ => r end) m).
Proof.
  induction m as [|r m' IH]; intros H; [reflexivity|].
  inversion H as [|? ? Hr Hm]; subst. specialize (IH Hm).
  destruct r as [|a [|b rest]]; [cbn in Hr; lia|cbn in Hr; lia|].
  rewrite np_get_cols_cons.
  assert (Hg : row_get_cols (a :: b :: rest) [1%nat; 0%nat] = ret [b; a]) by reflexivity.
  rewrite Hg, bind_ret_l.
  destruct (np_get_cols m' [1%nat; 0%nat]) as [v|e]; [|cbn in IH; discriminate].
  cbn [bind ret] in IH. cbn [bind ret np_set_cols row_set_cols list_set_m]. rewrite IH. reflexivity.
Qed.
(* ... and raises IndexError when the (non-empty) array has fewer than two columns *)
Lemma get_cols_short (m : np_matrix) :
  m <> [] -> Forall (fun r => (List.length r < 2)%nat) m ->
  np_get_cols m [1%nat; 0%nat] = raise (Escape "IndexError").
Proof.
  intros Hne H. destruct m as [|r m']; [congruence|].
  inversion H as [|? ? Hr Hm]; subst.
  destruct r as [|a [|b rest]]; [reflexivity|reflexivity|cbn in Hr; lia].
Qed.

(* ------------------------------------------------------------------ *)
(** * the Chebyshev LP is decoded back to the rows *)
Lemma rows3_of_rows (rows : list row) :
  rows3_of (map fst rows) (map snd rows) = map row_triple rows.
Proof. induction rows as [|r rs IH]; [reflexivity|]. cbn [map rows3_of]. rewrite IH. reflexivity. Qed.
Lemma decode_rows_ok nrm (rows : list row) :
  decode_rows nrm (map (fun r => (fst r ++ [nrm (fst r)])%list) rows) (map (fun r => [snd r]) rows)
  = Some (map row_triple rows).
Proof.
  induction rows as [|r rs IH]; [reflexivity|]. cbn [map decode_rows].
  rewrite removelast_last, last_last, app_length, Nat.add_1_r, Nat.eqb_refl, Qeq_bool_refl', IH. reflexivity.
Qed.
Lemma decode_cheb_ok nrm (rows : list row) :
  decode_cheb nrm (map (fun r => (fst r ++ [nrm (fst r)])%list) rows ++ [[0; 0; -(1)]])
                  (map (fun r => [snd r]) rows ++ [[0]])
  = Some (map row_triple rows).
Proof.
  unfold decode_cheb. rewrite !last_last, !removelast_last, !app_length. cbn [List.length].
  rewrite !Nat.add_1_r. cbn [Nat.eqb negb andb]. rewrite list_Qeqb_refl. cbn [andb Qeq_bool].
  apply decode_rows_ok.
Qed.

(* ------------------------------------------------------------------ *)
(** * the angular sort *)
Lemma Qcompare_proper a a' b b' : a == a' -> b == b' -> (a ?= b) = (a' ?= b').
Proof. intros Ha Hb. rewrite Ha, Hb. reflexivity. Qed.
Lemma Qle_bool_proper a a' b b' : a == a' -> b == b' -> Qle_bool a b = Qle_bool a' b'.
Proof.
  intros Ha Hb. destruct (Qle_bool a b) eqn:E1, (Qle_bool a' b') eqn:E2; try reflexivity.
  - apply Qle_bool_iff in E1. rewrite Ha, Hb in E1. apply Qle_bool_iff in E1. congruence.
  - apply Qle_bool_iff in E2. rewrite <- Ha, <- Hb in E2. apply Qle_bool_iff in E2. congruence.
Qed.
Lemma aclass_proper low d d' : fst d == fst d' -> snd d == snd d' -> aclass low d = aclass low d'.
Proof.
  intros H1 H2. unfold aclass. rewrite (Qcompare_proper _ _ 0 0 H2 (Qeq_refl 0)),
    (Qcompare_proper _ _ 0 0 H1 (Qeq_refl 0)). reflexivity.
Qed.
Lemma ang_leb_gen_proper l1 d1 d1' l2 d2 d2' :
  fst d1 == fst d1' -> snd d1 == snd d1' -> fst d2 == fst d2' -> snd d2 == snd d2' ->
  ang_leb_gen l1 d1 l2 d2 = ang_leb_gen l1 d1' l2 d2'.
Proof.
  intros A1 B1 A2 B2. unfold ang_leb_gen.
  rewrite (aclass_proper l1 d1 d1' A1 B1), (aclass_proper l2 d2 d2' A2 B2).
  assert (Hc : cross d1 d2 == cross d1' d2') by (unfold cross; rewrite A1, B1, A2, B2; reflexivity).
  rewrite (Qle_bool_proper 0 0 _ _ (Qeq_refl 0) Hc). reflexivity.
Qed.
(* the key the Python passes: atan2(p[1] - center[1], p[0] - center[0]) *)
Lemma sort_by_angle_eq low c (key : pt -> angle) l :
  (forall p, key p = py_atan2 (qsub (snd p) (snd c)) (qsub (fst p) (fst c))) ->
  sort_by_angle low l key = sort_angular low c l.
Proof.
  intros Hk. unfold sort_by_angle, sort_angular.
  assert (Hi : forall p l', insert_by_angle low key p l' = insert_ang low c p l').
  { intros p l'. induction l' as [|q r IH]; [reflexivity|]. cbn [insert_by_angle insert_ang].
    unfold ang_leb_at. rewrite !Hk. unfold py_atan2, key_vec, vsub, qsub. cbn [fst snd].
    rewrite (ang_leb_gen_proper (low p) _ (fst p - fst c, snd p - snd c) (low q) _ (fst q - fst c, snd q - snd c))
      by (cbn [fst snd]; apply Qred_correct).
    rewrite IH. reflexivity. }
  induction l as [|p r IH]; [reflexivity|]. cbn [fold_right]. rewrite IH. apply Hi.
Qed.

(* ------------------------------------------------------------------ *)
(** * sum(x) / len(x) *)
Lemma py_sum_acc l a a' : a == a' -> fold_left qadd l a == fold_left Qplus l a'.
Proof.
  revert a a'. induction l as [|x r IH]; intros a a' H; [exact H|]. cbn [fold_left]. apply IH.
  unfold qadd. rewrite Qred_correct, H. reflexivity.
Qed.
Lemma py_div_mean (l : list Q) :
  l <> [] -> py_div (py_sum l) (nat_float (len l)) = ret (mean l).
Proof.
  intros Hne. unfold py_div, qzero, nat_float, len.
  assert (Hz : Qeq_bool (inject_Z (Z.of_nat (List.length l))) 0 = false).
  { destruct l as [|x r]; [congruence|]. cbn [List.length]. rewrite Nat2Z.inj_succ.
    destruct (Qeq_bool _ 0) eqn:E; [|reflexivity]. apply Qeq_bool_iff in E. unfold Qeq, inject_Z in E. cbn in E. lia. }
  rewrite Hz. unfold ret, mean, qdiv. f_equal. apply Qred_complete.
  unfold py_sum, qsum. rewrite (py_sum_acc l 0 0 (Qeq_refl 0)). reflexivity.
Qed.

(* ------------------------------------------------------------------ *)
(** * x, y = zip( *points ) and zip(x, y) *)
Lemma py_zip_unzip (l : list pt) : py_zip (map fst l) (map snd l) = l.
Proof. unfold py_zip. induction l as [|[a b] r IH]; [reflexivity|]. cbn [map combine fst snd]. rewrite IH. reflexivity. Qed.
Lemma py_unzip2_ok (l : list pt) : l <> [] -> py_unzip2 l = ret (unzip_pts l).
Proof. intros H. destruct l; [congruence|reflexivity]. Qed.
