(* PolyLP.v — pure LP-level facts used by PolyFacts.v: linearity of [dot], convexity of
   [feas], the relaxation ("cone") lemma, and the row-level correctness of the loops of
   model/Poly.v (reduce_loop, is_polytope_empty, containment_loop) under the solver
   specification [lp_spec 0 O] of proofs/PolySpec.v.  No terms, no valuations here. *)
From Coq Require Import List String Bool QArith Qabs ZArith Reals Qreals Lra Lia.
Import ListNotations.
Require Import Py ListsGen ConstGen Sem Term Poly PolySpec QR.
Local Open Scope R_scope.

(* ------------------------------------------------------------------ *)
(** * dot is linear *)
Lemma dot_nil_l x : dot [] x = 0.
Proof. reflexivity. Qed.
Lemma dot_nil_r a : dot a [] = 0.
Proof. destruct a; reflexivity. Qed.

Lemma dot_map_qneg a x : dot (map qneg a) x = - dot a x.
Proof.
  revert x. induction a as [|q a IH]; intros x; simpl; [lra|].
  destruct x as [|r x]; [lra|]. rewrite IH, Q2R_qneg. lra.
Qed.
Lemma dot_map_qmul p a x : dot (map (fun q => qmul p q) a) x = Q2R p * dot a x.
Proof.
  revert x. induction a as [|q a IH]; intros x; simpl; [lra|].
  destruct x as [|r x]; [lra|]. rewrite IH, Q2R_qmul. lra.
Qed.
Lemma dot_repeat0 m x : dot (repeat 0%Q m) x = 0.
Proof.
  revert x. induction m as [|m IH]; intros x; simpl; [reflexivity|].
  destruct x as [|r x]; [reflexivity|]. rewrite IH, Q2R_0. lra.
Qed.

(* pointwise convex combination  (1-l)·x + l·y *)
Fixpoint comb (l : R) (x y : list R) : list R :=
  match x, y with
  | a :: x', b :: y' => ((1 - l) * a + l * b) :: comb l x' y'
  | _, _ => []
  end.
Lemma comb_length l x y : List.length x = List.length y -> List.length (comb l x y) = List.length x.
Proof.
  revert y. induction x as [|a x IH]; intros [|b y] H; simpl in *; try congruence.
  f_equal. apply IH. congruence.
Qed.
Lemma dot_comb l a x y : List.length x = List.length y ->
  dot a (comb l x y) = (1 - l) * dot a x + l * dot a y.
Proof.
  revert x y. induction a as [|q a IH]; intros x y H; simpl; [lra|].
  destruct x as [|r x], y as [|s y]; simpl in *; try congruence; [lra|].
  rewrite IH by congruence. lra.
Qed.

(* ------------------------------------------------------------------ *)
(** * feas *)
Lemma feas_nil x : feas [] x.
Proof. constructor. Qed.
Lemma feas_cons r rows x : feas (r :: rows) x <-> dot (fst r) x <= Q2R (snd r) /\ feas rows x.
Proof.
  unfold feas. split.
  - intros H. inversion H; subst. tauto.
  - intros [H1 H2]. constructor; assumption.
Qed.
Lemma feas_app r1 r2 x : feas (r1 ++ r2) x <-> feas r1 x /\ feas r2 x.
Proof. unfold feas. apply Forall_app. Qed.
Lemma feas_incl r1 r2 x : incl r1 r2 -> feas r2 x -> feas r1 x.
Proof. unfold feas. rewrite !Forall_forall. intros Hi H r Hr. apply H. apply Hi. exact Hr. Qed.
Lemma feas_in rows x r : feas rows x -> In r rows -> dot (fst r) x <= Q2R (snd r).
Proof. unfold feas. rewrite Forall_forall. intros H Hr. apply H. exact Hr. Qed.

(* feasible sets are convex *)
Lemma feas_comb l rows x y : 0 <= l <= 1 -> List.length x = List.length y ->
  feas rows x -> feas rows y -> feas rows (comb l x y).
Proof.
  intros Hl Hlen Hx Hy. unfold feas in *. rewrite Forall_forall in *.
  intros r Hr. rewrite dot_comb by exact Hlen.
  specialize (Hx r Hr). specialize (Hy r Hr). nra.
Qed.

(* ------------------------------------------------------------------ *)
(** * The relaxation lemma
   If the polytope R ∩ {a·x ≤ b+1} is nonempty and lies inside {a·x ≤ b}, then the whole of R
   lies inside {a·x ≤ b}. *)
Lemma relax_lemma_gen (n : nat) (Rs : list row) (a : list Q) (b c : R) (x0 : list R) :
  b < c ->
  List.length x0 = n -> feas Rs x0 -> dot a x0 <= c ->
  (forall x, List.length x = n -> feas Rs x -> dot a x <= c -> dot a x <= b) ->
  forall y, List.length y = n -> feas Rs y -> dot a y <= b.
Proof.
  intros Hbc L0 F0 A0 H y Ly Fy.
  destruct (Rle_dec (dot a y) b) as [Hle|Hgt]; [exact Hle|]. exfalso.
  assert (V0 : dot a x0 <= b) by (apply H; assumption).
  destruct (Rle_dec (dot a y) c) as [H1|H1].
  - apply Hgt. apply H; assumption.
  - set (v0 := dot a x0) in *. set (v1 := dot a y) in *.
    assert (Hd : v1 - v0 > 0) by lra.
    set (l := (c - v0) / (v1 - v0)).
    assert (Hl0 : 0 <= l).
    { unfold l. apply Rmult_le_pos; [lra|]. left. apply Rinv_0_lt_compat. lra. }
    assert (Hl1 : l <= 1).
    { unfold l. apply Rmult_le_reg_r with (r := v1 - v0); [lra|].
      unfold Rdiv. rewrite Rmult_assoc, Rinv_l by lra. lra. }
    assert (Hlv : l * (v1 - v0) = c - v0).
    { unfold l. unfold Rdiv. rewrite Rmult_assoc, Rinv_l by lra. lra. }
    assert (Lz : List.length (comb l x0 y) = n) by (rewrite comb_length; congruence).
    assert (Fz : feas Rs (comb l x0 y)) by (apply feas_comb; [lra|congruence|assumption|assumption]).
    assert (Vz : dot a (comb l x0 y) = c).
    { rewrite dot_comb by congruence. fold v0 v1. nra. }
    specialize (H _ Lz Fz). rewrite Vz in H. lra.
Qed.
Lemma relax_lemma (n : nat) (Rs : list row) (a : list Q) (b : R) (x0 : list R) :
  List.length x0 = n -> feas Rs x0 -> dot a x0 <= b + 1 ->
  (forall x, List.length x = n -> feas Rs x -> dot a x <= b + 1 -> dot a x <= b) ->
  forall y, List.length y = n -> feas Rs y -> dot a y <= b.
Proof. apply relax_lemma_gen. lra. Qed.

(* ------------------------------------------------------------------ *)
(** * Rows of a fixed width *)
Definition wf_rows (n : nat) (rows : list row) : Prop := Forall (fun r => List.length (fst r) = n) rows.
Lemma wf_rows_app n r1 r2 : wf_rows n (r1 ++ r2) <-> wf_rows n r1 /\ wf_rows n r2.
Proof. apply Forall_app. Qed.
Lemma wf_rows_cons n r rows : wf_rows n (r :: rows) <-> List.length (fst r) = n /\ wf_rows n rows.
Proof.
  unfold wf_rows. split.
  - intros H. inversion H; subst. tauto.
  - intros [H1 H2]. constructor; assumption.
Qed.

(* ------------------------------------------------------------------ *)
(** * Subsequences *)
Inductive subseq {A} : list A -> list A -> Prop :=
| subseq_nil : subseq [] []
| subseq_take x s l : subseq s l -> subseq (x :: s) (x :: l)
| subseq_skip x s l : subseq s l -> subseq s (x :: l).

Lemma subseq_refl {A} (l : list A) : subseq l l.
Proof. induction l; constructor; assumption. Qed.
Lemma subseq_nil_l {A} (l : list A) : subseq [] l.
Proof. induction l; constructor; assumption. Qed.
Lemma subseq_incl {A} (s l : list A) : subseq s l -> incl s l.
Proof.
  induction 1; intros y Hy.
  - exact Hy.
  - destruct Hy as [->|Hy]; [left; reflexivity|right; apply IHsubseq; exact Hy].
  - right. apply IHsubseq. exact Hy.
Qed.
Lemma subseq_map_inv {A B} (f : A -> B) (l : list A) (s' : list B) :
  subseq s' (map f l) -> exists s, subseq s l /\ s' = map f s.
Proof.
  revert s'. induction l as [|x l IH]; intros s' H; simpl in H.
  - inversion H; subst. exists []. split; constructor.
  - inversion H as [|y s0 l0 Hsub|y s0 l0 Hsub]; subst.
    + destruct (IH _ Hsub) as [s [Hs ->]]. exists (x :: s). split; [constructor; exact Hs|reflexivity].
    + destruct (IH _ Hsub) as [s [Hs ->]]. exists s. split; [constructor; exact Hs|reflexivity].
Qed.
Lemma subseq_app_l {A} (k s l : list A) : subseq s l -> subseq (k ++ s) (k ++ l).
Proof. induction k; simpl; intros; [assumption|constructor; auto]. Qed.
Lemma subseq_trans {A} (a b c : list A) : subseq a b -> subseq b c -> subseq a c.
Proof.
  intros Hab Hbc. revert a Hab. induction Hbc; intros a Hab.
  - exact Hab.
  - inversion Hab; subst.
    + constructor. apply IHHbc. assumption.
    + apply subseq_skip. apply IHHbc. assumption.
  - apply subseq_skip. apply IHHbc. exact Hab.
Qed.
Lemma subseq_filter {A} (f : A -> bool) (l : list A) : subseq (filter f l) l.
Proof.
  induction l as [|x l IH]; simpl; [constructor|].
  destruct (f x); constructor; exact IH.
Qed.

(* ------------------------------------------------------------------ *)
(** * Each LP of the loops is bounded below by its own relaxed row *)
Lemma relaxed_not_unbounded (vs : list var) (a : list Q) (b : Q) (rows : list row) :
  unbounded_below (mkLP vs (map qneg a) rows) -> In (a, qadd b 1) rows -> False.
Proof.
  intros Hu Hin. destruct (Hu (- (Q2R b + 1))) as [x [_ [Hf Hv]]]. simpl in *.
  apply (feas_in _ _ _ Hf) in Hin. simpl in Hin.
  rewrite dot_map_qneg in Hv. rewrite Q2R_qadd, Q2R_1 in Hin. lra.
Qed.
Lemma zero_not_unbounded (vs : list var) m rows : unbounded_below (mkLP vs (repeat 0%Q m) rows) -> False.
Proof.
  intros Hu. destruct (Hu 0) as [x [_ [_ Hv]]]. simpl in Hv. rewrite dot_repeat0 in Hv. lra.
Qed.

(* ------------------------------------------------------------------ *)
(** * reduce_loop *)
Section Reduce.
Variable O : oracle.
Hypothesis HO : lp_spec 0 O.
Variable n : nat.
Variable vs : list var.   (* column names: irrelevant to lp_spec *)

Lemma reduce_loop_subseq kept rest ctx red :
  reduce_loop O vs kept rest ctx = inl red -> exists sub, subseq sub rest /\ red = kept ++ sub.
Proof.
  revert kept. induction rest as [|[a b] rest IH]; intros kept H; simpl in H.
  - inversion H; subst. exists []. split; [constructor|rewrite app_nil_r; reflexivity].
  - destruct (O _) as [f s| | |st|]; try discriminate.
    + destruct (qle (qneg f) b).
      * destruct (IH _ H) as [sub [Hs ->]]. exists sub. split; [constructor; exact Hs|reflexivity].
      * destruct (IH _ H) as [sub [Hs ->]]. exists ((a, b) :: sub).
        split; [constructor; exact Hs|rewrite <- app_assoc; reflexivity].
    + destruct (IH _ H) as [sub [Hs ->]]. exists sub. split; [constructor; exact Hs|reflexivity].
    + destruct (IH _ H) as [sub [Hs ->]]. exists ((a, b) :: sub).
      split; [constructor; exact Hs|rewrite <- app_assoc; reflexivity].
Qed.

(* a row that is dropped is implied by the others *)
Lemma dropped_row_implied kept a b rest ctx :
  List.length a = n ->
  (match O (mkLP vs (map qneg a) (kept ++ (a, qadd b 1) :: rest ++ ctx)) with
   | LpUnbounded => True
   | LpOpt f _ => qle (qneg f) b = true
   | _ => False end) ->
  forall x, List.length x = n -> feas (kept ++ rest ++ ctx) x -> dot a x <= Q2R b.
Proof.
  intros La Hans. pose proof (HO (mkLP vs (map qneg a) (kept ++ (a, qadd b 1) :: rest ++ ctx))) as Hs.
  destruct (O _) as [f s| | |st|]; try contradiction.
  - destruct Hs as [[x0 [P0 [F0 V0]]] Hall]. unfold point_of, dim in *. simpl in *.
    rewrite map_length in *. apply qle_true in Hans. rewrite Q2R_qneg in Hans.
    rewrite Q2R_0 in *.
    apply feas_app in F0. destruct F0 as [Fk F0]. apply feas_cons in F0. simpl in F0.
    destruct F0 as [A0 Fr]. rewrite Q2R_qadd, Q2R_1 in A0.
    apply (relax_lemma n (kept ++ rest ++ ctx) a (Q2R b) x0).
    + congruence.
    + apply feas_app. tauto.
    + exact A0.
    + intros x Lx Fx Ax. assert (Q2R f - 0 <= dot (map qneg a) x).
      { apply Hall; [congruence|]. apply feas_app in Fx. apply feas_app. split; [tauto|].
        apply feas_cons. simpl. rewrite Q2R_qadd, Q2R_1. tauto. }
      rewrite dot_map_qneg in H. lra.
  - exfalso. destruct Hs as [_ Hu]. eapply relaxed_not_unbounded; [exact Hu|].
    apply in_or_app. right. left. reflexivity.
Qed.

Lemma reduce_loop_implies kept rest ctx red :
  wf_rows n rest ->
  reduce_loop O vs kept rest ctx = inl red ->
  forall x, List.length x = n -> feas ctx x -> feas red x -> feas (kept ++ rest) x.
Proof.
  revert kept. induction rest as [|[a b] rest IH]; intros kept Hw H x Lx Fc Fr; simpl in H.
  - inversion H; subst. rewrite app_nil_r. exact Fr.
  - apply wf_rows_cons in Hw. destruct Hw as [La Hw]. simpl in La.
    pose proof (dropped_row_implied kept a b rest ctx La) as Hd.
    assert (Drop : reduce_loop O vs kept rest ctx = inl red ->
                   (forall x, List.length x = n -> feas (kept ++ rest ++ ctx) x -> dot a x <= Q2R b) ->
                   feas (kept ++ (a, b) :: rest) x).
    { intros H' Himp. specialize (IH _ Hw H' x Lx Fc Fr). apply feas_app in IH.
      apply feas_app. split; [tauto|]. apply feas_cons. split; [|tauto]. simpl.
      apply Himp; [exact Lx|]. apply feas_app. split; [tauto|]. apply feas_app. tauto. }
    assert (Keep : reduce_loop O vs (kept ++ [(a, b)]) rest ctx = inl red ->
                   feas (kept ++ (a, b) :: rest) x).
    { intros H'. specialize (IH _ Hw H' x Lx Fc Fr). rewrite <- app_assoc in IH. exact IH. }
    destruct (O _) as [f s| | |st|]; try discriminate.
    + destruct (qle (qneg f) b) eqn:E.
      * apply Drop; [exact H|]. apply Hd. reflexivity.
      * apply Keep. exact H.
    + apply Drop; [exact H|]. apply Hd. exact I.
    + apply Keep. exact H.
Qed.

Lemma reduce_loop_equiv kept rest ctx red :
  wf_rows n rest ->
  reduce_loop O vs kept rest ctx = inl red ->
  forall x, List.length x = n -> feas ctx x -> (feas red x <-> feas (kept ++ rest) x).
Proof.
  intros Hw H x Lx Fc. split.
  - eapply reduce_loop_implies; eassumption.
  - destruct (reduce_loop_subseq _ _ _ _ H) as [sub [Hs ->]]. intros F.
    apply feas_app in F. apply feas_app. split; [tauto|].
    eapply feas_incl; [apply subseq_incl; exact Hs|tauto].
Qed.

Lemma reduce_loop_error kept rest ctx :
  reduce_loop O vs kept rest ctx = inr ValueErr ->
  forall x, List.length x = n -> wf_rows n rest -> ~ feas (kept ++ rest ++ ctx) x.
Proof.
  revert kept. induction rest as [|[a b] rest IH]; intros kept H x Lx Hw F; simpl in H.
  - discriminate.
  - apply wf_rows_cons in Hw. destruct Hw as [La Hw]. simpl in La.
    assert (Frel : feas (kept ++ (a, qadd b 1) :: rest ++ ctx) x).
    { apply feas_app in F. apply feas_app. split; [tauto|]. destruct F as [_ F]. simpl in F.
      apply feas_cons in F. apply feas_cons. simpl in *. rewrite Q2R_qadd, Q2R_1. split; [lra|tauto]. }
    assert (Fdrop : feas (kept ++ rest ++ ctx) x).
    { apply feas_app in F. apply feas_app. split; [tauto|]. destruct F as [_ F]. simpl in F.
      apply feas_cons in F. tauto. }
    assert (Fkeep : feas ((kept ++ [(a, b)]) ++ rest ++ ctx) x).
    { rewrite <- app_assoc. exact F. }
    pose proof (HO (mkLP vs (map qneg a) (kept ++ (a, qadd b 1) :: rest ++ ctx))) as Hs.
    destruct (O _) as [f s| | |st|]; try discriminate.
    + destruct (qle (qneg f) b); eapply IH; eauto.
    + destruct Hs as [Hs|Hs].
      * apply (Hs x); [|exact Frel]. unfold point_of, dim. simpl. rewrite map_length. congruence.
      * eapply relaxed_not_unbounded; [exact Hs|]. apply in_or_app. right. left. reflexivity.
    + eapply IH; eauto.
    + eapply IH; eauto.
Qed.

Lemma reduce_loop_errors_only kept rest ctx e :
  reduce_loop O vs kept rest ctx = inr e -> e = ValueErr \/ e = OracleMiss.
Proof.
  revert kept. induction rest as [|[a b] rest IH]; intros kept H; simpl in H.
  - discriminate.
  - destruct (O _) as [f s| | |st|]; eauto.
    + destruct (qle (qneg f) b); eauto.
    + inversion H. tauto.
    + inversion H. tauto.
Qed.

(* a witness that row r is not implied by [others] (and the context) *)
Definition witness (ctx : list row) (r : row) (others : list row) : Prop :=
  exists x, List.length x = n /\ feas ctx x /\ feas others x /\ ~ dot (fst r) x <= Q2R (snd r).
Lemma witness_incl ctx r o1 o2 : incl o1 o2 -> witness ctx r o2 -> witness ctx r o1.
Proof.
  intros Hi [x [L [Fc [Fo Hv]]]]. exists x. repeat split; try assumption.
  eapply feas_incl; eassumption.
Qed.

Lemma app_tail_split {A} (kept : list A) s pre r post :
  kept ++ [s] = pre ++ r :: post ->
  (post = [] /\ pre = kept /\ r = s) \/ (exists post', post = post' ++ [s] /\ kept = pre ++ r :: post').
Proof.
  intros H. induction post as [|s' post' _] using rev_ind.
  - left. apply app_inj_tail in H. destruct H; subst. auto.
  - right. change (pre ++ r :: post' ++ [s']) with (pre ++ (r :: post') ++ [s']) in H.
    rewrite app_assoc in H. apply app_inj_tail in H. destruct H as [H1 H2]; subst.
    exists post'. split; reflexivity.
Qed.

Hypothesis HT : lp_total O.

Lemma reduce_loop_irredundant kept rest ctx red :
  wf_rows n rest ->
  reduce_loop O vs kept rest ctx = inl red ->
  (forall pre r post, kept = pre ++ r :: post -> witness ctx r (pre ++ post ++ rest)) ->
  forall pre r post, red = pre ++ r :: post -> witness ctx r (pre ++ post).
Proof.
  revert kept. induction rest as [|[a b] rest IH]; intros kept Hw H Hk; simpl in H.
  - inversion H; subst. intros pre r post E. specialize (Hk _ _ _ E).
    rewrite app_nil_r in Hk. exact Hk.
  - apply wf_rows_cons in Hw. destruct Hw as [La Hw]. simpl in La.
    assert (Drop : reduce_loop O vs kept rest ctx = inl red ->
              forall pre r post, red = pre ++ r :: post -> witness ctx r (pre ++ post)).
    { intros H'. apply (IH _ Hw H'). intros pre r post E. specialize (Hk _ _ _ E).
      eapply witness_incl; [|exact Hk]. intros y Hy. rewrite !in_app_iff in *. simpl. tauto. }
    pose proof (HO (mkLP vs (map qneg a) (kept ++ (a, qadd b 1) :: rest ++ ctx))) as Hs.
    pose proof (HT (mkLP vs (map qneg a) (kept ++ (a, qadd b 1) :: rest ++ ctx))) as Ht.
    destruct (O _) as [f s| | |st|]; try discriminate; try contradiction.
    + destruct (qle (qneg f) b) eqn:E; [apply Drop; exact H|].
      apply (IH _ Hw H). intros pre r post Es.
      apply app_tail_split in Es. destruct Es as [[-> [-> ->]]|[post' [-> ->]]].
      * simpl. destruct Hs as [[x [Px [Fx Vx]]] _]. unfold point_of, dim in Px. simpl in *.
        rewrite map_length in Px. apply qle_false in E. rewrite Q2R_qneg in E.
        rewrite dot_map_qneg, Q2R_0 in Vx.
        apply feas_app in Fx. destruct Fx as [Fk Fx]. apply feas_cons in Fx.
        destruct Fx as [_ Fx]. apply feas_app in Fx.
        exists x. split; [congruence|]. split; [tauto|]. split; [apply feas_app; tauto|]. simpl. lra.
      * specialize (Hk pre r post' eq_refl). eapply witness_incl; [|exact Hk].
        intros y Hy. repeat (rewrite in_app_iff in * || simpl in * ). tauto.
    + apply Drop. exact H.
Qed.

End Reduce.

(* ------------------------------------------------------------------ *)
(** * is_polytope_empty *)
Section Empty.
Variable O : oracle.
Hypothesis HO : lp_spec 0 O.
Variable vs : list var.

Lemma is_polytope_empty_true rows :
  is_polytope_empty O vs rows = inl true -> forall x, List.length x = List.length vs -> ~ feas rows x.
Proof.
  unfold is_polytope_empty. destruct rows as [|r rows]; [discriminate|].
  destruct (Nat.eqb (List.length vs) 0); [discriminate|].
  pose proof (HO (mkLP vs (repeat 0%Q (List.length vs)) (r :: rows))) as Hs.
  destruct (O _) as [f s| | |st|]; try discriminate.
  intros _ x Lx. destruct Hs as [Hs|Hs].
  - apply Hs. unfold point_of, dim. simpl. rewrite repeat_length. exact Lx.
  - exfalso. eapply zero_not_unbounded; exact Hs.
Qed.
(* with no column at all (m = 0) the code answers "not empty" without asking the solver *)
Lemma is_polytope_empty_false rows :
  rows = [] \/ vs <> [] ->
  is_polytope_empty O vs rows = inl false -> exists x, List.length x = List.length vs /\ feas rows x.
Proof.
  unfold is_polytope_empty. intros Hne. destruct rows as [|r rows].
  - intros _. exists (repeat 0 (List.length vs)). split; [apply repeat_length|apply feas_nil].
  - destruct Hne as [Hne|Hne]; [discriminate|].
    destruct (Nat.eqb (List.length vs) 0) eqn:E0.
    { apply Nat.eqb_eq in E0. destruct vs; [congruence|discriminate]. }
    pose proof (HO (mkLP vs (repeat 0%Q (List.length vs)) (r :: rows))) as Hs.
    destruct (O _) as [f s| | |st|]; try discriminate; intros _.
    + destruct Hs as [[x [Px [Fx _]]] _]. unfold point_of, dim in Px. simpl in Px.
      rewrite repeat_length in Px. eauto.
    + destruct Hs as [[x [Px Fx]] _]. unfold point_of, dim in Px. simpl in Px.
      rewrite repeat_length in Px. eauto.
Qed.
Lemma is_polytope_empty_total rows : lp_total O -> exists b, is_polytope_empty O vs rows = inl b.
Proof.
  intros HT. unfold is_polytope_empty. destruct rows as [|r rows]; [eexists; reflexivity|].
  destruct (Nat.eqb (List.length vs) 0); [eexists; reflexivity|].
  pose proof (HT (mkLP vs (repeat 0%Q (List.length vs)) (r :: rows))) as Ht.
  destruct (O _) as [f s| | |st|]; try contradiction; eexists; reflexivity.
Qed.
End Empty.

(* ------------------------------------------------------------------ *)
(** * The refinement tolerance *)
Lemma tol_nonneg : 0 <= Q2R REFINEMENT_TOLERANCE.
Proof.
  assert (H : (0 <= REFINEMENT_TOLERANCE)%Q) by (apply Qle_bool_iff; vm_compute; reflexivity).
  apply Qle_Rle in H. rewrite Q2R_0 in H. exact H.
Qed.
Lemma Q2R_tol_bound b :
  Q2R (tol_bound b) = Q2R b + Q2R REFINEMENT_TOLERANCE * (1 + Rabs (Q2R b)).
Proof. unfold tol_bound. rewrite Q2R_qadd, Q2R_qmul, Q2R_qadd, Q2R_qabs, Q2R_1. reflexivity. Qed.
Lemma tol_bound_ge b : Q2R b <= Q2R (tol_bound b).
Proof.
  rewrite Q2R_tol_bound. pose proof tol_nonneg. pose proof (Rabs_pos (Q2R b)). nra.
Qed.

(* feasibility up to the tolerance, and rows whose slack stays below the +1 relaxation *)
Definition feas_tol (rows : list row) (x : list R) : Prop :=
  Forall (fun r => dot (fst r) x <= Q2R (tol_bound (snd r))) rows.
Definition small_rows (rows : list row) : Prop :=
  Forall (fun r => Q2R REFINEMENT_TOLERANCE * (1 + Rabs (Q2R (snd r))) < 1) rows.
Lemma feas_tol_cons r rows x :
  feas_tol (r :: rows) x <-> dot (fst r) x <= Q2R (tol_bound (snd r)) /\ feas_tol rows x.
Proof.
  unfold feas_tol. split.
  - intros H. inversion H; subst. tauto.
  - intros [H1 H2]. constructor; assumption.
Qed.
Lemma small_rows_cons r rows :
  small_rows (r :: rows) <-> Q2R REFINEMENT_TOLERANCE * (1 + Rabs (Q2R (snd r))) < 1 /\ small_rows rows.
Proof.
  unfold small_rows. split.
  - intros H. inversion H; subst. tauto.
  - intros [H1 H2]. constructor; assumption.
Qed.
Lemma feas_feas_tol rows x : feas rows x -> feas_tol rows x.
Proof.
  unfold feas, feas_tol. rewrite !Forall_forall. intros H r Hr. specialize (H r Hr).
  pose proof (tol_bound_ge (snd r)). lra.
Qed.

(* ------------------------------------------------------------------ *)
(** * containment_loop *)
Section Containment.
Variable O : oracle.
Hypothesis HO : lp_spec 0 O.
Variable vs : list var.
Hypothesis Hvs : vs <> [].
Let n := List.length vs.

Lemma containment_loop_true a_l a_r :
  wf_rows n a_r -> small_rows a_r -> (exists x0, List.length x0 = n /\ feas a_l x0) ->
  containment_loop O vs a_l a_r = inl true ->
  forall x, List.length x = n -> feas a_l x -> feas_tol a_r x.
Proof.
  intros Hw Hsm Hne. induction a_r as [|[a b] rest IH]; intros H x Lx Fx; simpl in H.
  - constructor.
  - apply wf_rows_cons in Hw. destruct Hw as [La Hw]. simpl in La.
    apply small_rows_cons in Hsm. destruct Hsm as [Sb Hsm]. simpl in Sb.
    pose proof (HO (mkLP vs (map qneg a) (a_l ++ [(a, qadd b 1)]))) as Hs.
    destruct (O _) as [f s| | |st|]; try discriminate.
    destruct (qle (qneg f) (tol_bound b)) eqn:E; [|discriminate].
    apply feas_tol_cons. split; [|apply IH; assumption]. simpl.
    destruct Hs as [[x0 [P0 [F0 V0]]] Hall]. unfold point_of, dim in *. simpl in *.
    rewrite map_length in *. apply qle_true in E. rewrite Q2R_qneg in E. rewrite Q2R_0 in *.
    apply feas_app in F0. destruct F0 as [Fl F0]. apply feas_cons in F0. simpl in F0.
    destruct F0 as [A0 _]. rewrite Q2R_qadd, Q2R_1 in A0.
    apply (relax_lemma_gen n a_l a (Q2R (tol_bound b)) (Q2R b + 1) x0); try assumption; try congruence.
    + rewrite Q2R_tol_bound. lra.
    + intros y Ly Fy Ay. assert (Q2R f - 0 <= dot (map qneg a) y).
      { apply Hall; [congruence|]. apply feas_app. split; [exact Fy|].
        apply feas_cons. simpl. rewrite Q2R_qadd, Q2R_1. split; [exact Ay|apply feas_nil]. }
      rewrite dot_map_qneg in H0. lra.
Qed.

(* answer False: some point of a_l violates a_r — exactly, and (for small rows) beyond the tolerance *)
Lemma containment_loop_false a_l a_r :
  wf_rows n a_r -> (exists x0, List.length x0 = n /\ feas a_l x0) ->
  containment_loop O vs a_l a_r = inl false ->
  exists x, List.length x = n /\ feas a_l x /\ ~ feas a_r x /\ (small_rows a_r -> ~ feas_tol a_r x).
Proof.
  intros Hw Hne. induction a_r as [|[a b] rest IH]; intros H; simpl in H.
  - discriminate.
  - apply wf_rows_cons in Hw. destruct Hw as [La Hw]. simpl in La.
    assert (Rec : containment_loop O vs a_l rest = inl false ->
                  exists x, List.length x = n /\ feas a_l x /\ ~ feas ((a, b) :: rest) x /\
                            (small_rows ((a, b) :: rest) -> ~ feas_tol ((a, b) :: rest) x)).
    { intros H'. destruct (IH Hw H') as [x [Lx [Fx [Nx Tx]]]]. exists x. split; [exact Lx|].
      split; [exact Fx|]. split.
      - intros F. apply feas_cons in F. tauto.
      - intros Sm F. apply small_rows_cons in Sm. apply feas_tol_cons in F. tauto. }
    pose proof (HO (mkLP vs (map qneg a) (a_l ++ [(a, qadd b 1)]))) as Hs.
    pose proof (tol_bound_ge b) as Hge.
    destruct (O _) as [f s| | |st|]; try discriminate.
    + destruct (qle (qneg f) (tol_bound b)) eqn:E; [apply Rec; exact H|].
      destruct Hs as [[x [Px [Fx Vx]]] _]. unfold point_of, dim in Px. simpl in *.
      rewrite map_length in Px. apply qle_false in E. rewrite Q2R_qneg in E.
      rewrite dot_map_qneg, Q2R_0 in Vx. apply feas_app in Fx.
      exists x. split; [congruence|]. split; [tauto|]. split.
      * intros F. apply feas_cons in F. simpl in F. lra.
      * intros _ F. apply feas_tol_cons in F. simpl in F. lra.
    + destruct Hne as [x0 [L0 F0]]. exists x0. split; [exact L0|]. split; [exact F0|].
      assert (Hgt : Q2R b + 1 < dot a x0).
      { destruct (Rlt_dec (Q2R b + 1) (dot a x0)) as [Hl|Hl]; [exact Hl|]. exfalso.
        destruct Hs as [Hs|Hs].
        * apply (Hs x0).
          -- unfold point_of, dim. simpl. rewrite map_length. congruence.
          -- simpl. apply feas_app. split; [exact F0|]. apply feas_cons. simpl.
             rewrite Q2R_qadd, Q2R_1. split; [lra|apply feas_nil].
        * eapply relaxed_not_unbounded; [exact Hs|]. apply in_or_app. right. left. reflexivity. }
      split.
      * intros F. apply feas_cons in F. simpl in F. lra.
      * intros Sm F. apply small_rows_cons in Sm. apply feas_tol_cons in F. simpl in *.
        rewrite Q2R_tol_bound in F. lra.
Qed.

Lemma containment_loop_total a_l a_r :
  lp_total O -> exists b, containment_loop O vs a_l a_r = inl b.
Proof.
  intros HT. induction a_r as [|[a b] rest IH]; simpl; [eexists; reflexivity|].
  pose proof (HO (mkLP vs (map qneg a) (a_l ++ [(a, qadd b 1)]))) as Hs.
  pose proof (HT (mkLP vs (map qneg a) (a_l ++ [(a, qadd b 1)]))) as Ht.
  destruct (O _) as [f s| | |st|]; try contradiction.
  - destruct (qle (qneg f) (tol_bound b)); [exact IH|eexists; reflexivity].
  - eexists; reflexivity.
  - exfalso. destruct Hs as [_ Hs]. eapply relaxed_not_unbounded; [exact Hs|].
    apply in_or_app. right. left. reflexivity.
Qed.

(* verify_polytope_containment *)
Lemma vpc_true a_l a_r :
  wf_rows n a_r -> small_rows a_r ->
  verify_polytope_containment O vs a_l a_r = inl true ->
  forall x, List.length x = n -> feas a_l x -> feas_tol a_r x.
Proof.
  intros Hw Hsm H x Lx Fx. unfold verify_polytope_containment in H.
  destruct (is_polytope_empty O vs a_l) as [[|]|e] eqn:El; simpl in H; try discriminate.
  - exfalso. eapply is_polytope_empty_true; eauto.
  - apply (is_polytope_empty_false O HO vs _ (or_intror Hvs)) in El.
    destruct (is_polytope_empty O vs a_r) as [[|]|e] eqn:Er; simpl in H; try discriminate.
    eapply containment_loop_true; eauto.
Qed.
(* the emptiness pre-check of a_r is exact: when a_r has no point the answer is False although
   a_r relaxed by the tolerance may well contain a_l; hence the feasibility premise *)
Lemma vpc_false a_l a_r :
  wf_rows n a_r ->
  verify_polytope_containment O vs a_l a_r = inl false ->
  exists x, List.length x = n /\ feas a_l x /\ ~ feas a_r x /\
            (small_rows a_r -> (exists y, List.length y = n /\ feas a_r y) -> ~ feas_tol a_r x).
Proof.
  intros Hw H. unfold verify_polytope_containment in H.
  destruct (is_polytope_empty O vs a_l) as [[|]|e] eqn:El; simpl in H; try discriminate.
  apply (is_polytope_empty_false O HO vs _ (or_intror Hvs)) in El.
  destruct (is_polytope_empty O vs a_r) as [[|]|e] eqn:Er; simpl in H; try discriminate.
  - destruct El as [x0 [L0 F0]]. exists x0. split; [exact L0|]. split; [exact F0|].
    pose proof (is_polytope_empty_true O HO vs _ Er) as Hemp. split.
    + apply Hemp. exact L0.
    + intros _ [y [Ly Fy]]. exfalso. apply (Hemp y Ly Fy).
  - destruct (containment_loop_false a_l a_r Hw El H) as [x [Lx [Fx [Nx Tx]]]].
    exists x. split; [exact Lx|]. split; [exact Fx|]. split; [exact Nx|]. intros Sm _. apply Tx. exact Sm.
Qed.
Lemma vpc_total a_l a_r : lp_total O -> exists b, verify_polytope_containment O vs a_l a_r = inl b.
Proof.
  intros HT. unfold verify_polytope_containment.
  destruct (is_polytope_empty_total O vs a_l HT) as [[|] ->]; simpl; [eexists; reflexivity|].
  destruct (is_polytope_empty_total O vs a_r HT) as [[|] ->]; simpl; [eexists; reflexivity|].
  apply containment_loop_total. exact HT.
Qed.
Lemma vpc_infeasible_right a_l a_r :
  lp_total O -> (exists x, List.length x = n /\ feas a_l x) ->
  (forall y, List.length y = n -> ~ feas a_r y) ->
  verify_polytope_containment O vs a_l a_r = inl false.
Proof.
  intros HT [x [Lx Fx]] Hinf. unfold verify_polytope_containment.
  destruct (is_polytope_empty_total O vs a_l HT) as [[|] El]; rewrite El; simpl.
  - exfalso. apply (is_polytope_empty_true O HO vs _ El x Lx Fx).
  - destruct (is_polytope_empty_total O vs a_r HT) as [[|] Er]; rewrite Er; simpl; [reflexivity|].
    exfalso. apply (is_polytope_empty_false O HO vs _ (or_intror Hvs)) in Er. destruct Er as [y [Ly Fy]]. apply (Hinf y Ly Fy).
Qed.
End Containment.

(* ------------------------------------------------------------------ *)
(** * reduce_polytope (the loop plus the n = 1 / empty-context shortcut) *)
Section ReducePolytope.
Variable O : oracle.
Hypothesis HO : lp_spec 0 O.
Variable n : nat.
Variable vs : list var.

Lemma reduce_polytope_cases rows ctx :
  reduce_polytope O vs rows ctx = reduce_loop O vs [] rows ctx \/
  (exists r, rows = [r] /\ ctx = [] /\ reduce_polytope O vs rows ctx = inl [r]).
Proof.
  unfold reduce_polytope. destruct rows as [|r [|r' rows]]; auto.
  destruct ctx; auto. right. eauto.
Qed.

Lemma reduce_polytope_subseq rows ctx red :
  reduce_polytope O vs rows ctx = inl red -> subseq red rows.
Proof.
  destruct (reduce_polytope_cases rows ctx) as [->|[r [-> [-> ->]]]]; intros H.
  - destruct (reduce_loop_subseq O vs _ _ _ _ H) as [sub [Hs ->]]. exact Hs.
  - inversion H; subst. apply subseq_refl.
Qed.

Lemma reduce_polytope_equiv rows ctx red :
  wf_rows n rows -> reduce_polytope O vs rows ctx = inl red ->
  forall x, List.length x = n -> feas ctx x -> (feas red x <-> feas rows x).
Proof.
  intros Hw. destruct (reduce_polytope_cases rows ctx) as [->|[r [-> [-> ->]]]]; intros H.
  - apply (reduce_loop_equiv O HO n vs [] rows ctx red Hw H).
  - inversion H; subst. tauto.
Qed.

Lemma reduce_polytope_error rows ctx :
  wf_rows n rows -> reduce_polytope O vs rows ctx = inr ValueErr ->
  forall x, List.length x = n -> ~ feas (rows ++ ctx) x.
Proof.
  intros Hw. destruct (reduce_polytope_cases rows ctx) as [->|[r [-> [-> ->]]]]; intros H.
  - intros x Lx. apply (reduce_loop_error O HO n vs [] rows ctx H x Lx Hw).
  - discriminate.
Qed.

Lemma reduce_polytope_errors_only rows ctx e :
  reduce_polytope O vs rows ctx = inr e -> e = ValueErr \/ e = OracleMiss.
Proof.
  destruct (reduce_polytope_cases rows ctx) as [->|[r [-> [-> ->]]]]; intros H.
  - eapply reduce_loop_errors_only; eauto.
  - discriminate.
Qed.

Lemma reduce_polytope_irredundant rows ctx red :
  lp_total O -> wf_rows n rows -> reduce_polytope O vs rows ctx = inl red ->
  (forall r, rows = [r] -> ctx = [] -> witness n [] r []) ->
  forall pre r post, red = pre ++ r :: post -> witness n ctx r (pre ++ post).
Proof.
  intros HT Hw. destruct (reduce_polytope_cases rows ctx) as [->|[r0 [-> [-> ->]]]]; intros H Hshort.
  - apply (reduce_loop_irredundant O HO n vs HT [] rows ctx red Hw H).
    intros pre r post E. destruct pre; discriminate.
  - inversion H; subst. intros pre r post E.
    destruct pre as [|p pre].
    + simpl in E. inversion E; subst. simpl. apply Hshort; reflexivity.
    + inversion E. destruct pre; discriminate.
Qed.
End ReducePolytope.
