(* PolyGenReduce.v — T1 tie of PolyhedralTermList.reduce_polytope (the while loop with np.delete and the +1 / -1
   perturbation around the LP) and simplify  (see PolyGenFacts.v). *)
From Coq Require Import List String Bool Arith QArith ZArith Lia.
Import ListNotations.
Require Import Py ListsGen ConstGen Sem PyDict PyLoop PyTermList PyNumpy Term Poly TermGen ListsFacts TermFacts
  TermGenFacts TermListGen TermListGenBase TermListGenEval PolyFacts PolyGen PolyGenBase PolyGenPolytope.
Open Scope py_scope.
Local Open Scope nat_scope.

(* ------------------------------------------------------------------ *)
(** * The while loop is reduce_loop *)
Section While.
Context (O : oracle) (vs : list var) (ctx : list row) (P : row -> Prop).
Context {St : Type} (cond : St -> bool) (body : St -> M (ctl St)) (st : list row -> list row -> St).
Hypothesis Hc0 : forall kept, cond (st kept []) = false.
Hypothesis Hc1 : forall kept r rest, cond (st kept (r :: rest)) = true.
Hypothesis Hstep : forall (kept : list row) (r : row) (rest : list row), Forall P (kept ++ r :: rest) ->
  body (st kept (r :: rest)) =
  match O (mkLP vs (map qneg (fst r)) (kept ++ (fst r, qadd (snd r) 1) :: rest ++ ctx)) with
  | LpUnbounded => ret (Continue (st kept rest))
  | LpOpt f _ => if qle (qneg f) (snd r) then ret (Continue (st kept rest)) else ret (Continue (st (kept ++ [r]) rest))
  | LpInfeasible => raise ValueErr
  | LpOther _ => ret (Continue (st (kept ++ [r]) rest))
  | LpMiss => raise OracleMiss
  end.
(* the fuel is never exhausted: |rest| iterations suffice *)
Lemma while_reduce : forall rest kept fuel, Forall P (kept ++ rest) -> List.length rest <= fuel ->
  while_m fuel (st kept rest) cond body = mmap (fun red => st red []) (reduce_loop O vs kept rest ctx).
Proof.
  induction rest as [|r rest IH]; intros kept fuel HP Hf.
  - destruct fuel; cbn [while_m]; rewrite Hc0; reflexivity.
  - destruct fuel as [|k]; [cbn in Hf; lia|]. cbn [while_m]. rewrite Hc1, (Hstep _ _ _ HP).
    destruct r as [a b]. cbn [reduce_loop fst snd].
    assert (HP1 : Forall P (kept ++ rest)).
    { rewrite Forall_app in *. destruct HP as [H1 H2]. split; [exact H1|exact (Forall_inv_tail H2)]. }
    assert (HP2 : Forall P ((kept ++ [(a, b)]) ++ rest)) by (rewrite <- app_assoc; exact HP).
    assert (Hk : List.length rest <= k) by (cbn in Hf; lia).
    destruct (O _) as [f sl| | |z|]; cbn [bind raise]; try reflexivity.
    + destruct (qle (qneg f) b); rewrite bind_ret_l; apply IH; assumption.
    + rewrite bind_ret_l. apply IH; assumption.
    + rewrite bind_ret_l. apply IH; assumption.
Qed.
End While.

Definition row_ok (m : nat) (r : row) : Prop := List.length (fst r) = m /\ qcanon (snd r).

Ltac step_removed :=
  rewrite np_delete_axis0_at, bind_ret_l, np_delete_flat_at, bind_ret_l; cbn [List.length];
  rewrite py_nat_sub_S, !bind_ret_l; reflexivity.
(* the state of the loop: n, i, a_temp, b_temp *)
Definition loop_st (m : nat) (kept rest : list row) : nat * nat * ndarray * ndarray :=
  (List.length kept + List.length rest, List.length kept, A2 m (map fst (kept ++ rest)), A1 (map snd (kept ++ rest))).

Lemma loop_st_kept m kept a b rest v :
  (List.length kept + List.length ((a, b) :: rest), List.length kept + 1,
   A2 m (map fst (kept ++ (a, v) :: rest)), A1 (map snd (kept ++ (a, b) :: rest)))
  = loop_st m (kept ++ [(a, b)]) rest.
Proof.
  unfold loop_st. rewrite <- !app_assoc. cbn [app]. rewrite app_length. cbn [List.length].
  replace (map fst (kept ++ (a, v) :: rest)) with (map fst (kept ++ (a, b) :: rest)) by (rewrite !map_app; reflexivity).
  unfold row. replace (List.length kept + S (List.length rest)) with (List.length kept + 1 + List.length rest) by lia. reflexivity.
Qed.
Ltac step_kept := rewrite ?bind_ret_l; do 2 f_equal; apply loop_st_kept.

Lemma rows_ok_len m (l : list row) : Forall (row_ok m) l -> rows_len m (map fst l).
Proof.
  intros H. unfold rows_len. apply Forall_forall. intros x Hx. apply in_map_iff in Hx. destruct Hx as [r [<- Hr]].
  rewrite Forall_forall in H. apply (H r Hr).
Qed.

(* one iteration of the generated loop body is one step of reduce_loop; [ctx] is the context ([] when there is none:
   then a_opt, b_opt are a_temp, b_temp themselves, otherwise the concatenations) *)
Ltac reduce_step O vs m ctx body Hm :=
  let kept := fresh "kept" in let a := fresh "a" in let b := fresh "b" in let rest := fresh "rest" in
  let HP := fresh "HP" in let Hab := fresh "Hab" in let Hla := fresh "Hla" in let Hcb := fresh "Hcb" in
  intros kept [a b] rest HP; cbn [fst snd];
  assert (Hab : row_ok m (a, b)) by (rewrite Forall_app in HP; destruct HP as [_ HP]; exact (Forall_inv HP));
  destruct Hab as [Hla Hcb]; cbn [fst snd] in Hla, Hcb;
  unfold body; unfold loop_st at 1; cbv beta iota;
  rewrite np_row_at, bind_ret_l, np_item_at, bind_ret_l, np_setitem_at, !bind_ret_l; cbv beta iota; cbn [fst snd];
  rewrite <- (map_fst_upd kept (a, b) rest (qadd b 1)); cbn [fst];
  cbn [np_concatenate]; rewrite ?Nat.eqb_refl, ?bind_ret_l; cbv beta iota; rewrite <- ?map_app;
  cbn [np_linprog poly_lp]; unfold np_scale, np_map; rewrite map_qmul_m1;
  rewrite (oracle_linprog_rows O vs m (map qneg a));
  [|destruct a; [cbn in Hla; lia|discriminate]|rewrite map_length; exact Hla];
  rewrite <- ?app_assoc; cbn [app]; rewrite ?app_nil_r;
  destruct (O _) as [?f ?sl| | |?z|]; cbn [lp_result_of]; [| | | |reflexivity]; rewrite bind_ret_l;
    rewrite np_item_at, bind_ret_l; cbn [fst snd]; rewrite np_setitem_at, bind_ret_l; cbn [fst];
    rewrite (qsub_qadd_1 b Hcb); cbn [res_status res_fun Nat.eqb py_num]; rewrite ?bind_ret_l;
  [rewrite np_item_at, bind_ret_l; cbn [snd];
   match goal with |- context [qle (qneg ?f) b] => destruct (qle (qneg f) b) end; [step_removed|step_kept]
  |reflexivity|step_removed|step_kept].

Lemma reduce_loop_mmap O vs m rows ctx cond body :
  (forall kept, cond (loop_st m kept []) = false) ->
  (forall kept r rest, cond (loop_st m kept (r :: rest)) = true) ->
  (forall (kept : list row) (r : row) (rest : list row), Forall (row_ok m) (kept ++ r :: rest) ->
    body (loop_st m kept (r :: rest)) =
    match O (mkLP vs (map qneg (fst r)) (kept ++ (fst r, qadd (snd r) 1) :: rest ++ ctx)) with
    | LpUnbounded => ret (Continue (loop_st m kept rest))
    | LpOpt f _ => if qle (qneg f) (snd r) then ret (Continue (loop_st m kept rest))
                   else ret (Continue (loop_st m (kept ++ [r]) rest))
    | LpInfeasible => raise ValueErr
    | LpOther _ => ret (Continue (loop_st m (kept ++ [r]) rest))
    | LpMiss => raise OracleMiss
    end) ->
  Forall (row_ok m) rows ->
  bind (while_m (List.length rows) (List.length rows, 0, np_copy (A2 m (map fst rows)), np_copy (A1 (map snd rows))) cond body)
       (fun '(_, _, a_temp, b_temp) => ret (a_temp, b_temp))
  = mmap (fun red => (A2 m (map fst red), A1 (map snd red))) (reduce_loop O vs [] rows ctx).
Proof.
  intros Hc0 Hc1 Hstep Hrows.
  change (List.length rows, 0, np_copy (A2 m (map fst rows)), np_copy (A1 (map snd rows))) with (loop_st m [] rows).
  rewrite (while_reduce O vs ctx (row_ok m) cond body (loop_st m) Hc0 Hc1 Hstep rows [] (List.length rows) Hrows (le_n _)).
  destruct (reduce_loop O vs [] rows ctx) as [red|e]; [|reflexivity]. cbn [mmap bind]. unfold loop_st.
  rewrite app_nil_r. reflexivity.
Qed.
Lemma cond_nil m kept : (fun '(n, i, _, _) => i <? n) (loop_st m kept []) = false.
Proof. unfold loop_st. cbn [List.length]. apply Nat.ltb_ge. lia. Qed.
Lemma cond_cons m kept (r : row) rest : (fun '(n, i, _, _) => i <? n) (loop_st m kept (r :: rest)) = true.
Proof. unfold loop_st. cbn [List.length]. apply Nat.ltb_lt. lia. Qed.

(** reduce_polytope, called as simplify calls it, over at least one variable.  [row_ok]: every row has one coefficient
    per variable, and the bounds are rationals in lowest terms (the loop returns (b + 1) - 1 for a kept bound b). *)
Definition reduced (m : nat) (rows red : list row) : ndarray * ndarray :=
  (match rows with [] => A1 [] | _ => A2 m (map fst red) end, A1 (map snd red)).
Theorem reduce_polytope_eq O vs rows ctx :
  vs <> [] -> Forall (row_ok (List.length vs)) rows ->
  @PolyhedralTermList_reduce_polytope (poly_lp O) vs (mat_of (List.length vs) (map fst rows)) (A1 (map snd rows))
     (Some (ctx_mat_of (List.length vs) (map fst ctx))) (Some (A1 (map snd ctx)))
  = mmap (reduced (List.length vs) rows) (reduce_polytope O vs rows ctx).
Proof.
  intros Hvs Hrows. unfold PolyhedralTermList_reduce_polytope. cbv beta iota zeta.
  rewrite !bind_ret_l.
  set (m := List.length vs) in *.
  assert (Hm : 0 < m) by (destruct vs; [congruence|cbn; lia]).
  destruct ctx as [|c0 ctx0].
  - (* no context: a_help = np.array([[]]), shape (1, 0); helper_present is False *)
    destruct rows as [|r0 rows0]; [reflexivity|].
    set (rows := r0 :: rows0) in *.
    change (mat_of m (map fst rows)) with (A2 m (map fst rows)).
    cbn [map np_shape ctx_mat_of len List.length py_unpack2 np_len].
    change (1 <? 2) with true. cbv beta iota. rewrite !bind_ret_l. cbv beta iota.
    rewrite !map_length, Nat.eqb_refl.
    change (0 <? 1 * 0) with false. change (0 <? 0) with false. cbv beta iota. cbn [andb negb]. rewrite !bind_ret_l.
    replace (List.length rows =? 0) with false by reflexivity.
    destruct rows0 as [|r1 rows1]; [reflexivity|].
    replace (List.length rows =? 1) with false by reflexivity. cbn [andb].
    match goal with |- context [while_m _ _ ?c ?b] => set (body := b) end.
    pose proof (reduce_loop_mmap O vs m rows [] _ body (cond_nil m) (cond_cons m)) as HL.
    unfold row in *. rewrite HL; [reflexivity| |exact Hrows]. clear HL. fold row in *.
    reduce_step O vs m (@nil row) body Hm.
  - (* a context over the same variables: helper_present is True *)
    set (ctx := c0 :: ctx0) in *.
    change (ctx_mat_of m (map fst ctx)) with (A2 m (map fst ctx)).
    assert (Hhp : 0 <? List.length (map fst ctx) * m = true).
    { apply Nat.ltb_lt, Nat.mul_pos_pos; [unfold ctx; cbn [List.length map]; lia|exact Hm]. }
    destruct rows as [|r0 rows0].
    + cbn [map mat_of np_shape len List.length py_unpack2 np_len].
      change (1 <? 1) with false. cbv beta iota. cbn [list_get_m]. rewrite !bind_ret_l. cbv beta iota.
      unfold len. rewrite Hhp, !map_length, !Nat.eqb_refl. reflexivity.
    + set (rows := r0 :: rows0) in *.
      change (mat_of m (map fst rows)) with (A2 m (map fst rows)).
      cbn [np_shape len List.length py_unpack2 np_len].
      change (1 <? 2) with true. cbv beta iota. rewrite !bind_ret_l. cbv beta iota.
      unfold len. rewrite Hhp, !map_length, !Nat.eqb_refl. rewrite bind_ret_l.
      replace (0 <? m) with true by (symmetry; apply Nat.ltb_lt; exact Hm). cbn [andb negb]. rewrite bind_ret_l.
      replace (List.length rows =? 0) with false by reflexivity. rewrite andb_false_r.
      match goal with |- context [while_m _ _ ?c ?b] => set (body := b) end.
      replace (reduce_polytope O vs rows ctx) with (reduce_loop O vs [] rows ctx)
        by (unfold rows, ctx; destruct rows0; reflexivity).
      pose proof (reduce_loop_mmap O vs m rows ctx _ body (cond_nil m) (cond_cons m)) as HL.
      unfold row in *. rewrite HL; [reflexivity| |exact Hrows]. clear HL. fold row in *.
      reduce_step O vs m ctx body Hm.
Qed.

(* ------------------------------------------------------------------ *)
(** * simplify *)
Lemma reduce_loop_err O vs : forall rest kept ctx e, reduce_loop O vs kept rest ctx = inr e -> e = ValueErr \/ e = OracleMiss.
Proof.
  induction rest as [|[a b] rest IH]; intros kept ctx e; cbn [reduce_loop]; [discriminate|].
  destruct (O _) as [f sl| | |z|]; try (apply IH); try (destruct (qle (qneg f) b); apply IH).
  - intros E. left. inversion E. reflexivity.
  - intros E. right. inversion E. reflexivity.
Qed.
Lemma reduce_polytope_err O vs rows ctx e : reduce_polytope O vs rows ctx = inr e -> e = ValueErr \/ e = OracleMiss.
Proof.
  unfold reduce_polytope. destruct rows as [|r [|r' rows']]; [discriminate| |apply reduce_loop_err].
  destruct ctx; [discriminate|apply reduce_loop_err].
Qed.
Lemma reduce_loop_Forall (Pr : row -> Prop) O vs : forall rest kept ctx red,
  Forall Pr kept -> Forall Pr rest -> reduce_loop O vs kept rest ctx = inl red -> Forall Pr red.
Proof.
  induction rest as [|[a b] rest IH]; intros kept ctx red Hk Hr; cbn [reduce_loop].
  - intros E. inversion E. subst. exact Hk.
  - pose proof (Forall_inv Hr) as Hab. pose proof (Forall_inv_tail Hr) as Hr'.
    assert (Hk' : Forall Pr (kept ++ [(a, b)])) by (apply Forall_app; split; [exact Hk|constructor; [exact Hab|constructor]]).
    destruct (O _) as [f sl| | |z|]; try discriminate; try (apply IH; assumption).
    destruct (qle (qneg f) b); apply IH; assumption.
Qed.
Lemma reduce_polytope_Forall (Pr : row -> Prop) O vs rows ctx red :
  Forall Pr rows -> reduce_polytope O vs rows ctx = inl red -> Forall Pr red.
Proof.
  intros Hr. unfold reduce_polytope. destruct rows as [|r [|r' rows']].
  - intros E. inversion E. constructor.
  - destruct ctx; [intros E; inversion E; subst; exact Hr|apply reduce_loop_Forall; [constructor|exact Hr]].
  - apply reduce_loop_Forall; [constructor|exact Hr].
Qed.
Lemma try_except_value {A} (m : M A) :
  (forall e, m = inr e -> e = ValueErr \/ e = OracleMiss) -> try_except m (raise ValueErr) = m.
Proof.
  intros H. destruct m as [a|e]; [reflexivity|]. destruct (H e eq_refl) as [-> | ->]; reflexivity.
Qed.
(** the degenerate shapes: NO variable at all (m = 0).  Context rows are constant inequalities 0 <= c (a false one:
    ValueError; the others are dropped); one row is returned as it is; with two or more rows linprog rejects the
    empty objective *)
Lemma np_any_lt_consts (cx : list pterm) :
  np_any (np_lt (A1 (map tconst cx)) (0 # 1)) = existsb (fun t => qlt (tconst t) 0) cx.
Proof.
  unfold np_any, np_lt, np_map, np_flat. induction cx as [|c r IH]; [reflexivity|]. cbn [map existsb]. rewrite IH. reflexivity.
Qed.
Lemma while_m_raise {A} k (acc : A) cond body e :
  cond acc = true -> body acc = inr e -> while_m (Datatypes.S k) acc cond body = inr e.
Proof. intros Hc Hb. cbn [while_m]. rewrite Hc, Hb. reflexivity. Qed.
Lemma reduce_polytope_novars : forall O (ns cx : list pterm),
  @PolyhedralTermList_reduce_polytope (poly_lp O) [] (mat_of 0 (map (fun _ => []) ns)) (A1 (map tconst ns))
    (Some (ctx_mat_of 0 (map (fun _ => []) cx))) (Some (A1 (map tconst cx)))
  = if existsb (fun t => qlt (tconst t) 0) cx then raise ValueErr else
    match ns with
    | [] => ret (A1 [], A1 [])
    | [t] => ret (A2 0 [[]], A1 [tconst t])
    | _ => raise ValueErr
    end.
Proof.
  intros O ns cx. unfold PolyhedralTermList_reduce_polytope. cbv beta iota zeta. rewrite !bind_ret_l.
  assert (Hhp : forall k, (0 <? k * 0) = false) by (intros k; rewrite Nat.mul_0_r; reflexivity).
  assert (Hnh : exists k, py_unpack2 (np_shape (ctx_mat_of 0 (map (fun _ : pterm => @nil Q) cx))) = ret (k, 0)).
  { destruct cx; cbn; eauto. }
  destruct Hnh as [k Hk]. 
  assert (Hb : (if 0 <? len (map tconst cx)
                then if np_any (np_lt (A1 (map tconst cx)) (0 # 1)) then raise ValueErr else ret (np_array_1d [])
                else ret (A1 (map tconst cx)))
               = if existsb (fun t => qlt (tconst t) 0) cx then raise ValueErr else ret (A1 [])).
  { rewrite np_any_lt_consts. destruct cx; reflexivity. }
  destruct ns as [|t [|t' ns']].
  - cbn [map mat_of np_shape len List.length np_len list_get_m]. change (1 <? 1) with false. cbv beta iota.
    rewrite !bind_ret_l, Hk, bind_ret_l. cbv beta iota. rewrite Hhp. cbn [Nat.eqb andb negb].
    rewrite Hb. destruct (existsb _ cx); reflexivity.
  - cbn [map mat_of np_shape len List.length np_len py_unpack2]. change (1 <? 2) with true. cbv beta iota.
    rewrite !bind_ret_l, Hk, bind_ret_l. cbv beta iota. rewrite Hhp. cbn [Nat.eqb andb negb].
    rewrite Hb. destruct (existsb _ cx); reflexivity.
  - cbn [map mat_of np_shape len List.length np_len py_unpack2]. change (1 <? 2) with true. cbv beta iota.
    rewrite !bind_ret_l, Hk, bind_ret_l. cbv beta iota. rewrite Hhp, Hb, !map_length, Nat.eqb_refl. cbn [Nat.eqb andb negb]. destruct (existsb _ cx); [reflexivity|]. rewrite !bind_ret_l.
    match goal with |- context [while_m ?f ?acc ?c ?b] => rewrite (while_m_raise (Datatypes.S (List.length ns')) acc c b ValueErr) end;
      reflexivity.
Qed.

Lemma bind_eta {A} (m : M A) : bind m (fun x => ret x) = m.
Proof. destruct m; reflexivity. Qed.
Lemma bind_eta2 {A B} (m : M (A * B)) : bind m (fun '(x, y) => ret (x, y)) = m.
Proof. destruct m as [[x y]|e]; reflexivity. Qed.
Definition canon_terms (ts : list pterm) : Prop := Forall (fun t => qcanon (tconst t)) ts.

Lemma rows_ok_terms vs ts : canon_terms ts -> Forall (row_ok (List.length vs)) (map (term_to_row vs) ts).
Proof.
  intros Hc. apply Forall_forall. intros r Hr. apply in_map_iff in Hr. destruct Hr as [t [<- Ht]].
  unfold canon_terms in Hc. rewrite Forall_forall in Hc. split; [apply map_length|exact (Hc t Ht)].
Qed.

Theorem simplify_eq O self context :
  Forall wft' self -> Forall wft' (opt_list context) -> canon_terms self ->
  @PolyhedralTermList_simplify (poly_lp O) self context = poly_simplify O self context.
Proof.
  intros Hs Hc Hcan. unfold PolyhedralTermList_simplify, poly_simplify. cbv zeta.
  set (ns := match context with Some c => list_diff self c | None => self end).
  set (cx := opt_list context).
  assert (Hns : Forall wft ns /\ canon_terms ns).
  { assert (Hin : incl ns self) by (unfold ns; destruct context; [apply incl_list_diff|apply incl_refl]).
    unfold canon_terms in *. rewrite !Forall_forall in *. split; intros t Ht.
    - apply (Hs t (Hin t Ht)).
    - apply (Hcan t (Hin t Ht)). }
  destruct Hns as [Hnsw Hnsc].
  assert (Hcx : Forall wft cx) by (apply Forall_wft'_wft; exact Hc).
  match goal with |- bind ?m _ = _ => assert (Hres : m = ret (polytope_of ns cx)) end.
  { unfold ns, cx. destruct context as [c|]; cbn [opt_list] in *.
    - rewrite (sub_eq self c Hs Hc), bind_ret_l, termlist_to_polytope_eq. reflexivity.
    - rewrite termlist_init_eq, termlist_to_polytope_eq. reflexivity. }
  rewrite Hres, bind_ret_l. clear Hres. clearbody ns cx. clear Hs Hc Hcan.
  unfold polytope_of. cbv beta iota zeta.
  set (vs := polytope_vars ns cx).
  assert (Hnd : NoDup vs) by (apply NoDup_polytope_vars; assumption).
  destruct (nil_or_not vs) as [Evs|Hne].
  - rewrite Evs. cbn [List.length term_to_row map fst]. rewrite reduce_polytope_novars.
    destruct (existsb (fun t => qlt (tconst t) 0) cx); [reflexivity|].
    destruct ns as [|t [|t' ns']]; reflexivity.
  - rewrite (match_nonnil vs _ _ Hne).
    rewrite <- (map_fst_rows vs ns), <- (map_fst_rows vs cx), <- (map_snd_rows vs ns), <- (map_snd_rows vs cx).
    pose proof (reduce_polytope_eq O vs (map (term_to_row vs) ns) (map (term_to_row vs) cx) Hne (rows_ok_terms vs ns Hnsc)) as HR.
    unfold row in HR |- *. rewrite HR. clear HR.
    match goal with |- context [mmap _ ?mm] => destruct mm as [red|e] eqn:ER end.
    + cbn [mmap bind try_except try_value_error]. unfold reduced.
      destruct ns as [|t0 ns0].
      * cbn [map] in ER |- *. inversion ER. subst red. reflexivity.
      * assert (Hlen : Forall (fun r : row => List.length (fst r) = List.length vs) red).
        { apply (reduce_polytope_Forall (fun r => List.length (fst r) = List.length vs) O vs _ _ red) in ER; [exact ER|].
          apply Forall_forall. intros r Hr. apply in_map_iff in Hr. destruct Hr as [t [<- _]]. apply map_length. }
        pose proof (polytope_to_termlist_eq vs red Hnd Hlen) as HT. cbn [map].
        unfold row in HT |- *. cbn [try_except try_value_error ret bind]. rewrite HT. reflexivity.
    + destruct (reduce_polytope_err O vs _ _ e ER) as [-> | ->]; reflexivity.
Qed.
