(* AlgebraSound.v — soundness of the algebra layer (gen/AlgebraGen.v, the
   translation of pacti/iocontract/iocontract.py) for *every* constraint Domain
   whose primitives meet their documented contracts (DomainSpec, AlgebraSpec.v)
   on well-formed terms (invariant wf); every operation also keeps the invariant.

   The proofs are written against the generated definitions but never mention
   an auto-generated hypothesis name: the monadic structure is taken apart by
   the tactics [inl_step] / [inr_step], the primitives' contracts are brought in
   by [saturate], and what is left is propositional. *)
From Coq Require Import List String Bool Arith ZArith Lia Setoid.
Import ListNotations.
Require Import Py ListsGen AlgebraGen ListsFacts AlgebraSpec.
Open Scope py_scope.

(* ------------------------------------------------------------------ *)
(* generic facts about the error monad                                 *)
(* ------------------------------------------------------------------ *)
Lemma tve_inl {A} (body handler : M A) x :
  try_value_error body handler = inl x ->
  body = inl x \/ (exists e, body = inr e /\ handler = inl x).
Proof.
  unfold try_value_error. destruct body as [a|e]; intros Hx.
  - left. exact Hx.
  - right. exists e. split; [reflexivity|]. destruct (is_value_error e); [exact Hx|discriminate Hx].
Qed.

Lemma tve_inr {A} (body handler : M A) e :
  try_value_error body handler = inr e -> body = inr e \/ handler = inr e.
Proof.
  unfold try_value_error. destruct body as [a|e']; intros Hx.
  - discriminate Hx.
  - destruct (is_value_error e'); [right; exact Hx|left; exact Hx].
Qed.

(* ------------------------------------------------------------------ *)
(* tactics that take the monadic structure apart                       *)
(* ------------------------------------------------------------------ *)
Ltac destruct_pairs :=
  repeat match goal with x : (_ * _)%type |- _ => destruct x end.

(* one step on a hypothesis of the form  [m = inl _] *)
Ltac inl_step :=
  match goal with
  | Hs : inr _ = inl _ |- _ => discriminate Hs
  | Hs : inl _ = inl _ |- _ => inversion Hs; subst; clear Hs
  | Hs : bind _ _ = inl _ |- _ =>
      let x := fresh "x" in
      let Hx := fresh "Hx" in
      apply bind_inl in Hs; destruct Hs as (x & Hx & Hs);
      destruct_pairs; cbv beta iota in Hs
  | Hs : try_value_error _ _ = inl _ |- _ =>
      let e := fresh "e" in
      let He := fresh "He" in
      apply tve_inl in Hs; destruct Hs as [Hs | (e & He & Hs)]
  | Hs : (if ?c then _ else _) = inl _ |- _ =>
      let E := fresh "E" in destruct c eqn:E
  end.

(* one step on a hypothesis of the form  [m = inr _] *)
Ltac inr_step :=
  match goal with
  | Hs : inl _ = inr _ |- _ => discriminate Hs
  | Hs : inr _ = inr _ |- _ => inversion Hs; subst; clear Hs
  | Hs : bind _ _ = inr _ |- _ =>
      let x := fresh "x" in
      let Hx := fresh "Hx" in
      apply bind_inr in Hs; destruct Hs as [Hs | (x & Hx & Hs)];
      destruct_pairs; cbv beta iota in Hs
  | Hs : try_value_error _ _ = inr _ |- _ =>
      apply tve_inr in Hs; destruct Hs as [Hs | Hs]
  | Hs : (if ?c then _ else _) = inr _ |- _ =>
      let E := fresh "E" in destruct c eqn:E
  end.

(* open a generated definition in a hypothesis *)
Ltac open_in Hs :=
  cbv beta iota zeta in Hs; unfold ret, raise in Hs.

(* ------------------------------------------------------------------ *)
(* the TermList layer is the identity / the list operations            *)
(* ------------------------------------------------------------------ *)
Section TermListFacts.
Context `{D : Domain}.

Lemma TermList_init_Some (l : list term) : TermList_init (Some l) = l.
Proof. unfold TermList_init. destruct l; reflexivity. Qed.

Lemma TermList_init_None : TermList_init None = [].
Proof. reflexivity. Qed.

Lemma TermList_copy_eq (l : list term) : TermList_copy l = l.
Proof. unfold TermList_copy. apply TermList_init_Some. Qed.

Lemma TermList_or_eq (x y : list term) : TermList_or x y = list_union x y.
Proof. unfold TermList_or. rewrite TermList_init_Some, !TermList_copy_eq. reflexivity. Qed.

Lemma TermList_and_eq (x y : list term) : TermList_and x y = list_intersection x y.
Proof. unfold TermList_and. rewrite TermList_init_Some, !TermList_copy_eq. reflexivity. Qed.

Lemma TermList_sub_eq (x y : list term) : TermList_sub x y = list_diff x y.
Proof. unfold TermList_sub. rewrite TermList_init_Some, !TermList_copy_eq. reflexivity. Qed.

Lemma TermList_le_eq (x y : list term) : TermList_le x y = p_refines x y.
Proof. unfold TermList_le. destruct (p_refines x y); reflexivity. Qed.

(* get_terms_with_vars selects a sub-list *)
Lemma twv_incl (l : list term) vs t :
  In t (TermList_get_terms_with_vars l vs) -> In t l.
Proof.
  unfold TermList_get_terms_with_vars. rewrite TermList_init_Some. cbv zeta.
  assert (G : forall acc,
             In t (fold_left (fun terms t0 =>
                     if nonempty (list_intersection (term_vars t0) vs)
                     then (terms ++ [t0])%list else terms) l acc) ->
             In t acc \/ In t l).
  { induction l as [|u r IH]; simpl; intros acc Hin; [left; exact Hin|].
    apply IH in Hin. destruct Hin as [Hin|Hin]; [|right; right; exact Hin].
    destruct (nonempty (list_intersection (term_vars u) vs)); [|left; exact Hin].
    apply in_app_iff in Hin. destruct Hin as [Hin|[->|[]]]; [left; exact Hin|right; left; reflexivity]. }
  intros Hin. apply G in Hin. destruct Hin as [[]|Hin]. exact Hin.
Qed.

(* ... exactly the terms that mention one of the variables *)
Lemma nonempty_inter_iff (l vs : list var) :
  nonempty (list_intersection l vs) = true <-> exists v, In v l /\ In v vs.
Proof.
  split.
  - destruct (list_intersection l vs) as [|x r] eqn:E; [discriminate|]. intros _.
    assert (Hx : In x (list_intersection l vs)) by (rewrite E; left; reflexivity).
    apply in_list_intersection in Hx. exists x. exact Hx.
  - intros (v & Hl & Hvs). apply nonempty_true. intros E.
    assert (Hx : In v (list_intersection l vs)) by (apply in_list_intersection; split; assumption).
    rewrite E in Hx. destruct Hx.
Qed.

Lemma twv_In (l : list term) vs t :
  In t (TermList_get_terms_with_vars l vs) <->
  In t l /\ nonempty (list_intersection (term_vars t) vs) = true.
Proof.
  unfold TermList_get_terms_with_vars. rewrite TermList_init_Some. cbv zeta.
  assert (G : forall acc,
             In t (fold_left (fun terms t0 =>
                     if nonempty (list_intersection (term_vars t0) vs)
                     then (terms ++ [t0])%list else terms) l acc) <->
             In t acc \/ (In t l /\ nonempty (list_intersection (term_vars t) vs) = true)).
  { induction l as [|u r IH]; simpl; intros acc; [tauto|].
    rewrite IH. destruct (nonempty (list_intersection (term_vars u) vs)) eqn:E.
    - rewrite in_app_iff. simpl. split.
      + intros [[Ha|[->|[]]]|[Hr Hc]]; tauto.
      + intros [Ha|[[->|Hr] Hc]]; tauto.
    - split.
      + intros [Ha|[Hr Hc]]; tauto.
      + intros [Ha|[[->|Hr] Hc]]; [tauto|congruence|tauto]. }
  rewrite G. simpl. tauto.
Qed.

Lemma twv_nil (l : list term) : TermList_get_terms_with_vars l [] = [].
Proof.
  destruct (TermList_get_terms_with_vars l []) as [|t r] eqn:E; [reflexivity|].
  assert (Ht : In t (TermList_get_terms_with_vars l [])) by (rewrite E; left; reflexivity).
  apply twv_In in Ht. destruct Ht as [_ Hn]. apply nonempty_inter_iff in Hn.
  destruct Hn as (v & _ & []).
Qed.

Lemma list_diff_nil_r {A} `{PyEq A} (l : list A) : list_diff l [] = l.
Proof. unfold list_diff. induction l as [|x r IH]; [reflexivity|]. simpl. f_equal. exact IH. Qed.

Lemma list_diff_nil_l {A} `{PyEq A} (l : list A) : list_diff [] l = [].
Proof. reflexivity. Qed.

Lemma list_union_nil_nil {A} `{PyEq A} : list_union (@nil A) [] = [].
Proof. reflexivity. Qed.

(* the variables composition eliminates are not in the interface of the result *)
Lemma iface_disjoint (U1 U2 X k : list var) v :
  In v (list_diff U1 X) \/ In v (list_union (list_diff U2 X) k) ->
  In v (list_diff X k) -> False.
Proof. rewrite in_list_union, !in_list_diff. tauto. Qed.

Lemma inter_nil_comm (l1 l2 : list var) : list_intersection l1 l2 = [] -> list_intersection l2 l1 = [].
Proof.
  intros E. destruct (list_intersection l2 l1) as [|x r] eqn:E'; [reflexivity|].
  assert (Hx : In x (list_intersection l2 l1)) by (rewrite E'; left; reflexivity).
  apply in_list_intersection in Hx.
  assert (Hy : In x (list_intersection l1 l2)) by (apply in_list_intersection; tauto).
  rewrite E in Hy. destruct Hy.
Qed.
End TermListFacts.

Ltac tl_simpl :=
  rewrite ?TermList_or_eq, ?TermList_and_eq, ?TermList_sub_eq, ?TermList_copy_eq,
          ?TermList_le_eq, ?TermList_init_Some in *.

(* ------------------------------------------------------------------ *)
(* soundness under DomainSpec                                          *)
(* ------------------------------------------------------------------ *)
Section Sound.
Context `{D : Domain}.
Variable B : Type.
Variable dt : term -> B -> Prop.
Variable wf : term -> Prop.
Variable pv : var -> Prop.
Hypothesis S : DomainSpec B dt wf pv.

(* ---------- the invariant is kept by the list layer ---------- *)
Lemma wfs_nil : wfs wf [].
Proof. constructor. Qed.

Lemma wfs_filter (f : term -> bool) x : wfs wf x -> wfs wf (filter f x).
Proof.
  unfold wfs. rewrite !Forall_forall. intros Hx t Ht. apply filter_In in Ht. apply Hx. tauto.
Qed.

Lemma wfs_union x y : wfs wf x -> wfs wf y -> wfs wf (list_union x y).
Proof. intros Hx Hy. unfold list_union, wfs. apply Forall_app. split; [exact Hx|apply wfs_filter; exact Hy]. Qed.

Lemma wfs_diff x y : wfs wf x -> wfs wf (list_diff x y).
Proof. apply wfs_filter. Qed.

Lemma wfs_inter x y : wfs wf x -> wfs wf (list_intersection x y).
Proof. apply wfs_filter. Qed.

Lemma wfs_twv x vs : wfs wf x -> wfs wf (TermList_get_terms_with_vars x vs).
Proof.
  unfold wfs. rewrite !Forall_forall. intros Hx t Ht. apply Hx. eapply twv_incl. exact Ht.
Qed.

Lemma wfs_rename x s u : pv u -> wfs wf x -> wfs wf (TermList_rename_variable x s u).
Proof.
  intros Hu. unfold TermList_rename_variable. rewrite TermList_init_Some. unfold wfs.
  rewrite !Forall_forall. intros Hx t Ht. apply in_map_iff in Ht. destruct Ht as (t0 & <- & Ht0).
  apply (rename_wf B dt wf pv S); [exact Hu|]. apply Hx. exact Ht0.
Qed.

(* ---------- lists of variables handed to the elimination primitives ---------- *)
Lemma pvs_filter (f : var -> bool) l : Forall pv l -> Forall pv (filter f l).
Proof. rewrite !Forall_forall. intros Hl x Hx. apply filter_In in Hx. apply Hl. tauto. Qed.

Lemma pvs_union l1 l2 : Forall pv l1 -> Forall pv l2 -> Forall pv (list_union l1 l2).
Proof. intros H1 H2. unfold list_union. apply Forall_app. split; [exact H1|apply pvs_filter; exact H2]. Qed.

Lemma pvs_diff l1 l2 : Forall pv l1 -> Forall pv (list_diff l1 l2).
Proof. apply pvs_filter. Qed.

Lemma pvs_inter l1 l2 : Forall pv l1 -> Forall pv (list_intersection l1 l2).
Proof. apply pvs_filter. Qed.

(* the algebra's own test "k has nothing outside U" *)
Lemma pvs_subset k U : nonempty (list_diff k U) = false -> Forall pv U -> Forall pv k.
Proof.
  intros Hk HU. apply nonempty_false in Hk. rewrite Forall_forall in *. intros x Hx.
  destruct (in_dec string_dec x U) as [Hin|Hout]; [apply HU; exact Hin|].
  assert (Hd : In x (list_diff k U)) by (apply in_list_diff; split; assumption).
  rewrite Hk in Hd. destruct Hd.
Qed.

Lemma if_nonempty_id {A} (v : list A) : (if nonempty v then v else []) = v.
Proof. destruct v; reflexivity. Qed.

Ltac nodup_solve :=
  solve [ repeat first [ assumption | apply NoDup_nil | apply NoDup_list_union
                       | apply NoDup_list_diff | apply NoDup_list_intersection ] ].
Ltac pv_solve :=
  solve [ repeat first [ assumption | apply Forall_nil | apply pvs_union | apply pvs_diff
                       | apply pvs_inter
                       | (eapply pvs_subset; [eassumption|]) ] ].
Ltac vs_solve := split; [nodup_solve | pv_solve].

Ltac open_iface :=
  repeat match goal with
  | Hi : iface_ok pv _ |- _ => destruct Hi as (? & ? & ? & ?)
  end.

(* side conditions [wfs wf _]: from the context, through the list operations *)
Ltac wfs_solve :=
  simpl opt_list;
  solve [ repeat first [ assumption | apply wfs_nil | apply wfs_union | apply wfs_diff
                       | apply wfs_inter | apply wfs_twv | apply wfs_rename ] ].

(* ---------- meaning of the list layer ---------- *)
Lemma den_nil b : den B dt [] b.
Proof. constructor. Qed.

Lemma den_filter (f : term -> bool) x b : den B dt x b -> den B dt (filter f x) b.
Proof.
  unfold den. rewrite !Forall_forall. intros Hx t Ht. apply filter_In in Ht. apply Hx. tauto.
Qed.

Lemma den_union x y b : wfs wf x -> wfs wf y ->
  (den B dt (list_union x y) b <-> den B dt x b /\ den B dt y b).
Proof.
  intros Wx Wy. unfold list_union, den. rewrite Forall_app. split.
  - intros [Hx Hy]. split; [exact Hx|].
    unfold wfs in *. rewrite Forall_forall in *. intros t Ht.
    destruct (py_in t x) eqn:E.
    + unfold py_in in E. apply existsb_exists in E. destruct E as (u & Hu & Eu). simpl in Eu.
      apply (eqb_sound B dt wf pv S t u (Wy t Ht) (Wx u Hu) Eu b). apply Hx. exact Hu.
    + apply Hy. apply filter_In. rewrite E. split; [exact Ht|reflexivity].
  - intros [Hx Hy]. split; [exact Hx|]. apply den_filter. exact Hy.
Qed.

Lemma den_diff x y b : den B dt x b -> den B dt (list_diff x y) b.
Proof. apply den_filter. Qed.

Lemma den_inter x y b : den B dt x b -> den B dt (list_intersection x y) b.
Proof. apply den_filter. Qed.

Lemma den_or x y b : wfs wf x -> wfs wf y ->
  (den B dt (TermList_or x y) b <-> den B dt x b /\ den B dt y b).
Proof. rewrite TermList_or_eq. apply den_union. Qed.

Lemma den_sub x y b : den B dt x b -> den B dt (TermList_sub x y) b.
Proof. rewrite TermList_sub_eq. apply den_diff. Qed.

Lemma den_and x y b : den B dt x b -> den B dt (TermList_and x y) b.
Proof. rewrite TermList_and_eq. apply den_inter. Qed.

Lemma den_copy x b : den B dt (TermList_copy x) b <-> den B dt x b.
Proof. rewrite TermList_copy_eq. tauto. Qed.

Lemma den_init x b : den B dt (TermList_init (Some x)) b <-> den B dt x b.
Proof. rewrite TermList_init_Some. tauto. Qed.

Lemma den_twv x vs b : den B dt x b -> den B dt (TermList_get_terms_with_vars x vs) b.
Proof.
  unfold den. rewrite !Forall_forall. intros Hx t Ht. apply Hx. eapply twv_incl. exact Ht.
Qed.

(* split the well-formedness hypotheses on contracts *)
Ltac open_wfc :=
  repeat match goal with
  | Hw : wfc wf _ |- _ => destruct Hw
  end.

(* ---------- 1. IoContract_init ---------- *)
Theorem init_sound : forall a g i o sp c, wfs wf a -> wfs wf g ->
  IoContract_init a g i o sp = inl c ->
  wfc wf c /\ c_a c = a /\ c_inputvars c = i /\ c_outputvars c = o /\
  (forall b, den B dt a b -> (den B dt (c_g c) b <-> den B dt g b)).
Proof.
  intros a g i o sp c Wa Wg Hc. unfold IoContract_init in Hc. open_in Hc.
  repeat inl_step; tl_simpl.
  - match goal with
    | Hp : p_simplify _ ?ctx = inl _ |- _ =>
        assert (Wctx : wfs wf (opt_list ctx)) by wfs_solve;
        destruct (simpl_ok B dt wf pv S _ _ _ Wg Wctx Hp) as [Wr Hq]; simpl opt_list in Hq
    end.
    unfold wfc; simpl.
    split; [split; assumption|]. do 3 (split; [reflexivity|]). exact Hq.
  - unfold wfc; simpl.
    split; [split; assumption|]. do 3 (split; [reflexivity|]). intros b Hb. tauto.
Qed.

(* bring in the contract of every primitive call (and of IoContract_init) found
   in the context, as soon as its arguments are known to be well-formed; the
   semantic halves stay quantified over the behaviour *)
Ltac saturate :=
  repeat match goal with
  | Hp : p_elim_refine ?s ?ctx ?vs _ _ = inl (_, _) |- _ =>
      let W1 := fresh "W" in
      let W2 := fresh "W" in
      let W3 := fresh "W" in
      let Wr := fresh "Wr" in
      let Hq := fresh "Hq" in
      assert (W1 : wfs wf s) by wfs_solve; assert (W2 : wfs wf ctx) by wfs_solve;
      assert (W3 : vs_ok pv vs) by vs_solve;
      destruct (refine_ok B dt wf pv S _ _ _ _ _ _ _ W1 W2 W3 Hp) as [Wr Hq]; clear Hp W1 W2 W3
  | Hp : p_elim_relax ?s ?ctx ?vs _ _ = inl (_, _) |- _ =>
      let W1 := fresh "W" in
      let W2 := fresh "W" in
      let W3 := fresh "W" in
      let Wr := fresh "Wr" in
      let Hq := fresh "Hq" in
      assert (W1 : wfs wf s) by wfs_solve; assert (W2 : wfs wf ctx) by wfs_solve;
      assert (W3 : vs_ok pv vs) by vs_solve;
      destruct (relax_ok B dt wf pv S _ _ _ _ _ _ _ W1 W2 W3 Hp) as [Wr Hq];
      try match goal with
          | K : KeepSpec B dt wf pv |- _ =>
              let Mr := fresh "Mr" in
              let Hn := fresh "Hn" in
              pose proof (relax_elim B dt wf pv K _ _ _ _ _ _ _ W1 W2 W3 Hp) as Mr;
              pose proof (fun b M => relax_noelim B dt wf pv K _ _ _ _ _ _ _ W1 W2 W3 M Hp b) as Hn
          end;
      clear Hp W1 W2 W3
  | Hp : p_simplify ?s ?ctx = inl _ |- _ =>
      let W1 := fresh "W" in
      let W2 := fresh "W" in
      let Wr := fresh "Wr" in
      let Hq := fresh "Hq" in
      assert (W1 : wfs wf s) by wfs_solve; assert (W2 : wfs wf (opt_list ctx)) by wfs_solve;
      destruct (simpl_ok B dt wf pv S _ _ _ W1 W2 Hp) as [Wr Hq]; simpl opt_list in Hq; clear Hp W1 W2
  | Hp : p_refines ?x ?y = inl true |- _ =>
      let W1 := fresh "W" in
      let W2 := fresh "W" in
      let Hq := fresh "Hq" in
      assert (W1 : wfs wf x) by wfs_solve; assert (W2 : wfs wf y) by wfs_solve;
      match goal with
      | R : RefinesSpec B dt wf |- _ => pose proof (R _ _ W1 W2 Hp) as Hq
      end; clear Hp W1 W2
  | Hp : IoContract_init ?a ?g _ _ _ = inl _ |- _ =>
      let W1 := fresh "W" in
      let W2 := fresh "W" in
      let Wc := fresh "Wc" in
      let Ea := fresh "Ea" in
      let Ei := fresh "Ei" in
      let Eo := fresh "Eo" in
      let Hq := fresh "Hq" in
      assert (W1 : wfs wf a) by wfs_solve; assert (W2 : wfs wf g) by wfs_solve;
      destruct (init_sound _ _ _ _ _ _ W1 W2 Hp) as (Wc & Ea & Ei & Eo & Hq);
      clear Hp W1 W2
  end.

(* instantiate the semantic halves at behaviour b *)
Ltac at_behaviour b :=
  repeat match goal with
  | Hq : forall _ : B, _ |- _ => specialize (Hq b)
  end.

(* after [saturate] and [at_behaviour b]: everything is about [den _ b] atoms;
   unions and differences are explained to tauto by their lemmas *)
Ltac den_finish b :=
  repeat match goal with
  | Ea : c_a _ = _ |- _ => try rewrite Ea in *; clear Ea
  end;
  repeat match goal with
  | _ : context [den B dt (list_diff ?x ?y) b] |- _ =>
      lazymatch goal with
      | _ : den B dt x b -> den B dt (list_diff x y) b |- _ => fail
      | _ => pose proof (den_diff x y b)
      end
  | _ : context [den B dt (list_union ?x ?y) b] |- _ =>
      lazymatch goal with
      | _ : den B dt (list_union x y) b <-> _ |- _ => fail
      | _ =>
          let W1 := fresh "W" in
          let W2 := fresh "W" in
          assert (W1 : wfs wf x) by wfs_solve; assert (W2 : wfs wf y) by wfs_solve;
          pose proof (den_union x y b W1 W2); clear W1 W2
      end
  | |- context [den B dt (list_union ?x ?y) b] =>
      lazymatch goal with
      | _ : den B dt (list_union x y) b <-> _ |- _ => fail
      | _ =>
          let W1 := fresh "W" in
          let W2 := fresh "W" in
          assert (W1 : wfs wf x) by wfs_solve; assert (W2 : wfs wf y) by wfs_solve;
          pose proof (den_union x y b W1 W2); clear W1 W2
      end
  end;
  pose proof (den_nil b);
  tauto.

(* ---------- 2. composition ---------- *)
(* The lists handed to the elimination primitives are built from the interface
   lists and vars_to_keep; vars_to_keep is appended to the outputs before the
   eliminations, so it must be duplicate-free; that its names are admissible
   follows from the algebra's own test that they are outputs of c1 or c2. *)
Theorem compose_sound : forall c1 c2 keep sp od c st, wfc wf c1 -> wfc wf c2 ->
  iface_ok pv c1 -> iface_ok pv c2 -> NoDup (opt_list keep) ->
  IoContract_compose_tactics c1 c2 keep sp od = inl (c, st) ->
  wfc wf c /\ compose_obligation B dt c1 c2 c.
Proof.
  intros c1 c2 keep sp od c st W1 W2 I1 I2 Nk Hc. open_wfc. open_iface.
  destruct keep as [k|]; simpl opt_list in Nk;
  unfold IoContract_compose_tactics in Hc; open_in Hc;
  repeat inl_step; tl_simpl; saturate;
    (split; [assumption|]); intros b; unfold honours; at_behaviour b; den_finish b.
Qed.

Corollary compose_sound_simple : forall c1 c2 keep sp c, wfc wf c1 -> wfc wf c2 ->
  iface_ok pv c1 -> iface_ok pv c2 -> NoDup (opt_list keep) ->
  IoContract_compose c1 c2 keep sp = inl c ->
  wfc wf c /\ compose_obligation B dt c1 c2 c.
Proof.
  intros c1 c2 keep sp c W1 W2 I1 I2 Nk Hc. unfold IoContract_compose in Hc. open_in Hc.
  repeat inl_step.
  match goal with
  | Hp : IoContract_compose_tactics _ _ _ _ _ = inl _ |- _ =>
      exact (compose_sound _ _ _ _ _ _ _ W1 W2 I1 I2 Nk Hp)
  end.
Qed.

(* ---------- 3. quotient ---------- *)
(* Pointwise form.  The quotient asks p_refines once (do the dividend's
   assumptions refine the divisor's?); the conclusion at behaviour b only needs
   that this one answer, if it was `true`, is right at b.  No hypothesis on
   additional_inputs is needed: they are only removed from the eliminated lists. *)
Theorem quotient_sound_pointwise : forall c c1 add sp od q st, wfc wf c -> wfc wf c1 ->
  iface_ok pv c -> iface_ok pv c1 ->
  IoContract_quotient_tactics c c1 add sp od = inl (q, st) ->
  wfc wf q /\
  forall b, (p_refines (c_a c) (c_a c1) = inl true -> den B dt (c_a c) b -> den B dt (c_a c1) b) ->
            den B dt (c_a c) b -> honours B dt c1 b -> honours B dt q b ->
            den B dt (c_a c1) b /\ den B dt (c_a q) b /\ den B dt (c_g c) b.
Proof.
  intros c c1 add sp od q st W W1 I I1 Hc. open_wfc. open_iface.
  destruct add as [k|];
  unfold IoContract_quotient_tactics in Hc; open_in Hc; rewrite ?if_nonempty_id in Hc;
  repeat inl_step; tl_simpl; saturate;
    (split; [assumption|]); intros b Hex;
    try match goal with
        | Hp : p_refines _ _ = inl true |- _ => specialize (Hex Hp)
        end;
    unfold honours; at_behaviour b; den_finish b.
Qed.

Theorem quotient_sound : RefinesSpec B dt wf ->
  forall c c1 add sp od q st, wfc wf c -> wfc wf c1 ->
  iface_ok pv c -> iface_ok pv c1 ->
  IoContract_quotient_tactics c c1 add sp od = inl (q, st) ->
  wfc wf q /\ quotient_obligation B dt c c1 q.
Proof.
  intros R c c1 add sp od q st W W1 I I1 Hc.
  destruct (quotient_sound_pointwise _ _ _ _ _ _ _ W W1 I I1 Hc) as [Wq Hpt].
  split; [exact Wq|]. intros b. apply Hpt. intros Hp.
  destruct W as [Wa _]. destruct W1 as [Wa1 _]. exact (R _ _ Wa Wa1 Hp b).
Qed.

(* when the test did not answer `true`, nothing is asked of p_refines *)
Corollary quotient_sound_refines_false : forall c c1 add sp od q st, wfc wf c -> wfc wf c1 ->
  iface_ok pv c -> iface_ok pv c1 ->
  p_refines (c_a c) (c_a c1) <> inl true ->
  IoContract_quotient_tactics c c1 add sp od = inl (q, st) ->
  wfc wf q /\ quotient_obligation B dt c c1 q.
Proof.
  intros c c1 add sp od q st W W1 I I1 Hne Hc.
  destruct (quotient_sound_pointwise _ _ _ _ _ _ _ W W1 I I1 Hc) as [Wq Hpt].
  split; [exact Wq|]. intros b. apply Hpt. intros Hp. exfalso. exact (Hne Hp).
Qed.

Corollary quotient_sound_simple : RefinesSpec B dt wf ->
  forall c c1 add sp q, wfc wf c -> wfc wf c1 ->
  iface_ok pv c -> iface_ok pv c1 ->
  IoContract_quotient c c1 add sp = inl q ->
  wfc wf q /\ quotient_obligation B dt c c1 q.
Proof.
  intros R c c1 add sp q W W1 I I1 Hc. unfold IoContract_quotient in Hc. open_in Hc.
  repeat inl_step.
  match goal with
  | Hp : IoContract_quotient_tactics _ _ _ _ _ = inl _ |- _ =>
      exact (quotient_sound R _ _ _ _ _ _ _ W W1 I I1 Hp)
  end.
Qed.

(* ---------- 4. merge ---------- *)
Theorem merge_exact : forall c1 c2 m, wfc wf c1 -> wfc wf c2 ->
  IoContract_merge c1 c2 = inl m ->
  wfc wf m /\ merge_obligation B dt c1 c2 m.
Proof.
  intros c1 c2 m W1 W2 Hc. open_wfc. unfold IoContract_merge in Hc. open_in Hc.
  repeat inl_step; tl_simpl; saturate.
  split; [assumption|].
  split; intros b; at_behaviour b; den_finish b.
Qed.

(* ---------- 5. refinement ---------- *)
Theorem refines_sound : RefinesSpec B dt wf ->
  forall c1 c2, wfc wf c1 -> wfc wf c2 ->
  IoContract_refines c1 c2 = inl true ->
  (forall b, den B dt (c_a c2) b -> den B dt (c_a c1) b) /\
  (forall b, den B dt (c_a c2) b -> den B dt (c_g c1) b -> den B dt (c_g c2) b).
Proof.
  intros R c1 c2 W1 W2 Hc. open_wfc. unfold IoContract_refines in Hc. open_in Hc.
  repeat inl_step.
  match goal with
  | Hb : (?x && ?y)%bool = true |- _ =>
      apply andb_true_iff in Hb; destruct Hb as [Hb1 Hb2]; subst x; subst y
  end.
  tl_simpl; saturate.
  split; intros b; at_behaviour b; den_finish b.
Qed.

(* ---------- 6. contains_environment / contains_implementation ---------- *)
(* contains_environment is a bare p_refines call: its proof uses RefinesSpec only, so
   after the section it does not take DomainSpec (nor pv) at all *)
Theorem contains_environment_sound : RefinesSpec B dt wf ->
  forall c comp, wfc wf c -> wfs wf comp ->
  IoContract_contains_environment c comp = inl true ->
  forall b, den B dt comp b -> den B dt (c_a c) b.
Proof.
  intros R c comp W Wc Hc b. open_wfc. unfold IoContract_contains_environment in Hc. open_in Hc.
  repeat inl_step; tl_simpl; saturate; at_behaviour b; den_finish b.
Qed.

Theorem contains_implementation_sound : RefinesSpec B dt wf ->
  forall c comp, wfc wf c -> wfs wf comp ->
  IoContract_contains_implementation c comp = inl true ->
  forall b, den B dt comp b -> den B dt (c_a c) b -> den B dt (c_g c) b.
Proof.
  intros R c comp W Wc Hc b. open_wfc. unfold IoContract_contains_implementation in Hc. open_in Hc.
  repeat inl_step; tl_simpl; saturate; at_behaviour b; den_finish b.
Qed.

(* ---------- the remaining constructors keep the invariant ---------- *)
Theorem rename_wfc : forall c s u c', pv u -> wfc wf c ->
  IoContract_rename_variable c s u = inl c' -> wfc wf c'.
Proof.
  intros c s u c' Hu W Hc. open_wfc. unfold IoContract_rename_variable in Hc. open_in Hc.
  repeat inl_step; tl_simpl; saturate; assumption.
Qed.

Theorem copy_wfc : forall c c', wfc wf c -> IoContract_copy c = inl c' -> wfc wf c'.
Proof.
  intros c c' W Hc. open_wfc. unfold IoContract_copy in Hc. open_in Hc.
  repeat inl_step; tl_simpl; saturate; assumption.
Qed.

Theorem simplify_wfc : forall c c', wfc wf c -> IoContract_simplify c = inl c' -> wfc wf c'.
Proof.
  intros c c' W Hc. open_wfc. unfold IoContract_simplify in Hc. open_in Hc.
  repeat inl_step; tl_simpl; saturate; unfold wfc; simpl; split; assumption.
Qed.

(* ... and copy / simplify do not change the meaning *)
Theorem copy_sound : forall c c', wfc wf c -> IoContract_copy c = inl c' ->
  c_a c' = c_a c /\ forall b, den B dt (c_a c) b -> (den B dt (c_g c') b <-> den B dt (c_g c) b).
Proof.
  intros c c' W Hc. open_wfc. unfold IoContract_copy in Hc. open_in Hc.
  repeat inl_step; tl_simpl.
  match goal with
  | Hp : IoContract_init ?a ?g _ _ _ = inl _ |- _ =>
      assert (Wa : wfs wf a) by wfs_solve; assert (Wg : wfs wf g) by wfs_solve;
      destruct (init_sound _ _ _ _ _ _ Wa Wg Hp) as (_ & Ea & _ & _ & Hq)
  end.
  split; assumption.
Qed.

(* ---------- 7. composition keeps what it can express (C15) ---------- *)
Theorem merge_keeps_guarantees : forall c1 c2 m, wfc wf c1 -> wfc wf c2 ->
  IoContract_merge c1 c2 = inl m ->
  forall t, In t (c_g c1) \/ In t (c_g c2) ->
  forall b, den B dt (c_a m) b -> den B dt (c_g m) b -> dt t b.
Proof.
  intros c1 c2 m W1 W2 Hm t Ht b Ha Hg.
  destruct (merge_exact _ _ _ W1 W2 Hm) as [_ [_ Hx]].
  apply (Hx b Ha) in Hg. destruct Hg as [G1 G2].
  unfold den in G1, G2. rewrite Forall_forall in G1, G2.
  destruct Ht as [Ht|Ht]; [apply G1|apply G2]; exact Ht.
Qed.

Section Keep.
Hypothesis K : KeepSpec B dt wf pv.

Lemma mn_nil s : mentions_none [] s.
Proof. intros t _ v _ []. Qed.

Lemma mn_union vs x y :
  mentions_none vs x -> mentions_none vs y -> mentions_none vs (list_union x y).
Proof.
  intros Hx Hy t Ht. unfold list_union in Ht. apply in_app_iff in Ht.
  destruct Ht as [Ht|Ht]; [exact (Hx t Ht)|]. apply filter_In in Ht. exact (Hy t (proj1 Ht)).
Qed.

(* what is left of G after removing the terms that mention vs mentions none of
   them: a removed term removes itself (Term.__eq__ is reflexive) *)
Lemma mn_diff_twv vs G :
  wfs wf G -> mentions_none vs (list_diff G (TermList_get_terms_with_vars G vs)).
Proof.
  intros WG t Ht v Hv Hin. unfold list_diff in Ht. apply filter_In in Ht. destruct Ht as [HtG Hpy].
  apply negb_true_iff in Hpy.
  assert (Hmem : In t (TermList_get_terms_with_vars G vs)).
  { apply twv_In. split; [exact HtG|]. apply nonempty_inter_iff. exists v. split; assumption. }
  assert (Htrue : py_in t (TermList_get_terms_with_vars G vs) = true).
  { unfold py_in. apply existsb_exists. exists t. split; [exact Hmem|]. simpl.
    apply (teqb_refl B dt wf pv K). unfold wfs in WG. rewrite Forall_forall in WG. apply WG. exact HtG. }
  congruence.
Qed.

(* ... and a term of G that mentions none of vs is still there: it could only be
   removed by an equal term, which would be over the same variables *)
Lemma den_diff_twv_in vs G t b :
  wfs wf G -> In t G -> (forall v, In v (term_vars t) -> ~ In v vs) ->
  den B dt (list_diff G (TermList_get_terms_with_vars G vs)) b -> dt t b.
Proof.
  intros WG HtG Hmn Hden. unfold den in Hden. rewrite Forall_forall in Hden. apply Hden.
  unfold list_diff. apply filter_In. split; [exact HtG|]. apply negb_true_iff.
  destruct (py_in t (TermList_get_terms_with_vars G vs)) eqn:E; [exfalso|reflexivity].
  unfold py_in in E. apply existsb_exists in E. destruct E as (u & Hu & Eu). simpl in Eu.
  apply twv_In in Hu. destruct Hu as [HuG Hne]. apply nonempty_inter_iff in Hne.
  destruct Hne as (v & Hvu & Hvs).
  unfold wfs in WG. rewrite Forall_forall in WG.
  apply (Hmn v); [|exact Hvs].
  apply (teqb_vars B dt wf pv K t u (WG t HtG) (WG u HuG) Eu v). exact Hvu.
Qed.

Lemma twv_none s vs : mentions_none vs s -> TermList_get_terms_with_vars s vs = [].
Proof.
  intros Hmn. destruct (TermList_get_terms_with_vars s vs) as [|t r] eqn:E; [reflexivity|].
  assert (Ht : In t (TermList_get_terms_with_vars s vs)) by (rewrite E; left; reflexivity).
  apply twv_In in Ht. destruct Ht as [Hts Hne]. apply nonempty_inter_iff in Hne.
  destruct Hne as (v & Hv & Hvs). exfalso. exact (Hmn t Hts v Hv Hvs).
Qed.

(* the algebra's boolean tests are no longer needed once the contracts of the
   primitive calls are in the context *)
Ltac clear_tests :=
  repeat match goal with E : @eq bool _ _ |- _ => clear E end.

Ltac mn_solve :=
  solve [ repeat first [ assumption | apply mn_nil | apply mn_union
                       | (apply mn_diff_twv; wfs_solve) ] ].

(* use relax_noelim wherever its "nothing to eliminate" premise can be shown *)
Ltac discharge_noelim :=
  repeat match goal with
  | Hn : mentions_none ?vs ?s -> _ |- _ =>
      let M := fresh "M" in
      assert (M : mentions_none vs s) by mn_solve; specialize (Hn M); clear M
  end.

(* a relaxation result has no term left for the final get_terms_with_vars / sub *)
Ltac drop_final_filter :=
  repeat match goal with
  | Mr : mentions_none ?I ?r |- _ => progress (rewrite (twv_none r I Mr) in * )
  end;
  rewrite ?twv_nil, ?list_diff_nil_r in *.

Theorem compose_keeps_guarantees : forall c1 c2 keep sp od c st, wfc wf c1 -> wfc wf c2 ->
  iface_ok pv c1 -> iface_ok pv c2 -> NoDup (opt_list keep) ->
  IoContract_compose_tactics c1 c2 keep sp od = inl (c, st) ->
  forall t, In t (c_g c1) \/ In t (c_g c2) ->
  (forall v, In v (term_vars t) -> In v (c_inputvars c) \/ In v (c_outputvars c)) ->
  forall b, den B dt (c_a c) b -> den B dt (c_g c) b -> dt t b.
Proof.
  intros c1 c2 keep sp od c st W1 W2 I1 I2 Nk Hc t Ht Hv b. open_wfc. open_iface.
  destruct keep as [k|]; simpl opt_list in Nk;
  unfold IoContract_compose_tactics in Hc; open_in Hc;
  repeat inl_step; tl_simpl; saturate; clear_tests; at_behaviour b;
  (* t mentions no eliminated variable: they are not in the result's interface *)
  lazymatch goal with
  | Mr : mentions_none ?I _ |- _ =>
      assert (Hmn : forall v, In v (term_vars t) -> ~ In v I);
      [ let v := fresh "v" in
        let Hvt := fresh "Hvt" in
        let Hin := fresh "Hin" in
        intros v Hvt Hin; apply Hv in Hvt;
        lazymatch goal with
        | Ei : c_inputvars c = _, Eo : c_outputvars c = _ |- _ => rewrite Ei, Eo in Hvt
        end;
        first
          [ exact (iface_disjoint _ _ _ _ _ Hvt Hin)
          | (* shape-independent fallback *)
            repeat (rewrite in_list_diff in Hvt || rewrite in_list_union in Hvt
                    || rewrite in_list_intersection in Hvt);
            repeat (rewrite in_list_diff in Hin || rewrite in_list_union in Hin
                    || rewrite in_list_intersection in Hin);
            tauto ]
      | (* so it is among the re-added terms of its own contract *)
        destruct Ht as [Ht|Ht];
        lazymatch type of Ht with
        | In t ?G =>
            let WG := fresh "WG" in
            assert (WG : wfs wf G) by wfs_solve;
            pose proof (den_diff_twv_in I G t b WG Ht Hmn)
        end ]
  end;
  discharge_noelim; drop_final_filter; den_finish b.
Qed.

(* with no connection nothing is eliminated, and the composition is exact *)
Theorem compose_exact : forall c1 c2 keep sp od c st, wfc wf c1 -> wfc wf c2 ->
  iface_ok pv c1 -> iface_ok pv c2 -> NoDup (opt_list keep) ->
  IoContract_compose_tactics c1 c2 keep sp od = inl (c, st) ->
  list_intersection (c_outputvars c1) (c_inputvars c2) = [] /\
  list_intersection (c_inputvars c1) (c_outputvars c2) = [] ->
  exact_obligation B dt c1 c2 c.
Proof.
  intros c1 c2 keep sp od c st W1 W2 I1 I2 Nk Hc [N1 N2]. open_wfc. open_iface.
  pose proof (inter_nil_comm _ _ N1) as N1'. pose proof (inter_nil_comm _ _ N2) as N2'.
  destruct keep as [k|]; simpl opt_list in Nk;
  unfold IoContract_compose_tactics in Hc; open_in Hc;
  repeat inl_step;
  (* neither contract "helps" the other: the refinement branches are unreachable *)
  try (exfalso;
       match goal with
       | E : _ = true |- _ => rewrite ?N1, ?N2, ?N1', ?N2' in E; simpl in E; discriminate E
       end);
  rewrite ?N1, ?N2 in *; rewrite ?list_union_nil_nil, ?list_diff_nil_l in *;
  tl_simpl; saturate; clear_tests;
  (split; intros b); at_behaviour b; discharge_noelim; drop_final_filter; den_finish b.
Qed.

End Keep.

End Sound.

(* ------------------------------------------------------------------ *)
(* 7. the algebra layer raises only IncompatibleArgs of its own         *)
(* ------------------------------------------------------------------ *)
Section Errors.
Context `{D : Domain}.

Ltac prim_err :=
  right; unfold primitive_errors;
  solve [ left; do 5 eexists; eassumption
        | right; left; do 5 eexists; eassumption
        | right; right; left; do 2 eexists; eassumption
        | right; right; right; do 2 eexists; eassumption ].

Ltac err_finish := solve [ left; reflexivity | prim_err ].

Theorem algebra_errors_init : forall a g i o sp e,
  IoContract_init a g i o sp = inr e -> e = IncompatibleArgs \/ primitive_errors e.
Proof.
  intros a g i o sp e He. unfold IoContract_init in He. open_in He.
  repeat inr_step; err_finish.
Qed.

Ltac err_finish_init :=
  solve [ left; reflexivity | prim_err
        | match goal with
          | Hi : IoContract_init _ _ _ _ _ = inr _ |- _ => exact (algebra_errors_init _ _ _ _ _ _ Hi)
          end ].

Theorem algebra_errors_compose : forall c1 c2 keep sp od e,
  IoContract_compose_tactics c1 c2 keep sp od = inr e -> e = IncompatibleArgs \/ primitive_errors e.
Proof.
  intros c1 c2 keep sp od e He. unfold IoContract_compose_tactics in He. open_in He.
  repeat inr_step; err_finish_init.
Qed.

Theorem algebra_errors_quotient : forall c c1 add sp od e,
  IoContract_quotient_tactics c c1 add sp od = inr e -> e = IncompatibleArgs \/ primitive_errors e.
Proof.
  intros c c1 add sp od e He. unfold IoContract_quotient_tactics in He. open_in He.
  repeat inr_step; err_finish_init.
Qed.

Theorem algebra_errors_merge : forall c1 c2 e,
  IoContract_merge c1 c2 = inr e -> e = IncompatibleArgs \/ primitive_errors e.
Proof.
  intros c1 c2 e He. unfold IoContract_merge in He. open_in He.
  repeat inr_step; err_finish_init.
Qed.

Theorem algebra_errors_refines : forall c1 c2 e,
  IoContract_refines c1 c2 = inr e -> e = IncompatibleArgs \/ primitive_errors e.
Proof.
  intros c1 c2 e He. unfold IoContract_refines in He. open_in He.
  rewrite !TermList_le_eq in He.
  repeat inr_step; err_finish.
Qed.

Theorem algebra_errors_rename : forall c s t e,
  IoContract_rename_variable c s t = inr e -> e = IncompatibleArgs \/ primitive_errors e.
Proof.
  intros c s t e He. unfold IoContract_rename_variable in He. open_in He.
  repeat inr_step; err_finish_init.
Qed.

Theorem algebra_errors_copy : forall c e,
  IoContract_copy c = inr e -> e = IncompatibleArgs \/ primitive_errors e.
Proof.
  intros c e He. unfold IoContract_copy in He. open_in He.
  repeat inr_step; err_finish_init.
Qed.

Theorem algebra_errors_simplify : forall c e,
  IoContract_simplify c = inr e -> e = IncompatibleArgs \/ primitive_errors e.
Proof.
  intros c e He. unfold IoContract_simplify in He. open_in He.
  repeat inr_step; err_finish.
Qed.

Theorem algebra_errors :
  (forall a g i o sp e, IoContract_init a g i o sp = inr e -> e = IncompatibleArgs \/ primitive_errors e) /\
  (forall c1 c2 keep sp od e, IoContract_compose_tactics c1 c2 keep sp od = inr e -> e = IncompatibleArgs \/ primitive_errors e) /\
  (forall c c1 add sp od e, IoContract_quotient_tactics c c1 add sp od = inr e -> e = IncompatibleArgs \/ primitive_errors e) /\
  (forall c1 c2 e, IoContract_merge c1 c2 = inr e -> e = IncompatibleArgs \/ primitive_errors e) /\
  (forall c1 c2 e, IoContract_refines c1 c2 = inr e -> e = IncompatibleArgs \/ primitive_errors e) /\
  (forall c s t e, IoContract_rename_variable c s t = inr e -> e = IncompatibleArgs \/ primitive_errors e) /\
  (forall c e, IoContract_copy c = inr e -> e = IncompatibleArgs \/ primitive_errors e) /\
  (forall c e, IoContract_simplify c = inr e -> e = IncompatibleArgs \/ primitive_errors e).
Proof.
  repeat split.
  - apply algebra_errors_init.
  - apply algebra_errors_compose.
  - apply algebra_errors_quotient.
  - apply algebra_errors_merge.
  - apply algebra_errors_refines.
  - apply algebra_errors_rename.
  - apply algebra_errors_copy.
  - apply algebra_errors_simplify.
Qed.

End Errors.

(* ------------------------------------------------------------------ *)
(* 8. non-vacuity: a tiny concrete domain that meets DomainSpec, and a  *)
(*    cascade composition on it that succeeds                           *)
(* ------------------------------------------------------------------ *)
Module Toy.
Local Open Scope string_scope.

(* a constraint "variable v has value n" *)
Inductive atom : Type := Atom (v : var) (n : nat).

Definition atom_vars (t : atom) : list var := match t with Atom v _ => [v] end.
Definition atom_eqb (t1 t2 : atom) : bool :=
  match t1, t2 with Atom v1 n1, Atom v2 n2 => String.eqb v1 v2 && Nat.eqb n1 n2 end.
Definition atom_rename (t : atom) (s u : var) : atom :=
  match t with Atom v n => Atom (if String.eqb v s then u else v) n end.
Definition atom_mentions (vs : list var) (t : atom) : bool :=
  match t with Atom v _ => py_in v vs end.

(* refine: drop what the context already provides; relax: drop what mentions an
   eliminated variable; simplify: identity; refines: syntactic inclusion *)
#[local] Instance ToyDomain : Domain := {|
  term := atom;
  term_vars := atom_vars;
  term_eqb := atom_eqb;
  term_rename := atom_rename;
  p_elim_refine := fun s ctx _ _ _ => inl (filter (fun t => negb (existsb (atom_eqb t) ctx)) s, []);
  p_elim_relax := fun s _ vs _ _ => inl (filter (fun t => negb (atom_mentions vs t)) s, []);
  p_simplify := fun s _ => inl s;
  p_refines := fun x y => inl (forallb (fun t => existsb (atom_eqb t) x) y);
  p_is_empty := fun _ => inl false
|}.

(* behaviours are valuations *)
Definition beh : Type := var -> nat.
Definition atom_dt (t : atom) (b : beh) : Prop := match t with Atom v n => b v = n end.

Lemma atom_eqb_sound t1 t2 : atom_eqb t1 t2 = true -> forall b, atom_dt t1 b <-> atom_dt t2 b.
Proof.
  destruct t1 as [v1 n1], t2 as [v2 n2]. simpl. intros E b.
  apply andb_true_iff in E. destruct E as [Ev En].
  apply String.eqb_eq in Ev. apply Nat.eqb_eq in En. subst. tauto.
Qed.

(* no invariant is needed here: every atom is well-formed *)
Definition atom_wf (t : atom) : Prop := True.
Lemma atom_wfs (l : list atom) : wfs atom_wf l.
Proof. unfold wfs. apply Forall_forall. intros t _. exact I. Qed.
Lemma atom_wfc (c : contract) : wfc atom_wf c.
Proof. split; apply atom_wfs. Qed.

(* ... and every variable name is admissible *)
Definition atom_pv (v : var) : Prop := True.
Lemma atom_iface (c : contract) :
  NoDup (c_inputvars c) -> NoDup (c_outputvars c) -> iface_ok atom_pv c.
Proof.
  intros Hi Ho. repeat split; try assumption; apply Forall_forall; intros x _; exact I.
Qed.

Lemma ToySpec : DomainSpec beh atom_dt atom_wf atom_pv.
Proof.
  constructor.
  - intros t1 t2 _ _. apply atom_eqb_sound.
  - intros s ctx vs sp od r st _ _ _ Hr. split; [apply atom_wfs|]. intros b Hctx Hden.
    simpl in Hr. inversion Hr; subst; clear Hr.
    unfold den in *. rewrite Forall_forall in *. intros t Ht.
    destruct (existsb (atom_eqb t) ctx) eqn:E.
    + apply existsb_exists in E. destruct E as (u & Hu & Eu).
      apply (atom_eqb_sound _ _ Eu b). apply Hctx. exact Hu.
    + apply Hden. apply filter_In. rewrite E. split; [exact Ht|reflexivity].
  - intros s ctx vs sp od r st _ _ _ Hr. split; [apply atom_wfs|]. intros b Hctx Hden.
    simpl in Hr. inversion Hr; subst; clear Hr.
    unfold den in *. rewrite Forall_forall in *. intros t Ht.
    apply filter_In in Ht. apply Hden. tauto.
  - intros s ctx r _ _ Hr. split; [apply atom_wfs|]. intros b Hctx.
    simpl in Hr. inversion Hr; subst. tauto.
  - intros t s u _ _. exact I.
Qed.

(* the toy refinement test (syntactic inclusion) is sound *)
Lemma ToyRefines : RefinesSpec beh atom_dt atom_wf.
Proof.
  intros x y _ _ Hr b Hx. simpl in Hr. inversion Hr as [Hf]; clear Hr.
  unfold den in *. rewrite Forall_forall in *. intros t Ht.
  rewrite forallb_forall in Hf. specialize (Hf t Ht).
  apply existsb_exists in Hf. destruct Hf as (u & Hu & Eu).
  apply (atom_eqb_sound _ _ Eu b). apply Hx. exact Hu.
Qed.

(* the toy relaxation drops exactly the atoms over eliminated variables *)
Lemma ToyKeep : KeepSpec beh atom_dt atom_wf atom_pv.
Proof.
  constructor.
  - intros [v n] _. simpl. rewrite String.eqb_refl, Nat.eqb_refl. reflexivity.
  - intros [v1 n1] [v2 n2] _ _ E v. simpl in E. apply andb_true_iff in E. destruct E as [Ev _].
    apply String.eqb_eq in Ev. subst. tauto.
  - intros s ctx vs sp od r st _ _ _ Hr. simpl in Hr. inversion Hr; subst; clear Hr.
    intros [v n] Ht w Hw Hin. apply filter_In in Ht. destruct Ht as [_ Hm].
    simpl in Hm, Hw. destruct Hw as [<-|[]]. apply negb_true_iff in Hm.
    apply py_in_var_false in Hm. contradiction.
  - intros s ctx vs sp od r st _ _ _ Hmn Hr b _. simpl in Hr. inversion Hr; subst; clear Hr.
    unfold den. rewrite !Forall_forall. split; intros Hd t Ht.
    + apply Hd. apply filter_In. split; [exact Ht|]. apply negb_true_iff.
      destruct t as [v n]. simpl. apply py_in_var_false. apply (Hmn _ Ht v). left. reflexivity.
    + apply Hd. apply filter_In in Ht. tauto.
Qed.

(* c1 : input x, output y, assumes x = 0, guarantees y = 1
   c2 : input y, output z, assumes y = 1, guarantees z = 2     (cascade on y) *)
Definition c1 : contract :=
  {| c_a := [Atom "x" 0]; c_g := [Atom "y" 1]; c_inputvars := ["x"]; c_outputvars := ["y"] |}.
Definition c2 : contract :=
  {| c_a := [Atom "y" 1]; c_g := [Atom "z" 2]; c_inputvars := ["y"]; c_outputvars := ["z"] |}.
Definition c12 : contract :=
  {| c_a := [Atom "x" 0]; c_g := [Atom "z" 2]; c_inputvars := ["x"]; c_outputvars := ["z"] |}.

Lemma NoDup1 (v : var) : NoDup [v].
Proof. constructor; [intros []|constructor]. Qed.
Lemma iface_c1 : iface_ok atom_pv c1.  Proof. apply atom_iface; apply NoDup1. Qed.
Lemma iface_c2 : iface_ok atom_pv c2.  Proof. apply atom_iface; apply NoDup1. Qed.
Lemma iface_c12 : iface_ok atom_pv c12. Proof. apply atom_iface; apply NoDup1. Qed.

Example compose_cascade_runs :
  exists st, IoContract_compose_tactics c1 c2 None true None = inl (c12, st).
Proof. eexists. vm_compute. reflexivity. Qed.

Example compose_cascade_simple : IoContract_compose c1 c2 None true = inl c12.
Proof. vm_compute. reflexivity. Qed.

(* so the hypotheses of compose_sound are satisfiable, and its conclusion is
   the expected one on this instance *)
Example compose_cascade_obligation : compose_obligation beh atom_dt c1 c2 c12.
Proof.
  destruct compose_cascade_runs as (st & Hst).
  exact (proj2 (compose_sound beh atom_dt atom_wf atom_pv ToySpec c1 c2 None true None c12 st
                  (atom_wfc c1) (atom_wfc c2) iface_c1 iface_c2 (NoDup_nil _) Hst)).
Qed.

(* the hypotheses of quotient_sound are satisfiable too, through both outcomes
   of p_refines: dividing the composite by c1 takes the `true` branch
   (a_C = [x=0] refines a_1 = [x=0]) and gives back c2; dividing it by c2 takes
   the `false` branch (a_C = [x=0] does not contain a_2 = [y=1]) and gives c1 *)
Example quotient_refines_true : p_refines (c_a c12) (c_a c1) = inl true.
Proof. vm_compute. reflexivity. Qed.
Example quotient_runs_true :
  exists st, IoContract_quotient_tactics c12 c1 None true None = inl (c2, st).
Proof. eexists. vm_compute. reflexivity. Qed.

Example quotient_refines_false : p_refines (c_a c12) (c_a c2) = inl false.
Proof. vm_compute. reflexivity. Qed.
Example quotient_runs_false :
  exists st, IoContract_quotient_tactics c12 c2 None true None = inl (c1, st).
Proof. eexists. vm_compute. reflexivity. Qed.

Example quotient_obligation_true : quotient_obligation beh atom_dt c12 c1 c2.
Proof.
  destruct quotient_runs_true as (st & Hst).
  exact (proj2 (quotient_sound beh atom_dt atom_wf atom_pv ToySpec ToyRefines _ _ _ _ _ _ _
                  (atom_wfc c12) (atom_wfc c1) iface_c12 iface_c1 Hst)).
Qed.

Example quotient_obligation_false : quotient_obligation beh atom_dt c12 c2 c1.
Proof.
  destruct quotient_runs_false as (st & Hst).
  refine (proj2 (quotient_sound_refines_false beh atom_dt atom_wf atom_pv ToySpec _ _ _ _ _ _ _
                  (atom_wfc c12) (atom_wfc c2) iface_c12 iface_c2 _ Hst)).
  rewrite quotient_refines_false. discriminate.
Qed.

Example merge_runs : IoContract_merge c1 c1 = inl c1.
Proof. vm_compute. reflexivity. Qed.
(* ... and the algebra's own error is reachable: y would be input and output *)
Example merge_incompatible : IoContract_merge c1 c2 = inr IncompatibleArgs.
Proof. vm_compute. reflexivity. Qed.

(* C15: keeping the connection variable y keeps the guarantee y = 1 ... *)
Definition c12y : contract :=
  {| c_a := [Atom "x" 0]; c_g := [Atom "y" 1; Atom "z" 2];
     c_inputvars := ["x"]; c_outputvars := ["z"; "y"] |}.
Example compose_keep_runs :
  exists st, IoContract_compose_tactics c1 c2 (Some ["y"]) true None = inl (c12y, st).
Proof. eexists. vm_compute. reflexivity. Qed.

(* ... and composing unconnected contracts (c3 : input u, output w, assumes u = 3,
   guarantees w = 4) keeps everything *)
Definition c3 : contract :=
  {| c_a := [Atom "u" 3]; c_g := [Atom "w" 4]; c_inputvars := ["u"]; c_outputvars := ["w"] |}.
Definition c13 : contract :=
  {| c_a := [Atom "x" 0; Atom "u" 3]; c_g := [Atom "y" 1; Atom "w" 4];
     c_inputvars := ["x"; "u"]; c_outputvars := ["y"; "w"] |}.
Lemma iface_c3 : iface_ok atom_pv c3. Proof. apply atom_iface; apply NoDup1. Qed.
Example compose_unconnected_runs :
  exists st, IoContract_compose_tactics c1 c3 None true None = inl (c13, st).
Proof. eexists. vm_compute. reflexivity. Qed.

End Toy.

Print Assumptions compose_sound.
Print Assumptions quotient_sound.
Print Assumptions quotient_sound_pointwise.
Print Assumptions quotient_sound_refines_false.
Print Assumptions merge_exact.
Print Assumptions init_sound.
Print Assumptions refines_sound.
Print Assumptions algebra_errors.
Print Assumptions compose_keeps_guarantees.
Print Assumptions compose_exact.
Print Assumptions merge_keeps_guarantees.
Print Assumptions rename_wfc.
Print Assumptions copy_wfc.
Print Assumptions simplify_wfc.
Print Assumptions contains_environment_sound.
Print Assumptions contains_implementation_sound.
Print Assumptions Toy.compose_cascade_obligation.
