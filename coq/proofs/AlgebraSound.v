(* AlgebraSound.v — soundness of the algebra layer (gen/AlgebraGen.v, the
   translation of pacti/iocontract/iocontract.py) for *every* constraint Domain
   whose primitives meet their documented contracts (DomainSpec, AlgebraSpec.v).

   The proofs are written against the generated definitions but never mention
   an auto-generated hypothesis name: the monadic structure is taken apart by
   the tactics [inl_step] / [inr_step], the primitives' contracts are brought in
   by [saturate], and what is left is propositional. *)
From Coq Require Import List String Bool Arith ZArith Lia Setoid.
Import ListNotations.
Require Import Py ListsGen AlgebraGen ListsFacts AlgebraSpec.
Open Scope py_scope.

(* ------------------------------------------------------------------ *)
(* generic facts about the error monad                                 *)
(* ------------------------------------------------------------------ *)
Lemma tve_inl {A} (body handler : M A) x :
  try_value_error body handler = inl x ->
  body = inl x \/ (exists e, body = inr e /\ handler = inl x).
Proof.
  unfold try_value_error. destruct body as [a|e]; intros Hx.
  - left. exact Hx.
  - right. exists e. split; [reflexivity|]. destruct (is_value_error e); [exact Hx|discriminate Hx].
Qed.

Lemma tve_inr {A} (body handler : M A) e :
  try_value_error body handler = inr e -> body = inr e \/ handler = inr e.
Proof.
  unfold try_value_error. destruct body as [a|e']; intros Hx.
  - discriminate Hx.
  - destruct (is_value_error e'); [right; exact Hx|left; exact Hx].
Qed.

(* ------------------------------------------------------------------ *)
(* tactics that take the monadic structure apart                       *)
(* ------------------------------------------------------------------ *)
Ltac destruct_pairs :=
  repeat match goal with x : (_ * _)%type |- _ => destruct x end.

(* one step on a hypothesis of the form  [m = inl _] *)
Ltac inl_step :=
  match goal with
  | Hs : inr _ = inl _ |- _ => discriminate Hs
  | Hs : inl _ = inl _ |- _ => inversion Hs; subst; clear Hs
  | Hs : bind _ _ = inl _ |- _ =>
      let x := fresh "x" in
      let Hx := fresh "Hx" in
      apply bind_inl in Hs; destruct Hs as (x & Hx & Hs);
      destruct_pairs; cbv beta iota in Hs
  | Hs : try_value_error _ _ = inl _ |- _ =>
      let e := fresh "e" in
      let He := fresh "He" in
      apply tve_inl in Hs; destruct Hs as [Hs | (e & He & Hs)]
  | Hs : (if ?c then _ else _) = inl _ |- _ =>
      let E := fresh "E" in destruct c eqn:E
  end.

(* one step on a hypothesis of the form  [m = inr _] *)
Ltac inr_step :=
  match goal with
  | Hs : inl _ = inr _ |- _ => discriminate Hs
  | Hs : inr _ = inr _ |- _ => inversion Hs; subst; clear Hs
  | Hs : bind _ _ = inr _ |- _ =>
      let x := fresh "x" in
      let Hx := fresh "Hx" in
      apply bind_inr in Hs; destruct Hs as [Hs | (x & Hx & Hs)];
      destruct_pairs; cbv beta iota in Hs
  | Hs : try_value_error _ _ = inr _ |- _ =>
      apply tve_inr in Hs; destruct Hs as [Hs | Hs]
  | Hs : (if ?c then _ else _) = inr _ |- _ =>
      let E := fresh "E" in destruct c eqn:E
  end.

(* open a generated definition in a hypothesis *)
Ltac open_in Hs :=
  cbv beta iota zeta in Hs; unfold ret, raise in Hs.

(* ------------------------------------------------------------------ *)
(* the TermList layer is the identity / the list operations            *)
(* ------------------------------------------------------------------ *)
Section TermListFacts.
Context `{D : Domain}.

Lemma TermList_init_Some (l : list term) : TermList_init (Some l) = l.
Proof. unfold TermList_init. destruct l; reflexivity. Qed.

Lemma TermList_init_None : TermList_init None = [].
Proof. reflexivity. Qed.

Lemma TermList_copy_eq (l : list term) : TermList_copy l = l.
Proof. unfold TermList_copy. apply TermList_init_Some. Qed.

Lemma TermList_or_eq (x y : list term) : TermList_or x y = list_union x y.
Proof. unfold TermList_or. rewrite TermList_init_Some, !TermList_copy_eq. reflexivity. Qed.

Lemma TermList_and_eq (x y : list term) : TermList_and x y = list_intersection x y.
Proof. unfold TermList_and. rewrite TermList_init_Some, !TermList_copy_eq. reflexivity. Qed.

Lemma TermList_sub_eq (x y : list term) : TermList_sub x y = list_diff x y.
Proof. unfold TermList_sub. rewrite TermList_init_Some, !TermList_copy_eq. reflexivity. Qed.

Lemma TermList_le_eq (x y : list term) : TermList_le x y = p_refines x y.
Proof. unfold TermList_le. destruct (p_refines x y); reflexivity. Qed.

(* get_terms_with_vars selects a sub-list *)
Lemma twv_incl (l : list term) vs t :
  In t (TermList_get_terms_with_vars l vs) -> In t l.
Proof.
  unfold TermList_get_terms_with_vars. rewrite TermList_init_Some. cbv zeta.
  assert (G : forall acc,
             In t (fold_left (fun terms t0 =>
                     if nonempty (list_intersection (term_vars t0) vs)
                     then (terms ++ [t0])%list else terms) l acc) ->
             In t acc \/ In t l).
  { induction l as [|u r IH]; simpl; intros acc Hin; [left; exact Hin|].
    apply IH in Hin. destruct Hin as [Hin|Hin]; [|right; right; exact Hin].
    destruct (nonempty (list_intersection (term_vars u) vs)); [|left; exact Hin].
    apply in_app_iff in Hin. destruct Hin as [Hin|[->|[]]]; [left; exact Hin|right; left; reflexivity]. }
  intros Hin. apply G in Hin. destruct Hin as [[]|Hin]. exact Hin.
Qed.
End TermListFacts.

Ltac tl_simpl :=
  rewrite ?TermList_or_eq, ?TermList_and_eq, ?TermList_sub_eq, ?TermList_copy_eq,
          ?TermList_le_eq, ?TermList_init_Some in *.

(* ------------------------------------------------------------------ *)
(* soundness under DomainSpec                                          *)
(* ------------------------------------------------------------------ *)
Section Sound.
Context `{D : Domain}.
Variable B : Type.
Variable dt : term -> B -> Prop.
Hypothesis S : DomainSpec B dt.

Lemma dt_eqb : forall b (t1 t2 : term), py_eqb t1 t2 = true -> (dt t1 b <-> dt t2 b).
Proof. intros b t1 t2 E. apply (eqb_sound B dt S). exact E. Qed.

Lemma den_nil b : den B dt [] b.
Proof. constructor. Qed.

Lemma den_union x y b : den B dt (list_union x y) b <-> den B dt x b /\ den B dt y b.
Proof. unfold den. apply (Forall_list_union (fun t => dt t b)). apply dt_eqb. Qed.

Lemma den_diff x y b : den B dt x b -> den B dt (list_diff x y) b.
Proof. unfold den. apply (Forall_list_diff (fun t => dt t b)). Qed.

Lemma den_inter x y b : den B dt x b -> den B dt (list_intersection x y) b.
Proof. unfold den. apply (Forall_list_intersection (fun t => dt t b)). Qed.

Lemma den_or x y b : den B dt (TermList_or x y) b <-> den B dt x b /\ den B dt y b.
Proof. rewrite TermList_or_eq. apply den_union. Qed.

Lemma den_sub x y b : den B dt x b -> den B dt (TermList_sub x y) b.
Proof. rewrite TermList_sub_eq. apply den_diff. Qed.

Lemma den_and x y b : den B dt x b -> den B dt (TermList_and x y) b.
Proof. rewrite TermList_and_eq. apply den_inter. Qed.

Lemma den_copy x b : den B dt (TermList_copy x) b <-> den B dt x b.
Proof. rewrite TermList_copy_eq. tauto. Qed.

Lemma den_init x b : den B dt (TermList_init (Some x)) b <-> den B dt x b.
Proof. rewrite TermList_init_Some. tauto. Qed.

Lemma den_twv x vs b : den B dt x b -> den B dt (TermList_get_terms_with_vars x vs) b.
Proof.
  unfold den. rewrite !Forall_forall. intros Hx t Ht. apply Hx. eapply twv_incl. exact Ht.
Qed.

(* ---------- 1. IoContract_init ---------- *)
Theorem init_sound : forall a g i o sp c, IoContract_init a g i o sp = inl c ->
  c_a c = a /\ c_inputvars c = i /\ c_outputvars c = o /\
  (forall b, den B dt a b -> (den B dt (c_g c) b <-> den B dt g b)).
Proof.
  intros a g i o sp c Hc. unfold IoContract_init in Hc. open_in Hc.
  repeat inl_step; simpl; tl_simpl;
    (split; [reflexivity|split; [reflexivity|split; [reflexivity|]]]); intros b Hb.
  - match goal with
    | Hp : p_simplify _ _ = inl _ |- _ => apply (simpl_ok B dt S _ _ _ Hp b); simpl; exact Hb
    end.
  - tauto.
Qed.

(* bring in the contract of every primitive call (and of IoContract_init) found
   in the context, at behaviour b *)
Ltac saturate b :=
  repeat match goal with
  | Hp : p_elim_refine _ _ _ _ _ = inl (_, _) |- _ =>
      let Hq := fresh "Hq" in
      pose proof (refine_ok B dt S _ _ _ _ _ _ _ Hp b) as Hq; clear Hp
  | Hp : p_elim_relax _ _ _ _ _ = inl (_, _) |- _ =>
      let Hq := fresh "Hq" in
      pose proof (relax_ok B dt S _ _ _ _ _ _ _ Hp b) as Hq; clear Hp
  | Hp : p_simplify _ _ = inl _ |- _ =>
      let Hq := fresh "Hq" in
      pose proof (simpl_ok B dt S _ _ _ Hp b) as Hq; simpl opt_list in Hq; clear Hp
  | Hp : p_refines _ _ = inl true |- _ =>
      let Hq := fresh "Hq" in
      pose proof (refines_ok B dt S _ _ Hp b) as Hq; clear Hp
  | Hp : IoContract_init _ _ _ _ _ = inl _ |- _ =>
      let Ea := fresh "Ea" in
      let Ei := fresh "Ei" in
      let Eo := fresh "Eo" in
      let Hq := fresh "Hq" in
      apply init_sound in Hp; destruct Hp as (Ea & Ei & Eo & Hq);
      specialize (Hq b); try rewrite Ea in *; clear Ea Ei Eo
  end.

(* after [saturate]: everything is about [den _ b] atoms *)
Ltac den_finish b :=
  tl_simpl;
  repeat match goal with
  | Hd : context [den B dt (list_diff ?x ?y) b] |- _ =>
      lazymatch goal with
      | _ : den B dt x b -> den B dt (list_diff x y) b |- _ => fail
      | _ => pose proof (den_diff x y b)
      end
  end;
  pose proof (den_nil b);
  rewrite ?den_union in *;
  tauto.

(* ---------- 2. composition ---------- *)
Theorem compose_sound : forall c1 c2 keep sp od c st,
  IoContract_compose_tactics c1 c2 keep sp od = inl (c, st) -> compose_obligation B dt c1 c2 c.
Proof.
  intros c1 c2 keep sp od c st Hc b. unfold honours.
  unfold IoContract_compose_tactics in Hc. open_in Hc.
  repeat inl_step; saturate b; den_finish b.
Qed.

Corollary compose_sound_simple : forall c1 c2 keep sp c,
  IoContract_compose c1 c2 keep sp = inl c -> compose_obligation B dt c1 c2 c.
Proof.
  intros c1 c2 keep sp c Hc. unfold IoContract_compose in Hc. open_in Hc.
  repeat inl_step.
  match goal with
  | Hp : IoContract_compose_tactics _ _ _ _ _ = inl _ |- _ => exact (compose_sound _ _ _ _ _ _ _ Hp)
  end.
Qed.

(* ---------- 3. quotient ---------- *)
Theorem quotient_sound : forall c c1 add sp od q st,
  IoContract_quotient_tactics c c1 add sp od = inl (q, st) -> quotient_obligation B dt c c1 q.
Proof.
  intros c c1 add sp od q st Hc b. unfold honours.
  unfold IoContract_quotient_tactics in Hc. open_in Hc.
  repeat inl_step; saturate b; den_finish b.
Qed.

Corollary quotient_sound_simple : forall c c1 add sp q,
  IoContract_quotient c c1 add sp = inl q -> quotient_obligation B dt c c1 q.
Proof.
  intros c c1 add sp q Hc. unfold IoContract_quotient in Hc. open_in Hc.
  repeat inl_step.
  match goal with
  | Hp : IoContract_quotient_tactics _ _ _ _ _ = inl _ |- _ => exact (quotient_sound _ _ _ _ _ _ _ Hp)
  end.
Qed.

(* ---------- 4. merge ---------- *)
Theorem merge_exact : forall c1 c2 m, IoContract_merge c1 c2 = inl m -> merge_obligation B dt c1 c2 m.
Proof.
  intros c1 c2 m Hc. unfold IoContract_merge in Hc. open_in Hc.
  repeat inl_step.
  split; intros b; saturate b; den_finish b.
Qed.

(* ---------- 5. refinement ---------- *)
Theorem refines_sound : forall c1 c2, IoContract_refines c1 c2 = inl true ->
  (forall b, den B dt (c_a c2) b -> den B dt (c_a c1) b) /\
  (forall b, den B dt (c_a c2) b -> den B dt (c_g c1) b -> den B dt (c_g c2) b).
Proof.
  intros c1 c2 Hc. unfold IoContract_refines in Hc. open_in Hc.
  rewrite !TermList_le_eq in Hc.
  repeat inl_step.
  match goal with
  | Hb : (?x && ?y)%bool = true |- _ =>
      apply andb_true_iff in Hb; destruct Hb as [Hb1 Hb2]; subst x; subst y
  end.
  split; intros b; saturate b; den_finish b.
Qed.

(* ---------- 6. contains_environment / contains_implementation ---------- *)
Theorem contains_environment_sound : forall c comp,
  IoContract_contains_environment c comp = inl true ->
  forall b, den B dt comp b -> den B dt (c_a c) b.
Proof.
  intros c comp Hc b. unfold IoContract_contains_environment in Hc. open_in Hc.
  rewrite !TermList_le_eq in Hc.
  repeat inl_step; saturate b; den_finish b.
Qed.

Theorem contains_implementation_sound : forall c comp,
  IoContract_contains_implementation c comp = inl true ->
  forall b, den B dt comp b -> den B dt (c_a c) b -> den B dt (c_g c) b.
Proof.
  intros c comp Hc b. unfold IoContract_contains_implementation in Hc. open_in Hc.
  rewrite !TermList_le_eq in Hc.
  repeat inl_step; saturate b; den_finish b.
Qed.

End Sound.

(* ------------------------------------------------------------------ *)
(* 7. the algebra layer raises only IncompatibleArgs of its own         *)
(* ------------------------------------------------------------------ *)
Section Errors.
Context `{D : Domain}.

Ltac prim_err :=
  right; unfold primitive_errors;
  solve [ left; do 5 eexists; eassumption
        | right; left; do 5 eexists; eassumption
        | right; right; left; do 2 eexists; eassumption
        | right; right; right; do 2 eexists; eassumption ].

Ltac err_finish := solve [ left; reflexivity | prim_err ].

Theorem algebra_errors_init : forall a g i o sp e,
  IoContract_init a g i o sp = inr e -> e = IncompatibleArgs \/ primitive_errors e.
Proof.
  intros a g i o sp e He. unfold IoContract_init in He. open_in He.
  repeat inr_step; err_finish.
Qed.

Ltac err_finish_init :=
  solve [ left; reflexivity | prim_err
        | match goal with
          | Hi : IoContract_init _ _ _ _ _ = inr _ |- _ => exact (algebra_errors_init _ _ _ _ _ _ Hi)
          end ].

Theorem algebra_errors_compose : forall c1 c2 keep sp od e,
  IoContract_compose_tactics c1 c2 keep sp od = inr e -> e = IncompatibleArgs \/ primitive_errors e.
Proof.
  intros c1 c2 keep sp od e He. unfold IoContract_compose_tactics in He. open_in He.
  repeat inr_step; err_finish_init.
Qed.

Theorem algebra_errors_quotient : forall c c1 add sp od e,
  IoContract_quotient_tactics c c1 add sp od = inr e -> e = IncompatibleArgs \/ primitive_errors e.
Proof.
  intros c c1 add sp od e He. unfold IoContract_quotient_tactics in He. open_in He.
  repeat inr_step; err_finish_init.
Qed.

Theorem algebra_errors_merge : forall c1 c2 e,
  IoContract_merge c1 c2 = inr e -> e = IncompatibleArgs \/ primitive_errors e.
Proof.
  intros c1 c2 e He. unfold IoContract_merge in He. open_in He.
  repeat inr_step; err_finish_init.
Qed.

Theorem algebra_errors_refines : forall c1 c2 e,
  IoContract_refines c1 c2 = inr e -> e = IncompatibleArgs \/ primitive_errors e.
Proof.
  intros c1 c2 e He. unfold IoContract_refines in He. open_in He.
  rewrite !TermList_le_eq in He.
  repeat inr_step; err_finish.
Qed.

Theorem algebra_errors_rename : forall c s t e,
  IoContract_rename_variable c s t = inr e -> e = IncompatibleArgs \/ primitive_errors e.
Proof.
  intros c s t e He. unfold IoContract_rename_variable in He. open_in He.
  repeat inr_step; err_finish_init.
Qed.

Theorem algebra_errors_copy : forall c e,
  IoContract_copy c = inr e -> e = IncompatibleArgs \/ primitive_errors e.
Proof.
  intros c e He. unfold IoContract_copy in He. open_in He.
  repeat inr_step; err_finish_init.
Qed.

Theorem algebra_errors_simplify : forall c e,
  IoContract_simplify c = inr e -> e = IncompatibleArgs \/ primitive_errors e.
Proof.
  intros c e He. unfold IoContract_simplify in He. open_in He.
  repeat inr_step; err_finish.
Qed.

Theorem algebra_errors :
  (forall a g i o sp e, IoContract_init a g i o sp = inr e -> e = IncompatibleArgs \/ primitive_errors e) /\
  (forall c1 c2 keep sp od e, IoContract_compose_tactics c1 c2 keep sp od = inr e -> e = IncompatibleArgs \/ primitive_errors e) /\
  (forall c c1 add sp od e, IoContract_quotient_tactics c c1 add sp od = inr e -> e = IncompatibleArgs \/ primitive_errors e) /\
  (forall c1 c2 e, IoContract_merge c1 c2 = inr e -> e = IncompatibleArgs \/ primitive_errors e) /\
  (forall c1 c2 e, IoContract_refines c1 c2 = inr e -> e = IncompatibleArgs \/ primitive_errors e) /\
  (forall c s t e, IoContract_rename_variable c s t = inr e -> e = IncompatibleArgs \/ primitive_errors e) /\
  (forall c e, IoContract_copy c = inr e -> e = IncompatibleArgs \/ primitive_errors e) /\
  (forall c e, IoContract_simplify c = inr e -> e = IncompatibleArgs \/ primitive_errors e).
Proof.
  repeat split.
  - apply algebra_errors_init.
  - apply algebra_errors_compose.
  - apply algebra_errors_quotient.
  - apply algebra_errors_merge.
  - apply algebra_errors_refines.
  - apply algebra_errors_rename.
  - apply algebra_errors_copy.
  - apply algebra_errors_simplify.
Qed.

End Errors.

(* ------------------------------------------------------------------ *)
(* 8. non-vacuity: a tiny concrete domain that meets DomainSpec, and a  *)
(*    cascade composition on it that succeeds                           *)
(* ------------------------------------------------------------------ *)
Module Toy.
Local Open Scope string_scope.

(* a constraint "variable v has value n" *)
Inductive atom : Type := Atom (v : var) (n : nat).

Definition atom_vars (t : atom) : list var := match t with Atom v _ => [v] end.
Definition atom_eqb (t1 t2 : atom) : bool :=
  match t1, t2 with Atom v1 n1, Atom v2 n2 => String.eqb v1 v2 && Nat.eqb n1 n2 end.
Definition atom_rename (t : atom) (s u : var) : atom :=
  match t with Atom v n => Atom (if String.eqb v s then u else v) n end.
Definition atom_mentions (vs : list var) (t : atom) : bool :=
  match t with Atom v _ => py_in v vs end.

(* refine: drop what the context already provides; relax: drop what mentions an
   eliminated variable; simplify: identity; refines: syntactic inclusion *)
#[local] Instance ToyDomain : Domain := {|
  term := atom;
  term_vars := atom_vars;
  term_eqb := atom_eqb;
  term_rename := atom_rename;
  p_elim_refine := fun s ctx _ _ _ => inl (filter (fun t => negb (existsb (atom_eqb t) ctx)) s, []);
  p_elim_relax := fun s _ vs _ _ => inl (filter (fun t => negb (atom_mentions vs t)) s, []);
  p_simplify := fun s _ => inl s;
  p_refines := fun x y => inl (forallb (fun t => existsb (atom_eqb t) x) y);
  p_is_empty := fun _ => inl false
|}.

(* behaviours are valuations *)
Definition beh : Type := var -> nat.
Definition atom_dt (t : atom) (b : beh) : Prop := match t with Atom v n => b v = n end.

Lemma atom_eqb_sound t1 t2 : atom_eqb t1 t2 = true -> forall b, atom_dt t1 b <-> atom_dt t2 b.
Proof.
  destruct t1 as [v1 n1], t2 as [v2 n2]. simpl. intros E b.
  apply andb_true_iff in E. destruct E as [Ev En].
  apply String.eqb_eq in Ev. apply Nat.eqb_eq in En. subst. tauto.
Qed.

Lemma ToySpec : DomainSpec beh atom_dt.
Proof.
  constructor.
  - exact atom_eqb_sound.
  - intros s ctx vs sp od r st Hr b Hctx Hden. simpl in Hr. inversion Hr; subst; clear Hr.
    unfold den in *. rewrite Forall_forall in *. intros t Ht.
    destruct (existsb (atom_eqb t) ctx) eqn:E.
    + apply existsb_exists in E. destruct E as (u & Hu & Eu).
      apply (atom_eqb_sound _ _ Eu b). apply Hctx. exact Hu.
    + apply Hden. apply filter_In. rewrite E. split; [exact Ht|reflexivity].
  - intros s ctx vs sp od r st Hr b Hctx Hden. simpl in Hr. inversion Hr; subst; clear Hr.
    unfold den in *. rewrite Forall_forall in *. intros t Ht.
    apply filter_In in Ht. apply Hden. tauto.
  - intros s ctx r Hr b Hctx. simpl in Hr. inversion Hr; subst. tauto.
  - intros x y Hr b Hx. simpl in Hr. inversion Hr as [Hf]; clear Hr.
    unfold den in *. rewrite Forall_forall in *. intros t Ht.
    rewrite forallb_forall in Hf. specialize (Hf t Ht).
    apply existsb_exists in Hf. destruct Hf as (u & Hu & Eu).
    apply (atom_eqb_sound _ _ Eu b). apply Hx. exact Hu.
Qed.

(* c1 : input x, output y, assumes x = 0, guarantees y = 1
   c2 : input y, output z, assumes y = 1, guarantees z = 2     (cascade on y) *)
Definition c1 : contract :=
  {| c_a := [Atom "x" 0]; c_g := [Atom "y" 1]; c_inputvars := ["x"]; c_outputvars := ["y"] |}.
Definition c2 : contract :=
  {| c_a := [Atom "y" 1]; c_g := [Atom "z" 2]; c_inputvars := ["y"]; c_outputvars := ["z"] |}.
Definition c12 : contract :=
  {| c_a := [Atom "x" 0]; c_g := [Atom "z" 2]; c_inputvars := ["x"]; c_outputvars := ["z"] |}.

Example compose_cascade_runs :
  exists st, IoContract_compose_tactics c1 c2 None true None = inl (c12, st).
Proof. eexists. vm_compute. reflexivity. Qed.

Example compose_cascade_simple : IoContract_compose c1 c2 None true = inl c12.
Proof. vm_compute. reflexivity. Qed.

(* so the hypotheses of compose_sound are satisfiable, and its conclusion is
   the expected one on this instance *)
Example compose_cascade_obligation : compose_obligation beh atom_dt c1 c2 c12.
Proof.
  destruct compose_cascade_runs as (st & Hst).
  exact (compose_sound beh atom_dt ToySpec _ _ _ _ _ _ _ Hst).
Qed.

(* the hypotheses of quotient_sound are satisfiable too, through both outcomes
   of p_refines: dividing the composite by c1 takes the `true` branch
   (a_C = [x=0] refines a_1 = [x=0]) and gives back c2; dividing it by c2 takes
   the `false` branch (a_C = [x=0] does not contain a_2 = [y=1]) and gives c1 *)
Example quotient_refines_true : p_refines (c_a c12) (c_a c1) = inl true.
Proof. vm_compute. reflexivity. Qed.
Example quotient_runs_true :
  exists st, IoContract_quotient_tactics c12 c1 None true None = inl (c2, st).
Proof. eexists. vm_compute. reflexivity. Qed.

Example quotient_refines_false : p_refines (c_a c12) (c_a c2) = inl false.
Proof. vm_compute. reflexivity. Qed.
Example quotient_runs_false :
  exists st, IoContract_quotient_tactics c12 c2 None true None = inl (c1, st).
Proof. eexists. vm_compute. reflexivity. Qed.

Example quotient_obligation_true : quotient_obligation beh atom_dt c12 c1 c2.
Proof.
  destruct quotient_runs_true as (st & Hst).
  exact (quotient_sound beh atom_dt ToySpec _ _ _ _ _ _ _ Hst).
Qed.

Example merge_runs : IoContract_merge c1 c1 = inl c1.
Proof. vm_compute. reflexivity. Qed.
(* ... and the algebra's own error is reachable: y would be input and output *)
Example merge_incompatible : IoContract_merge c1 c2 = inr IncompatibleArgs.
Proof. vm_compute. reflexivity. Qed.

End Toy.

Print Assumptions compose_sound.
Print Assumptions quotient_sound.
Print Assumptions merge_exact.
Print Assumptions init_sound.
Print Assumptions refines_sound.
Print Assumptions algebra_errors.
Print Assumptions Toy.compose_cascade_obligation.
