(* PlotsGenFacts.v — the obligations that tie the hand model of the vertex routine (model/Plots.v, property C18) to
   the code.  translator/py2coq_plots.py (run by py2coq.py) renders, on every run, into gen/PlotsGen.v

     src/pacti/utils/plots.py   _gen_boundary_constraints, _substitute_in_termlist, _get_feasible_point,
                                _get_bounding_vertices, constraints_to_vertices

   over the vocabulary of base/PyPlots.v, generic in the primitives PlotPrims (termlist_to_polytope, np.linalg.norm,
   linprog, HalfspaceIntersection, the atan2-keyed sort: NOT translated).  With the primitives instantiated by the
   oracles of the hand model ([plot_prims nrm O], for EVERY row-norm function nrm and EVERY oracle record O) every
   generated function is proved EQUAL to the hand model, pointwise (monadic results: values AND which exception):

     gen_boundary_constraints_eq   plots__gen_boundary_constraints x y xl yl   = gen_boundary x y xl yl
     substitute_in_termlist_eq     plots__substitute_in_termlist ts vals       = substitute_in_termlist ts vals
                                                                                      [Forall wft' ts]
     get_feasible_point_eq         plots__get_feasible_point A b true          = match centre O rows3 with
                                                                                  Some p => ret [fst p; snd p]
                                                                                  | None => raise ValueErr end
                                                                                      [two_cols rows]
     get_bounding_vertices_eq      plots__get_bounding_vertices A b            = mmap unzip_pts (bounding_vertices O rows3)
                                                                                      [two_cols rows]
        where A = map fst rows, b = map snd rows, rows3 = map row_triple rows
     constraints_to_vertices_glue  plots_constraints_to_vertices cs x y vals xl yl
                                     = rows <- plot_rows2 cs x y vals xl yl ;; plots__get_bounding_vertices A b
                                                                                      [Forall wft cs]
     constraints_to_vertices_eq    plots_constraints_to_vertices cs x y vals xl yl
                                     = mmap unzip_pts (constraints_to_vertices O cs x y vals xl yl)
                                                                                      [Forall wft cs]

   unzip_pts l = (map fst l, map snd l): the Python returns the tuple of x's and the tuple of y's.
   A semantic change of one of the functions changes gen/PlotsGen.v and one of these proofs stops compiling
   (harness/plotgen_mutations.py).  The files are split (PlotsGenBase / Substitute / Vertices / Bounding) so that a
   change breaks only the obligations that depend on it. *)
Require Export PlotsGenBase PlotsGenSubstitute PlotsGenVertices PlotsGenBounding.
From Coq Require Import List String Bool QArith ZArith.
Import ListNotations.
Require Import Py ListsGen Sem PyDict PyLoop PyTermList PyPrint PyPlots Term Poly Plots.
Require Import TermFacts PlotsFacts PlotsGen.
Open Scope py_scope.
Local Open Scope Q_scope.

(* ------------------------------------------------------------------ *)
(** * constraints_to_vertices: the two halves composed *)
Theorem constraints_to_vertices_eq nrm O cs x y vals xl yl :
  Forall wft cs ->
  @plots_constraints_to_vertices (plot_prims nrm O) cs x y vals xl yl
  = mmap unzip_pts (constraints_to_vertices O cs x y vals xl yl).
Proof.
  intros Hcs. rewrite (constraints_to_vertices_glue nrm O cs x y vals xl yl Hcs).
  unfold constraints_to_vertices. rewrite plot_rows_rows2.
  destruct (plot_rows2 cs x y vals xl yl) as [rows|e] eqn:E; [|reflexivity].
  cbn [bind mmap]. apply get_bounding_vertices_eq. exact (plot_rows2_two_cols cs x y vals xl yl rows Hcs E).
Qed.

Goal forall x y xl yl, plots__gen_boundary_constraints x y xl yl = gen_boundary x y xl yl.
Proof. exact gen_boundary_constraints_eq. Qed.
Goal forall ts vals, Forall wft' ts -> plots__substitute_in_termlist ts vals = substitute_in_termlist ts vals.
Proof. exact substitute_in_termlist_eq. Qed.
Goal forall nrm O rows, two_cols rows ->
  @plots__get_feasible_point (plot_prims nrm O) (map fst rows) (map snd rows) true
  = match centre O (map row_triple rows) with Some p => ret (pt_list p) | None => raise ValueErr end.
Proof. exact get_feasible_point_eq. Qed.
Goal forall nrm O rows, two_cols rows ->
  @plots__get_bounding_vertices (plot_prims nrm O) (map fst rows) (map snd rows)
  = mmap unzip_pts (bounding_vertices O (map row_triple rows)).
Proof. exact get_bounding_vertices_eq. Qed.
Goal forall nrm O cs x y vals xl yl, Forall wft cs ->
  @plots_constraints_to_vertices (plot_prims nrm O) cs x y vals xl yl
  = mmap unzip_pts (constraints_to_vertices O cs x y vals xl yl).
Proof. exact constraints_to_vertices_eq. Qed.

Print Assumptions gen_boundary_constraints_eq.
Print Assumptions substitute_in_termlist_eq.
Print Assumptions get_feasible_point_eq.
Print Assumptions get_bounding_vertices_eq.
Print Assumptions constraints_to_vertices_glue.
Print Assumptions constraints_to_vertices_eq.

(* the facts of proofs/PlotsFacts.v about plot_rows are facts about the translated code: e.g. the assert of
   constraints_to_vertices never fails on well-formed arguments *)
Corollary gen_assert_unreachable nrm O cs x y vals xl yl :
  Forall wft cs ->
  @plots_constraints_to_vertices (plot_prims nrm O) cs x y vals xl yl <> inr (Escape "AssertionError").
Proof.
  intros Hcs H. rewrite (constraints_to_vertices_eq nrm O cs x y vals xl yl Hcs) in H.
  unfold constraints_to_vertices in H.
  destruct (plot_rows cs x y vals xl yl) as [rows|e] eqn:E.
  - cbn [bind] in H. unfold bounding_vertices in H.
    destruct (centre O rows); [|discriminate].
    destruct (Q_hull O rows) as [[|q l]|]; try discriminate.
    destruct (extreme O rows (0, 1)), (extreme O rows (0, - (1))), (extreme O rows (1, 0)), (extreme O rows (- (1), 0));
      discriminate.
  - cbn in H. injection H as ->. exact (assert_unreachable cs x y vals xl yl E).
Qed.

(* ------------------------------------------------------------------ *)
(** * the generated code evaluated on concrete inputs
      (the same calls were made on the real library — MPLBACKEND=Agg PYTHONPATH=/repo/src, pacti.__file__ under
      /repo/src — with the same vertices up to float noise of 1e-16) *)
Local Open Scope string_scope.
(* Qhull answered by the verified reference enumerator model/Plots.v:corners, no float noise, centre (1/2, 1/2) *)
Definition corner_oracles (c : pt) : oracles :=
  mkOracles (fun _ => Some c) (fun rows => Some (corners rows)) (fun _ _ => None) (fun _ => false).
Notation run := (@plots_constraints_to_vertices (plot_prims (fun _ => 0) (corner_oracles (1 # 2, 1 # 2)))).

(* the unit square *)
Example gen_unit_square : run [] "x" "y" [] (0, 1) (0, 1) = inl ([0; 1; 1; 0], [0; 0; 1; 1]).
Proof. vm_compute. reflexivity. Qed.
(* x + y <= 3/2 inside the unit square; the term lists y first, so the columns come out as [y; x] and are swapped *)
Example gen_swap_columns :
  run [mkT [("y", 1); ("x", 1)] (3 # 2)] "x" "y" [] (0, 1) (0, 1) = inl ([0; 1; 1; 1 # 2; 0], [0; 0; 1 # 2; 1; 1]).
Proof. vm_compute. reflexivity. Qed.
(* 2y + x + z <= 3 with z = 1: the slice 2y + x <= 2 (the seeded defect C18, a no-op column swap, gives the mirror
   image 2x + y <= 2 here) *)
Example gen_substitute_and_swap :
  run [mkT [("y", 2 # 1); ("x", 1); ("z", 1)] (3 # 1)] "x" "y" [("z", 1)] (0, 1) (0, 1)
  = inl ([0; 1; 1; 0], [0; 0; 1 # 2; 1]).
Proof. vm_compute. reflexivity. Qed.
(* z <= 3 with z = 2 becomes the satisfied constant row 0 <= 1 and is skipped (seeded defect C18c keeps it) *)
Example gen_constant_row_skipped :
  run [mkT [("z", 1)] (3 # 1)] "x" "y" [("z", 2 # 1)] (0, 1) (0, 1) = inl ([0; 1; 1; 0], [0; 0; 1; 1]).
Proof. vm_compute. reflexivity. Qed.
(* ... and a violated one is a ValueError *)
Example gen_constant_row_violated :
  run [mkT [("z", 1)] 1] "x" "y" [("z", 2 # 1)] (0, 1) (0, 1) = inr ValueErr.
Proof. vm_compute. reflexivity. Qed.
(* the argument checks *)
Example gen_axis_variable_assigned : run [] "x" "y" [("x", 1)] (0, 1) (0, 1) = inr ValueErr.
Proof. vm_compute. reflexivity. Qed.
Example gen_variable_without_value : run [mkT [("w", 1)] 1] "x" "y" [] (0, 1) (0, 1) = inr ValueErr.
Proof. vm_compute. reflexivity. Qed.
(* x_var == y_var: one column, the swap raises IndexError (as the real library does) *)
Example gen_same_axis : run [] "x" "x" [] (0, 1) (0, 1) = inr (Escape "IndexError").
Proof. vm_compute. reflexivity. Qed.

(* ------------------------------------------------------------------ *)
(** * [Forall wft cs] is necessary: an association list with a repeated key denotes no Python dict.  On it
      `constraints | boundary` (PolyhedralTerm.copy, item by item) merges the two entries, the hand model keeps both. *)
Definition echo_oracles : oracles :=
  mkOracles (fun _ => Some (0, 0)) (fun rows => Some (map (fun r : row3 => (fst (fst r), snd (fst r))) rows))
            (fun _ _ => None) (fun _ => false).
Example repeated_key_differs :
  let cs := [mkT [("x", 1); ("x", 2 # 1)] 0] in
  @plots_constraints_to_vertices (plot_prims (fun _ => 0) echo_oracles) cs "x" "y" [] (0, 1) (0, 1)
  <> mmap unzip_pts (constraints_to_vertices echo_oracles cs "x" "y" [] (0, 1) (0, 1)).
Proof. vm_compute. discriminate. Qed.
