(* TermListGenBase.v — shared helpers for the T1 tie of PolyhedralTermList (see TermListGenFacts.v):
   the instance of the abstract primitives (class TLPrims of base/PyTermList.v) built from the hand models,
   the monadic list functions over an equality that never raises, and "shape" lemmas reading the loops
   of the generated text as the structural recursions the hand models use. *)
From Coq Require Import List String Bool Arith QArith ZArith Lia.
Import ListNotations.
Require Import Py ListsGen ConstGen Sem PyDict PyLoop PyTermList Term Poly Tactics TermGen ListsFacts TermFacts
  TermGenFacts.
Open Scope py_scope.
Local Open Scope nat_scope.

(* ------------------------------------------------------------------ *)
(** * The primitives, instantiated with the hand models *)
(* a numpy matrix that remembers the names of its columns: the replay oracle of model/Poly.v matches recorded LP
   problems by column name (dict insertion order is not observable in pacti) *)
Definition lp_status (r : lp_answer) : M nat :=
  match r with
  | LpOpt _ _ => ret 0 | LpInfeasible => ret 2 | LpUnbounded => ret 3
  | LpOther _ => ret 1                      (* status 1 / 4: neither 0, 2 nor 3; res.fun is None *)
  | LpMiss => raise OracleMiss
  end.
Definition lp_fun (r : lp_answer) : M (option Q) :=
  match r with LpOpt f _ => ret (Some f) | LpMiss => raise OracleMiss | _ => ret None end.
Definition poly_prims (O : oracle) : TLPrims :=
  Build_TLPrims
    (list var * list (list Q))%type                                     (* matrix *)
    (list Q)                                                            (* vector *)
    lp_answer                                                           (* lp_result *)
    (poly_simplify O)                                                   (* simplify *)
    (context_reduction O)                                               (* _context_reduction *)
    (fun terms ctx =>                                                   (* termlist_to_polytope *)
       let vs := polytope_vars terms ctx in
       ret (vs, (vs, map (fun t => fst (term_to_row vs t)) terms), map tconst terms,
            (vs, map (fun t => fst (term_to_row vs t)) ctx), map tconst ctx))
    (fun c a b => ret (O (mkLP (fst a) c (combine (snd a) b))))         (* linprog *)
    lp_status lp_fun.

Lemma combine_rows vs (ts : list pterm) :
  combine (map (fun t => fst (term_to_row vs t)) ts) (map tconst ts) = map (term_to_row vs) ts.
Proof. induction ts as [|t r IH]; [reflexivity|]. cbn [map combine]. rewrite IH. reflexivity. Qed.

(* ------------------------------------------------------------------ *)
(** * Monad *)
Lemma tbind_assoc {A B C} (m : M A) (f : A -> M B) (g : B -> M C) :
  bind (bind m f) g = bind m (fun a => bind (f a) g).
Proof. destruct m; reflexivity. Qed.
Lemma tbind_ext {A B} (m : M A) (f g : A -> M B) : (forall a, f a = g a) -> bind m f = bind m g.
Proof. intros Hfg. destruct m as [a|e]; [apply Hfg|reflexivity]. Qed.

(* ------------------------------------------------------------------ *)
(** * Comprehensions that never raise *)
(* `x = a if c else b` written as an if/else statement that assigns x in both branches *)
Lemma bind_if_ret {A B} (c : bool) (a b : A) (k : A -> M B) :
  bind (if c then ret a else ret b) k = k (if c then a else b).
Proof. destruct c; reflexivity. Qed.
(* a list built by `l = []; for x in xs: l.append(<g x>)` whose element computation always returns *)
Lemma loop_m_append_ret {X Y} (g : X -> Y) (body : list Y -> X -> M (ctl (list Y))) (l : list X) acc :
  (forall a x, In x l -> body a x = ret (Continue (a ++ [g x])%list)) ->
  for_list_m l acc body = ret (acc ++ map g l)%list.
Proof.
  revert acc. induction l as [|x r IH]; intros acc Hb; cbn [for_list_m map].
  - rewrite app_nil_r. reflexivity.
  - rewrite (Hb acc x (or_introl eq_refl)). cbn [bind ret]. rewrite IH.
    + rewrite <- app_assoc. reflexivity.
    + intros a y Hy. apply Hb. right. exact Hy.
Qed.
Lemma map_m_ret {X Y} (f : X -> M Y) (g : X -> Y) l :
  (forall x, In x l -> f x = ret (g x)) -> map_m f l = ret (map g l).
Proof.
  induction l as [|x r IH]; intros Hf; [reflexivity|].
  cbn [map_m map]. rewrite (Hf x (or_introl eq_refl)), bind_ret_l, IH; [reflexivity|].
  intros y Hy. apply Hf. right. exact Hy.
Qed.
Lemma filter_m_ret {X} (f : X -> M bool) (g : X -> bool) l :
  (forall x, In x l -> f x = ret (g x)) -> filter_m f l = ret (filter g l).
Proof.
  induction l as [|x r IH]; intros Hf; [reflexivity|].
  cbn [filter_m filter]. rewrite (Hf x (or_introl eq_refl)), bind_ret_l, IH.
  - destruct (g x); reflexivity.
  - intros y Hy. apply Hf. right. exact Hy.
Qed.

(* ------------------------------------------------------------------ *)
(** * `in`, remove and lists.py over an equality that never raises *)
Section EqRet.
Context {A : Type} (eqm : A -> A -> M bool) (eqb : A -> A -> bool).
Hypothesis Heq : forall a b, eqm a b = ret (eqb a b).
Let inst : PyEq A := {| py_eqb := eqb |}.

Lemma py_in_m_ret x l : py_in_m eqm x l = ret (@py_in A inst x l).
Proof.
  induction l as [|y r IH]; [reflexivity|].
  cbn [py_in_m]. rewrite Heq, bind_ret_l, IH. unfold py_in. cbn [existsb py_eqb inst].
  destruct (eqb x y); reflexivity.
Qed.
Lemma list_intersection_m_ret l1 l2 : list_intersection_m eqm l1 l2 = ret (@list_intersection A inst l1 l2).
Proof. unfold list_intersection_m, list_intersection. apply filter_m_ret. intros x _. apply py_in_m_ret. Qed.
Lemma list_diff_m_ret l1 l2 : list_diff_m eqm l1 l2 = ret (@list_diff A inst l1 l2).
Proof.
  unfold list_diff_m, list_diff. apply filter_m_ret. intros x _. rewrite py_in_m_ret. reflexivity.
Qed.
Lemma list_union_m_ret l1 l2 : list_union_m eqm l1 l2 = ret (@list_union A inst l1 l2).
Proof.
  unfold list_union_m, list_union.
  rewrite (filter_m_ret _ (fun el => negb (@py_in A inst el l1))); [reflexivity|].
  intros x _. rewrite py_in_m_ret. reflexivity.
Qed.
(* l.remove(x) succeeds when some element equals x *)
Lemma list_remove_m_ret x l :
  existsb (fun z => eqb z x) l = true -> list_remove_m eqm x l = ret (@remove_first A inst x l).
Proof.
  induction l as [|z r IH]; cbn [existsb]; [discriminate|].
  cbn [list_remove_m remove_first py_eqb inst]. rewrite Heq, bind_ret_l.
  destruct (eqb z x); [reflexivity|]. cbn [orb]. intros He. rewrite (IH He). reflexivity.
Qed.
Lemma list_remove_m_absent x l :
  existsb (fun z => eqb z x) l = false -> list_remove_m eqm x l = raise ValueErr.
Proof.
  induction l as [|z r IH]; cbn [existsb]; [reflexivity|].
  cbn [list_remove_m]. rewrite Heq, bind_ret_l.
  destruct (eqb z x); cbn [orb]; [discriminate|]. intros He. rewrite (IH He). reflexivity.
Qed.
End EqRet.

(* the instances used by the generated text: == on terms is PolyhedralTerm.__eq__ = term_eqb_p *)
Lemma t_in_m x l : py_in_m PolyhedralTerm_eq x l = ret (py_in x l).
Proof. apply (py_in_m_ret PolyhedralTerm_eq term_eqb_p eq_eq). Qed.
Lemma t_diff_m l1 l2 : list_diff_m PolyhedralTerm_eq l1 l2 = ret (list_diff l1 l2).
Proof. apply (list_diff_m_ret PolyhedralTerm_eq term_eqb_p eq_eq). Qed.
Lemma t_union_m l1 l2 : list_union_m PolyhedralTerm_eq l1 l2 = ret (list_union l1 l2).
Proof. apply (list_union_m_ret PolyhedralTerm_eq term_eqb_p eq_eq). Qed.
Lemma t_inter_m l1 l2 : list_intersection_m PolyhedralTerm_eq l1 l2 = ret (list_intersection l1 l2).
Proof. apply (list_intersection_m_ret PolyhedralTerm_eq term_eqb_p eq_eq). Qed.
Lemma t_remove_m x l :
  existsb (fun z => term_eqb_p z x) l = true -> list_remove_m PolyhedralTerm_eq x l = ret (remove_first x l).
Proof. apply (list_remove_m_ret PolyhedralTerm_eq term_eqb_p eq_eq). Qed.
Lemma t_remove_m_absent x l :
  existsb (fun z => term_eqb_p z x) l = false -> list_remove_m PolyhedralTerm_eq x l = raise ValueErr.
Proof. apply (list_remove_m_absent PolyhedralTerm_eq term_eqb_p eq_eq). Qed.

Lemma existsb_in_refl x (l : list pterm) : wft x -> In x l -> existsb (fun z => term_eqb_p z x) l = true.
Proof.
  intros Hw Hin. apply existsb_exists. exists x. split; [exact Hin|apply term_eqb_refl; exact Hw].
Qed.

(* ------------------------------------------------------------------ *)
(** * Indexed lists *)
Lemma list_get_m_nth {X} (l : list X) i d : i < List.length l -> list_get_m l i = ret (nth i l d).
Proof.
  revert i. induction l as [|x r IH]; intros i Hi; [cbn in Hi; lia|].
  destruct i as [|k]; [reflexivity|]. cbn [list_get_m nth]. apply IH. cbn in Hi. lia.
Qed.
Lemma list_get_m_out {X} (l : list X) i : List.length l <= i -> list_get_m l i = raise (Escape "IndexError").
Proof.
  revert i. induction l as [|x r IH]; intros i Hi; [destruct i; reflexivity|].
  destruct i as [|k]; [cbn in Hi; lia|]. cbn [list_get_m]. apply IH. cbn in Hi. lia.
Qed.
Fixpoint set_nth {X} (l : list X) (i : nat) (v : X) : list X :=
  match l, i with
  | [], _ => []
  | _ :: r, O => v :: r
  | x :: r, S k => x :: set_nth r k v
  end.
Lemma list_set_m_nth {X} (l : list X) i v : i < List.length l -> list_set_m l i v = ret (set_nth l i v).
Proof.
  revert i. induction l as [|x r IH]; intros i Hi; [cbn in Hi; lia|].
  destruct i as [|k]; [reflexivity|]. cbn [list_set_m set_nth]. rewrite IH by (cbn in Hi; lia). reflexivity.
Qed.
Lemma set_nth_length {X} (l : list X) i v : List.length (set_nth l i v) = List.length l.
Proof.
  revert i. induction l as [|x r IH]; intros i; [reflexivity|]. destruct i; cbn; [reflexivity|]. rewrite IH. reflexivity.
Qed.
Lemma set_nth_app {X} (l1 : list X) x l2 v : set_nth (l1 ++ x :: l2) (List.length l1) v = l1 ++ v :: l2.
Proof. induction l1 as [|y r IH]; [reflexivity|]. cbn. rewrite IH. reflexivity. Qed.

(* ------------------------------------------------------------------ *)
(** * Loops *)
(* for x in l: if c x: acc.append(g x)      (filter + map, accumulated) *)
Lemma loop_filter_map {X Y} (c : X -> bool) (g : X -> Y) body (l : list X) acc :
  (forall a x, body a x = Continue (if c x then a ++ [g x] else a)) ->
  for_list l acc body = acc ++ map g (filter c l).
Proof.
  intros Hb. revert acc. induction l as [|x r IH]; intros acc; cbn [for_list filter map].
  - rewrite app_nil_r. reflexivity.
  - rewrite Hb, IH. destruct (c x); [cbn [map]; rewrite <- app_assoc; reflexivity|reflexivity].
Qed.
Lemma loop_m_filter_map {X Y} (c : X -> bool) (g : X -> Y) body (l : list X) acc :
  (forall a x, body a x = ret (Continue (if c x then a ++ [g x] else a))) ->
  for_list_m l acc body = ret (acc ++ map g (filter c l)).
Proof.
  intros Hb. revert acc. induction l as [|x r IH]; intros acc; cbn [for_list_m filter map].
  - rewrite app_nil_r. reflexivity.
  - rewrite Hb, bind_ret_l, IH. destruct (c x); [cbn [map]; rewrite <- app_assoc; reflexivity|reflexivity].
Qed.

(* ------------------------------------------------------------------ *)
(** * Well-formed lists of terms *)
Lemma map_copy_wft' l : Forall wft' l -> map term_copy l = l.
Proof.
  induction 1 as [|t r [_ Hnz] _ IH]; [reflexivity|]. cbn [map]. rewrite (term_copy_id t Hnz), IH. reflexivity.
Qed.
Lemma Forall_wft'_wft l : Forall wft' l -> Forall wft l.
Proof. apply Forall_impl. intros t [H _]. exact H. Qed.
Lemma term_copy_idem t : term_copy (term_copy t) = term_copy t.
Proof. apply term_copy_id. apply nz_copy. Qed.
Lemma map_gen_copy l : Forall wft l -> map PolyhedralTerm_copy l = map term_copy l.
Proof.
  induction 1 as [|t r Ht _ IH]; [reflexivity|]. cbn [map]. rewrite (copy_eq t Ht), IH. reflexivity.
Qed.

Lemma in_remove_first_t (x y : pterm) l : In x (remove_first y l) -> In x l.
Proof.
  induction l as [|z r IH]; cbn [remove_first]; [tauto|]. destruct (py_eqb z y); [intros H; right; exact H|].
  intros [->|Hx]; [left; reflexivity|right; apply IH; exact Hx].
Qed.
Lemma Forall_list_union_t (Pr : pterm -> Prop) l1 l2 : Forall Pr l1 -> Forall Pr l2 -> Forall Pr (list_union l1 l2).
Proof.
  intros H1 H2. rewrite Forall_forall in *. intros x Hx. unfold list_union in Hx. rewrite in_app_iff, filter_In in Hx.
  destruct Hx as [Hx|[Hx _]]; [apply H1|apply H2]; assumption.
Qed.
Lemma Forall_remove_first_t (Pr : pterm -> Prop) x l : Forall Pr l -> Forall Pr (remove_first x l).
Proof.
  intros H. rewrite Forall_forall in *. intros y Hy. apply H. apply (in_remove_first_t y x). exact Hy.
Qed.
