(* PlotsGenSubstitute.v — T1 tie of the vertex routine, group 1: _gen_boundary_constraints and
   _substitute_in_termlist (see PlotsGenFacts.v).  These two functions call no primitive: the equalities hold for
   every instance of PlotPrims (the generated definitions do not depend on it). *)
From Coq Require Import List String Bool QArith ZArith Arith Lia.
Import ListNotations.
Require Import Py ListsGen Sem PyDict PyLoop PyTermList PyPrint PyPlots Term Poly Plots.
Require Import TermFacts TermGen TermGenBase TermGenCore TermGenSubst TermListGen TermListGenBase TermListGenEval.
Require Import PlotsFacts PlotsGen PlotsGenBase.
Open Scope py_scope.
Local Open Scope Q_scope.

(* ------------------------------------------------------------------ *)
(** * _gen_boundary_constraints : unconditional *)
Theorem gen_boundary_constraints_eq x y x_lims y_lims :
  plots__gen_boundary_constraints x y x_lims y_lims = gen_boundary x y x_lims y_lims.
Proof.
  unfold plots__gen_boundary_constraints, gen_boundary. cbv zeta.
  rewrite termlist_init_eq. cbn [opt_list]. unfold py_append, dict_literal. cbn [fold_left dict_set dict_empty fst snd app].
  rewrite !init_eq by (constructor; [intros []|constructor]). reflexivity.
Qed.

(* ------------------------------------------------------------------ *)
(** * _substitute_in_termlist *)
(* the loop over the terms, read by its behaviour on one term (so the proof does not depend on generated names or on
   the let-structure of the body): substitute every value, then raise / skip / append *)
Lemma subst_loop body (vals : behavior) :
  (forall acc t, wft' t ->
     body acc t =
       let nt := subst_term t vals in
       if nonempty (term_vars_p nt) then ret (Continue (acc ++ [nt])%list)
       else if qlt (tconst nt) 0 then raise ValueErr else ret (Continue acc)) ->
  forall ts acc, Forall wft' ts ->
  for_list_m ts acc body = bind (substitute_in_termlist ts vals) (fun r => ret (acc ++ r)%list).
Proof.
  intros Hb. induction ts as [|t r IH]; intros acc Hts.
  - cbn. rewrite app_nil_r. reflexivity.
  - inversion Hts as [|? ? Ht Hr]; subst. cbn [for_list_m substitute_in_termlist].
    rewrite (Hb acc t Ht). cbv zeta.
    destruct (nonempty (term_vars_p (subst_term t vals))).
    + rewrite bind_ret_l, (IH _ Hr), !pbind_assoc. apply pbind_ext. intros r'.
      cbn [bind ret]. rewrite <- app_assoc. reflexivity.
    + destruct (qlt (tconst (subst_term t vals)) 0); [reflexivity|]. rewrite bind_ret_l. apply IH. exact Hr.
Qed.

Theorem substitute_in_termlist_eq ts vals :
  Forall wft' ts -> plots__substitute_in_termlist ts vals = substitute_in_termlist ts vals.
Proof.
  intros Hts. unfold plots__substitute_in_termlist. cbv zeta.
  rewrite (subst_loop _ vals).
  - rewrite pbind_assoc. destruct (substitute_in_termlist ts vals) as [r|e]; reflexivity.
  - intros acc t Ht. cbv zeta.
    rewrite (eval_inner _ vals) by (try (intros; reflexivity); exact Ht).
    rewrite bind_ret_l. fold (subst_term t vals). rewrite vars_eq. unfold list_truth, py_append, qgt, qge.
    destruct (nonempty (term_vars_p (subst_term t vals))); cbn [negb]; [reflexivity|].
    destruct (qlt (tconst (subst_term t vals)) (0 # 1)); reflexivity.
  - exact Hts.
Qed.

(* ------------------------------------------------------------------ *)
(** The precondition is necessary.  [wft' t] says that the keys of t are pairwise distinct (a Python dict) and that no
    STORED coefficient is zero (what PolyhedralTerm.__init__ guarantees; a zero can only get in by assigning to
    t.variables).  On a term with a stored zero the code's substitute_variable raises KeyError (its remove_variable
    works on a copy, which has dropped the zero), whereas model/Term.v answers (proofs/TermGenSubst.v:
    stored_zero_substitute).  Inside constraints_to_vertices the precondition always holds: `constraints | boundary`
    copies every term. *)
Local Open Scope string_scope.
Example substitute_stored_zero :
  let t := mkT [("z", 0%Q); ("x", 1%Q)] 1%Q in
  plots__substitute_in_termlist [t] [("z", 2 # 1)] = inr (Escape "KeyError")
  /\ substitute_in_termlist [t] [("z", 2 # 1)] = inl [mkT [("x", 1%Q)] 1%Q].
Proof. split; reflexivity. Qed.

(* the seeded defect C18c (a satisfied constant row is kept instead of skipped) is visible on this input *)
Example substitute_skips_satisfied_constant_row :
  plots__substitute_in_termlist [mkT [("z", 1%Q)] (3 # 1); mkT [("x", 1%Q)] 1%Q] [("z", 2 # 1)]
  = inl [mkT [("x", 1%Q)] 1%Q].
Proof. reflexivity. Qed.
Example substitute_raises_on_violated_constant_row :
  plots__substitute_in_termlist [mkT [("z", 1%Q)] 1%Q; mkT [("x", 1%Q)] 1%Q] [("z", 2 # 1)] = inr ValueErr.
Proof. reflexivity. Qed.
