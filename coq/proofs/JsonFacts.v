(* JsonFacts.v — facts about the executable model of the JSON side of pacti (model/Json.v).

   Summary (all statements hold for EVERY string->float function [s2f] and EVERY str() function [pstr]):
   - machine_roundtrip / write_read_roundtrip : reading back what to_machine_dict / write_contracts_to_file
     (machine representation) wrote gives the same contract (Leibniz equality);
   - validate_machine_iff : validate_contract_dict (machine) accepts EXACTLY the well-shaped dictionaries;
   - accepted_shape / accepted_reading : an accepted machine entry has exactly the required structure and
     is read as what it says (a wrong kind is never read as something else);
   - validate_then_from_dict : after validation, from_dict returns, raises IncompatibleArgsError, or raises
     OverflowError.  The last one is a REMAINING DEFECT of the Python (an integer literal >= 2^1024 - 2^970
     passes _is_number and float() overflows): [overflow_after_validation] exhibits it, and
     [validate_then_from_dict_no_escape] excludes it by [ints_floatable];
   - C14_json_machine(_floatable), C14_json_strings(_kw), C14_json_any, C14_file : which errors can leave
     read_contracts_from_file.  Second REMAINING DEFECT: for the string representation an unknown key in
     "data" escapes as TypeError (unexpected keyword argument): [unknown_key_escapes];
   - from_dict_errors : what the public from_dict alone (no validation) can raise, with one Example per
     escaping exception type — this documents what only validate_contract_dict protects against. *)
From Coq Require Import List String Bool QArith ZArith Lia.
Import ListNotations.
Require Import Py ListsGen Sem Term Json ListsFacts.
Local Open Scope string_scope.

(* ------------------------------------------------------------------ *)
(** * Monad plumbing *)
Ltac ur := unfold raise, ret in *.
Lemma forM_ok {A} (f : A -> M unit) l :
  forM f l = inl tt <-> Forall (fun x => f x = inl tt) l.
Proof.
  induction l as [|x r IH]; simpl.
  - split; [constructor|reflexivity].
  - split.
    + intros H. destruct (f x) as [[]|e] eqn:E; simpl in H; [|discriminate].
      constructor; [exact E|apply IH; exact H].
    + intros H. inversion H as [|? ? Hx Hr]; subst. rewrite Hx. simpl. apply IH. exact Hr.
Qed.

Lemma forM_err {A} (f : A -> M unit) l e :
  forM f l = inr e -> exists x, In x l /\ f x = inr e.
Proof.
  induction l as [|x r IH]; simpl; [discriminate|].
  destruct (f x) as [[]|e'] eqn:E; simpl; intros H.
  - destruct (IH H) as [y [Hy Hf]]. exists y. auto.
  - exists x. split; [auto|congruence].
Qed.

Lemma mapM_err {A B} (f : A -> M B) l e :
  mapM f l = inr e -> exists x, In x l /\ f x = inr e.
Proof.
  induction l as [|x r IH]; simpl; [discriminate|].
  destruct (f x) as [y|e'] eqn:E; simpl.
  - destruct (mapM f r) as [ys|e''] eqn:E2; simpl; intros H; [discriminate|].
    destruct (IH H) as [z [Hz Hf]]. exists z. split; [auto|congruence].
  - intros H. exists x. split; [auto|congruence].
Qed.

Lemma mapM_ok {A B} (f : A -> M B) l ys :
  mapM f l = inl ys -> Forall2 (fun x y => f x = inl y) l ys.
Proof.
  revert ys. induction l as [|x r IH]; simpl; intros ys H.
  - inversion H. constructor.
  - destruct (f x) as [y|e'] eqn:E; simpl in H; [|discriminate].
    destruct (mapM f r) as [ys'|e''] eqn:E2; simpl in H; [|discriminate].
    inversion H; subst. constructor; [exact E|apply IH; reflexivity].
Qed.

Lemma mapM_ok_intro {A B} (f : A -> M B) l ys :
  Forall2 (fun x y => f x = inl y) l ys -> mapM f l = inl ys.
Proof.
  induction 1 as [|x y r ys' Hx Hr IH]; simpl; [reflexivity|]. rewrite Hx. simpl. rewrite IH. reflexivity.
Qed.

Lemma fmt_check_ok b : fmt_check b = inl tt <-> b = true.
Proof. destruct b; simpl; split; intros H; try reflexivity; discriminate. Qed.
Lemma fmt_check_err b e : fmt_check b = inr e -> e = FormatErr.
Proof. destruct b; unfold fmt_check, ret, raise; intros H; [discriminate|congruence]. Qed.

(* ------------------------------------------------------------------ *)
(** * Shapes *)
Definition str_list_shaped (j : json) (l : list string) : Prop := j = JList (map JStr l).

Definition clause_shaped (x : json) : Prop :=
  exists cfs q b coefs,
    x = JObj cfs /\ jget "constant" cfs = Some (JNum q b) /\
    jget "coefficients" cfs = Some (JObj coefs) /\
    Forall (fun p => exists q' b', snd p = JNum q' b') coefs.

(* the machine representation of a contract *)
Definition machine_shaped (d : json) (la lg : list json) (li lo : list string) : Prop :=
  exists fs, d = JObj fs /\
    jget "assumptions" fs = Some (JList la) /\ Forall clause_shaped la /\
    jget "guarantees" fs = Some (JList lg) /\ Forall clause_shaped lg /\
    jget "input_vars" fs = Some (JList (map JStr li)) /\
    jget "output_vars" fs = Some (JList (map JStr lo)).

(* the string representation of a contract *)
Definition strings_shaped (d : json) (a g i o : list string) : Prop :=
  exists fs, d = JObj fs /\
    jget "assumptions" fs = Some (JList (map JStr a)) /\
    jget "guarantees" fs = Some (JList (map JStr g)) /\
    jget "input_vars" fs = Some (JList (map JStr i)) /\
    jget "output_vars" fs = Some (JList (map JStr o)).

(* a file entry holding a machine contract *)
Definition entry_shaped (j : json) (name : string) (la lg : list json) (li lo : list string) : Prop :=
  exists fs d,
    j = JObj fs /\ jget "name" fs = Some (JStr name) /\
    jget "type" fs = Some (JStr T_MACHINE) /\ jget "data" fs = Some d /\
    machine_shaped d la lg li lo.
Definition well_shaped (j : json) : Prop :=
  exists name la lg li lo, entry_shaped j name la lg li lo.

Lemma all_str_shape l :
  Forall (fun x => fmt_check (is_str x) = inl tt) l -> exists ss, l = map JStr ss.
Proof.
  induction 1 as [|x r Hx Hr [ss IH]].
  - exists []. reflexivity.
  - apply fmt_check_ok in Hx. destruct x; try discriminate. exists (s :: ss). simpl. congruence.
Qed.
Lemma all_str_shape_conv ss : Forall (fun x => fmt_check (is_str x) = inl tt) (map JStr ss).
Proof. induction ss; simpl; constructor; auto. Qed.

Lemma is_number_iff v : is_number v = true <-> exists q b, v = JNum q b.
Proof.
  split.
  - destruct v; simpl; try discriminate. eauto.
  - intros [q [b ->]]. reflexivity.
Qed.

Lemma check_clause_iff x : check_clause x = inl tt <-> clause_shaped x.
Proof.
  unfold clause_shaped. split.
  - destruct x as [| | | | |cfs]; simpl; try discriminate.
    destruct (jget "constant" cfs) as [cv|] eqn:Ec; [|discriminate].
    destruct (fmt_check (is_number cv)) as [[]|e] eqn:En; simpl; [|discriminate].
    apply fmt_check_ok in En. apply is_number_iff in En. destruct En as [q [b ->]].
    destruct (jget "coefficients" cfs) as [co|] eqn:Eo; [|discriminate].
    destruct co as [| | | | |coefs]; try discriminate.
    intros H. apply forM_ok in H. exists cfs, q, b, coefs. repeat split; auto.
    eapply Forall_impl; [|exact H]. intros p Hp. apply fmt_check_ok in Hp. apply is_number_iff in Hp. exact Hp.
  - intros [cfs [q [b [coefs [-> [Hc [Ho Hall]]]]]]]. simpl. rewrite Hc. simpl. rewrite Ho.
    apply forM_ok. eapply Forall_impl; [|exact Hall]. intros p Hp. apply fmt_check_ok. apply is_number_iff. exact Hp.
Qed.

Lemma check_clause_err x e : check_clause x = inr e -> e = FormatErr.
Proof.
  destruct x as [| | | | |cfs]; simpl; ur; try congruence.
  destruct (jget "constant" cfs) as [cv|]; [|ur; congruence].
  destruct (fmt_check (is_number cv)) as [[]|e'] eqn:En; simpl.
  - destruct (jget "coefficients" cfs) as [co|]; [|ur; congruence].
    destruct co; ur; try congruence. intros H. apply forM_err in H. destruct H as [p [_ Hp]].
    apply fmt_check_err in Hp. exact Hp.
  - apply fmt_check_err in En. congruence.
Qed.

(** validate_contract_dict raises nothing but ContractFormatError *)
Lemma validate_kw_err fs machine kw e : validate_kw fs machine kw = inr e -> e = FormatErr.
Proof.
  unfold validate_kw. destruct (jget kw fs) as [v|]; [|ur; congruence].
  destruct v; ur; try congruence.
  destruct (py_in kw _).
  - intros H. apply forM_err in H. destruct H as [x [_ Hx]]. apply fmt_check_err in Hx. exact Hx.
  - destruct machine; [|ur; discriminate].
    intros H. apply forM_err in H. destruct H as [x [_ Hx]]. apply check_clause_err in Hx. exact Hx.
Qed.

Theorem validate_only_format_error d machine e :
  validate_contract_dict d machine = inr e -> e = FormatErr.
Proof.
  destruct d; unfold validate_contract_dict; ur; try congruence.
  intros H. apply forM_err in H. destruct H as [kw [_ Hk]]. apply validate_kw_err in Hk. exact Hk.
Qed.

(** validate_contract_dict (machine) accepts exactly the machine-shaped dictionaries *)
Theorem validate_machine_iff d :
  validate_contract_dict d true = inl tt <-> exists la lg li lo, machine_shaped d la lg li lo.
Proof.
  split.
  - destruct d as [| | | | |fs]; unfold validate_contract_dict; ur; try discriminate.
    intros H. apply forM_ok in H. unfold contract_keywords in H.
    inversion H as [|? ? Ha H1]; subst. inversion H1 as [|? ? Hg H2]; subst.
    inversion H2 as [|? ? Hi H3]; subst. inversion H3 as [|? ? Ho _]; subst. clear H H1 H2 H3.
    unfold validate_kw in *. simpl in *.
    destruct (jget "assumptions" fs) as [[| | | | la |]|] eqn:Ela; try discriminate.
    destruct (jget "guarantees" fs) as [[| | | | lg |]|] eqn:Elg; try discriminate.
    destruct (jget "input_vars" fs) as [[| | | | li |]|] eqn:Eli; try discriminate.
    destruct (jget "output_vars" fs) as [[| | | | lo |]|] eqn:Elo; try discriminate.
    apply forM_ok in Ha, Hg, Hi, Ho.
    apply all_str_shape in Hi, Ho. destruct Hi as [li' ->]. destruct Ho as [lo' ->].
    exists la, lg, li', lo', fs. repeat split; auto.
    + eapply Forall_impl; [|exact Ha]. intros x. apply check_clause_iff.
    + eapply Forall_impl; [|exact Hg]. intros x. apply check_clause_iff.
  - intros [la [lg [li [lo [fs [-> [Ha [Hca [Hg [Hcg [Hi Ho]]]]]]]]]]]. simpl.
    unfold validate_kw. simpl. rewrite Ha, Hg, Hi, Ho. simpl.
    assert (Xa : forM check_clause la = inl tt).
    { apply forM_ok. eapply Forall_impl; [|exact Hca]. intros x. apply check_clause_iff. }
    assert (Xg : forM check_clause lg = inl tt).
    { apply forM_ok. eapply Forall_impl; [|exact Hcg]. intros x. apply check_clause_iff. }
    rewrite Xa, Xg. simpl.
    assert (Xi : forM (fun x => fmt_check (is_str x)) (map JStr li) = inl tt)
      by (apply forM_ok; apply all_str_shape_conv).
    assert (Xo : forM (fun x => fmt_check (is_str x)) (map JStr lo) = inl tt)
      by (apply forM_ok; apply all_str_shape_conv).
    rewrite Xi, Xo. reflexivity.
Qed.

(** validate_contract_dict (strings) accepts exactly the dictionaries with four lists of strings *)
Theorem validate_strings_iff d :
  validate_contract_dict d false = inl tt <-> exists a g i o, strings_shaped d a g i o.
Proof.
  split.
  - destruct d as [| | | | |fs]; unfold validate_contract_dict; ur; try discriminate.
    intros H. apply forM_ok in H. unfold contract_keywords in H.
    inversion H as [|? ? Ha H1]; subst. inversion H1 as [|? ? Hg H2]; subst.
    inversion H2 as [|? ? Hi H3]; subst. inversion H3 as [|? ? Ho _]; subst. clear H H1 H2 H3.
    unfold validate_kw in *. simpl in *.
    destruct (jget "assumptions" fs) as [[| | | | la |]|] eqn:Ela; try discriminate.
    destruct (jget "guarantees" fs) as [[| | | | lg |]|] eqn:Elg; try discriminate.
    destruct (jget "input_vars" fs) as [[| | | | li |]|] eqn:Eli; try discriminate.
    destruct (jget "output_vars" fs) as [[| | | | lo |]|] eqn:Elo; try discriminate.
    apply forM_ok in Ha, Hg, Hi, Ho.
    apply all_str_shape in Ha, Hg, Hi, Ho.
    destruct Ha as [a ->]. destruct Hg as [g ->]. destruct Hi as [i ->]. destruct Ho as [o ->].
    exists a, g, i, o, fs. repeat split; auto.
  - intros [a [g [i [o [fs [-> [Ha [Hg [Hi Ho]]]]]]]]]. simpl.
    unfold validate_kw. simpl. rewrite Ha, Hg, Hi, Ho. simpl.
    assert (X : forall l, forM (fun x => fmt_check (is_str x)) (map JStr l) = inl tt)
      by (intros l; apply forM_ok; apply all_str_shape_conv).
    rewrite !X. reflexivity.
Qed.

(* ------------------------------------------------------------------ *)
(** * Integers that float() can convert *)
(* every integer literal of the value is below the overflow threshold of float() *)
Fixpoint ints_floatable (j : json) : Prop :=
  match j with
  | JNum q true => round_to_double q <> None
  | JList l => (fix all (l : list json) : Prop :=
                  match l with [] => True | x :: r => ints_floatable x /\ all r end) l
  | JObj fs => (fix all (l : list (string * json)) : Prop :=
                  match l with [] => True | p :: r => ints_floatable (snd p) /\ all r end) fs
  | _ => True
  end.

Lemma ints_floatable_list l : ints_floatable (JList l) <-> Forall ints_floatable l.
Proof.
  simpl. induction l as [|x r IH].
  - split; constructor.
  - split.
    + intros [Hx Hr]. constructor; [exact Hx|apply IH; exact Hr].
    + intros H. inversion H; subst. split; [assumption|apply IH; assumption].
Qed.
Lemma ints_floatable_obj fs : ints_floatable (JObj fs) <-> Forall (fun p => ints_floatable (snd p)) fs.
Proof.
  simpl. induction fs as [|x r IH].
  - split; constructor.
  - split.
    + intros [Hx Hr]. constructor; [exact Hx|apply IH; exact Hr].
    + intros H. inversion H; subst. split; [assumption|apply IH; assumption].
Qed.

Lemma jget_in k fs v : jget k fs = Some v -> In (k, v) fs.
Proof.
  induction fs as [|[k' v'] r IH]; simpl; [discriminate|].
  destruct (String.eqb k' k) eqn:E.
  - apply String.eqb_eq in E. subst. intros H. inversion H. left. reflexivity.
  - intros H. right. apply IH. exact H.
Qed.
Lemma ints_floatable_jget k fs v : ints_floatable (JObj fs) -> jget k fs = Some v -> ints_floatable v.
Proof.
  intros H Hg. apply ints_floatable_obj in H. apply jget_in in Hg.
  rewrite Forall_forall in H. apply (H _ Hg).
Qed.

(* the thresholds: 2^1024 - 2^970 is the least positive integer float() refuses *)
Example float_of_int_limit :
  round_to_double (inject_Z (2 ^ 1024 - 2 ^ 970 - 1)) = Some (inject_Z (2 ^ 1024 - 2 ^ 971))
  /\ round_to_double (inject_Z (2 ^ 1024 - 2 ^ 970)) = None
  /\ round_to_double (inject_Z (- (2 ^ 1024 - 2 ^ 970))) = None.
Proof. repeat split; vm_compute; reflexivity. Qed.
(* integers up to 2^53 are exact, then round-half-even *)
Example float_of_int_rounding :
  round_to_double (inject_Z (2 ^ 53)) = Some (inject_Z (2 ^ 53))
  /\ round_to_double (inject_Z (2 ^ 53 + 1)) = Some (inject_Z (2 ^ 53))
  /\ round_to_double (inject_Z (2 ^ 53 + 3)) = Some (inject_Z (2 ^ 53 + 4)).
Proof. repeat split; vm_compute; reflexivity. Qed.

(* ------------------------------------------------------------------ *)
(** * Reading a validated dictionary *)
Definition ovf : err := Escape "OverflowError".

(* the number a JSON number is read as *)
Definition num_reads (v : json) (r : Q) : Prop :=
  exists q b, v = JNum q b /\ (if b : bool then round_to_double q = Some r else r = q).
(* the coefficient dict: zero values are skipped, order kept *)
Definition coefs_read (coefs : list (string * json)) (vs : pvars) : Prop :=
  Forall2 (fun kv p => fst p = fst kv /\ num_reads (snd kv) (snd p))
          (filter (fun kv => ne_zero (snd kv)) coefs) vs.
(* the term PolyhedralTerm(...) builds from a clause *)
Definition clause_reads_raw (x : json) (t : pterm) : Prop :=
  exists cfs cv coefs,
    x = JObj cfs /\ jget "constant" cfs = Some cv /\ num_reads cv (tconst t) /\
    jget "coefficients" cfs = Some (JObj coefs) /\ coefs_read coefs (tvars t).
(* ... and the copy IoContract.__init__ stores *)
Definition clause_reads (x : json) (t : pterm) : Prop :=
  exists t0, clause_reads_raw x t0 /\ t = term_copy t0.

Section Reading.
Context (s2f : string -> option Q) (pstr : json -> string).

Lemma py_float_num q b :
  (exists r, py_float s2f (JNum q b) = inl r /\ num_reads (JNum q b) r)
  \/ (py_float s2f (JNum q b) = inr ovf /\ ~ ints_floatable (JNum q b)).
Proof.
  destruct b; simpl.
  - unfold int_to_float. destruct (round_to_double q) as [r|] eqn:E.
    + left. exists r. split; [reflexivity|]. exists q, true. split; [reflexivity|exact E].
    + right. split; [reflexivity|]. intros H. apply H. reflexivity.
  - left. exists q. split; [reflexivity|]. exists q, false. split; reflexivity.
Qed.

Local Arguments py_float : simpl never.

Lemma coef_loop_num coefs :
  Forall (fun p => exists q b, snd p = JNum q b) coefs ->
  (exists vs, coef_loop s2f coefs = inl vs /\ coefs_read coefs vs)
  \/ (coef_loop s2f coefs = inr ovf /\ ~ ints_floatable (JObj coefs)).
Proof.
  induction 1 as [|[k v] r [q [b Hv]] Hr IH]; simpl in *.
  - left. exists []. split; [reflexivity|constructor].
  - subst v. unfold coefs_read. simpl.
    destruct (negb (qzero q)) eqn:Ez.
    + destruct (py_float_num q b) as [[x [Hx Hrd]]|[Hx Hnf]].
      * rewrite Hx. simpl.
        destruct IH as [[vs [Hvs Hrs]]|[Hvs Hnf]].
        -- rewrite Hvs. simpl. left. exists ((k, x) :: vs). split; [reflexivity|].
           constructor; [split; [reflexivity|exact Hrd]|exact Hrs].
        -- rewrite Hvs. simpl. right. split; [reflexivity|]. intros [_ H]. apply Hnf. exact H.
      * rewrite Hx. simpl. right. split; [reflexivity|]. intros [H _]. apply Hnf. exact H.
    + destruct IH as [[vs [Hvs Hrs]]|[Hvs Hnf]].
      * left. exists vs. split; [exact Hvs|exact Hrs].
      * right. split; [exact Hvs|]. intros [_ H]. apply Hnf. exact H.
Qed.

Lemma build_term_shaped x :
  clause_shaped x ->
  (exists t, build_term s2f x = inl t /\ clause_reads_raw x t)
  \/ (build_term s2f x = inr ovf /\ ~ ints_floatable x).
Proof.
  intros [cfs [q [b [coefs [-> [Hc [Ho Hall]]]]]]]. simpl. rewrite Ho, Hc.
  destruct (py_float_num q b) as [[c [Hx Hrd]]|[Hx Hnf]].
  - rewrite Hx. simpl bind.
    destruct (coef_loop_num coefs Hall) as [[vs [Hvs Hrs]]|[Hvs Hnf]].
    + rewrite Hvs. simpl. left. exists (mkT vs c). split; [reflexivity|].
      exists cfs, (JNum q b), coefs. simpl. repeat split; auto.
    + rewrite Hvs. simpl. right. split; [reflexivity|]. intros H. apply Hnf.
      eapply ints_floatable_jget; [exact H|exact Ho].
  - rewrite Hx. simpl. right. split; [reflexivity|]. intros H. apply Hnf.
    eapply ints_floatable_jget; [exact H|exact Hc].
Qed.

Lemma clause_shaped_is_obj l : Forall clause_shaped l -> forallb is_obj l = true.
Proof.
  induction 1 as [|x r [cfs [q [b [coefs [-> _]]]]] Hr IH]; simpl; [reflexivity|exact IH].
Qed.

Lemma mapM_build_term_shaped l :
  Forall clause_shaped l ->
  (exists ts, mapM (build_term s2f) l = inl ts /\ Forall2 clause_reads_raw l ts)
  \/ (mapM (build_term s2f) l = inr ovf /\ ~ ints_floatable (JList l)).
Proof.
  induction 1 as [|x r Hx Hr IH].
  - left. exists []. split; [reflexivity|constructor].
  - simpl mapM. destruct (build_term_shaped x Hx) as [[t [Ht Hrd]]|[Ht Hnf]].
    + rewrite Ht. simpl bind.
      destruct IH as [[ts [Hts Hrs]]|[Hts Hnf]].
      * rewrite Hts. simpl. left. exists (t :: ts). split; [reflexivity|]. constructor; assumption.
      * rewrite Hts. simpl. right. split; [reflexivity|]. intros [_ H]. apply Hnf. exact H.
    + rewrite Ht. simpl. right. split; [reflexivity|]. intros [H _]. apply Hnf. exact H.
Qed.

Lemma build_terms_shaped l :
  Forall clause_shaped l ->
  (exists ts, build_terms s2f (JList l) = inl ts /\ Forall2 clause_reads_raw l ts)
  \/ (build_terms s2f (JList l) = inr ovf /\ ~ ints_floatable (JList l)).
Proof.
  intros H. unfold build_terms. simpl py_iter. unfold ret, bind.
  rewrite (clause_shaped_is_obj l H). apply mapM_build_term_shaped. exact H.
Qed.

Lemma map_py_var_strs l : map (py_var pstr) (map JStr l) = l.
Proof. induction l as [|x r IH]; simpl; [reflexivity|]. rewrite IH. reflexivity. Qed.

Lemma pc_init_cases a g i o :
  (exists c, pc_init a g i o = inl c /\ pa c = map term_copy a /\ pg c = map term_copy g /\ pin c = i /\ pout c = o)
  \/ pc_init a g i o = inr IncompatibleArgs.
Proof.
  unfold pc_init.
  destruct (has_dup i); [right; reflexivity|].
  destruct (has_dup o); [right; reflexivity|].
  destruct (nonempty (list_intersection i o)); [right; reflexivity|].
  destruct (nonempty (list_diff (tl_vars a) i)); [right; reflexivity|].
  destruct (nonempty (list_diff (tl_vars g) (list_union i o))); [right; reflexivity|].
  left. eexists. split; [reflexivity|]. simpl. auto.
Qed.

Lemma Forall2_impl' {A B} (P Q : A -> B -> Prop) l1 l2 :
  (forall x y, P x y -> Q x y) -> Forall2 P l1 l2 -> Forall2 Q l1 l2.
Proof. intros H. induction 1; constructor; auto. Qed.
Lemma Forall2_map_r {A B C} (P : A -> C -> Prop) (f : B -> C) l1 l2 :
  Forall2 (fun x y => P x (f y)) l1 l2 -> Forall2 P l1 (map f l2).
Proof. induction 1; simpl; constructor; auto. Qed.

(** from_dict on a machine-shaped dictionary: the three possible outcomes, each characterised *)
Lemma from_dict_shaped d la lg li lo :
  machine_shaped d la lg li lo ->
  (exists c, from_dict s2f pstr d = inl c /\
             pin c = li /\ pout c = lo /\ Forall2 clause_reads la (pa c) /\ Forall2 clause_reads lg (pg c))
  \/ from_dict s2f pstr d = inr IncompatibleArgs
  \/ (from_dict s2f pstr d = inr ovf /\ ~ ints_floatable d).
Proof.
  intros [fs [-> [Ha [Hca [Hg [Hcg [Hi Ho]]]]]]].
  unfold from_dict, contract_keywords, jhas. simpl forallb. rewrite Ha, Hg, Hi, Ho. simpl negb. cbv iota.
  destruct (build_terms_shaped la Hca) as [[a [Hba Hra]]|[Hba Hnf]].
  - rewrite Hba. simpl bind.
    destruct (build_terms_shaped lg Hcg) as [[g [Hbg Hrg]]|[Hbg Hnf]].
    + rewrite Hbg. simpl bind. rewrite !map_py_var_strs.
      destruct (pc_init_cases a g li lo) as [[c [Hc [Hpa [Hpg [Hpi Hpo]]]]]|Hc].
      * left. exists c. rewrite Hpa, Hpg. repeat split; auto.
        -- apply Forall2_map_r. eapply Forall2_impl'; [|exact Hra]. intros x t Hx. exists t. auto.
        -- apply Forall2_map_r. eapply Forall2_impl'; [|exact Hrg]. intros x t Hx. exists t. auto.
      * right. left. exact Hc.
    + rewrite Hbg. simpl. right. right. split; [reflexivity|]. intros H. apply Hnf.
      eapply ints_floatable_jget; [exact H|exact Hg].
  - rewrite Hba. simpl. right. right. split; [reflexivity|]. intros H. apply Hnf.
    eapply ints_floatable_jget; [exact H|exact Ha].
Qed.

(** Theorem 4 (exact form): after validation from_dict returns, or raises IncompatibleArgsError, or
    escapes with OverflowError — nothing else *)
Theorem validate_then_from_dict d :
  validate_contract_dict d true = inl tt ->
  match from_dict s2f pstr d with
  | inl _ => True
  | inr e => e = IncompatibleArgs \/ (e = Escape "OverflowError" /\ ~ ints_floatable d)
  end.
Proof.
  intros H. apply validate_machine_iff in H. destruct H as [la [lg [li [lo H]]]].
  destruct (from_dict_shaped d la lg li lo H) as [[c [Hc _]]|[Hc|[Hc Hnf]]]; rewrite Hc; auto.
Qed.

(** Theorem 4: no Escape when every integer literal is in the range of float() *)
Theorem validate_then_from_dict_no_escape d :
  validate_contract_dict d true = inl tt -> ints_floatable d ->
  match from_dict s2f pstr d with
  | inl _ => True
  | inr e => e = IncompatibleArgs
  end.
Proof.
  intros H Hf. pose proof (validate_then_from_dict d H) as X.
  destruct (from_dict s2f pstr d) as [c|e]; [exact I|].
  destruct X as [X|[_ X]]; [exact X|contradiction].
Qed.

End Reading.

(* ------------------------------------------------------------------ *)
(** * Round trip: from_dict (to_machine_dict c) = c *)
(* what PolyhedralTerm.__init__ guarantees: distinct keys, no stored zero *)
Definition wf_term (t : pterm) : Prop :=
  NoDup (keys (tvars t)) /\ Forall (fun p => ~ (snd p == 0)%Q) (tvars t).
(* what IoContract.__init__ guarantees *)
Record wf_pc (c : pcontract) : Prop := {
  wf_in : NoDup (pin c);
  wf_out : NoDup (pout c);
  wf_disj : forall x, In x (pin c) -> ~ In x (pout c);
  wf_a_vars : incl (tl_vars (pa c)) (pin c);
  wf_g_vars : incl (tl_vars (pg c)) (pin c ++ pout c);
  wf_a : Forall wf_term (pa c);
  wf_g : Forall wf_term (pg c)
}.

Lemma filter_nil {A} (f : A -> bool) l : (forall x, In x l -> f x = false) -> filter f l = [].
Proof.
  induction l as [|x r IH]; simpl; intros H; [reflexivity|].
  rewrite (H x (or_introl eq_refl)). apply IH. intros y Hy. apply H. right. exact Hy.
Qed.

Lemma nz_filter_id (l : pvars) :
  Forall (fun p => ~ (snd p == 0)%Q) l -> filter (fun p => negb (qzero (snd p))) l = l.
Proof.
  induction 1 as [|p r Hp Hr IH]; simpl; [reflexivity|].
  assert (E : qzero (snd p) = false).
  { unfold qzero. destruct (Qeq_bool (snd p) 0) eqn:E; [|reflexivity].
    apply Qeq_bool_iff in E. contradiction. }
  rewrite E. simpl. rewrite IH. reflexivity.
Qed.

Lemma term_copy_id t : wf_term t -> term_copy t = t.
Proof.
  intros [_ H]. unfold term_copy, mk_term. rewrite (nz_filter_id _ H). destruct t; reflexivity.
Qed.
Lemma map_term_copy_id ts : Forall wf_term ts -> map term_copy ts = ts.
Proof.
  induction 1 as [|t r Ht Hr IH]; simpl; [reflexivity|]. rewrite (term_copy_id t Ht), IH. reflexivity.
Qed.

Section RoundTrip.
Context (s2f : string -> option Q) (pstr : json -> string).

Lemma coef_loop_to_json (l : pvars) :
  Forall (fun p => ~ (snd p == 0)%Q) l ->
  coef_loop s2f (map (fun p => (fst p, JNum (snd p) false)) l) = inl l.
Proof.
  induction 1 as [|[k q] r Hp Hr IH]; simpl; [reflexivity|]. simpl in Hp.
  assert (E : qzero q = false).
  { unfold qzero. destruct (Qeq_bool q 0) eqn:E; [|reflexivity]. apply Qeq_bool_iff in E. contradiction. }
  rewrite E. simpl. rewrite IH. reflexivity.
Qed.

Lemma build_term_to_json t : wf_term t -> build_term s2f (term_to_json t) = inl t.
Proof.
  intros [_ H]. unfold term_to_json, build_term. simpl jget. simpl py_float. unfold ret, bind.
  rewrite (coef_loop_to_json _ H). destruct t; reflexivity.
Qed.

Lemma build_terms_to_json ts :
  Forall wf_term ts -> build_terms s2f (JList (map term_to_json ts)) = inl ts.
Proof.
  intros H. unfold build_terms. simpl py_iter. unfold ret, bind.
  assert (E : forallb is_obj (map term_to_json ts) = true)
    by (clear H; induction ts; simpl; auto).
  rewrite E. apply mapM_ok_intro. clear E. induction H as [|t r Ht Hr IH]; simpl; constructor.
  - apply build_term_to_json. exact Ht.
  - exact IH.
Qed.

Lemma pc_init_wf c : wf_pc c -> pc_init (pa c) (pg c) (pin c) (pout c) = inl c.
Proof.
  intros [Hi Ho Hd Ha Hg Hta Htg]. unfold pc_init.
  apply has_dup_false in Hi, Ho. rewrite Hi, Ho.
  assert (E1 : list_intersection (pin c) (pout c) = []).
  { apply filter_nil. intros x Hx. apply py_in_var_false. apply Hd. exact Hx. }
  assert (E2 : list_diff (tl_vars (pa c)) (pin c) = []).
  { apply filter_nil. intros x Hx. apply negb_false_iff. apply py_in_var. apply Ha. exact Hx. }
  assert (E3 : list_diff (tl_vars (pg c)) (list_union (pin c) (pout c)) = []).
  { apply filter_nil. intros x Hx. apply negb_false_iff. apply py_in_var. apply in_list_union.
    apply in_app_iff. apply Hg. exact Hx. }
  rewrite E1, E2, E3. simpl.
  rewrite (map_term_copy_id _ Hta), (map_term_copy_id _ Htg). destruct c; reflexivity.
Qed.

(** Theorem 1 *)
Theorem machine_roundtrip c : wf_pc c -> from_dict s2f pstr (to_machine_dict c) = inl c.
Proof.
  intros H. unfold to_machine_dict, from_dict, contract_keywords, jhas. simpl jget. simpl forallb. simpl negb. cbv iota.
  rewrite (build_terms_to_json _ (wf_a c H)). simpl bind.
  rewrite (build_terms_to_json _ (wf_g c H)). simpl bind.
  rewrite !map_py_var_strs. apply pc_init_wf. exact H.
Qed.

(** the written dictionary passes the validator *)
Lemma term_to_json_shaped t : clause_shaped (term_to_json t).
Proof.
  unfold clause_shaped, term_to_json. do 4 eexists. split; [reflexivity|]. simpl.
  repeat split. apply Forall_forall. intros p Hp. apply in_map_iff in Hp.
  destruct Hp as [x [<- _]]. simpl. eauto.
Qed.
Lemma to_machine_dict_shaped c :
  machine_shaped (to_machine_dict c) (map term_to_json (pa c)) (map term_to_json (pg c)) (pin c) (pout c).
Proof.
  unfold machine_shaped, to_machine_dict. eexists. split; [reflexivity|]. simpl.
  repeat split; apply Forall_forall; intros x Hx; apply in_map_iff in Hx;
    destruct Hx as [t [<- _]]; apply term_to_json_shaped.
Qed.
Theorem to_machine_dict_validates c : validate_contract_dict (to_machine_dict c) true = inl tt.
Proof. apply validate_machine_iff. do 4 eexists. apply to_machine_dict_shaped. Qed.

(** write_contracts_to_file then read_contracts_from_file (machine representation) *)
Theorem write_read_roundtrip name c :
  wf_pc c -> read_entry s2f pstr (write_entry_machine name c) = inl (name, LMachine c).
Proof.
  intros H. unfold read_entry, write_entry_machine, check_entry, load_entry, jhas. simpl jget. simpl forallb.
  simpl fmt_check. unfold ret at 1. unfold bind at 1. unfold ret at 1. unfold bind at 1.
  unfold load_typed, str_of. rewrite String.eqb_refl.
  rewrite to_machine_dict_validates. unfold bind at 1. rewrite (machine_roundtrip c H). reflexivity.
Qed.

Theorem write_read_file_roundtrip cs :
  Forall (fun p => wf_pc (snd p)) cs ->
  read_file s2f pstr (write_file_machine cs) = inl (map (fun p => (fst p, LMachine (snd p))) cs).
Proof.
  intros H. unfold read_file, write_file_machine.
  assert (E : forM check_entry (map (fun p => write_entry_machine (fst p) (snd p)) cs) = inl tt).
  { apply forM_ok. apply Forall_forall. intros x Hx. apply in_map_iff in Hx. destruct Hx as [p [<- _]]. reflexivity. }
  rewrite E. simpl bind. apply mapM_ok_intro. clear E.
  induction H as [|p r Hp Hr IH]; simpl; [constructor|]. constructor; [|exact IH].
  pose proof (write_read_roundtrip (fst p) (snd p) Hp) as X.
  unfold read_entry in X. destruct p as [n c]. simpl in *. exact X.
Qed.

End RoundTrip.

(** what is written is a JSON document json.load can return (no duplicate keys) *)
Lemma json_wf_list l : json_wf (JList l) <-> Forall json_wf l.
Proof.
  simpl. induction l as [|x r IH].
  - split; constructor.
  - split.
    + intros [Hx Hr]. constructor; [exact Hx|apply IH; exact Hr].
    + intros H. inversion H; subst. split; [assumption|apply IH; assumption].
Qed.
Lemma json_wf_obj fs : json_wf (JObj fs) <-> NoDup (jkeys fs) /\ Forall (fun p => json_wf (snd p)) fs.
Proof.
  simpl. apply and_iff_compat_l. induction fs as [|x r IH].
  - split; constructor.
  - split.
    + intros [Hx Hr]. constructor; [exact Hx|apply IH; exact Hr].
    + intros H. inversion H; subst. split; [assumption|apply IH; assumption].
Qed.
Lemma json_wf_strs l : json_wf (JList (map JStr l)).
Proof. apply json_wf_list. apply Forall_forall. intros x Hx. apply in_map_iff in Hx. destruct Hx as [s [<- _]]. exact I. Qed.

Lemma term_to_json_wf t : wf_term t -> json_wf (term_to_json t).
Proof.
  intros [Hnd _]. unfold term_to_json. apply json_wf_obj. split.
  - simpl. repeat constructor; simpl; intuition discriminate.
  - constructor; [exact I|]. constructor; [|constructor]. simpl snd.
    apply json_wf_obj. split.
    + unfold jkeys. rewrite map_map. simpl. exact Hnd.
    + apply Forall_forall. intros p Hp. apply in_map_iff in Hp. destruct Hp as [x [<- _]]. exact I.
Qed.

Theorem to_machine_dict_wf c : wf_pc c -> json_wf (to_machine_dict c).
Proof.
  intros H. unfold to_machine_dict. apply json_wf_obj. split.
  - simpl. repeat constructor; simpl; intuition discriminate.
  - constructor; [|constructor; [|constructor; [|constructor; [|constructor]]]]; simpl snd.
    + apply json_wf_strs.
    + apply json_wf_strs.
    + apply json_wf_list. apply Forall_forall. intros x Hx. apply in_map_iff in Hx.
      destruct Hx as [t [<- Ht]]. apply term_to_json_wf.
      pose proof (wf_a c H) as X. rewrite Forall_forall in X. apply X. exact Ht.
    + apply json_wf_list. apply Forall_forall. intros x Hx. apply in_map_iff in Hx.
      destruct Hx as [t [<- Ht]]. apply term_to_json_wf.
      pose proof (wf_g c H) as X. rewrite Forall_forall in X. apply X. exact Ht.
Qed.

(* ------------------------------------------------------------------ *)
(** * read_contracts_from_file *)
Definition jtype (j : json) : option json := match j with JObj fs => jget "type" fs | _ => None end.
Definition jdata (j : json) : option json := match j with JObj fs => jget "data" fs | _ => None end.
Definition string_kwargs : list string := contract_keywords ++ ["simplify"].

Lemma check_entry_err j e : check_entry j = inr e -> e = FormatErr.
Proof.
  destruct j as [| | | | |fs]; unfold check_entry; ur; try congruence.
  destruct (fmt_check _) as [[]|e'] eqn:E; simpl.
  - destruct (jget "name" fs) as [[]|]; congruence.
  - apply fmt_check_err in E. congruence.
Qed.

Lemma check_entry_ok j :
  check_entry j = inl tt <->
  exists fs name ty d, j = JObj fs /\ jget "name" fs = Some (JStr name) /\
                       jget "type" fs = Some ty /\ jget "data" fs = Some d.
Proof.
  split.
  - destruct j as [| | | | |fs]; unfold check_entry; ur; try discriminate.
    unfold jhas. simpl forallb.
    destruct (jget "type" fs) as [ty|] eqn:Et; [|discriminate].
    destruct (jget "name" fs) as [nm|] eqn:En; [|discriminate].
    destruct (jget "data" fs) as [d|] eqn:Ed; [|discriminate].
    simpl. destruct nm; try discriminate. intros _. exists fs, s, ty, d. repeat split; assumption.
  - intros [fs [name [ty [d [-> [Hn [Ht Hd]]]]]]]. unfold check_entry, jhas. simpl forallb.
    rewrite Hn, Ht, Hd. reflexivity.
Qed.

Lemma forallb_false {A} (f : A -> bool) l : forallb f l = false -> exists x, In x l /\ f x = false.
Proof.
  induction l as [|x r IH]; simpl; [discriminate|].
  destruct (f x) eqn:E; simpl.
  - intros H. destruct (IH H) as [y [Hy Hf]]. exists y. auto.
  - intros _. exists x. auto.
Qed.

Lemma strs_of_strs l : strs_of (JList (map JStr l)) = l.
Proof. simpl. induction l as [|x r IH]; simpl; [reflexivity|]. rewrite IH. reflexivity. Qed.

Section Reader.
Context (s2f : string -> option Q) (pstr : json -> string).
Notation read_entry := (read_entry s2f pstr).
Notation load_typed := (load_typed s2f pstr).
Notation read_file := (read_file s2f pstr).
Notation from_dict := (from_dict s2f pstr).

(** one entry: either the shape loop rejects it, or the type dispatch decides *)
Lemma read_entry_inv j :
  read_entry j = inr FormatErr
  \/ exists fs name ty d, j = JObj fs /\ jget "name" fs = Some (JStr name) /\
                          jget "type" fs = Some ty /\ jget "data" fs = Some d /\
                          read_entry j = load_typed ty name d.
Proof.
  unfold Json.read_entry. destruct (check_entry j) as [[]|e] eqn:E.
  - right. apply check_entry_ok in E. destruct E as [fs [name [ty [d [-> [Hn [Ht Hd]]]]]]].
    exists fs, name, ty, d. repeat split; auto. simpl. rewrite Hn, Ht, Hd. reflexivity.
  - left. apply check_entry_err in E. subst. reflexivity.
Qed.

Lemma load_typed_cases ty name d :
  ty = JStr T_MACHINE \/ ty = JStr T_STRINGS \/ ty = JStr T_COMPOUND \/ load_typed ty name d = inr ValueErr.
Proof.
  destruct ty as [| | |t| |]; try (right; right; right; reflexivity).
  unfold Json.load_typed.
  destruct (String.eqb t T_MACHINE) eqn:E1; [apply String.eqb_eq in E1; subst; auto|].
  destruct (String.eqb t T_STRINGS) eqn:E2; [apply String.eqb_eq in E2; subst; auto|].
  destruct (String.eqb t T_COMPOUND) eqn:E3; [apply String.eqb_eq in E3; subst; auto|].
  right. right. right. reflexivity.
Qed.

(** the machine branch *)
Lemma load_machine name d :
  match load_typed (JStr T_MACHINE) name d with
  | inl r => exists c la lg li lo,
      r = (name, LMachine c) /\ machine_shaped d la lg li lo /\
      pin c = li /\ pout c = lo /\ Forall2 clause_reads la (pa c) /\ Forall2 clause_reads lg (pg c)
  | inr e => e = FormatErr \/ e = IncompatibleArgs \/ (e = ovf /\ ~ ints_floatable d)
  end.
Proof.
  change (load_typed (JStr T_MACHINE) name d)
    with (_ <- validate_contract_dict d true ;; c <- from_dict d ;; ret (name, LMachine c)).
  destruct (validate_contract_dict d true) as [[]|e] eqn:E.
  - simpl bind. apply validate_machine_iff in E. destruct E as [la [lg [li [lo Hs]]]].
    destruct (from_dict_shaped s2f pstr d la lg li lo Hs) as [[c [Hc [Hi [Ho [Ha Hg]]]]]|[Hc|[Hc Hnf]]];
      rewrite Hc; simpl.
    + exists c, la, lg, li, lo. auto 10.
    + auto.
    + auto.
  - simpl. left. eapply validate_only_format_error. exact E.
Qed.

Lemma bind_kwargs_cases req opt d :
  bind_kwargs req opt d = inl tt \/ bind_kwargs req opt d = inr (Escape "TypeError").
Proof.
  unfold bind_kwargs. destruct d; auto. destruct (_ && _); auto.
Qed.

(** the string branch: on success the four fields are lists of strings, handed over unchanged *)
Lemma load_strings name d :
  match load_typed (JStr T_STRINGS) name d with
  | inl r => exists a g i o s, r = (name, LStrings a g i o s) /\ strings_shaped d a g i o
  | inr e => e = FormatErr
             \/ (e = Escape "TypeError" /\
                 exists fs k, d = JObj fs /\ In k (jkeys fs) /\ ~ In k string_kwargs)
  end.
Proof.
  change (load_typed (JStr T_STRINGS) name d)
    with (_ <- validate_contract_dict d false ;;
          _ <- bind_kwargs contract_keywords ["simplify"] d ;;
          ret (name, LStrings (strs_of (jget_or_null "assumptions" d)) (strs_of (jget_or_null "guarantees" d))
                              (strs_of (jget_or_null "input_vars" d)) (strs_of (jget_or_null "output_vars" d))
                              (match d with
                               | JObj dfs => match jget "simplify" dfs with Some v => py_truth v | None => true end
                               | _ => true end))).
  destruct (validate_contract_dict d false) as [[]|e] eqn:E.
  - simpl bind. apply validate_strings_iff in E. destruct E as [a [g [i [o Hs]]]].
    pose proof Hs as [fs [-> [Ha [Hg [Hi Ho]]]]].
    destruct (bind_kwargs contract_keywords ["simplify"] (JObj fs)) as [[]|e] eqn:Eb.
    + simpl. do 5 eexists. split; [reflexivity|].
      rewrite Ha, Hg, Hi, Ho, !strs_of_strs. exact Hs.
    + simpl. right. unfold bind_kwargs in Eb.
      destruct (forallb (fun k => py_in k (contract_keywords ++ ["simplify"])%list) (jkeys fs)) eqn:E1.
      * exfalso. unfold contract_keywords, jhas in Eb. simpl in Eb. rewrite Ha, Hg, Hi, Ho in Eb. discriminate.
      * simpl in Eb. split; [ur; congruence|]. apply forallb_false in E1. destruct E1 as [k [Hk Hf]].
        exists fs, k. repeat split; auto. apply py_in_var_false in Hf. exact Hf.
  - simpl. left. eapply validate_only_format_error. exact E.
Qed.

(** the compound branch: data is handed over unvalidated, only the keyword binding can fail here *)
Lemma load_compound name d :
  match load_typed (JStr T_COMPOUND) name d with
  | inl r => exists a g i o, r = (name, LCompound a g i o)
  | inr e => e = Escape "TypeError"
  end.
Proof.
  change (load_typed (JStr T_COMPOUND) name d)
    with (_ <- bind_kwargs contract_keywords [] d ;;
          ret (name, LCompound (jget_or_null "assumptions" d) (jget_or_null "guarantees" d)
                               (jget_or_null "input_vars" d) (jget_or_null "output_vars" d))).
  destruct (bind_kwargs_cases contract_keywords [] d) as [E|E]; rewrite E; simpl; eauto.
Qed.

(** Theorem 2, most general form: every way an entry (of ANY shape and type) can fail *)
Theorem C14_json_any j :
  match read_entry j with
  | inl _ => True
  | inr e => e = FormatErr \/ e = ValueErr \/ e = IncompatibleArgs
             \/ (e = Escape "OverflowError" /\ jtype j = Some (JStr T_MACHINE) /\ ~ ints_floatable j)
             \/ (e = Escape "TypeError" /\
                 (jtype j = Some (JStr T_STRINGS) \/ jtype j = Some (JStr T_COMPOUND)))
  end.
Proof.
  destruct (read_entry_inv j) as [E|[fs [name [ty [d [-> [Hn [Ht [Hd E]]]]]]]]]; rewrite E; [auto|].
  destruct (load_typed_cases ty name d) as [->|[->|[->|Hv]]].
  - pose proof (load_machine name d) as X. destruct (load_typed (JStr T_MACHINE) name d) as [r|e]; [exact I|].
    destruct X as [->|[->|[-> Hnf]]]; auto. right. right. right. left. repeat split; auto.
    intros H. apply Hnf. eapply ints_floatable_jget; [exact H|exact Hd].
  - pose proof (load_strings name d) as X. destruct (load_typed (JStr T_STRINGS) name d) as [r|e]; [exact I|].
    destruct X as [->|[-> _]]; auto. right. right. right. right. simpl. auto.
  - pose proof (load_compound name d) as X. destruct (load_typed (JStr T_COMPOUND) name d) as [r|e]; [exact I|].
    subst e. right. right. right. right. simpl. auto.
  - rewrite Hv. auto.
Qed.

(** Theorem 2 for the machine representation: the only Escape is float()'s OverflowError ... *)
Theorem C14_json_machine j :
  jtype j = Some (JStr T_MACHINE) ->
  match read_entry j with
  | inl _ => True
  | inr e => e = FormatErr \/ e = ValueErr \/ e = IncompatibleArgs
             \/ (e = Escape "OverflowError" /\ ~ ints_floatable j)
  end.
Proof.
  intros Ht. pose proof (C14_json_any j) as X. destruct (read_entry j) as [r|e]; [exact I|].
  destruct X as [X|[X|[X|[[X [_ Y]]|[_ [Y|Y]]]]]]; auto; rewrite Ht in Y; discriminate.
Qed.
(** ... and there is none when every integer literal is in the range of float() *)
Theorem C14_json_machine_floatable j :
  jtype j = Some (JStr T_MACHINE) -> ints_floatable j ->
  match read_entry j with
  | inl _ => True
  | inr e => e = FormatErr \/ e = ValueErr \/ e = IncompatibleArgs
  end.
Proof.
  intros Ht Hf. pose proof (C14_json_machine j Ht) as X. destruct (read_entry j) as [r|e]; [exact I|].
  destruct X as [X|[X|[X|[_ X]]]]; auto. contradiction.
Qed.

(** Theorem 2 for the string representation, up to the hand-over to the parser *)
Theorem C14_json_strings j :
  jtype j = Some (JStr T_STRINGS) ->
  match read_entry j with
  | inl (name, l) => exists d a g i o s,
      jdata j = Some d /\ l = LStrings a g i o s /\ strings_shaped d a g i o
  | inr e => e = FormatErr
             \/ (e = Escape "TypeError" /\
                 exists fs k, jdata j = Some (JObj fs) /\ In k (jkeys fs) /\ ~ In k string_kwargs)
  end.
Proof.
  intros Hty.
  destruct (read_entry_inv j) as [E|[fs [name [ty [d [-> [Hn [Ht [Hd E]]]]]]]]]; rewrite E; [auto|].
  simpl in Hty. rewrite Ht in Hty. inversion Hty; subst ty.
  pose proof (load_strings name d) as X. destruct (load_typed (JStr T_STRINGS) name d) as [[n l]|e].
  - destruct X as [a [g [i [o [s [Hr Hs]]]]]]. inversion Hr; subst. exists d, a, g, i, o, s. simpl. auto.
  - destruct X as [X|[X [fs' [k [-> [Hk Hnk]]]]]]; auto. right. split; [exact X|]. exists fs', k. simpl. auto.
Qed.
Theorem C14_json_strings_kw j :
  jtype j = Some (JStr T_STRINGS) ->
  (forall fs k, jdata j = Some (JObj fs) -> In k (jkeys fs) -> In k string_kwargs) ->
  match read_entry j with
  | inl _ => True
  | inr e => e = FormatErr
  end.
Proof.
  intros Ht Hk. pose proof (C14_json_strings j Ht) as X. destruct (read_entry j) as [r|e]; [exact I|].
  destruct X as [X|[_ [fs [k [Hd [Hi Hn]]]]]]; [exact X|]. exfalso. apply Hn. eapply Hk; eauto.
Qed.

(** Theorem 3: an accepted machine entry has exactly the required structure and is read as what it says *)
Theorem accepted_reading j name c :
  read_entry j = inl (name, LMachine c) ->
  exists la lg li lo,
    entry_shaped j name la lg li lo /\
    pin c = li /\ pout c = lo /\ Forall2 clause_reads la (pa c) /\ Forall2 clause_reads lg (pg c).
Proof.
  intros H.
  destruct (read_entry_inv j) as [E|[fs [nm [ty [d [-> [Hn [Ht [Hd E]]]]]]]]]; rewrite E in H; [discriminate|].
  destruct (load_typed_cases ty nm d) as [->|[->|[->|Hv]]].
  - pose proof (load_machine nm d) as X. rewrite H in X.
    destruct X as [c' [la [lg [li [lo [Hr [Hs [Hi [Ho [Ha Hg]]]]]]]]]]. inversion Hr; subst.
    exists la, lg, (pin c'), (pout c'). repeat split; auto. exists fs, d. auto.
  - pose proof (load_strings nm d) as X. rewrite H in X. destruct X as [a [g [i [o [s [Hr _]]]]]]. discriminate.
  - pose proof (load_compound nm d) as X. rewrite H in X. destruct X as [a [g [i [o Hr]]]]. discriminate.
  - rewrite Hv in H. discriminate.
Qed.
Theorem accepted_shape j name c : read_entry j = inl (name, LMachine c) -> well_shaped j.
Proof.
  intros H. destruct (accepted_reading j name c H) as [la [lg [li [lo [Hs _]]]]].
  exists name, la, lg, li, lo. exact Hs.
Qed.
(** and conversely every well-shaped entry is read (or rejected by the interface checks / float range) *)
Theorem well_shaped_read j :
  well_shaped j ->
  match read_entry j with
  | inl (_, l) => exists c, l = LMachine c
  | inr e => e = IncompatibleArgs \/ (e = Escape "OverflowError" /\ ~ ints_floatable j)
  end.
Proof.
  intros [name [la [lg [li [lo [fs [d [-> [Hn [Ht [Hd Hs]]]]]]]]]]].
  assert (E : read_entry (JObj fs) = load_typed (JStr T_MACHINE) name d).
  { unfold Json.read_entry, check_entry, jhas. simpl forallb. rewrite Hn, Ht, Hd. simpl.
    rewrite Hn, Ht, Hd. reflexivity. }
  rewrite E.
  assert (V : validate_contract_dict d true = inl tt) by (apply validate_machine_iff; eauto).
  change (load_typed (JStr T_MACHINE) name d)
    with (_ <- validate_contract_dict d true ;; c <- from_dict d ;; ret (name, LMachine c)).
  rewrite V. simpl bind.
  destruct (from_dict_shaped s2f pstr d la lg li lo Hs) as [[c [Hc _]]|[Hc|[Hc Hnf]]]; rewrite Hc; simpl.
  - eauto.
  - auto.
  - right. split; [reflexivity|]. intros H. apply Hnf. eapply ints_floatable_jget; [exact H|exact Hd].
Qed.

(** the whole file *)
Theorem read_file_ok f rs :
  read_file f = inl rs -> exists es, f = JList es /\ Forall2 (fun e r => read_entry e = inl r) es rs.
Proof.
  destruct f as [| | | |es|]; unfold Json.read_file; ur; try discriminate.
  destruct (forM check_entry es) as [[]|e] eqn:E; simpl; [|discriminate].
  intros H. exists es. split; [reflexivity|]. apply mapM_ok in H. apply forM_ok in E.
  induction H as [|x y l l' Hx Hl IH]; constructor.
  - inversion E; subst. unfold Json.read_entry. rewrite H1. exact Hx.
  - inversion E; subst. apply IH. assumption.
Qed.

Theorem read_file_err f e :
  read_file f = inr e ->
  (e = FormatErr /\ forall es, f <> JList es)
  \/ exists es x, f = JList es /\ In x es /\ read_entry x = inr e.
Proof.
  destruct f as [| | | |es|]; unfold Json.read_file; ur;
    try (intros H; left; split; [congruence|intros; discriminate]).
  destruct (forM check_entry es) as [[]|e'] eqn:E; simpl.
  - intros H. apply mapM_err in H. destruct H as [x [Hx Hl]]. right. exists es, x. repeat split; auto.
    apply forM_ok in E. rewrite Forall_forall in E. unfold Json.read_entry. rewrite (E x Hx). exact Hl.
  - intros H. inversion H; subst. apply forM_err in E. destruct E as [x [Hx Hc]]. right. exists es, x.
    repeat split; auto. unfold Json.read_entry. rewrite Hc. reflexivity.
Qed.

Theorem C14_file f e :
  read_file f = inr e ->
  e = FormatErr \/ e = ValueErr \/ e = IncompatibleArgs
  \/ (e = Escape "OverflowError" /\ ~ ints_floatable f)
  \/ (e = Escape "TypeError" /\
      exists es x, f = JList es /\ In x es /\
                   (jtype x = Some (JStr T_STRINGS) \/ jtype x = Some (JStr T_COMPOUND))).
Proof.
  intros H. apply read_file_err in H. destruct H as [[-> _]|[es [x [-> [Hx Hr]]]]]; [auto|].
  pose proof (C14_json_any x) as X. rewrite Hr in X.
  destruct X as [X|[X|[X|[[X [_ Hnf]]|[X Y]]]]]; auto.
  - right. right. right. left. split; [exact X|]. intros Hf. apply Hnf.
    apply ints_floatable_list in Hf. rewrite Forall_forall in Hf. apply Hf. exact Hx.
  - right. right. right. right. split; [exact X|]. exists es, x. auto.
Qed.

(** a file of machine contracts whose integer literals are in float range: no exception other than
    ContractFormatError / ValueError / IncompatibleArgsError leaves the reader *)
Theorem C14_file_machine f e :
  (forall es x, f = JList es -> In x es -> jtype x = Some (JStr T_MACHINE)) ->
  ints_floatable f ->
  read_file f = inr e -> e = FormatErr \/ e = ValueErr \/ e = IncompatibleArgs.
Proof.
  intros Ht Hf H. apply C14_file in H.
  destruct H as [H|[H|[H|[[_ H]|[_ [es [x [Hl [Hx [Y|Y]]]]]]]]]]; auto; try contradiction;
    rewrite (Ht es x Hl Hx) in Y; discriminate.
Qed.

End Reader.

(* ------------------------------------------------------------------ *)
(** * Theorem 5: the public from_dict alone (no validation) *)
Definition from_dict_error_kinds : list err :=
  [ValueErr; IncompatibleArgs; Escape "TypeError"; Escape "KeyError"; Escape "AttributeError";
   Escape "OverflowError"].

Section Unvalidated.
Context (s2f : string -> option Q) (pstr : json -> string).

Lemma py_float_err v e :
  py_float s2f v = inr e -> e = ValueErr \/ e = Escape "TypeError" \/ e = Escape "OverflowError".
Proof.
  destruct v as [|b|q i|s|l|fs]; simpl; ur; try (intros H; inversion H; auto; fail).
  - destruct i; [|discriminate].
    unfold int_to_float. destruct (round_to_double q); ur; intros H; inversion H; auto.
  - destruct (s2f s); intros H; inversion H; auto.
Qed.

Lemma coef_loop_err fs e :
  coef_loop s2f fs = inr e -> e = ValueErr \/ e = Escape "TypeError" \/ e = Escape "OverflowError".
Proof.
  induction fs as [|[k v] r IH]; simpl; [discriminate|].
  destruct (ne_zero v); [|exact IH].
  destruct (py_float s2f v) as [q|e'] eqn:E; simpl.
  - destruct (coef_loop s2f r) as [vs|e''] eqn:E2; simpl; [discriminate|].
    intros H. inversion H; subst. apply IH. reflexivity.
  - intros H. inversion H; subst. eapply py_float_err. exact E.
Qed.

Lemma build_term_err x e :
  build_term s2f x = inr e ->
  e = ValueErr \/ e = Escape "TypeError" \/ e = Escape "OverflowError"
  \/ e = Escape "KeyError" \/ e = Escape "AttributeError".
Proof.
  destruct x as [| | | | |cfs]; simpl; ur; try (intros H; inversion H; auto 10; fail).
  destruct (jget "coefficients" cfs) as [co|]; [|intros H; inversion H; auto 10].
  destruct co as [| | | | |coefs]; try (intros H; inversion H; auto 10; fail).
  destruct (jget "constant" cfs) as [cv|]; [|intros H; inversion H; auto 10].
  destruct (py_float s2f cv) as [c|e'] eqn:E; simpl.
  - destruct (coef_loop s2f coefs) as [vs|e''] eqn:E2; simpl; [discriminate|].
    intros H. inversion H; subst. apply coef_loop_err in E2. intuition.
  - intros H. inversion H; subst. apply py_float_err in E. intuition.
Qed.

Lemma build_terms_err v e :
  build_terms s2f v = inr e ->
  e = ValueErr \/ e = Escape "TypeError" \/ e = Escape "OverflowError"
  \/ e = Escape "KeyError" \/ e = Escape "AttributeError".
Proof.
  unfold build_terms.
  assert (X : forall items, (if forallb is_obj items then mapM (build_term s2f) items else raise ValueErr) = inr e ->
              e = ValueErr \/ e = Escape "TypeError" \/ e = Escape "OverflowError"
              \/ e = Escape "KeyError" \/ e = Escape "AttributeError").
  { intros items. destruct (forallb is_obj items).
    - intros H. apply mapM_err in H. destruct H as [x [_ Hx]]. eapply build_term_err. exact Hx.
    - ur. intros H. inversion H. auto. }
  destruct v; simpl; ur; try (intros H; inversion H; auto; fail); apply X.
Qed.

Lemma py_iter_err v e : py_iter v = inr e -> e = Escape "TypeError".
Proof. destruct v; simpl; ur; intros H; inversion H; reflexivity. Qed.

Lemma pc_init_err a g i o e : pc_init a g i o = inr e -> e = IncompatibleArgs.
Proof.
  intros H. destruct (pc_init_cases a g i o) as [[c [Hc _]]|Hc]; rewrite Hc in H; [discriminate|congruence].
Qed.

(** Theorem 5 *)
Theorem from_dict_errors j e : from_dict s2f pstr j = inr e -> In e from_dict_error_kinds.
Proof.
  assert (Hin : e = ValueErr \/ e = IncompatibleArgs \/ e = Escape "TypeError" \/ e = Escape "KeyError"
                \/ e = Escape "AttributeError" \/ e = Escape "OverflowError" -> In e from_dict_error_kinds).
  { unfold from_dict_error_kinds. simpl. intuition. }
  intros H. apply Hin. clear Hin.
  destruct j as [| | | | |fs]; unfold from_dict in H; ur; try (inversion H; auto; fail).
  destruct (negb _); [inversion H; auto|].
  destruct (jget "assumptions" fs) as [ja|]; [|inversion H; auto].
  destruct (jget "guarantees" fs) as [jg|]; [|inversion H; auto].
  destruct (jget "input_vars" fs) as [ji|]; [|inversion H; auto].
  destruct (jget "output_vars" fs) as [jo|]; [|inversion H; auto].
  destruct (build_terms s2f ja) as [a|ea] eqn:Ea; simpl in H;
    [|inversion H; subst; apply build_terms_err in Ea; intuition].
  destruct (build_terms s2f jg) as [g|eg] eqn:Eg; simpl in H;
    [|inversion H; subst; apply build_terms_err in Eg; intuition].
  destruct (py_iter ji) as [i|ei] eqn:Ei; simpl in H;
    [|inversion H; subst; apply py_iter_err in Ei; intuition].
  destruct (py_iter jo) as [o|eo] eqn:Eo; simpl in H;
    [|inversion H; subst; apply py_iter_err in Eo; intuition].
  apply pc_init_err in H. auto.
Qed.

End Unvalidated.

(* ------------------------------------------------------------------ *)
(** * Examples: every error kind of Theorem 5 is reachable (concrete instance) *)
Local Open Scope Q_scope.
Definition ex_clause (constant : json) (coefficients : json) : json :=
  JObj [("constant", constant); ("coefficients", coefficients)].
Definition ex_dict (a g i o : json) : json :=
  JObj [("input_vars", i); ("output_vars", o); ("assumptions", a); ("guarantees", g)].
Definition jx : json := JList [JStr "x"].
Definition jy : json := JList [JStr "y"].
Definition jint (z : Z) : json := JNum (inject_Z z) true.

Example from_dict_ValueError : from_dict_c (JList []) = inr ValueErr.
Proof. reflexivity. Qed.
Example from_dict_ValueError_float : (* float("abc") *)
  from_dict_c (ex_dict (JList [ex_clause (JStr "abc") (JObj [])]) (JList []) jx jy) = inr ValueErr.
Proof. vm_compute. reflexivity. Qed.
Example from_dict_IncompatibleArgs :
  from_dict_c (ex_dict (JList []) (JList []) (JList [JStr "x"; JStr "x"]) jy) = inr IncompatibleArgs.
Proof. vm_compute. reflexivity. Qed.
Example from_dict_TypeError_iter : (* for x in None *)
  from_dict_c (ex_dict JNull (JList []) jx jy) = inr (Escape "TypeError").
Proof. vm_compute. reflexivity. Qed.
Example from_dict_TypeError_float : (* float(None) *)
  from_dict_c (ex_dict (JList [ex_clause JNull (JObj [])]) (JList []) jx jy) = inr (Escape "TypeError").
Proof. vm_compute. reflexivity. Qed.
Example from_dict_KeyError : (* x["coefficients"] *)
  from_dict_c (ex_dict (JList [JObj [("constant", jint 1)]]) (JList []) jx jy) = inr (Escape "KeyError").
Proof. vm_compute. reflexivity. Qed.
Example from_dict_AttributeError : (* (3).items() *)
  from_dict_c (ex_dict (JList [ex_clause (jint 1) (jint 3)]) (JList []) jx jy) = inr (Escape "AttributeError").
Proof. vm_compute. reflexivity. Qed.
Example from_dict_OverflowError : (* float(2**1024) *)
  from_dict_c (ex_dict (JList [ex_clause (jint (2 ^ 1024)) (JObj [])]) (JList []) jx jy)
  = inr (Escape "OverflowError").
Proof. vm_compute. reflexivity. Qed.

(** without validation a wrong kind IS read as something else: a string of variables, a bool coefficient,
    a numeric string, a number as a variable name *)
Example from_dict_reads_wrong_kinds :
  from_dict_c (ex_dict (JList [ex_clause (JStr "2.5") (JObj [("x", JBool true)])]) (JList [])
                       (JStr "xz") (JList [jint 3]))
  = inl {| pa := [mkT [("x", 1)] (5 # 2)]; pg := []; pin := ["x"; "z"]%string; pout := ["3"%string] |}.
Proof. vm_compute. reflexivity. Qed.

(* ------------------------------------------------------------------ *)
(** * The two remaining defects of the Python, as smallest witnesses *)
(** 1. an integer literal beyond the float range passes validate_contract_dict and from_dict escapes *)
Definition overflow_dict : json :=
  ex_dict (JList [ex_clause (jint (2 ^ 1024)) (JObj [])]) (JList []) (JList []) (JList []).
Example overflow_after_validation :
  validate_contract_dict overflow_dict true = inl tt
  /\ from_dict_c overflow_dict = inr (Escape "OverflowError")
  /\ read_entry_c (JObj [("name", JStr "c"); ("type", JStr T_MACHINE); ("data", overflow_dict)])
     = inr (Escape "OverflowError").
Proof. repeat split; vm_compute; reflexivity. Qed.

(** 2. string representation: an unknown key of "data" is not rejected by validate_contract_dict and
    from_strings( **data ) escapes with TypeError (unexpected keyword argument) *)
Example unknown_key_escapes :
  read_entry_c (JObj [("name", JStr "c"); ("type", JStr T_STRINGS);
                      ("data", JObj [("assumptions", JList []); ("guarantees", JList []);
                                     ("input_vars", JList []); ("output_vars", JList []);
                                     ("k", jint 1)])])
  = inr (Escape "TypeError").
Proof. vm_compute. reflexivity. Qed.
(** ... while the key "simplify" is silently accepted as the keyword argument of from_strings *)
Example simplify_key_accepted :
  read_entry_c (JObj [("name", JStr "c"); ("type", JStr T_STRINGS);
                      ("data", JObj [("assumptions", JList []); ("guarantees", JList []);
                                     ("input_vars", JList []); ("output_vars", JList []);
                                     ("simplify", JBool false)])])
  = inl ("c"%string, LStrings [] [] [] [] false).
Proof. vm_compute. reflexivity. Qed.
(** 3. compound contracts are not validated at all: data that is not a dict escapes *)
Example compound_unvalidated :
  read_entry_c (JObj [("name", JStr "c"); ("type", JStr T_COMPOUND); ("data", JNull)])
  = inr (Escape "TypeError").
Proof. vm_compute. reflexivity. Qed.
