(* TlpGenReduction.v — T1 tie of PolyhedralTerm.solve_for_variables (the Python around the sympy calls) and of
   PolyhedralTermList._context_reduction (strategy dispatch, the selected rows solved as equalities, the solutions
   substituted into the term).  See TlpGenFacts.v. *)
From Coq Require Import List String Bool Arith QArith ZArith Lia.
Import ListNotations.
Require Import Py ListsGen ConstGen Sem PyDict PyLoop PyTermList PyNumpy PyLinalg Term Poly Tactics TermGen
  ListsFacts TermFacts TermGenFacts TermListGen TermListGenBase TermListGenEval TermListGenKaykobad PolyGen PolyGenBase
  TacticsFacts TlpGen TlpGenBase TlpGenContext.
Open Scope py_scope.
Local Open Scope nat_scope.

(* ------------------------------------------------------------------ *)
(** * The solution of the Gauss-Jordan elimination has pairwise distinct keys — for ANY rows *)
(* once a column has a pivot, no remaining row mentions it: the substitution removes it, and the substituted
   expression comes from rows that mention no earlier pivot column *)
Lemma in_vars_mk_term l c x : In x (term_vars_p (mk_term l c)) -> In x (keys l).
Proof. unfold term_vars_p. rewrite mk_term_vars. apply keys_filter_incl. Qed.
Lemma in_vars_add t1 t2 x : In x (term_vars_p (term_add t1 t2)) -> In x (term_vars_p t1) \/ In x (term_vars_p t2).
Proof. unfold term_add. intros H. apply in_vars_mk_term in H. rewrite keys_map_var in H. apply in_list_union. exact H. Qed.
Lemma in_vars_multiply s f x : In x (term_vars_p (term_multiply s f)) -> In x (term_vars_p s).
Proof.
  unfold term_multiply. intros H. apply in_vars_mk_term in H.
  rewrite (keys_map_snd (fun p => qmul f (snd p))) in H. exact H.
Qed.
Lemma in_vars_solve_isolate p v x : In x (term_vars_p (solve_isolate p v)) -> In x (term_vars_p p) /\ x <> v.
Proof.
  unfold solve_isolate. intros H. apply in_vars_mk_term in H.
  rewrite (keys_map_snd (fun q => qdiv (qneg (snd q)) (get_coefficient p v))) in H.
  apply (in_keys_dict_pop (tvars p) v x). exact H.
Qed.
Lemma in_vars_substitute r v s x :
  ~ In v (term_vars_p s) -> In x (term_vars_p (term_substitute_variable r v s)) ->
  (In x (term_vars_p r) \/ In x (term_vars_p s)) /\ x <> v.
Proof.
  intros Hs. unfold term_substitute_variable. destruct (contains_var r v) eqn:C.
  - intros H. apply in_vars_add in H. destruct H as [H|H].
    + apply in_vars_remove_variable in H. tauto.
    + apply in_vars_multiply in H. split; [right; exact H|]. intros ->. contradiction.
  - intros H. apply in_vars_copy in H. split; [left; exact H|]. intros ->.
    apply contains_var_notin in C. contradiction.
Qed.
Lemma find_pivot_in v rows p others :
  find_pivot v rows = Some (p, others) ->
  In p rows /\ In v (term_vars_p p) /\ (forall r, In r others -> In r rows).
Proof.
  revert p others. induction rows as [|r rest IH]; intros p others; cbn [find_pivot]; [discriminate|].
  destruct (negb (qzero (get_coefficient r v))) eqn:E.
  - intros H. inversion H; subst. split; [left; reflexivity|]. split; [|intros x Hx; right; exact Hx].
    destruct (in_dec string_dec v (term_vars_p p)) as [Hi|Hn]; [exact Hi|].
    rewrite (get_coefficient_notin p v Hn) in E. discriminate.
  - destruct (find_pivot v rest) as [[p' o']|]; [|discriminate].
    intros H. inversion H; subst p others. destruct (IH p' o' eq_refl) as [H1 [H2 H3]].
    split; [right; exact H1|]. split; [exact H2|]. intros x [<-|Hx]; [left; reflexivity|right; apply H3; exact Hx].
Qed.
Lemma gauss_keys_nodup vs : forall pivots rows,
  NoDup (map fst pivots) ->
  (forall w r, In w (map fst pivots) -> In r rows -> ~ In w (term_vars_p r)) ->
  NoDup (map fst (fst (gauss vs pivots rows))).
Proof.
  induction vs as [|v vs IH]; intros pivots rows Hnd Hinv; cbn [gauss]; [exact Hnd|].
  destruct (find_pivot v rows) as [[p others]|] eqn:F; [|apply IH; assumption].
  destruct (find_pivot_in v rows p others F) as [Hp [Hv Hsub]].
  assert (Hs : ~ In v (term_vars_p (solve_isolate p v))).
  { intros H. apply in_vars_solve_isolate in H. destruct H as [_ H]. congruence. }
  apply IH.
  - rewrite map_app, map_map. cbn [map fst]. change (map (fun x => fst x) pivots) with (map fst pivots).
    apply NoDup_app_intro; [exact Hnd|constructor; [intros []|constructor]|].
    intros x Hx [E|[]]. subst x. exact (Hinv v p Hx Hp Hv).
  - intros w r Hw Hr. rewrite map_app, map_map, in_app_iff in Hw. cbn [map fst] in Hw.
    change (map (fun x => fst x) pivots) with (map fst pivots) in Hw.
    apply in_map_iff in Hr. destruct Hr as [r0 [<- Hr0]]. intros Hin.
    apply (in_vars_substitute r0 v _ w Hs) in Hin. destruct Hin as [Hin Hne].
    destruct Hw as [Hw|[<-|[]]]; [|congruence].
    destruct Hin as [Hin|Hin].
    + exact (Hinv w r0 Hw (Hsub r0 Hr0) Hin).
    + apply in_vars_solve_isolate in Hin. exact (Hinv w p Hw Hp (proj1 Hin)).
Qed.
Lemma gauss_solve_keys rows V : NoDup (map fst (gauss_solve rows V)).
Proof.
  unfold gauss_solve. pose proof (gauss_keys_nodup V [] rows (NoDup_nil _) (fun w r F => match F with end)) as H.
  destruct (gauss V [] rows) as [pivots rest]. cbn [fst] in H.
  destruct (forallb row_is_zero rest); [|constructor].
  rewrite map_map. exact H.
Qed.

(* ------------------------------------------------------------------ *)
(** * PolyhedralTerm.solve_for_variables : unconditional *)
Theorem solve_for_variables_eq ctx vs :
  @PolyhedralTerm_solve_for_variables model_linalg ctx vs = solve_for_variables ctx vs.
Proof.
  rewrite solve_for_variables_unfold. unfold PolyhedralTerm_solve_for_variables. cbv zeta.
  rewrite termlist_vars_eq. unfold len.
  set (V := list_intersection (tl_vars ctx) vs).
  destruct (negb (Nat.eqb (List.length ctx) (List.length V))); [reflexivity|].
  cbn [sym_to_symbolic sym_symbols sym_solve sym_len sym_keys sym_get sym_var sym_to_term model_linalg].
  rewrite (map_m_ret _ (fun t => t)) by reflexivity. rewrite bind_ret_l, map_id, map_id, bind_ret_l.
  pose proof (gauss_solve_keys ctx V) as Hnd.
  destruct (gauss_solve ctx V) as [|kv sols'] eqn:E; [reflexivity|].
  cbn [List.length Nat.ltb Nat.leb model_sym_keys]. rewrite bind_ret_l.
  match goal with |- bind ?X _ = _ =>
    replace X with (@ret tdict (kv :: sols')) by (symmetry; exact (tdict_comp_rebuild (kv :: sols') Hnd)) end.
  reflexivity.
Qed.

(* ------------------------------------------------------------------ *)
(** * for var in sols.keys(): result = result.substitute_variable(var, sols[var]) *)
Lemma subst_loop (sols : tdict) :
  NoDup (map fst sols) -> (forall v s, In (v, s) sols -> wft s) ->
  forall rest done t0, sols = done ++ rest -> wft' t0 ->
  for_list_m (map fst rest) t0
    (fun result var_ => bind (tdict_get sols var_) (fun t =>
       bind (PolyhedralTerm_substitute_variable result var_ t) (fun result => ret (Continue result))))
  = ret (fold_left (fun res kv => term_substitute_variable res (fst kv) (snd kv)) rest t0).
Proof.
  intros Hnd Hw. induction rest as [|[v s] rest' IH]; intros done t0 Hd Ht; [reflexivity|].
  cbn [map fst for_list_m fold_left snd].
  assert (Hin : In (v, s) sols) by (rewrite Hd; apply in_or_app; right; left; reflexivity).
  rewrite (tdict_get_in sols v s Hnd Hin), bind_ret_l.
  rewrite (substitute_variable_eq' t0 v s Ht (Hw v s Hin)), !bind_ret_l.
  apply (IH (done ++ [(v, s)])).
  - rewrite Hd, <- app_assoc. reflexivity.
  - apply wft'_substitute_variable; [apply Ht|exact (Hw v s Hin)].
Qed.

(* ------------------------------------------------------------------ *)
(** * _context_reduction *)
(* the rows selected by either strategy are rows of the context *)
Lemma selected_rows_in_context O term ctx vs refine strategy rows fv :
  match strategy with
  | 1 => as_value_error (get_kaykobad_context term ctx vs refine)
  | 5 => as_value_error (get_tlp_context O term ctx vs refine)
  | _ => raise ValueErr
  end = inl (rows, fv) ->
  forall r, In r rows -> In r ctx.
Proof.
  destruct strategy as [|[|[|[|[|[|k]]]]]]; try discriminate; intros H; apply as_value_error_inl in H.
  - destruct (get_kk_spec term ctx vs refine rows fv H) as [_ [_ [_ Hin]]]. exact Hin.
  - destruct (get_tlp_spec O term ctx vs refine rows fv H) as [_ [Hin _]]. exact Hin.
Qed.

(* Preconditions:
   - [wft term], [Forall wft ctx] (the keys of every dict are pairwise distinct): term.copy() and substitute_variable
     build dicts item by item, the hand model maps over association lists ([context_reduction_repeated_key]);
   - for strategy 5 those of [get_tlp_context_eq]. *)
Theorem context_reduction_eq O term ctx vs refine strategy :
  wft term -> Forall wft ctx ->
  (strategy = 5 -> list_intersection vs (term_vars_p term) <> [] /\ slack_fits O (tlp_lp term ctx vs refine)) ->
  @PolyhedralTermList__context_reduction (poly_lp O) model_linalg term ctx vs refine strategy
  = context_reduction O term ctx vs refine strategy.
Proof.
  intros Ht Hctx H5. unfold PolyhedralTermList__context_reduction, context_reduction.
  (* the strategy dispatch inside try ... except ValueError *)
  match goal with |- bind (try_except ?body _) _ = bind ?sel _ => assert (HA : try_except body (raise ValueErr) = sel) end.
  { destruct strategy as [|[|[|[|[|[|k]]]]]]; try reflexivity.
    - cbn [Nat.eqb]. rewrite get_kaykobad_context_eq.
      destruct (get_kaykobad_context term ctx vs refine) as [[a b]|e]; [reflexivity|].
      cbn. destruct (is_value_error e); reflexivity.
    - cbn [Nat.eqb]. destruct (H5 eq_refl) as [Hfv Hsl]. rewrite (get_tlp_context_eq O term ctx vs refine Hfv Hsl).
      destruct (get_tlp_context O term ctx vs refine) as [[a b]|e]; [reflexivity|].
      cbn. destruct (is_value_error e); reflexivity. }
  rewrite HA. clear HA.
  match goal with |- bind ?sel _ = _ => destruct sel as [[rows fv]|e] eqn:Esel end; [|reflexivity].
  cbn [bind]. cbv zeta.
  assert (Hrows : Forall wft rows).
  { apply Forall_forall. intros r Hr. rewrite Forall_forall in Hctx. apply Hctx.
    exact (selected_rows_in_context O term ctx vs refine strategy rows fv Esel r Hr). }
  rewrite termlist_init_eq. cbn [opt_list]. unfold py_list_copy.
  rewrite solve_for_variables_eq.
  destruct (solve_for_variables rows fv) as [sols|e] eqn:Esol; [|reflexivity].
  cbn [bind]. destruct (solve_spec rows fv sols Hrows Esol) as [Hw [Hnd _]].
  rewrite (copy_eq term Ht). unfold tdict_keys.
  rewrite (subst_loop sols Hnd Hw sols [] (term_copy term) eq_refl (wft'_copy term Ht)).
  reflexivity.
Qed.

(* ------------------------------------------------------------------ *)
(** * Why [wft] is asked of the term and of the context *)
Local Open Scope string_scope.
(* an association list with a repeated key denotes no Python dict; on such a list the item-by-item constructions of
   the code (term.copy(), substitute_variable -> multiply / __add__) merge the repeated key, the hand model's map /
   filter keep both entries.  Strategy 1, context row x - y <= 0 (x = y), eliminate x, refining. *)
Example context_reduction_repeated_key :
  let O : oracle := fun _ => LpMiss in
  (* in the term *)
  let t1 := mkT [("x", 1%Q); ("z", 1%Q); ("z", 2%Q)] 0%Q in
  let c1 := [mkT [("x", 1%Q); ("y", (-1)%Q)] 0%Q] in
  @PolyhedralTermList__context_reduction (poly_lp O) model_linalg t1 c1 ["x"] true 1 = ret (mkT [("z", 2%Q); ("y", 1%Q)] 0%Q)
  /\ context_reduction O t1 c1 ["x"] true 1 = ret (mkT [("z", 1%Q); ("z", 1%Q); ("y", 1%Q)] 0%Q)
  (* in a context row *)
  /\ let t2 := mkT [("x", 1%Q); ("z", 1%Q)] 0%Q in
     let c2 := [mkT [("x", 1%Q); ("y", (-1)%Q); ("y", (-2)%Q)] 0%Q] in
     @PolyhedralTermList__context_reduction (poly_lp O) model_linalg t2 c2 ["x"] true 1 = ret (mkT [("z", 1%Q); ("y", 2%Q)] 0%Q)
     /\ context_reduction O t2 c2 ["x"] true 1 = ret (mkT [("z", 1%Q); ("y", 1%Q); ("y", 1%Q)] 0%Q).
Proof. repeat split; vm_compute; reflexivity. Qed.
(* the guard `len(sols) > 0` matters: sympy answers [] (a list) for an inconsistent system, and [].keys() raises *)
Example solve_for_variables_inconsistent :
  let rows := [mkT [("x", 1%Q)] 0%Q; mkT [("x", 1%Q); ("y", 0%Q)] 1%Q] in
  solve_for_variables rows ["x"; "y"] = ret []
  /\ model_sym_keys (gauss_solve rows ["x"; "y"]) = raise (Escape "AttributeError").
Proof. split; vm_compute; reflexivity. Qed.
