(* IfaceFacts.v — C06: every contract returned by the algebra is well formed, has
   exactly the prescribed interface, and meaningless requests raise
   IncompatibleArgsError.  Proved against the *generated* gen/AlgebraGen.v, for
   every Domain.  The proofs are structured around tactics that peel the monadic
   structure of the generated code (peel_tail / peel_full / reject_loop), turn the
   boolean checks met on the way into set facts (b2p) and finish by propositional
   reasoning on `In` (setsolve), so that they do not depend on the position of
   a statement in the generated text. *)
From Coq Require Import List String Bool Arith Lia.
Import ListNotations.
Require Import Py ListsGen AlgebraGen ListsFacts IfaceSpec.
Open Scope py_scope.

(* ---------- boolean checks as set facts (one-directional, for `fwd`) ---------- *)
Lemma ne_false_in {A} {l : list A} : nonempty l = false -> forall x, ~ In x l.
Proof. destruct l; simpl; intros E x; [tauto|discriminate]. Qed.
Lemma ne_true_in {A} {l : list A} : nonempty l = true -> exists x, In x l.
Proof. destruct l as [|y r]; simpl; intros E; [discriminate|exists y; tauto]. Qed.
Lemma len0_true_in {A} {l : list A} : Nat.eqb (len l) 0 = true -> forall x, ~ In x l.
Proof. destruct l; simpl; intros E x; [tauto|discriminate]. Qed.
Lemma len0_false_in {A} {l : list A} : Nat.eqb (len l) 0 = false -> exists x, In x l.
Proof. destruct l as [|y r]; simpl; intros E; [discriminate|exists y; tauto]. Qed.
Lemma lenpos_true_in {A} {l : list A} : Nat.ltb 0 (len l) = true -> exists x, In x l.
Proof. destruct l as [|y r]; unfold Nat.ltb; simpl; intros E; [discriminate|exists y; tauto]. Qed.
Lemma lenpos_false_in {A} {l : list A} : Nat.ltb 0 (len l) = false -> forall x, ~ In x l.
Proof. destruct l; unfold Nat.ltb; simpl; intros E x; [tauto|discriminate]. Qed.
Lemma has_dup_true_nd {l : list var} : has_dup l = true -> ~ NoDup l.
Proof. intros E N. apply has_dup_false in N. congruence. Qed.
Lemma lists_equal_false_nd {l1 l2 : list var} :
  lists_equal l1 l2 = false -> ~ (forall x, In x l1 <-> In x l2).
Proof. intros E N. apply lists_equal_iff in N. congruence. Qed.
Lemma py_eqb_var_neq {x y : var} : py_eqb x y = false -> x <> y.
Proof. simpl. apply String.eqb_neq. Qed.
Lemma nonempty_id {A} (l : list A) : (if nonempty l then l else []) = l.
Proof. destruct l; reflexivity. Qed.

(* the three ways rename_variable treats one side of the interface *)
Lemma rename_spec_same (s u : var) l : (~ In s l \/ s = u) -> rename_list_spec s u l l.
Proof.
  intros Hc. split; [reflexivity|]. intros Hs Nd. split; [assumption|]. intros x.
  destruct Hc as [Hc| ->]; [contradiction|]. destruct (string_dec x u); subst; tauto.
Qed.
Lemma rename_spec_replace (s u : var) l :
  In s l -> ~ In u l -> rename_list_spec s u l (replace_first s u l).
Proof.
  intros Hs Hu. split; [intros n; contradiction|]. intros _ Nd.
  split; [apply NoDup_replace_first; assumption|].
  intros x. apply in_replace_first; assumption.
Qed.
Lemma rename_spec_remove (s u : var) l :
  In s l -> In u l -> s <> u -> rename_list_spec s u l (remove_first s l).
Proof.
  intros Hs Hu Hne. split; [intros n; contradiction|]. intros _ Nd.
  split; [apply NoDup_remove_first; assumption|].
  intros x. rewrite in_remove_first by assumption. split; [tauto|].
  intros [?| ->]; [tauto|]. split; [assumption|congruence].
Qed.

(* ---------- tactics ---------- *)
(* replace hypothesis H : P by L H : Q *)
Ltac fwd t H := let H' := fresh in pose proof t as H'; clear H; rename H' into H.

(* boolean facts -> propositions about In / NoDup / equality *)
Ltac b2p :=
  repeat match goal with
  | H : negb _ = true |- _ => apply negb_true_iff in H
  | H : negb _ = false |- _ => apply negb_false_iff in H
  | H : andb _ _ = true |- _ => apply andb_true_iff in H; destruct H
  | H : orb _ _ = false |- _ => apply orb_false_iff in H; destruct H
  | H : andb _ _ = false |- _ => apply andb_false_iff in H; destruct H
  | H : orb _ _ = true |- _ => apply orb_true_iff in H; destruct H
  | H : has_dup _ = false |- _ => apply has_dup_false in H
  | H : has_dup _ = true |- _ => fwd (has_dup_true_nd H) H
  | H : nonempty _ = false |- _ => fwd (ne_false_in H) H
  | H : nonempty _ = true |- _ => fwd (ne_true_in H) H
  | H : Nat.eqb (len _) 0 = true |- _ => fwd (len0_true_in H) H
  | H : Nat.eqb (len _) 0 = false |- _ => fwd (len0_false_in H) H
  | H : Nat.ltb 0 (len _) = true |- _ => fwd (lenpos_true_in H) H
  | H : Nat.ltb 0 (len _) = false |- _ => fwd (lenpos_false_in H) H
  | H : lists_equal _ _ = true |- _ => fwd (proj1 (lists_equal_iff _ _) H) H
  | H : lists_equal _ _ = false |- _ => fwd (lists_equal_false_nd H) H
  | H : py_in _ _ = true |- _ => apply py_in_var in H
  | H : py_in _ _ = false |- _ => apply py_in_var_false in H
  | H : py_eqb _ _ = true |- _ => apply py_eqb_var_eq in H
  | H : py_eqb _ _ = false |- _ => fwd (py_eqb_var_neq H) H
  | H : exists _, _ |- _ => destruct H
  | H : _ /\ _ |- _ => destruct H
  | H : _ \/ _ |- _ => destruct H
  end.

(* instantiate every hypothesis `forall y : var, _` with every variable in the context *)
Ltac inst_vars :=
  repeat match goal with
  | H : forall y : ?T, _ |- _ =>
      unify T var;
      repeat match goal with
      | x : ?Tx |- _ =>
          unify Tx var;
          let P := type of (H x) in
          match goal with
          | _ : P |- _ => fail 1
          | _ => pose proof (H x)
          end
      end;
      clear H
  end.

Lemma In_dec_var (x : var) l : In x l \/ ~ In x l.
Proof. destruct (in_dec string_dec x l); tauto. Qed.

(* membership of a variable in a list is decidable: make tauto classical on these atoms *)
Ltac dec_atoms :=
  repeat match goal with
  | |- context [In ?x ?l] =>
      lazymatch goal with
      | _ : In x l \/ ~ In x l |- _ => fail
      | _ => pose proof (In_dec_var x l)
      end
  | _ : context [In ?x ?l] |- _ =>
      lazymatch goal with
      | _ : In x l \/ ~ In x l |- _ => fail
      | _ => pose proof (In_dec_var x l)
      end
  end.

Ltac in_rw := repeat (progress rewrite ?in_list_union, ?in_list_diff, ?in_list_intersection in * ).

(* drop what propositional reasoning on `In` cannot use (and what makes tauto slow) *)
Ltac clean_ctx :=
  repeat match goal with
  | H : NoDup _ |- _ => clear H
  | H : @eq ?T _ _ |- _ => tryif unify T var then fail else clear H
  end.
Ltac prop_solve := clean_ctx; inst_vars; in_rw; first [ solve [tauto] | dec_atoms; tauto ].

(* follow a successful monadic computation H : m = inl _.
   k is what to do with the equation of each bound sub-computation. *)
Ltac peel_gen k H :=
  cbv beta iota zeta in H;
  lazymatch type of H with
  | bind _ _ = inl _ =>
      let x := fresh "pv" in let Hm := fresh "Hm" in
      apply bind_inl in H; destruct H as (x & Hm & H);
      k Hm; peel_gen k H
  | raise _ = inl _ => discriminate H
  | ret _ = inl _ => unfold ret in H; inversion H; subst; try clear H
  | inl _ = inl _ => inversion H; subst; try clear H
  | (if ?c then _ else _) = inl _ =>
      let E := fresh "E" in
      revert H; destruct c eqn:E; intro H; peel_gen k H
  | match ?x with _ => _ end = inl _ => destruct x; peel_gen k H
  | _ => idtac
  end.
Ltac peel_tail H := peel_gen ltac:(fun Hm => idtac) H.
Ltac peel_full H := peel_gen ltac:(fun Hm => peel_full Hm) H.

(* goal: (checks; ...) = inr IncompatibleArgs.  Walk through the leading checks;
   every branch that raises is closed, the facts `check = false` stay. *)
Ltac reject_loop :=
  cbv beta iota zeta;
  repeat match goal with
  | |- (if ?c then _ else _) = inr _ =>
      let E := fresh "E" in destruct c eqn:E; [reflexivity|]
  end.

Section Facts.
Context `{D : Domain}.

Lemma TermList_init_Some (l : list term) : TermList_init (Some l) = l.
Proof. unfold TermList_init. destruct l; reflexivity. Qed.
Lemma TermList_copy_id (l : list term) : TermList_copy l = l.
Proof. apply TermList_init_Some. Qed.

Ltac unfold_spec :=
  unfold wf, wf_args, subset, disjoint,
    compose_inputs_spec, compose_outputs_spec, quotient_inputs_spec, quotient_outputs_spec,
    merge_inputs_spec, merge_outputs_spec,
    shared_outputs, keeps_non_output, feedback_on_constrained_input,
    quotient_output_read_by_divisor, bad_additional_inputs, different_interfaces,
    IoContract_can_compose_with, IoContract_can_quotient_by, IoContract_shares_io_with in *.

(* propositional set reasoning *)
Ltac setsolve := unfold_spec; b2p; prop_solve.

(* ================= A. constructor ================= *)
Lemma init_inv a g i o sp c :
  IoContract_init a g i o sp = inl c ->
  wf_args a g i o /\ c_a c = a /\ c_inputvars c = i /\ c_outputvars c = o /\
  (if sp then p_simplify g (Some a) = inl (c_g c) else c_g c = g).
Proof.
  intros H. unfold IoContract_init in H. rewrite ?TermList_copy_id in H.
  peel_full H; simpl; (split; [|tauto]).
  all: unfold wf_args, subset, disjoint; b2p; repeat split; try assumption; intros z; intros; prop_solve.
Qed.


Theorem init_wf : DomainVars -> forall a g i o sp c,
  IoContract_init a g i o sp = inl c ->
  wf c /\ c_inputvars c = i /\ c_outputvars c = o /\ c_a c = a.
Proof.
  intros DV a g i o sp c Hinit.
  apply init_inv in Hinit. destruct Hinit as (Hwf & Ha & Hi & Ho & Hg).
  split; [|tauto].
  unfold wf. rewrite Ha, Hi, Ho.
  destruct Hwf as (N1 & N2 & Hd & Hsa & Hsg).
  unfold wf_args. repeat split; try assumption.
  intros z Hz. apply Hsg.
  destruct sp; [|rewrite Hg in Hz; exact Hz].
  exact (simplify_vars DV _ _ _ Hg z Hz).
Qed.

Theorem init_rejects : forall a g i o sp,
  ~ wf_args a g i o -> IoContract_init a g i o sp = inr IncompatibleArgs.
Proof.
  intros a g i o sp Hn. unfold IoContract_init. reject_loop.
  exfalso. apply Hn. clear Hn.
  unfold wf_args, subset, disjoint; b2p; repeat split; try assumption; intros z; intros; prop_solve.
Qed.

Theorem init_accepts_or_primitive : forall a g i o sp,
  wf_args a g i o ->
  (exists c, IoContract_init a g i o sp = inl c) \/
  (exists e, p_simplify g (Some a) = inr e /\ IoContract_init a g i o sp = inr e).
Proof.
  intros a g i o sp Hwf.
  destruct (IoContract_init a g i o sp) as [c|e] eqn:Hinit; [left; eauto|right].
  exists e. split; [|reflexivity].
  unfold IoContract_init in Hinit. rewrite ?TermList_copy_id in Hinit.
  cbv beta iota zeta in Hinit.
  repeat match type of Hinit with
  | (if ?c then raise _ else _) = inr _ =>
      let E := fresh "E" in
      revert Hinit; destruct c eqn:E; intro Hinit;
      [exfalso; clear Hinit; unfold wf_args, subset, disjoint in Hwf; b2p;
       try contradiction; prop_solve|]
  end.
  destruct sp; [|discriminate Hinit].
  destruct (p_simplify g (Some a)) as [r|e'] eqn:Hs; [discriminate Hinit|].
  simpl in Hinit. congruence.
Qed.

(* ================= B. every operation returns well-formed contracts ================= *)
Ltac unfold_ops :=
  unfold IoContract_compose_tactics, IoContract_quotient_tactics, IoContract_merge,
    IoContract_rename_variable, IoContract_copy, IoContract_simplify in *.

(* after peeling: the result comes out of the constructor *)
Ltac wf_by_init DV :=
  match goal with
  | Hi : IoContract_init _ _ _ _ _ = inl ?c |- wf ?c =>
      exact (proj1 (init_wf DV _ _ _ _ _ _ Hi))
  end.

Theorem compose_wf : DomainVars -> forall c1 c2 keep sp od c st,
  IoContract_compose_tactics c1 c2 keep sp od = inl (c, st) -> wf c.
Proof.
  intros DV c1 c2 keep sp od c st H. unfold_ops. peel_tail H; wf_by_init DV.
Qed.

Theorem quotient_wf : DomainVars -> forall c1 c2 add sp od q st,
  IoContract_quotient_tactics c1 c2 add sp od = inl (q, st) -> wf q.
Proof.
  intros DV c1 c2 add sp od q st H. unfold_ops. peel_tail H; wf_by_init DV.
Qed.

Theorem merge_wf : DomainVars -> forall c1 c2 m,
  IoContract_merge c1 c2 = inl m -> wf m.
Proof.
  intros DV c1 c2 m H. unfold_ops. peel_tail H; wf_by_init DV.
Qed.

Theorem rename_wf : DomainVars -> forall c s u c',
  IoContract_rename_variable c s u = inl c' -> wf c'.
Proof.
  intros DV c s u c' H. unfold_ops. peel_tail H; wf_by_init DV.
Qed.

Theorem copy_wf : DomainVars -> forall c c',
  IoContract_copy c = inl c' -> wf c'.
Proof.
  intros DV c c' H. unfold_ops. peel_tail H; wf_by_init DV.
Qed.

Theorem simplify_wf : DomainVars -> forall c c',
  wf c -> IoContract_simplify c = inl c' -> wf c'.
Proof.
  intros DV c c' Hwf H. unfold_ops. peel_tail H.
  match goal with Hs : p_simplify _ _ = inl _ |- _ => pose proof (simplify_vars DV _ _ _ Hs) as Hv end.
  unfold wf, wf_args, subset, disjoint in *. simpl.
  destruct Hwf as (N1 & N2 & Hd & Hsa & Hsg). repeat split; try assumption.
  intros z Hz. apply Hsg. apply Hv. exact Hz.
Qed.


(* ================= C. prescribed interfaces ================= *)
(* after peeling: replace the interface of the result by the arguments the
   constructor was called with, and keep the constructor's own checks *)
Ltac use_init :=
  match goal with
  | Hi : IoContract_init _ _ _ _ _ = inl ?c |- _ =>
      let Hw := fresh "Hw" in let Ha := fresh "Ha" in let Hiv := fresh "Hiv" in
      let Hov := fresh "Hov" in let Hg := fresh "Hg" in
      apply init_inv in Hi; destruct Hi as (Hw & Ha & Hiv & Hov & Hg);
      rewrite ?Ha, ?Hiv, ?Hov; clear Hg
  end.

(* goal: conjunction of `NoDup l /\ forall x, In x l <-> ...` *)
Ltac iface_solve :=
  unfold_spec; b2p; repeat split; try assumption; intros;
  repeat match goal with H : context [TermList_vars _] |- _ => clear H end;
  prop_solve.

Theorem compose_iface : forall c1 c2 keep sp od c st,
  wf c1 -> wf c2 ->
  IoContract_compose_tactics c1 c2 keep sp od = inl (c, st) ->
  compose_inputs_spec c1 c2 (opt_list keep) (c_inputvars c) /\
  compose_outputs_spec c1 c2 (opt_list keep) (c_outputvars c).
Proof.
  intros c1 c2 keep sp od c st Hwf1 Hwf2 H.
  unfold_ops. destruct keep as [keep|]; simpl opt_list; peel_tail H; use_init; iface_solve.
Qed.

Theorem quotient_iface : forall c1 c2 add sp od q st,
  wf c1 -> wf c2 ->
  IoContract_quotient_tactics c1 c2 add sp od = inl (q, st) ->
  quotient_inputs_spec c1 c2 (opt_list add) (c_inputvars q) /\
  quotient_outputs_spec c1 c2 (c_outputvars q).
Proof.
  intros c1 c2 add sp od q st Hwf1 Hwf2 H.
  unfold_ops. destruct add as [add|]; simpl opt_list; rewrite ?nonempty_id in H;
    peel_tail H; use_init; iface_solve.
Qed.

Theorem merge_iface : forall c1 c2 m,
  wf c1 -> wf c2 ->
  IoContract_merge c1 c2 = inl m ->
  merge_inputs_spec c1 c2 (c_inputvars m) /\ merge_outputs_spec c1 c2 (c_outputvars m).
Proof.
  intros c1 c2 m Hwf1 Hwf2 H.
  unfold_ops. peel_tail H; use_init; iface_solve.
Qed.

Theorem merge_iface_order : forall c1 c2 m,
  IoContract_merge c1 c2 = inl m ->
  c_inputvars m = list_union (c_inputvars c1) (c_inputvars c2) /\
  c_outputvars m = list_union (c_outputvars c1) (c_outputvars c2).
Proof.
  intros c1 c2 m H.
  unfold_ops. peel_tail H; use_init; split; reflexivity.
Qed.

(* only the disjointness of inputs and outputs is needed *)
Theorem rename_iface_disjoint : forall c s u c',
  disjoint (c_inputvars c) (c_outputvars c) ->
  IoContract_rename_variable c s u = inl c' ->
  rename_list_spec s u (c_inputvars c) (c_inputvars c') /\
  rename_list_spec s u (c_outputvars c) (c_outputvars c').
Proof.
  intros c s u c' Hdisj H.
  unfold_ops. rewrite ?TermList_copy_id in H. peel_full H; use_init.
  all: unfold_spec; b2p; split.
  all: first
    [ apply rename_spec_replace; solve [assumption | prop_solve]
    | apply rename_spec_remove; solve [assumption | prop_solve]
    | apply rename_spec_same; solve [tauto | prop_solve] ].
Qed.

Theorem rename_iface : forall c s u c',
  wf c ->
  IoContract_rename_variable c s u = inl c' ->
  rename_list_spec s u (c_inputvars c) (c_inputvars c') /\
  rename_list_spec s u (c_outputvars c) (c_outputvars c').
Proof.
  intros c s u c' Hwf. apply rename_iface_disjoint. apply Hwf.
Qed.

Theorem copy_iface : forall c c',
  IoContract_copy c = inl c' ->
  c_inputvars c' = c_inputvars c /\ c_outputvars c' = c_outputvars c /\ c_a c' = c_a c.
Proof.
  intros c c' H.
  unfold_ops. rewrite ?TermList_copy_id in H. peel_tail H; use_init; repeat split; reflexivity.
Qed.

(* ================= D. meaningless requests are rejected, whatever the primitives do ================= *)
(* goal: op ... = inr IncompatibleArgs, with the meaningless request as hypothesis:
   walk through the leading checks; if all of them passed the request had a meaning *)
Ltac reject := unfold_ops; reject_loop; exfalso; setsolve.

Theorem compose_rejects_shared_outputs : forall c1 c2 keep sp od,
  shared_outputs c1 c2 ->
  IoContract_compose_tactics c1 c2 keep sp od = inr IncompatibleArgs.
Proof. intros c1 c2 keep sp od Hbad. destruct keep as [keep|]; simpl opt_list in *; reject. Qed.

Theorem compose_rejects_keep : forall c1 c2 keep sp od,
  keeps_non_output c1 c2 (opt_list keep) ->
  IoContract_compose_tactics c1 c2 keep sp od = inr IncompatibleArgs.
Proof. intros c1 c2 keep sp od Hbad. destruct keep as [keep|]; simpl opt_list in *; reject. Qed.

Theorem compose_rejects_feedback : forall c1 c2 keep sp od,
  feedback_on_constrained_input c1 c2 ->
  IoContract_compose_tactics c1 c2 keep sp od = inr IncompatibleArgs.
Proof. intros c1 c2 keep sp od Hbad. destruct keep as [keep|]; simpl opt_list in *; reject. Qed.

Theorem quotient_rejects_output_read : forall c1 c2 add sp od,
  quotient_output_read_by_divisor c1 c2 ->
  IoContract_quotient_tactics c1 c2 add sp od = inr IncompatibleArgs.
Proof.
  intros c1 c2 add sp od Hbad.
  destruct add as [add|]; simpl opt_list in *; unfold_ops; rewrite ?nonempty_id; reject.
Qed.

Theorem quotient_rejects_additional : forall c1 c2 add sp od,
  bad_additional_inputs c1 c2 (opt_list add) ->
  IoContract_quotient_tactics c1 c2 add sp od = inr IncompatibleArgs.
Proof.
  intros c1 c2 add sp od Hbad.
  destruct add as [add|]; simpl opt_list in *; unfold_ops; rewrite ?nonempty_id; reject.
Qed.

Theorem refines_rejects : forall c1 c2,
  different_interfaces c1 c2 -> IoContract_refines c1 c2 = inr IncompatibleArgs.
Proof.
  intros c1 c2 Hbad. unfold IoContract_refines. reject_loop.
  exfalso. unfold_spec. b2p. tauto.
Qed.

Theorem rename_rejects_clash : forall c s u,
  s <> u ->
  (In s (c_inputvars c) /\ In u (c_outputvars c)) \/
  (In s (c_outputvars c) /\ ~ In s (c_inputvars c) /\ In u (c_inputvars c)) ->
  IoContract_rename_variable c s u = inr IncompatibleArgs.
Proof.
  intros c s u Hne Hbad.
  assert (Hq : py_eqb s u = false) by (simpl; apply String.eqb_neq; exact Hne).
  unfold_ops. cbv beta iota zeta.
  destruct Hbad as [(Hs & Hu)|(Hs & Hns & Hu)].
  - apply py_in_var in Hs. apply py_in_var in Hu.
    rewrite ?Hq, ?Hs, ?Hu. reflexivity.
  - apply py_in_var in Hs. apply py_in_var in Hu. apply py_in_var_false in Hns.
    rewrite ?Hq, ?Hs, ?Hns, ?Hu. reflexivity.
Qed.

(* ================= E. a derived fact ================= *)
Theorem compose_assumptions_inputs : DomainVars -> forall c1 c2 keep sp od c st,
  IoContract_compose_tactics c1 c2 keep sp od = inl (c, st) ->
  forall x, In x (TermList_vars (c_a c)) -> In x (c_inputvars c).
Proof.
  intros DV c1 c2 keep sp od c st H.
  pose proof (compose_wf DV _ _ _ _ _ _ _ H) as Hwf.
  destruct Hwf as (_ & _ & _ & Hsub & _). exact Hsub.
Qed.

End Facts.

(* ================= F. non-vacuity ================= *)
(* a tiny domain: a term is the list of the variables it mentions; eliminating
   variables drops the terms that mention them; simplification is the identity *)
Module Toy.
Local Open Scope string_scope.

Definition toy_rename (t : list var) (s u : var) : list var :=
  map (fun x => if String.eqb x s then u else x) t.
Definition toy_elim (a ctx : list (list var)) (vs : list var) (sp : bool) (od : list nat)
  : M (list (list var) * stats) :=
  inl (filter (fun t => negb (nonempty (list_intersection t vs))) a, []).

Definition ToyDomain : Domain := {|
  term := list var;
  term_vars := fun t => t;
  term_eqb := @list_eqb var PyEq_var;
  term_rename := toy_rename;
  p_elim_refine := toy_elim;
  p_elim_relax := toy_elim;
  p_simplify := fun s ctx => inl s;
  p_refines := fun _ _ => inl true;
  p_is_empty := fun _ => inl false |}.

Lemma toy_domain_vars : @DomainVars ToyDomain.
Proof.
  split.
  - simpl. intros s ctx r E. inversion E; subst. tauto.
  - simpl. unfold toy_rename. intros t s u x Hx.
    apply in_map_iff in Hx. destruct Hx as (y & Hy & Hin).
    destruct (String.eqb y s) eqn:E.
    + apply String.eqb_eq in E. subst. tauto.
    + apply String.eqb_neq in E. subst. tauto.
Qed.

(* x --c1--> y --c2--> z *)
Definition c1 : @contract ToyDomain :=
  @Build_contract ToyDomain [["x"]] [["x"; "y"]] ["x"] ["y"].
Definition c2 : @contract ToyDomain :=
  @Build_contract ToyDomain [["y"]] [["y"; "z"]] ["y"] ["z"].
(* the system-level contract x --> z *)
Definition c12 : @contract ToyDomain :=
  @Build_contract ToyDomain [["x"]] [["x"; "z"]] ["x"] ["z"].

Ltac toy_wf :=
  unfold wf, wf_args, subset, disjoint; simpl;
  repeat split; try (repeat constructor; simpl; intuition discriminate);
  intros; simpl in *; intuition (subst; try discriminate; auto).

Example c1_wf : @wf ToyDomain c1.  Proof. toy_wf. Qed.
Example c2_wf : @wf ToyDomain c2.  Proof. toy_wf. Qed.
Example c12_wf : @wf ToyDomain c12. Proof. toy_wf. Qed.

Example ex_init : exists c,
  @IoContract_init ToyDomain [["x"]] [["x"; "y"]] ["x"] ["y"] true = inl c.
Proof. vm_compute. eauto. Qed.
Example ex_compose : exists c st,
  @IoContract_compose_tactics ToyDomain c1 c2 None true None = inl (c, st) /\
  c_inputvars c = ["x"] /\ c_outputvars c = ["z"].
Proof. vm_compute. eauto. Qed.
Example ex_compose_keep : exists c st,
  @IoContract_compose_tactics ToyDomain c1 c2 (Some ["y"]) true None = inl (c, st) /\
  c_inputvars c = ["x"] /\ c_outputvars c = ["z"; "y"].
Proof. vm_compute. eauto. Qed.
Example ex_quotient : exists q st,
  @IoContract_quotient_tactics ToyDomain c12 c1 None true None = inl (q, st) /\
  c_inputvars q = ["y"] /\ c_outputvars q = ["z"].
Proof. vm_compute. eauto. Qed.
Example ex_merge : exists m,
  @IoContract_merge ToyDomain c1 c12 = inl m /\
  c_inputvars m = ["x"] /\ c_outputvars m = ["y"; "z"].
Proof. vm_compute. eauto. Qed.
Example ex_rename : exists c,
  @IoContract_rename_variable ToyDomain c1 "x" "w" = inl c /\
  c_inputvars c = ["w"] /\ c_outputvars c = ["y"] /\ c_a c = [["w"]].
Proof. vm_compute. eauto 10. Qed.
Example ex_copy : exists c, @IoContract_copy ToyDomain c1 = inl c.
Proof. vm_compute. eauto. Qed.
(* and the rejections do fire *)
Example ex_reject : @IoContract_compose_tactics ToyDomain c1 c1 None true None = inr IncompatibleArgs.
Proof. vm_compute. reflexivity. Qed.
End Toy.

Print Assumptions compose_iface.
Print Assumptions quotient_iface.
Print Assumptions init_rejects.
