(* PolyGenOptimize.v — T1 tie of PolyhedralTermList.optimize: the status mapping (value / None / ValueError; status 2
   decides emptiness separately) (see PolyGenFacts.v). *)
From Coq Require Import List String Bool Arith QArith ZArith Lia.
Import ListNotations.
Require Import Py ListsGen ConstGen Sem PyDict PyLoop PyTermList PyNumpy Term Poly TermGen ListsFacts TermFacts
  TermGenFacts TermListGen TermListGenBase TermListGenEval PolyGen PolyGenBase PolyGenPolytope PolyGenEmpty.
Open Scope py_scope.
Local Open Scope nat_scope.

Lemma qmul_comm x y : qmul x y = qmul y x.
Proof. unfold qmul. apply Qred_complete. ring. Qed.

(** optimize: the objective is a dict (its keys are pairwise distinct) *)
Theorem optimize_eq O self objective maximize :
  NoDup (keys objective) ->
  @PolyhedralTermList_optimize (poly_lp O) self objective maximize = poly_optimize O self objective maximize.
Proof.
  intros Hnd. unfold PolyhedralTermList_optimize, poly_optimize. cbv zeta.
  rewrite termlist_init_eq, (init_eq objective _ Hnd). cbn [opt_list].
  rewrite termlist_to_polytope_eq, bind_ret_l. unfold polytope_of. cbv beta iota zeta.
  set (obj := mk_term objective (0 # 1)). set (vs := polytope_vars self [obj]).
  cbn [map ctx_mat_of].
  assert (Hpol : (if maximize then ret (-1 # 1)%Q else ret (1 # 1)%Q)
                 = ret (if maximize then (- (1))%Q else 1%Q) :> M Q) by (destruct maximize; reflexivity).
  rewrite Hpol, bind_ret_l. clear Hpol. set (polarity := if maximize then (- (1))%Q else 1%Q).
  cbn [np_index_arr list_get_m]. rewrite !bind_ret_l. cbn [np_linprog poly_lp].
  unfold np_scale, np_map.
  replace (map (fun x => qmul x polarity) (fst (term_to_row vs obj)))
    with (map (fun q => qmul polarity q) (fst (term_to_row vs obj))) by (apply map_ext; intros x; apply qmul_comm).
  set (c := map (fun q => qmul polarity q) (fst (term_to_row vs obj))).
  destruct self as [|s0 self0].
  - (* no constraint: A_ub is the 1-D empty array *)
    cbn [map mat_of]. unfold oracle_linprog. cbn [lp_squeeze]. destruct c; reflexivity.
  - set (self := s0 :: self0).
    change (mat_of (List.length vs) (map (fun t => fst (term_to_row vs t)) self))
      with (A2 (List.length vs) (map (fun t => fst (term_to_row vs t)) self)).
    destruct (nil_or_cons vs) as [Evs|Hne].
    + (* no variable: the objective is empty *)
      unfold c. rewrite Evs. reflexivity.
    + rewrite (match_nonnil vs _ _ Hne).
      rewrite <- (map_fst_rows vs self), <- (map_snd_rows vs self).
      pose proof (oracle_linprog_rows O vs (List.length vs) c (map (term_to_row vs) self)) as HL.
      unfold row in HL |- *. rewrite HL.
      2:{ unfold c, term_to_row. cbn [fst]. destruct vs; [congruence|discriminate]. }
      2:{ unfold c, term_to_row. cbn [fst]. rewrite !map_length. reflexivity. }
      destruct (O _) as [f sl| | |z|]; cbn [lp_result_of]; try reflexivity; rewrite bind_ret_l;
        cbn [res_status res_fun Nat.eqb py_num]; try reflexivity.
      rewrite (is_empty_eq O self). destruct (poly_is_empty O self) as [[|]|e]; reflexivity.
Qed.
(* why the objective must be a dict: a repeated key is merged by the constructor, kept by mk_term *)
Example optimize_repeated_key :
  let O := fun _ : lp_problem => LpOpt 0 [] in
  let objective := [("x"%string, 1%Q); ("x"%string, 2%Q)] in
  PolyhedralTerm_init objective 0 <> mk_term objective 0.
Proof. cbv zeta. vm_compute. discriminate. Qed.
