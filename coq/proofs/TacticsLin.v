(* TacticsLin.v — pure real-number lemmas behind tactic 1 (Kaykobad context):
   finite sums indexed by naturals and the cone lemma
     A w <= 0  ->  q . w <= 0
   for a nonnegative matrix A with positive diagonal whose scaled off-diagonal
   column sums are dominated by q.  No matrix inverse is used. *)
From Coq Require Import List Arith Reals Lra Lia.
Import ListNotations.
Local Open Scope R_scope.

Fixpoint sumn (n : nat) (f : nat -> R) : R :=
  match n with O => 0 | S k => sumn k f + f k end.

Lemma sumn_ext n f g : (forall i, (i < n)%nat -> f i = g i) -> sumn n f = sumn n g.
Proof.
  induction n as [|n IH]; intros H; simpl; [reflexivity|].
  rewrite IH, (H n); [reflexivity|lia|]. intros i Hi. apply H. lia.
Qed.
Lemma sumn_le n f g : (forall i, (i < n)%nat -> f i <= g i) -> sumn n f <= sumn n g.
Proof.
  induction n as [|n IH]; intros H; simpl; [lra|].
  assert (sumn n f <= sumn n g) by (apply IH; intros i Hi; apply H; lia).
  assert (f n <= g n) by (apply H; lia). lra.
Qed.
Lemma sumn_plus n f g : sumn n (fun i => f i + g i) = sumn n f + sumn n g.
Proof. induction n as [|n IH]; simpl; [lra|]. rewrite IH. lra. Qed.
Lemma sumn_scale n c f : sumn n (fun i => c * f i) = c * sumn n f.
Proof. induction n as [|n IH]; simpl; [lra|]. rewrite IH. lra. Qed.
Lemma sumn_zero n : sumn n (fun _ => 0) = 0.
Proof. induction n as [|n IH]; simpl; [lra|]. rewrite IH. lra. Qed.
Lemma sumn_nonneg n f : (forall i, (i < n)%nat -> 0 <= f i) -> 0 <= sumn n f.
Proof.
  intros H. rewrite <- (sumn_zero n). apply sumn_le. exact H.
Qed.
Lemma sumn_swap n m (f : nat -> nat -> R) :
  sumn n (fun i => sumn m (fun j => f i j)) = sumn m (fun j => sumn n (fun i => f i j)).
Proof.
  induction n as [|n IH]; simpl.
  - rewrite sumn_zero. reflexivity.
  - rewrite IH, <- sumn_plus. reflexivity.
Qed.
Lemma sumn_delta n k (c : nat -> R) :
  sumn n (fun j => if Nat.eqb k j then c j else 0) = if Nat.ltb k n then c k else 0.
Proof.
  induction n as [|n IH]; simpl; [reflexivity|]. rewrite IH.
  destruct (Nat.ltb_spec k n) as [E1|E1]; destruct (Nat.eqb_spec k n) as [E2|E2];
    destruct (Nat.ltb_spec k (S n)) as [E3|E3]; try (exfalso; lia); try lra.
  subst k. lra.
Qed.

Section Kaykobad.
Variable n : nat.
Variables (a : nat -> nat -> R) (q w : nat -> R).
Definition off (i j : nat) : R := if Nat.eqb i j then 0 else a i j * q i / a i i.

Hypothesis Hq : forall j, (j < n)%nat -> 0 < q j.
Hypothesis Ha : forall i j, (i < n)%nat -> (j < n)%nat -> 0 <= a i j.
Hypothesis Hd : forall i, (i < n)%nat -> 0 < a i i.
Hypothesis Hdom : forall j, (j < n)%nat -> sumn n (fun i => off i j) < q j.
Hypothesis Hrows : forall i, (i < n)%nat -> sumn n (fun j => a i j * w j) <= 0.

Let t (i : nat) : R := if Rlt_dec 0 (w i) then 1 else 0.
Let sigma (j : nat) : R := sumn n (fun i => t i * off i j).

Lemma off_nonneg i j : (i < n)%nat -> (j < n)%nat -> 0 <= off i j.
Proof.
  intros Hi Hj. unfold off. destruct (Nat.eqb i j); [lra|].
  pose proof (Ha i j Hi Hj). pose proof (Hq i Hi). pose proof (Hd i Hi).
  unfold Rdiv. apply Rmult_le_pos; [apply Rmult_le_pos; lra|].
  left. apply Rinv_0_lt_compat. assumption.
Qed.

Lemma scaled_row i : (i < n)%nat ->
  q i * w i + sumn n (fun j => off i j * w j) <= 0.
Proof.
  intros Hi. pose proof (Hrows i Hi) as Hr. pose proof (Hq i Hi) as Hqi. pose proof (Hd i Hi) as Hdi.
  assert (E : q i * w i + sumn n (fun j => off i j * w j)
              = (q i / a i i) * sumn n (fun j => a i j * w j)).
  { rewrite <- sumn_scale.
    replace (q i * w i) with (sumn n (fun j => if Nat.eqb i j then q j * w j else 0)).
    - rewrite <- sumn_plus. apply sumn_ext. intros j Hj. unfold off.
      destruct (Nat.eqb i j) eqn:Eij.
      + apply Nat.eqb_eq in Eij. subst j. field. lra.
      + field. lra.
    - rewrite sumn_delta. apply Nat.ltb_lt in Hi. rewrite Hi. reflexivity. }
  rewrite E. assert (0 < q i / a i i) by (apply Rdiv_lt_0_compat; assumption).
  nra.
Qed.

Lemma t_cases i : (t i = 1 /\ 0 < w i) \/ (t i = 0 /\ w i <= 0).
Proof. unfold t. destruct (Rlt_dec 0 (w i)); [left|right]; split; lra. Qed.

Lemma sigma_bounds j : (j < n)%nat -> 0 <= sigma j < q j.
Proof.
  intros Hj. split.
  - unfold sigma. apply sumn_nonneg. intros i Hi. pose proof (off_nonneg i j Hi Hj).
    destruct (t_cases i) as [[-> _]|[-> _]]; lra.
  - eapply Rle_lt_trans; [|apply Hdom; exact Hj]. unfold sigma. apply sumn_le. intros i Hi.
    pose proof (off_nonneg i j Hi Hj). destruct (t_cases i) as [[-> _]|[-> _]]; lra.
Qed.

Theorem kaykobad_cone : sumn n (fun j => q j * w j) <= 0.
Proof.
  assert (H1 : sumn n (fun i => t i * (q i * w i + sumn n (fun j => off i j * w j))) <= 0).
  { rewrite <- (sumn_zero n). apply sumn_le. intros i Hi. pose proof (scaled_row i Hi).
    destruct (t_cases i) as [[-> _]|[-> _]]; lra. }
  assert (E : sumn n (fun i => t i * (q i * w i + sumn n (fun j => off i j * w j)))
              = sumn n (fun j => t j * q j * w j + sigma j * w j)).
  { rewrite sumn_plus.
    rewrite (sumn_ext n (fun i => t i * (q i * w i + sumn n (fun j => off i j * w j)))
                        (fun i => t i * q i * w i + sumn n (fun j => t i * off i j * w j))).
    - rewrite sumn_plus. f_equal. rewrite sumn_swap. apply sumn_ext. intros j Hj.
      unfold sigma. rewrite (Rmult_comm (sumn n (fun i => t i * off i j)) (w j)), <- sumn_scale. apply sumn_ext. intros i Hi. lra.
    - intros i Hi. rewrite Rmult_plus_distr_l, <- sumn_scale. f_equal; [lra|].
      apply sumn_ext. intros j Hj. lra. }
  rewrite E in H1. eapply Rle_trans; [|exact H1]. apply sumn_le. intros j Hj.
  pose proof (sigma_bounds j Hj) as [Hs0 Hs1]. pose proof (Hq j Hj).
  destruct (t_cases j) as [[-> Hw]|[-> Hw]]; nra.
Qed.
End Kaykobad.
