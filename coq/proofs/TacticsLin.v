(* TacticsLin.v — pure real-number lemmas behind tactic 1 (Kaykobad context):
   finite sums indexed by naturals and the cone lemma
     A w <= 0  ->  q . w <= 0
   for a nonnegative matrix A with positive diagonal whose scaled off-diagonal
   column sums are dominated by q.  No matrix inverse is used. *)
From Coq Require Import List Arith Reals Lra Lia.
Import ListNotations.
Local Open Scope R_scope.

Fixpoint sumn (n : nat) (f : nat -> R) : R :=
  match n with O => 0 | S k => sumn k f + f k end.

Lemma sumn_ext n f g : (forall i, (i < n)%nat -> f i = g i) -> sumn n f = sumn n g.
Proof.
  induction n as [|n IH]; intros H; simpl; [reflexivity|].
  rewrite IH, (H n); [reflexivity|lia|]. intros i Hi. apply H. lia.
Qed.
Lemma sumn_le n f g : (forall i, (i < n)%nat -> f i <= g i) -> sumn n f <= sumn n g.
Proof.
  induction n as [|n IH]; intros H; simpl; [lra|].
  assert (sumn n f <= sumn n g) by (apply IH; intros i Hi; apply H; lia).
  assert (f n <= g n) by (apply H; lia). lra.
Qed.
Lemma sumn_plus n f g : sumn n (fun i => f i + g i) = sumn n f + sumn n g.
Proof. induction n as [|n IH]; simpl; [lra|]. rewrite IH. lra. Qed.
Lemma sumn_scale n c f : sumn n (fun i => c * f i) = c * sumn n f.
Proof. induction n as [|n IH]; simpl; [lra|]. rewrite IH. lra. Qed.
Lemma sumn_zero n : sumn n (fun _ => 0) = 0.
Proof. induction n as [|n IH]; simpl; [lra|]. rewrite IH. lra. Qed.
Lemma sumn_nonneg n f : (forall i, (i < n)%nat -> 0 <= f i) -> 0 <= sumn n f.
Proof.
  intros H. rewrite <- (sumn_zero n). apply sumn_le. exact H.
Qed.
Lemma sumn_swap n m (f : nat -> nat -> R) :
  sumn n (fun i => sumn m (fun j => f i j)) = sumn m (fun j => sumn n (fun i => f i j)).
Proof.
  induction n as [|n IH]; simpl.
  - rewrite sumn_zero. reflexivity.
  - rewrite IH, <- sumn_plus. reflexivity.
Qed.
Lemma sumn_delta n k (c : nat -> R) :
  sumn n (fun j => if Nat.eqb k j then c j else 0) = if Nat.ltb k n then c k else 0.
Proof.
  induction n as [|n IH]; simpl; [reflexivity|]. rewrite IH.
  destruct (Nat.ltb_spec k n) as [E1|E1]; destruct (Nat.eqb_spec k n) as [E2|E2];
    destruct (Nat.ltb_spec k (S n)) as [E3|E3]; try (exfalso; lia); try lra.
  subst k. lra.
Qed.

Section Kaykobad.
Variable n : nat.
Variables (a : nat -> nat -> R) (q w : nat -> R).
Definition off (i j : nat) : R := if Nat.eqb i j then 0 else a i j * q i / a i i.

Hypothesis Hq : forall j, (j < n)%nat -> 0 < q j.
Hypothesis Ha : forall i j, (i < n)%nat -> (j < n)%nat -> 0 <= a i j.
Hypothesis Hd : forall i, (i < n)%nat -> 0 < a i i.
Hypothesis Hdom : forall j, (j < n)%nat -> sumn n (fun i => off i j) < q j.
Hypothesis Hrows : forall i, (i < n)%nat -> sumn n (fun j => a i j * w j) <= 0.

Let t (i : nat) : R := if Rlt_dec 0 (w i) then 1 else 0.
Let sigma (j : nat) : R := sumn n (fun i => t i * off i j).

Lemma off_nonneg i j : (i < n)%nat -> (j < n)%nat -> 0 <= off i j.
Proof.
  intros Hi Hj. unfold off. destruct (Nat.eqb i j); [lra|].
  pose proof (Ha i j Hi Hj). pose proof (Hq i Hi). pose proof (Hd i Hi).
  unfold Rdiv. apply Rmult_le_pos; [apply Rmult_le_pos; lra|].
  left. apply Rinv_0_lt_compat. assumption.
Qed.

Lemma scaled_row i : (i < n)%nat ->
  q i * w i + sumn n (fun j => off i j * w j) <= 0.
Proof.
  intros Hi. pose proof (Hrows i Hi) as Hr. pose proof (Hq i Hi) as Hqi. pose proof (Hd i Hi) as Hdi.
  assert (E : q i * w i + sumn n (fun j => off i j * w j)
              = (q i / a i i) * sumn n (fun j => a i j * w j)).
  { rewrite <- sumn_scale.
    replace (q i * w i) with (sumn n (fun j => if Nat.eqb i j then q j * w j else 0)).
    - rewrite <- sumn_plus. apply sumn_ext. intros j Hj. unfold off.
      destruct (Nat.eqb i j) eqn:Eij.
      + apply Nat.eqb_eq in Eij. subst j. field. lra.
      + field. lra.
    - rewrite sumn_delta. apply Nat.ltb_lt in Hi. rewrite Hi. reflexivity. }
  rewrite E. assert (0 < q i / a i i) by (apply Rdiv_lt_0_compat; assumption).
  nra.
Qed.

Lemma t_cases i : (t i = 1 /\ 0 < w i) \/ (t i = 0 /\ w i <= 0).
Proof. unfold t. destruct (Rlt_dec 0 (w i)); [left|right]; split; lra. Qed.

Lemma sigma_bounds j : (j < n)%nat -> 0 <= sigma j < q j.
Proof.
  intros Hj. split.
  - unfold sigma. apply sumn_nonneg. intros i Hi. pose proof (off_nonneg i j Hi Hj).
    destruct (t_cases i) as [[-> _]|[-> _]]; lra.
  - eapply Rle_lt_trans; [|apply Hdom; exact Hj]. unfold sigma. apply sumn_le. intros i Hi.
    pose proof (off_nonneg i j Hi Hj). destruct (t_cases i) as [[-> _]|[-> _]]; lra.
Qed.

Theorem kaykobad_cone : sumn n (fun j => q j * w j) <= 0.
Proof.
  assert (H1 : sumn n (fun i => t i * (q i * w i + sumn n (fun j => off i j * w j))) <= 0).
  { rewrite <- (sumn_zero n). apply sumn_le. intros i Hi. pose proof (scaled_row i Hi).
    destruct (t_cases i) as [[-> _]|[-> _]]; lra. }
  assert (E : sumn n (fun i => t i * (q i * w i + sumn n (fun j => off i j * w j)))
              = sumn n (fun j => t j * q j * w j + sigma j * w j)).
  { rewrite sumn_plus.
    rewrite (sumn_ext n (fun i => t i * (q i * w i + sumn n (fun j => off i j * w j)))
                        (fun i => t i * q i * w i + sumn n (fun j => t i * off i j * w j))).
    - rewrite sumn_plus. f_equal. rewrite sumn_swap. apply sumn_ext. intros j Hj.
      unfold sigma. rewrite (Rmult_comm (sumn n (fun i => t i * off i j)) (w j)), <- sumn_scale. apply sumn_ext. intros i Hi. lra.
    - intros i Hi. rewrite Rmult_plus_distr_l, <- sumn_scale. f_equal; [lra|].
      apply sumn_ext. intros j Hj. lra. }
  rewrite E in H1. eapply Rle_trans; [|exact H1]. apply sumn_le. intros j Hj.
  pose proof (sigma_bounds j Hj) as [Hs0 Hs1]. pose proof (Hq j Hj).
  destruct (t_cases j) as [[-> Hw]|[-> Hw]]; nra.
Qed.
End Kaykobad.

Lemma sumn_shift n (g : nat -> R) : sumn (S n) g = g O + sumn n (fun j => g (S j)).
Proof. induction n as [|n IH]; simpl in *; [lra|]. rewrite IH. lra. Qed.

(* the sign used by PolyhedralTerm.get_sign: +1 for a nonnegative coefficient, -1 otherwise *)
Definition sgnR (x : R) : R := if Rle_dec 0 x then 1 else -1.
Lemma sgn_abs x : sgnR x * Rabs x = x.
Proof.
  unfold sgnR. destruct (Rle_dec 0 x) as [H|H].
  - rewrite Rabs_pos_eq by exact H. lra.
  - rewrite Rabs_left by lra. lra.
Qed.
Lemma sgn_sq x : sgnR x * sgnR x = 1.
Proof. unfold sgnR. destruct (Rle_dec 0 x); lra. Qed.
Lemma sgn_cases x : sgnR x = 1 \/ sgnR x = -1.
Proof. unfold sgnR. destruct (Rle_dec 0 x); [left|right]; reflexivity. Qed.
Lemma abs_sgn x : Rabs x = sgnR x * x.
Proof. pose proof (sgn_abs x). pose proof (sgn_sq x). destruct (sgn_cases x) as [E|E]; rewrite E in *; lra. Qed.

(* the residual computed by _get_kaykobad_context is the scaled off-diagonal entry *)
Lemma res_eq tc a_ij a_ii q_j q_i :
  tc * tc = 1 -> (a_ij <> 0 -> tc * sgnR a_ij = sgnR q_j) -> a_ii <> 0 -> tc * sgnR a_ii = sgnR q_i ->
  sgnR q_j * a_ij * q_i / a_ii = Rabs a_ij * Rabs q_i / Rabs a_ii.
Proof.
  intros Htc Hij Hii Hqi. assert (Hd : Rabs a_ii <> 0) by (apply Rabs_no_R0; exact Hii).
  destruct (Req_dec a_ij 0) as [->|Hn].
  - rewrite Rabs_R0. field. split; assumption.
  - specialize (Hij Hn). rewrite <- Hij.
    rewrite <- (sgn_abs a_ij) at 2. rewrite <- (sgn_abs q_i) at 1. rewrite <- Hqi.
    rewrite <- (sgn_abs a_ii) at 2.
    pose proof (sgn_sq a_ij) as S1. pose proof (sgn_sq a_ii) as S2.
    assert (Hs2 : sgnR a_ii <> 0) by (destruct (sgn_cases a_ii) as [E|E]; rewrite E; lra).
    replace (tc * sgnR a_ij * (sgnR a_ij * Rabs a_ij) * (tc * sgnR a_ii * Rabs q_i) / (sgnR a_ii * Rabs a_ii))
      with ((tc * tc) * (sgnR a_ij * sgnR a_ij) * (Rabs a_ij * Rabs q_i / Rabs a_ii)) by (field; split; assumption).
    rewrite Htc, S1. lra.
Qed.
(* |a| * (tc * sgn q * d) = a * d under the sign pattern *)
Lemma sign_pattern tc a q d :
  tc * tc = 1 -> (a <> 0 -> tc * sgnR a = sgnR q) -> Rabs a * (tc * sgnR q * d) = a * d.
Proof.
  intros Htc H. destruct (Req_dec a 0) as [->|Hn]; [rewrite Rabs_R0; lra|].
  rewrite <- (H Hn). rewrite (abs_sgn a). pose proof (sgn_sq a).
  replace (sgnR a * a * (tc * (tc * sgnR a) * d)) with ((tc * tc) * (sgnR a * sgnR a) * (a * d)) by ring.
  rewrite Htc, H0. lra.
Qed.

Lemma sumn_abs_le n f : Rabs (sumn n f) <= sumn n (fun i => Rabs (f i)).
Proof.
  induction n as [|n IH]; simpl; [rewrite Rabs_R0; lra|].
  eapply Rle_trans; [apply Rabs_triang|]. lra.
Qed.
Lemma sumn_nonneg_zero n f : (forall i, (i < n)%nat -> 0 <= f i) -> sumn n f <= 0 ->
  forall i, (i < n)%nat -> f i = 0.
Proof.
  induction n as [|n IH]; intros Hf Hs i Hi; [lia|]. simpl in Hs.
  assert (H1 : 0 <= sumn n f) by (apply sumn_nonneg; intros k Hk; apply Hf; lia).
  assert (H2 : 0 <= f n) by (apply Hf; lia).
  destruct (Nat.eq_dec i n) as [->|Hne]; [lra|]. apply IH; [intros k Hk; apply Hf; lia|lra|lia].
Qed.

(* the same hypotheses make the matrix nonsingular *)
Section KaykobadNonsingular.
Variable n : nat.
Variables (a : nat -> nat -> R) (q w : nat -> R).
Hypothesis Hq : forall j, (j < n)%nat -> 0 < q j.
Hypothesis Ha : forall i j, (i < n)%nat -> (j < n)%nat -> 0 <= a i j.
Hypothesis Hd : forall i, (i < n)%nat -> 0 < a i i.
Hypothesis Hdom : forall j, (j < n)%nat -> sumn n (fun i => off a q i j) < q j.
Hypothesis Hrows : forall i, (i < n)%nat -> sumn n (fun j => a i j * w j) = 0.

Lemma scaled_row_eq i : (i < n)%nat ->
  q i * w i + sumn n (fun j => off a q i j * w j) = 0.
Proof.
  intros Hi. pose proof (Hrows i Hi) as Hr. pose proof (Hq i Hi) as Hqi. pose proof (Hd i Hi) as Hdi.
  assert (E : q i * w i + sumn n (fun j => off a q i j * w j)
              = (q i / a i i) * sumn n (fun j => a i j * w j)).
  { rewrite <- sumn_scale.
    replace (q i * w i) with (sumn n (fun j => if Nat.eqb i j then q j * w j else 0)).
    - rewrite <- sumn_plus. apply sumn_ext. intros j Hj. unfold off.
      destruct (Nat.eqb i j) eqn:Eij.
      + apply Nat.eqb_eq in Eij. subst j. field. lra.
      + field. lra.
    - rewrite sumn_delta. apply Nat.ltb_lt in Hi. rewrite Hi. reflexivity. }
  rewrite E, Hr. lra.
Qed.

Theorem kaykobad_nonsingular : forall j, (j < n)%nat -> w j = 0.
Proof.
  assert (Hoff : forall i j, (i < n)%nat -> (j < n)%nat -> 0 <= off a q i j).
  { intros i j Hi Hj. apply (off_nonneg n a q Hq Ha Hd i j Hi Hj). }
  assert (H1 : forall i, (i < n)%nat -> q i * Rabs (w i) <= sumn n (fun j => off a q i j * Rabs (w j))).
  { intros i Hi. pose proof (scaled_row_eq i Hi) as E. pose proof (Hq i Hi) as Hqi.
    assert (E2 : q i * w i = - sumn n (fun j => off a q i j * w j)) by lra.
    replace (q i * Rabs (w i)) with (Rabs (q i * w i)) by (rewrite Rabs_mult, (Rabs_pos_eq (q i)); lra).
    rewrite E2, Rabs_Ropp. eapply Rle_trans; [apply sumn_abs_le|]. apply sumn_le. intros j Hj.
    rewrite Rabs_mult, (Rabs_pos_eq (off a q i j)); [lra|apply Hoff; assumption]. }
  assert (H2 : sumn n (fun j => (q j - sumn n (fun i => off a q i j)) * Rabs (w j)) <= 0).
  { assert (H3 : sumn n (fun i => q i * Rabs (w i)) <= sumn n (fun i => sumn n (fun j => off a q i j * Rabs (w j))))
      by (apply sumn_le; exact H1).
    rewrite sumn_swap in H3.
    rewrite (sumn_ext n (fun j => (q j - sumn n (fun i => off a q i j)) * Rabs (w j))
                        (fun j => q j * Rabs (w j) + -1 * sumn n (fun i => off a q i j * Rabs (w j)))).
    - rewrite sumn_plus, sumn_scale. lra.
    - intros j Hj.
      assert (E : sumn n (fun i => off a q i j * Rabs (w j)) = Rabs (w j) * sumn n (fun i => off a q i j)).
      { rewrite <- sumn_scale. apply sumn_ext. intros; lra. }
      rewrite E. lra. }
  intros j Hj.
  assert (H4 : (q j - sumn n (fun i => off a q i j)) * Rabs (w j) = 0).
  { apply (sumn_nonneg_zero n (fun j => (q j - sumn n (fun i => off a q i j)) * Rabs (w j))); [|exact H2|exact Hj].
    intros k Hk. pose proof (Hdom k Hk). pose proof (Rabs_pos (w k)). nra. }
  pose proof (Hdom j Hj). pose proof (Rabs_pos (w j)).
  assert (Rabs (w j) = 0) by nra.
  destruct (Req_dec (w j) 0) as [E|E]; [exact E|]. apply Rabs_no_R0 in E. contradiction.
Qed.
End KaykobadNonsingular.
