(* WrapGenRename.v — T1 tie: PolyhedralIoContract.rename_variables (see WrapGenFacts.v). *)
From Coq Require Import List String Bool Arith QArith Lia.
Import ListNotations.
Require Import Py ListsGen ConstGen AlgebraGen PyDict PyLoop Sem Term Poly Tactics PolyDomain WrapGen WrapGenBase.
Open Scope py_scope.
Section Wrap.
Variable O : oracle.
Local Notation D := (poly_domain O).


(* rename_variables: copy, then rename_variable for every mapping IN THE GIVEN LIST, in order *)
Theorem wrap_rename_variables_eq (c : pcontract O) (mappings : list (string * string)) :
  @PolyhedralIoContract_rename_variables D c mappings = poly_rename_variables O c mappings.
Proof.
  unfold PolyhedralIoContract_rename_variables, poly_rename_variables, poly_copy, poly_rename.
  etransitivity; [apply wbind_ext; intros a; apply wbind_ret_r|].
  apply (rebind_loop (fun a m => @IoContract_rename_variable D a (fst m) (snd m))).
  intros a m. reflexivity.
Qed.
End Wrap.
