(* IfaceSpec.v — C06: well-formedness and the interface the algebra prescribes for
   each operation, written from the property text (set expressions), *not* from
   the code.  Definitions only. *)
From Coq Require Import List String Bool Arith.
Import ListNotations.
Require Import Py ListsGen AlgebraGen.

Section Iface.
Context `{D : Domain}.

Definition subset (l1 l2 : list var) : Prop := forall x, In x l1 -> In x l2.
Definition disjoint (l1 l2 : list var) : Prop := forall x, In x l1 -> In x l2 -> False.

(* a well-formed contract *)
Definition wf_args (a g : list term) (i o : list var) : Prop :=
  NoDup i /\ NoDup o /\ disjoint i o /\
  subset (TermList_vars a) i /\
  (forall x, In x (TermList_vars g) -> In x i \/ In x o).
Definition wf (c : contract) : Prop := wf_args (c_a c) (c_g c) (c_inputvars c) (c_outputvars c).

(* the only thing C06 needs from the domain: simplification does not invent
   variables, renaming a term renames its variables *)
Record DomainVars : Prop := {
  simplify_vars : forall s ctx r, p_simplify s ctx = inl r ->
                  forall x, In x (TermList_vars r) -> In x (TermList_vars s);
  rename_vars : forall t s u x, In x (term_vars (term_rename t s u)) ->
                  (x <> s /\ In x (term_vars t)) \/ (x = u /\ In s (term_vars t)) \/ (s = u /\ In x (term_vars t))
}.

(* ---------- prescribed interfaces (property text) ---------- *)
Section Two.
Variables c1 c2 : contract.
Let i1 := c_inputvars c1. Let o1 := c_outputvars c1.
Let i2 := c_inputvars c2. Let o2 := c_outputvars c2.

(* compose: inputs are all inputs not produced by the other contract; outputs are
   all outputs except those the other contract consumes, plus the kept ones *)
Definition compose_inputs_spec (keep l : list var) : Prop :=
  NoDup l /\ forall x, In x l <->
    ((In x i1 /\ ~ In x o2) \/ (In x i2 /\ ~ In x o1)).
Definition compose_outputs_spec (keep l : list var) : Prop :=
  NoDup l /\ forall x, In x l <->
    ((In x o1 /\ ~ In x i2) \/ (In x o2 /\ ~ In x i1) \/ In x keep).

(* quotient c1 / c2 (c1 dividend, c2 divisor): inputs are the dividend's inputs the
   divisor does not read, plus the divisor's outputs the dividend does not produce,
   plus the additional inputs; outputs are the dividend's outputs the divisor does
   not produce plus the divisor's inputs the dividend does not provide *)
Definition quotient_inputs_spec (add l : list var) : Prop :=
  NoDup l /\ forall x, In x l <->
    ((In x i1 /\ ~ In x i2) \/ (In x o2 /\ ~ In x o1) \/ In x add).
Definition quotient_outputs_spec (l : list var) : Prop :=
  NoDup l /\ forall x, In x l <->
    ((In x o1 /\ ~ In x o2) \/ (In x i2 /\ ~ In x i1)).

(* merge: unions *)
Definition merge_inputs_spec (l : list var) : Prop :=
  NoDup l /\ forall x, In x l <-> (In x i1 \/ In x i2).
Definition merge_outputs_spec (l : list var) : Prop :=
  NoDup l /\ forall x, In x l <-> (In x o1 \/ In x o2).

(* meaningless requests *)
Definition shared_outputs : Prop := exists x, In x o1 /\ In x o2.
Definition keeps_non_output (keep : list var) : Prop := exists x, In x keep /\ ~ In x o1 /\ ~ In x o2.
(* feedback (each contract reads an output of the other) onto an input that an
   assumption constrains *)
Definition feedback_on_constrained_input : Prop :=
  (exists x, In x i1 /\ In x o2) /\ (exists x, In x i2 /\ In x o1) /\
  ((exists x, In x o2 /\ In x (TermList_vars (c_a c1))) \/
   (exists x, In x o1 /\ In x (TermList_vars (c_a c2)))).
(* a quotient output that the divisor reads *)
Definition quotient_output_read_by_divisor : Prop :=
  exists x, In x o1 /\ ~ In x o2 /\ In x i2.
(* additional inputs that are neither dividend inputs nor divisor outputs *)
Definition bad_additional_inputs (add : list var) : Prop :=
  exists x, In x add /\ ~ In x i1 /\ ~ In x o2.
Definition different_interfaces : Prop :=
  ~ ((forall x, In x i1 <-> In x i2) /\ (forall x, In x o1 <-> In x o2)).
End Two.

(* rename: the old name replaced by the new one, or removed if the new one is
   already present on that side *)
Definition rename_list_spec (s u : var) (l l' : list var) : Prop :=
  (~ In s l -> l' = l) /\
  (In s l -> NoDup l -> NoDup l' /\ forall x, In x l' <-> ((In x l /\ x <> s) \/ x = u)).

End Iface.
