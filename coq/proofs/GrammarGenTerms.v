(* GrammarGenTerms.v — the generated rules of the recursive group of gen/GrammarGen.v
     only_variable, number_and_variable, factor_paren_terms, term (pp.Forward: Fixpoint on fuel), first_term,
     signed_term, terms, paren_terms
   equal the hand-written  p_term / terms_of / paren_of / terms / first_term / signed_term  of model/Grammar.v.
   Differences of presentation that are PROVED harmless here:
     - model/Grammar.v inlines first_term / signed_term into terms_of and the coefficient rule `coef` into the
       alternatives of term (re-association of binds);
     - the tree of `variable` under _parse_only_variable is TVar v; _parse_number_and_variable turns it into
       TNumVar k v (num_times_var). *)
From Coq Require Import List String Ascii Bool NArith ZArith QArith Arith Lia.
Import ListNotations.
Require Import Py Ast Grammar PyParsing GrammarGen GrammarGenBase GrammarGenTokens.
Local Open Scope string_scope.

Lemma first_term_of_eq n (pt pt' : parser lterm) :
  peq pt pt' ->
  peq (GrammarGen.first_term_of n pt) (sg <- opt Grammar.symbol ;; t <- pt' ;; ret (sign_or_plus sg, t)).
Proof.
  intros Hp. unfold GrammarGen.first_term_of. rewrite symbol_eq.
  peq_solve ltac:(exact Hp).
Qed.

Lemma signed_term_of_eq n (pt pt' : parser lterm) :
  peq pt pt' ->
  peq (GrammarGen.signed_term_of n pt) (sg <- Grammar.symbol ;; t <- pt' ;; ret (sg, t)).
Proof.
  intros Hp. unfold GrammarGen.signed_term_of. rewrite symbol_eq.
  peq_solve ltac:(exact Hp).
Qed.

Theorem terms_of_eq n (pt pt' : parser lterm) :
  peq pt pt' -> peq (GrammarGen.terms_of n pt) (Grammar.terms_of pt').
Proof.
  intros Hp. unfold GrammarGen.terms_of, Grammar.terms_of.
  eapply peq_trans; [apply peq_bind; [apply (first_term_of_eq n pt pt' Hp) | intros a; apply peq_refl]|].
  peq_solve ltac:(first [exact Hp | exact (signed_term_of_eq n pt pt' Hp)]).
Qed.

Theorem paren_terms_of_eq n (pt pt' : parser lterm) :
  peq pt pt' -> peq (GrammarGen.paren_terms_of n pt) (Grammar.paren_of pt').
Proof.
  intros Hp. unfold GrammarGen.paren_terms_of, Grammar.paren_of.
  peq_solve ltac:(exact (terms_of_eq n pt pt' Hp)).
Qed.

(* number [*] variable *)
Theorem number_and_variable_eq n :
  peq (GrammarGen.number_and_variable n) (k <- coef fla n ;; v <- variable ;; ret (TNumVar k v)).
Proof.
  unfold GrammarGen.number_and_variable, GrammarGen.only_variable, coef.
  peq_solve ltac:(exact (number_eq n)).
Qed.

(* number [*] paren_terms *)
Theorem factor_paren_terms_of_eq n (pt pt' : parser lterm) :
  peq pt pt' ->
  peq (GrammarGen.factor_paren_terms_of n pt) (k <- coef fla n ;; ts <- paren_of pt' ;; ret (TNumParen k ts)).
Proof.
  intros Hp. unfold GrammarGen.factor_paren_terms_of, coef.
  peq_solve ltac:(first [exact (number_eq n) | exact (paren_terms_of_eq n pt pt' Hp)]).
Qed.

(* term = Group(only_variable | number_and_variable | only_number), recursion through paren_terms *)
Theorem term_eq : forall n, peq (GrammarGen.term n) (p_term fla n).
Proof.
  induction n as [|n IH]; [apply peq_refl|].
  cbn [GrammarGen.term p_term]. cbv zeta. unfold GrammarGen.term_step, GrammarGen.only_variable.
  peq_solve ltac:(first [ exact (number_eq (S n))
                        | exact (number_and_variable_eq (S n))
                        | exact (factor_paren_terms_of_eq (S n) _ _ IH)
                        | exact (paren_terms_of_eq (S n) _ _ IH) ]).
Qed.

Theorem terms_eq n : peq (GrammarGen.terms n) (Grammar.terms fla n).
Proof. unfold GrammarGen.terms, Grammar.terms. apply terms_of_eq, term_eq. Qed.

Theorem paren_terms_eq n : peq (GrammarGen.paren_terms n) (paren_of (p_term fla n)).
Proof. unfold GrammarGen.paren_terms. apply paren_terms_of_eq, term_eq. Qed.

(* first_term / signed_term where an element of abs_or_terms is expected (ATerm) *)
Theorem first_term_eq n :
  peq (x <- GrammarGen.first_term n ;; ret (ATerm (fst x) (snd x))) (Grammar.first_term fla n).
Proof.
  unfold GrammarGen.first_term, Grammar.first_term.
  eapply peq_trans; [apply peq_bind; [apply (first_term_of_eq n _ _ (term_eq n)) | intros a; apply peq_refl]|].
  peq_solve fail.
Qed.

Theorem signed_term_eq n :
  peq (x <- GrammarGen.signed_term n ;; ret (ATerm (fst x) (snd x))) (Grammar.signed_term fla n).
Proof.
  unfold GrammarGen.signed_term, Grammar.signed_term.
  eapply peq_trans; [apply peq_bind; [apply (signed_term_of_eq n _ _ (term_eq n)) | intros a; apply peq_refl]|].
  peq_solve fail.
Qed.
