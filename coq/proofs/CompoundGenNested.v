(* CompoundGenNested.v — the generated methods of NestedTermList (gen/CompoundGen.v, regenerated from
   /repo/src on every run), instantiated with the polyhedral primitives ([poly_tl O] of CompoundGenBase.v),
   are EQUAL to the hand model of model/Compound.v.  No precondition is needed.  See CompoundGenFacts.v. *)
From Coq Require Import List String Bool Arith Lia.
Import ListNotations.
Require Import Py ListsGen PyDict PyLoop Sem Term Poly Compound CompoundGen CompoundGenBase.
Open Scope py_scope.

Ltac unfold_tl :=
  cbn [PyLoop.tl_or PyLoop.tl_is_empty PyLoop.tl_le PyLoop.tl_simplify PyLoop.tl_contains_behavior
       PyLoop.tl_copy PyLoop.tl_vars PyLoop.tlist PyLoop.behavior_t poly_tl].

Lemma mbind_cong {A B} (m m' : M A) (f g : A -> M B) :
  m = m' -> (forall a, f a = g a) -> bind m f = bind m' g.
Proof. intros -> Hfg. apply mbind_ext. exact Hfg. Qed.

(* all pairs (i, j), i < j, in the order of the two nested loops *)
Fixpoint pairs_m {X} (row : X -> list X -> M unit) (l : list X) : M unit :=
  match l with
  | [] => ret tt
  | x :: r => bind (row x r) (fun _ => pairs_m row r)
  end.
Lemma outer_loop0 {X} (row : X -> list X -> M unit) body (l : list X) :
  (forall p x s, l = p ++ x :: s ->
     body tt (List.length p, x) = bind (row x s) (fun _ => ret (Continue tt))) ->
  bind (for_list_m (enumerate l) tt body) (fun _ => ret tt) = pairs_m row l.
Proof.
  intros Hb. unfold enumerate. change 0 with (@List.length X []).
  rewrite (outer_loop row body [] l Hb).
  assert (Hu : forall m : M unit, bind m (fun _ => ret tt) = m) by (intros [[]|e]; reflexivity).
  rewrite Hu. clear Hb. induction l as [|x r IH]; [reflexivity|]. cbn [pairs_m]. apply mbind_ext. intros _. exact IH.
Qed.

Section Nested.
Variable O : oracle.
Local Notation D := (poly_tl O).

(* ------------------------------------------------------------------ *)
(** * __init__ *)
Lemma check_against_scan tli rest :
  check_against O tli rest = scan_m (fun tlj => poly_is_empty O (Compound.tl_or tli tlj)) rest.
Proof.
  induction rest as [|tlj r IH]; [reflexivity|]. cbn [check_against scan_m].
  apply mbind_ext. intros [|]; [exact IH|reflexivity].
Qed.
Lemma check_disjoint_pairs alts : check_disjoint O alts = pairs_m (check_against O) alts.
Proof.
  induction alts as [|x r IH]; [reflexivity|]. cbn [check_disjoint pairs_m]. apply mbind_ext. intros _. exact IH.
Qed.

Theorem nested_init_eq alts force : @NestedTermList_init D alts force = nested_init O alts force.
Proof.
  unfold NestedTermList_init, nested_init. apply mbind_cong.
  - destruct force; [|reflexivity].
    rewrite check_disjoint_pairs. apply outer_loop0. intros p x s Heq. cbv beta iota.
    apply mbind_cong; [|reflexivity].
    subst alts. rewrite check_against_scan. apply inner_loop.
    + intros j y Hj. cbv beta iota.
      replace (Nat.ltb (List.length p) j) with false by (symmetry; apply Nat.ltb_ge; lia). reflexivity.
    + intros j y Hj. cbv beta iota zeta.
      replace (Nat.ltb (List.length p) j) with true by (symmetry; apply Nat.ltb_lt; lia).
      unfold_tl. apply mbind_ext. intros [|]; reflexivity.
  - intros _. cbv zeta. rewrite (loop_m_map Compound.tl_copy) by (intros; reflexivity). reflexivity.
Qed.

(* ------------------------------------------------------------------ *)
(** * __le__, __eq__ *)
Lemma find_refined_find this others : find_refined O this others = find_m (poly_refines O this) others.
Proof.
  induction others as [|that r IH]; [reflexivity|]. cbn [find_refined find_m].
  apply mbind_ext. intros [|]; [reflexivity|exact IH].
Qed.
Lemma nested_le_forall a b : nested_le O a b = forall_m (fun this => find_refined O this b) a.
Proof.
  induction a as [|this r IH]; [reflexivity|]. cbn [nested_le forall_m].
  apply mbind_ext. intros [|]; [exact IH|reflexivity].
Qed.

Theorem nested_le_eq a b : @NestedTermList_le D a b = nested_le O a b.
Proof.
  unfold NestedTermList_le. rewrite nested_le_forall. apply forall_loop.
  intros this. cbv beta zeta. rewrite find_refined_find.
  rewrite (find_loop (poly_refines O this)).
  - apply mbind_ext. intros [|]; reflexivity.
  - intros that. unfold_tl. apply mbind_ext. intros [|]; reflexivity.
Qed.

Theorem nested_eqb_eq a b : @NestedTermList_eq D a b = nested_eqb O a b.
Proof.
  unfold NestedTermList_eq, nested_eqb. rewrite !nested_le_eq.
  apply mbind_ext. intros [|]; [|reflexivity]. apply mbind_ret_r.
Qed.

(* ------------------------------------------------------------------ *)
(** * vars, copy *)
Theorem nested_vars_eq a : @NestedTermList_vars D a = nested_vars a.
Proof.
  unfold NestedTermList_vars, nested_vars. cbv zeta.
  apply loop_fold. intros acc tl. reflexivity.
Qed.

Theorem nested_copy_eq a force : @NestedTermList_copy D a force = nested_copy O a force.
Proof.
  unfold NestedTermList_copy, nested_copy. cbv zeta.
  (* the copies are built by a comprehension (a map) or by an explicit loop with append: both are the map *)
  try (rewrite (loop_m_map (fun tl => tl_copy tl)) by (intros; reflexivity); cbn [bind ret app]).
  rewrite mbind_ret_r. apply nested_init_eq.
Qed.

(* ------------------------------------------------------------------ *)
(** * simplify *)
Definition simplify_one (self_tl c : list pterm) : M (option (list pterm)) :=
  try_bind (poly_simplify O self_tl (Some c)) (fun t => ret (Some t)) (ret None).
Lemma simplify_row_collect self_tl ctxs : simplify_row O self_tl ctxs = collect_m (simplify_one self_tl) ctxs.
Proof.
  induction ctxs as [|c r IH]; [reflexivity|]. cbn [simplify_row collect_m]. unfold simplify_one at 1, try_bind.
  destruct (poly_simplify O self_tl (Some c)) as [t|e]; cbn [bind ret].
  - rewrite IH. reflexivity.
  - destruct (is_value_error e); cbn [bind ret]; [|reflexivity]. rewrite IH.
    destruct (collect_m (simplify_one self_tl) r); reflexivity.
Qed.
Lemma simplify_all_concat a ctx : simplify_all O a ctx = concat_m (fun s => simplify_row O s ctx) a.
Proof.
  induction a as [|s r IH]; [reflexivity|]. cbn [simplify_all concat_m]. rewrite IH. reflexivity.
Qed.

Theorem nested_simplify_eq a ctx force : @NestedTermList_simplify D a ctx force = nested_simplify O a ctx force.
Proof.
  unfold NestedTermList_simplify, nested_simplify. cbv zeta. rewrite simplify_all_concat.
  rewrite (concat_loop (fun s => simplify_row O s ctx)).
  - rewrite mbind_assoc. apply mbind_ext. intros l. cbn [bind ret app]. rewrite mbind_ret_r. apply nested_init_eq.
  - intros acc self_tl. rewrite simplify_row_collect.
    rewrite (collect_loop (simplify_one self_tl)).
    + rewrite mbind_assoc. reflexivity.
    + intros acc' c. unfold simplify_one, try_bind. unfold_tl.
      destruct (poly_simplify O self_tl (Some c)) as [t|e]; [reflexivity|].
      destruct (is_value_error e); reflexivity.
Qed.

(* ------------------------------------------------------------------ *)
(** * intersect *)
Definition inter_one (self_tl o : list pterm) : M (option (list pterm)) :=
  bind (poly_is_empty O (Compound.tl_or self_tl o)) (fun e => ret (if e then None else Some (Compound.tl_or self_tl o))).
Lemma inter_row_collect self_tl others : inter_row O self_tl others = collect_m (inter_one self_tl) others.
Proof.
  induction others as [|o r IH]; [reflexivity|]. cbn [inter_row collect_m]. unfold inter_one at 1.
  rewrite mbind_assoc. apply mbind_ext. intros e. cbn [bind ret]. rewrite IH.
  apply mbind_ext. intros rest. destruct e; reflexivity.
Qed.
Lemma inter_all_concat a b : inter_all O a b = concat_m (fun s => inter_row O s b) a.
Proof.
  induction a as [|s r IH]; [reflexivity|]. cbn [inter_all concat_m]. rewrite IH. reflexivity.
Qed.

Theorem nested_intersect_eq a b force : @NestedTermList_intersect D a b force = nested_intersect O a b force.
Proof.
  unfold NestedTermList_intersect, nested_intersect. cbv zeta. rewrite inter_all_concat.
  rewrite (concat_loop (fun s => inter_row O s b)).
  - rewrite mbind_assoc. apply mbind_ext. intros l. cbn [bind ret app]. rewrite mbind_ret_r. apply nested_init_eq.
  - intros acc self_tl. rewrite inter_row_collect.
    rewrite (collect_loop (inter_one self_tl)).
    + rewrite mbind_assoc. reflexivity.
    + intros acc' o. unfold inter_one. unfold_tl. rewrite mbind_assoc.
      apply mbind_ext. intros [|]; reflexivity.
Qed.

(* ------------------------------------------------------------------ *)
(** * contains_behavior *)
Definition contains_one (b : behavior) (tl : list pterm) : M bool :=
  try_bind (contains_behavior tl b) (fun x => ret x) (raise ValueErr).
Lemma nested_contains_find a b : nested_contains a b = find_m (contains_one b) a.
Proof.
  induction a as [|tl r IH]; [reflexivity|]. cbn [nested_contains find_m]. unfold contains_one at 1, try_bind.
  destruct (contains_behavior tl b) as [[|]|e]; cbn [bind ret]; [reflexivity|exact IH|].
  destruct (is_value_error e); reflexivity.
Qed.

Theorem nested_contains_eq a b : @NestedTermList_contains_behavior D a b = nested_contains a b.
Proof.
  unfold NestedTermList_contains_behavior. rewrite nested_contains_find. apply exists_loop.
  intros tl. unfold contains_one, try_bind. unfold_tl.
  destruct (contains_behavior tl b) as [[|]|e]; [reflexivity|reflexivity|].
  destruct (is_value_error e); reflexivity.
Qed.

End Nested.
