(* TermListGenTactic4.v — T1 tie of PolyhedralTermList._tactic_4 (recursion over a shrinking context, rendered on
   explicit fuel on both sides) and _tactic_trivial.  See TermListGenFacts.v. *)
From Coq Require Import List String Bool Arith QArith ZArith Lia.
Import ListNotations.
Require Import Py ListsGen ConstGen Sem PyDict PyLoop PyTermList Term Poly Tactics TermGen ListsFacts TermFacts
  TermGenFacts TermListGen TermListGenBase TermListGenEval.
Open Scope py_scope.
Local Open Scope nat_scope.

(** _tactic_trivial *)
Theorem tactic_trivial_eq term ctx vs refine :
  wft term -> PolyhedralTermList__tactic_trivial term ctx vs refine = ret (Some (term_copy term), 1).
Proof. intros H. unfold PolyhedralTermList__tactic_trivial. rewrite (copy_eq term H). reflexivity. Qed.

(* ------------------------------------------------------------------ *)
(* the loop that sorts the usable context terms into goal_context / useful_context *)
Lemma t4_collect (P n1 n2 : pterm -> bool) body (l : list pterm) :
  (forall g u c, In c l ->
     body (g, u) c = ret (Continue (if P c && n1 c then g ++ [c] else g, if P c && n2 c then u ++ [c] else u))) ->
  forall g u, for_list_m l (g, u) body
              = ret (g ++ filter (fun c => P c && n1 c) l, u ++ filter (fun c => P c && n2 c) l).
Proof.
  induction l as [|c r IH]; intros Hb g u.
  - cbn. rewrite !app_nil_r. reflexivity.
  - cbn [for_list_m filter]. rewrite (Hb g u c (or_introl eq_refl)), bind_ret_l.
    rewrite IH by (intros g' u' c' Hc'; apply Hb; right; exact Hc').
    destruct (P c && n1 c), (P c && n2 c); rewrite <- ?app_assoc; reflexivity.
Qed.
Lemma filter_filter {X} (f g : X -> bool) l : filter g (filter f l) = filter (fun x => f x && g x) l.
Proof.
  induction l as [|x r IH]; [reflexivity|]. cbn [filter]. destruct (f x); cbn [filter andb]; rewrite IH; reflexivity.
Qed.
Lemma Forall_filter_t (Pr : pterm -> Prop) f l : Forall Pr l -> Forall Pr (filter f l).
Proof. intros H. rewrite Forall_forall in *. intros x Hx. apply filter_In in Hx. apply H, Hx. Qed.

(* the results of the hand model are dicts (no real arithmetic: closed under the global context) *)
Lemma tactic_4_wft : forall fuel term ctx vs refine no_vars r cnt,
  wft term -> Forall wft ctx -> tactic_4 fuel term ctx vs refine no_vars = inl (Some r, cnt) -> wft r.
Proof.
  induction fuel as [|fuel IHf]; intros term ctx vs refine no_vars r cnt Ht Hctx H; [discriminate|].
  cbn [tactic_4] in H. destruct refine; cbn [negb] in H; [|discriminate]. cbv zeta in H.
  destruct (Nat.ltb 1 (List.length (list_intersection vs (term_vars_p term)))); [discriminate|].
  destruct (list_intersection vs (term_vars_p term)) as [|v crest]; [discriminate|].
  set (P1 := fun c => negb (nonempty (list_intersection (term_vars_p c) no_vars)) &&
                      (negb (qzero (get_coefficient c v)) &&
                       qlt 0 (qmul (qmul 1 (get_coefficient c v)) (get_coefficient term v)))) in H.
  assert (Hmem : forall (k : nat) x,
            In x (map term_copy (filter (fun c => Nat.eqb (List.length (list_intersection (term_vars_p c) vs)) k)
                                        (filter P1 ctx))) -> wft' x).
  { intros k x Hx. apply in_map_iff in Hx. destruct Hx as [c [<- Hc]].
    apply filter_In in Hc. destruct Hc as [Hc _]. apply filter_In in Hc. destruct Hc as [Hc _].
    apply wft'_copy. rewrite Forall_forall in Hctx. apply Hctx. exact Hc. }
  set (goal := map term_copy (filter (fun c => Nat.eqb (List.length (list_intersection (term_vars_p c) vs)) 1) (filter P1 ctx))) in *.
  set (useful := map term_copy (filter (fun c => Nat.eqb (List.length (list_intersection (term_vars_p c) vs)) 2) (filter P1 ctx))) in *.
  assert (Hgoal : forall x, In x goal -> wft' x) by (intros x Hx; apply (Hmem 1); exact Hx).
  assert (Huse : forall x, In x useful -> wft' x) by (intros x Hx; apply (Hmem 2); exact Hx).
  clear Hmem. clearbody goal useful.
  match type of H with context [?f useful 1] => set (loop := f) in H end.
  destruct goal as [|g gs].
  - destruct useful as [|u0 us0]; [discriminate|].
    revert Huse H. generalize 1. generalize (u0 :: us0). clear u0 us0.
    intros usl. induction usl as [|u usl IHl]; intros total Huse H; [discriminate|].
    unfold loop in H at 1. lazy beta iota fix in H. fold loop in H.
    assert (Huse' : forall x, In x usl -> wft' x) by (intros x Hx; apply Huse; right; exact Hx).
    destruct (term_isolate_variable u v) as [iso|e] eqn:EI; [|discriminate].
    assert (Hwi : wft iso) by (eapply wft_isolate_variable; [apply (Huse u); left; reflexivity|exact EI]).
    match type of H with context [tactic_4 fuel ?a ?b ?c ?d ?e] =>
      destruct (tactic_4 fuel a b c d e) as [[[rt|] c']|e'] eqn:ER end.
    + inversion H; subst r cnt.
      apply wft_substitute_variable; [exact Ht|]. apply wft_multiply.
      apply (IHf _ _ _ _ _ _ _ (wft_multiply iso _ Hwi) (Forall_remove_first_t wft u ctx Hctx) ER).
    + apply (IHl _ Huse' H).
    + destruct (is_value_error e'); [apply (IHl _ Huse' H)|discriminate].
  - apply bind_inl in H. destruct H as [iso [EI H]]. inversion H; subst r cnt.
    apply wft_substitute_variable; [exact Ht|].
    eapply wft_isolate_variable; [apply (Hgoal g); left; reflexivity|exact EI].
Qed.

(** _tactic_4 : equal to the hand model for equal fuel.  Preconditions: the term being transformed and the
    context terms are objects built by the constructor (distinct keys, no stored zero): the code copies the context
    (`context.copy()`, which drops stored zeros) before removing the useful term, the hand model does not. *)
Theorem tactic_4_eq : forall fuel term ctx vs refine no_vars,
  wft' term -> Forall wft' ctx ->
  PolyhedralTermList__tactic_4 fuel term ctx vs refine no_vars = tactic_4 fuel term ctx vs refine no_vars.
Proof.
  induction fuel as [|fuel IHf]; intros term ctx vs refine no_vars Ht Hctx; [reflexivity|].
  cbn [PolyhedralTermList__tactic_4 tactic_4].
  destruct refine; cbn [negb]; [|reflexivity].
  cbv zeta. rewrite vars_eq. unfold len.
  destruct (Nat.ltb 1 (List.length (list_intersection vs (term_vars_p term)))); [reflexivity|].
  destruct (list_intersection vs (term_vars_p term)) as [|v crest] eqn:EC; [reflexivity|].
  cbn [list_get_m bind ret].
  set (P1 := fun c => negb (nonempty (list_intersection (term_vars_p c) no_vars)) &&
                      (negb (qzero (get_coefficient c v)) &&
                       qlt 0 (qmul (qmul 1 (get_coefficient c v)) (get_coefficient term v)))).
  set (N1 := fun c : pterm => Nat.eqb (List.length (list_intersection (term_vars_p c) vs)) 1).
  set (N2 := fun c : pterm => Nat.eqb (List.length (list_intersection (term_vars_p c) vs)) 2).
  (* the collecting loop *)
  rewrite (t4_collect P1 N1 N2).
  2:{ intros g u c Hc.
      assert (Hwc : wft' c) by (rewrite Forall_forall in Hctx; apply Hctx; exact Hc).
      rewrite vars_eq. unfold P1.
      destruct (nonempty (list_intersection (term_vars_p c) no_vars)); cbn [negb andb]; [reflexivity|].
      rewrite get_coefficient_eq, bind_ret_l. unfold q_neb. fold (qzero (get_coefficient c v)).
      destruct (qzero (get_coefficient c v)); cbn [negb andb bind ret]; [reflexivity|].
      rewrite get_coefficient_eq. cbn [bind ret]. unfold qgt.
      destruct (qlt 0 (qmul (qmul 1 (get_coefficient c v)) (get_coefficient term v))); [|reflexivity].
      rewrite (copy_eq c (proj1 Hwc)), (term_copy_id c (proj2 Hwc)). unfold N1, N2, len.
      destruct (Nat.eqb (List.length (list_intersection (term_vars_p c) vs)) 1);
        destruct (Nat.eqb (List.length (list_intersection (term_vars_p c) vs)) 2); reflexivity. }
  cbn [app bind ret].
  rewrite !filter_filter.
  rewrite !(map_copy_wft' (filter _ ctx)) by (apply Forall_filter_t; exact Hctx).
  fold N1 N2.
  set (goal := filter (fun c => P1 c && N1 c) ctx).
  set (useful := filter (fun c => P1 c && N2 c) ctx).
  assert (Hgoal : forall x, In x goal -> In x ctx) by (intros x Hx; apply filter_In in Hx; apply Hx).
  assert (Huse : forall x, In x useful -> In x ctx) by (intros x Hx; apply filter_In in Hx; apply Hx).
  clearbody goal useful.
  assert (Hin : forall x, In x ctx -> wft' x) by (intros x Hx; rewrite Forall_forall in Hctx; apply Hctx; exact Hx).
  destruct goal as [|g gs].
  - (* recursive branch *)
    match goal with |- _ = ?rhs => match rhs with context [?f useful 1] => set (loop := f) end end.
    match goal with |- context [for_ret_m _ _ ?b] => set (body := b) end.
    destruct useful as [|u0 us0]; [reflexivity|].
    cbn [nonempty negb andb].
    revert Huse. generalize 1. generalize (u0 :: us0). clear u0 us0.
    intros usl. induction usl as [|u usl IHl]; intros total Huse; [reflexivity|].
    assert (Huse' : forall x, In x usl -> In x ctx) by (intros x Hx; apply Huse; right; exact Hx).
    cbn [for_ret_m]. unfold loop at 1. lazy beta iota fix. fold loop.
    unfold body at 1.
    assert (Hu : wft' u) by (apply Hin, Huse; left; reflexivity).
    rewrite (termlist_copy_id ctx Hctx).
    rewrite (t_remove_m u ctx) by (apply existsb_in_refl; [apply Hu|apply Huse; left; reflexivity]).
    rewrite bind_ret_l, get_coefficient_eq, bind_ret_l, ?bind_if_ret, (isolate_variable_eq' u v Hu).
    destruct (term_isolate_variable u v) as [iso|e] eqn:EI; [|reflexivity].
    cbn [bind].
    assert (Hwi : wft iso) by (eapply wft_isolate_variable; [apply Hu|exact EI]).
    rewrite (multiply_eq iso _ Hwi).
    assert (Hctx' : Forall wft' (remove_first u ctx)) by (apply Forall_remove_first_t; exact Hctx).
    rewrite IHf by (try (apply wft'_multiply; exact Hwi); exact Hctx').
    unfold remove_first_term. unfold qgt.
    set (sign := if qlt 0 (get_coefficient term v) then 1%Q else (-(1))%Q).
    change (if qlt (0 # 1) (get_coefficient term v) then (1 # 1)%Q else (-1 # 1)%Q) with sign.
    destruct (tactic_4 fuel (term_multiply iso sign) (remove_first u ctx) vs true (no_vars ++ [v]))
      as [[[rt|] c]|e] eqn:ER; cbn [bind ret try_except try_value_error].
    + assert (Hwr : wft rt).
      { apply (tactic_4_wft fuel (term_multiply iso sign) (remove_first u ctx) vs true (no_vars ++ [v]) rt c);
          [apply wft_multiply; exact Hwi|apply Forall_wft'_wft; exact Hctx'|exact ER]. }
      rewrite (multiply_eq rt sign Hwr).
      rewrite (substitute_variable_eq' term v _ Ht (wft_multiply rt sign Hwr)). reflexivity.
    + apply (IHl _ Huse').
    + destruct (is_value_error e); [|reflexivity]. cbn [bind ret]. rewrite Nat.add_1_r. apply (IHl _ Huse').
  - (* direct branch *)
    cbn [nonempty negb]. rewrite Bool.andb_false_r. cbn [list_get_m bind ret].
    assert (Hg : wft' g) by (apply Hin, Hgoal; left; reflexivity).
    rewrite (isolate_variable_eq' g v Hg).
    destruct (term_isolate_variable g v) as [iso|e] eqn:EI; [|reflexivity].
    cbn [bind ret].
    assert (Hwi : wft iso) by (eapply wft_isolate_variable; [apply Hg|exact EI]).
    rewrite (substitute_variable_eq' term v iso Ht Hwi). reflexivity.
Qed.

(* ------------------------------------------------------------------ *)
(** The precondition is necessary, and outside it the HAND MODEL differs from the code (checked on the real library,
    PYTHONPATH=/repo/src): with a stored zero coefficient in a context term (only obtainable by assigning to
    `t.variables`; the constructor drops zeros), `context.copy()` in the loop over useful_context drops the zero entry,
    so the recursive call of the code sees `-y <= 5` (one conflict variable: a goal term) and succeeds with
    `k <= -5`, count 2; the hand model passes the un-copied context, sees two conflict variables y, z, recurses once
    more and ends in `conflict_vars[0]` on an empty list. *)
Local Open Scope string_scope.
Example tactic_4_stored_zero :
  let term := mkT [("x", 1%Q); ("k", 1%Q)] 0%Q in
  let c1 := mkT [("x", 1%Q); ("y", 1%Q)] 0%Q in                  (* useful: mentions x and y *)
  let c2 := mkT [("y", (-1 # 1)%Q); ("z", 0%Q)] 5%Q in           (* -y <= 5, with a stored zero for z *)
  PolyhedralTermList__tactic_4 3 term [c1; c2] ["x"; "y"; "z"] true []
    = inl (Some (mkT [("k", 1%Q)] (-5 # 1)%Q), 2)
  /\ tactic_4 3 term [c1; c2] ["x"; "y"; "z"] true [] = inr (Escape "IndexError").
Proof. split; vm_compute; reflexivity. Qed.
