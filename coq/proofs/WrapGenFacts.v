(* WrapGenFacts.v — the thin wrappers of pacti/contracts/polyhedral_iocontract.py:PolyhedralIoContract,
   translated into gen/WrapGen.v on every run, are EQUAL to the hand model of model/PolyDomain.v
   (instantiated at the polyhedral domain [poly_domain O]):

     wrap_rename_variables_eq   PolyhedralIoContract_rename_variables c ms     = poly_rename_variables O c ms
     wrap_compose_tactics_eq    PolyhedralIoContract_compose_tactics c1 c2 …   = poly_compose_tactics O c1 c2 …
     wrap_quotient_tactics_eq   PolyhedralIoContract_quotient_tactics c c1 …   = poly_quotient_tactics O c c1 …
     wrap_compose_eq / wrap_quotient_eq : compose / quotient are the first component of the *_tactics wrappers
       called with tactics_order = None (there is no separate hand model: model/PolyDomain.v only has the
       *_tactics forms).  NOTE the method resolution: PolyhedralIoContract.compose calls IoContract.compose,
       whose `self.compose_tactics(...)` is the OVERRIDE of this class, so the default order is the module's
       TACTICS_ORDER and not the `[]` that IoContract.compose_tactics substitutes for None
       ([wrap_compose_not_static] records the difference with gen/AlgebraGen.v:IoContract_compose).
     wrap_get_variable_bounds_eq : no hand model; characterised over the abstract `optimize`
       (maximise first, then minimise; the pair is (minimum, maximum); the first error wins).

   NOT translated, hence no obligation here: to_machine_dict, to_dict, from_strings, from_dict, optimize. *)

(* split by method so that an edit of one wrapper breaks only the obligations that depend on it *)
Require Export WrapGenBase WrapGenRename WrapGenCompose WrapGenQuotient WrapGenBounds.
