(* SyntaxGenAbsTerm.v — T1 tie, data.py class PolyhedralSyntaxAbsoluteTerm (is_positive, negate, same_term_list,
   to_term_list) and the module functions _combine_optional_floats, _combine_or_append,
   _generate_absolute_term_combinations (gen/SyntaxGen.v) against model/Syntax.v.
   same_term_list is tied THROUGH the stated assumption about __repr__ (base/PySyntax.v:stl_repr_key): the generated
   function compares the abstract repr keys, which is proved to be the structural comparison of the hand model. *)
From Coq Require Import List String Bool QArith ZArith Lia.
Import ListNotations.
Require Import Py ListsGen Sem PyDict PyLoop PySyntax Term Ast Syntax TermGen SyntaxGen.
Require Import ListsFacts TermFacts TermGenBase SyntaxFacts SyntaxGenBase SyntaxGenTermList.
Open Scope py_scope.
Local Open Scope Q_scope.

(* ------------------------------------------------------------------ *)
(** * PolyhedralSyntaxAbsoluteTerm *)
Theorem abs_is_positive_eq a : PolyhedralSyntaxAbsoluteTerm_is_positive a = abs_is_positive (to_sabs a).
Proof.
  unfold PolyhedralSyntaxAbsoluteTerm_is_positive, abs_is_positive, qgt. cbn [acoef to_sabs].
  destruct (gcoef a); reflexivity.
Qed.

Theorem abs_negate_eq a : to_sabs (PolyhedralSyntaxAbsoluteTerm_negate a) = abs_negate (to_sabs a).
Proof. destruct a as [b [c|]]; reflexivity. Qed.
Lemma abs_negate_body a : gbody (PolyhedralSyntaxAbsoluteTerm_negate a) = gbody a.
Proof. destruct a as [b [c|]]; reflexivity. Qed.

(* under the assumption about __repr__ (see base/PySyntax.v and the header of gen/SyntaxGen.v) *)
Theorem same_term_list_eq a b :
  PolyhedralSyntaxAbsoluteTerm_same_term_list a b = same_term_list (to_sabs a) (to_sabs b).
Proof. unfold PolyhedralSyntaxAbsoluteTerm_same_term_list, same_term_list. cbv zeta. apply repr_key_same_body. Qed.

Theorem abs_to_term_list_eq a :
  gwfabs a -> to_stl (PolyhedralSyntaxAbsoluteTerm_to_term_list a) = abs_to_term_list (to_sabs a).
Proof.
  intros Hwf. unfold PolyhedralSyntaxAbsoluteTerm_to_term_list, abs_to_term_list, to_stl. cbv zeta.
  cbn [gconst gfactors sconst sfactors abody acoef to_sabs to_stl].
  set (m := match gcoef a with None => 1 # 1 | Some c => c end).
  replace (match gcoef a with None => 1 | Some c => c end) with m by (subst m; destruct (gcoef a); reflexivity).
  f_equal.
  rewrite (for_list_fold (fun acc p => dict_set acc (fst p) (qmul m (snd p)))).
  - rewrite (fold_set_map (qmul m) (gfactors (gbody a)) dict_empty Hwf). reflexivity.
  - intros acc [f v] _. reflexivity.
Qed.
Corollary abs_to_term_list_of a :
  gwfabs a -> PolyhedralSyntaxAbsoluteTerm_to_term_list a = of_stl (abs_to_term_list (to_sabs a)).
Proof. intros H. rewrite <- (abs_to_term_list_eq a H), of_to_stl. reflexivity. Qed.

(* ------------------------------------------------------------------ *)
(** * _combine_optional_floats *)
Theorem combine_optional_floats_eq f1 f2 : data_combine_optional_floats f1 f2 = combine_optional_floats f1 f2.
Proof. destruct f1, f2; reflexivity. Qed.

(* ------------------------------------------------------------------ *)
(** * _combine_or_append *)
Definition coa_new (term a : gabs) : gabs :=
  mkGA (gbody a) (data_combine_optional_floats (gcoef a) (gcoef term)).
Definition coa_g (term a : gabs) : gabs :=
  if PolyhedralSyntaxAbsoluteTerm_same_term_list a term then coa_new term a else a.
Definition coa_stepg (term : gabs) (acc : list gabs * bool) (a : gabs) : list gabs * bool :=
  if PolyhedralSyntaxAbsoluteTerm_same_term_list a term then (py_append (fst acc) (coa_new term a), true)
  else (py_append (fst acc) a, snd acc).
Lemma coa_fold term atl r b :
  fold_left (coa_stepg term) atl (r, b)
  = (r ++ map (coa_g term) atl, b || existsb (fun a => PolyhedralSyntaxAbsoluteTerm_same_term_list a term) atl).
Proof.
  revert r b. induction atl as [|a rest IH]; intros r b.
  - cbn. rewrite app_nil_r, orb_false_r. reflexivity.
  - cbn [fold_left map existsb].
    assert (Hs : coa_stepg term (r, b) a
                 = if PolyhedralSyntaxAbsoluteTerm_same_term_list a term then (r ++ [coa_new term a], true)
                   else (r ++ [a], b)) by reflexivity.
    assert (Hg : coa_g term a = if PolyhedralSyntaxAbsoluteTerm_same_term_list a term then coa_new term a else a)
      by reflexivity.
    rewrite Hs, Hg.
    destruct (PolyhedralSyntaxAbsoluteTerm_same_term_list a term); rewrite IH, <- app_assoc; cbn [app orb].
    + rewrite orb_true_r. reflexivity.
    + reflexivity.
Qed.
Lemma existsb_map' {A B} (f : B -> bool) (g : A -> B) l : existsb f (map g l) = existsb (fun x => f (g x)) l.
Proof. induction l as [|x r IH]; [reflexivity|]. cbn. rewrite IH. reflexivity. Qed.
Lemma existsb_ext' {A} (f g : A -> bool) l : (forall x, f x = g x) -> existsb f l = existsb g l.
Proof. intros H. induction l as [|x r IH]; [reflexivity|]. cbn. rewrite H, IH. reflexivity. Qed.

Theorem combine_or_append_eq atl term :
  map to_sabs (data_combine_or_append atl term) = combine_or_append (map to_sabs atl) (to_sabs term).
Proof.
  unfold data_combine_or_append. cbv zeta.
  rewrite (for_list_fold (coa_stepg term)).
  2:{ intros [r b] a _. unfold coa_stepg, coa_new. cbn [fst snd].
      destruct (PolyhedralSyntaxAbsoluteTerm_same_term_list a term); reflexivity. }
  rewrite coa_fold. cbn [app orb]. unfold combine_or_append.
  rewrite existsb_map'.
  rewrite (existsb_ext' (fun x => same_term_list (to_sabs x) (to_sabs term))
                        (fun a => PolyhedralSyntaxAbsoluteTerm_same_term_list a term) atl)
    by (intros x; symmetry; apply same_term_list_eq).
  assert (Hm : map to_sabs (map (coa_g term) atl)
               = map (fun a => if same_term_list a (to_sabs term)
                               then mkAbs (abody a) (combine_optional_floats (acoef a) (acoef (to_sabs term)))
                               else a) (map to_sabs atl)).
  { rewrite !map_map. apply map_ext. intros a. unfold coa_g, coa_new. rewrite same_term_list_eq.
    destruct (same_term_list (to_sabs a) (to_sabs term)); [|reflexivity].
    unfold to_sabs at 1. cbn [gbody gcoef]. rewrite combine_optional_floats_eq. reflexivity. }
  destruct (existsb (fun a => PolyhedralSyntaxAbsoluteTerm_same_term_list a term) atl); cbn [negb].
  - exact Hm.
  - unfold py_append. rewrite map_app, Hm. reflexivity.
Qed.
Corollary combine_or_append_of atl term :
  data_combine_or_append atl term = map of_sabs (combine_or_append (map to_sabs atl) (to_sabs term)).
Proof. rewrite <- combine_or_append_eq, map_of_to_sabs. reflexivity. Qed.

(* ------------------------------------------------------------------ *)
(** * _generate_absolute_term_combinations *)
(* itertools.product([True, False], repeat=n) *)
Lemma py_product_sign_vectors n : py_product [true; false] n = sign_vectors n.
Proof.
  induction n as [|k IH]; [reflexivity|]. cbn [py_product sign_vectors flat_map]. rewrite IH, app_nil_r. reflexivity.
Qed.
Lemma sign_vectors_length n signs : In signs (sign_vectors n) -> List.length signs = n.
Proof.
  revert signs. induction n as [|k IH]; intros signs H.
  - destruct H as [<-|[]]. reflexivity.
  - cbn [sign_vectors] in H. apply in_app_or in H.
    destruct H as [H|H]; apply in_map_iff in H; destruct H as [v [<- Hv]]; cbn [List.length]; rewrite (IH v Hv); reflexivity.
Qed.

(* the inner loop: for i, is_positive in enumerate(signs): c = c.add(atl[i][.negate()].to_term_list()) *)
Lemma enumerate_z_from_cons {X} n (x : X) r :
  map (fun p => (Z.of_nat (fst p), snd p)) (enumerate_from n (x :: r))
  = (Z.of_nat n, x) :: map (fun p => (Z.of_nat (fst p), snd p)) (enumerate_from (S n) r).
Proof. reflexivity. Qed.

Lemma combination_loop (atl : list gabs) (body : gstl -> Z * bool -> M (ctl gstl)) :
  Forall gwfabs atl ->
  (forall c i b, body c (i, b) =
     bind (py_index atl i)
          (fun t => bind (PolyhedralSyntaxTermList_add c (PolyhedralSyntaxAbsoluteTerm_to_term_list
                                                           (if b then t else PolyhedralSyntaxAbsoluteTerm_negate t)))
                         (fun c' => ret (Continue c')))) ->
  forall signs pre rest c,
    atl = pre ++ rest -> (List.length signs <= List.length rest)%nat ->
    for_list_m (map (fun p => (Z.of_nat (fst p), snd p)) (enumerate_from (List.length pre) signs)) c body
    = ret (of_stl (combination signs (map to_sabs rest) (to_stl c))).
Proof.
  intros Hwf Hb. induction signs as [|s ss IH]; intros pre rest c Hatl Hlen.
  - cbn [enumerate_from map for_list_m combination]. rewrite of_to_stl. reflexivity.
  - destruct rest as [|a rest']; [cbn in Hlen; lia|].
    rewrite enumerate_z_from_cons. cbn [for_list_m]. rewrite Hb, Hatl, py_index_app_mid. cbn [bind ret].
    assert (Ha : gwfabs a).
    { rewrite Forall_forall in Hwf. apply Hwf. rewrite Hatl. apply in_or_app. right. left. reflexivity. }
    assert (Hx : PolyhedralSyntaxAbsoluteTerm_to_term_list (if s then a else PolyhedralSyntaxAbsoluteTerm_negate a)
                 = of_stl (abs_signed s (to_sabs a))).
    { unfold abs_signed. destruct s.
      - apply abs_to_term_list_of. exact Ha.
      - rewrite abs_to_term_list_of, abs_negate_eq; [reflexivity|].
        unfold gwfabs. rewrite abs_negate_body. exact Ha. }
    rewrite Hx, stl_add_ret. cbn [bind ret]. rewrite to_of_stl.
    replace (S (List.length pre)) with (List.length (pre ++ [a])) by (rewrite app_length; cbn; lia).
    rewrite (IH (pre ++ [a]) rest').
    + cbn [map combination]. rewrite to_of_stl. reflexivity.
    + rewrite Hatl, <- app_assoc. reflexivity.
    + cbn in Hlen. lia.
Qed.

(* for x in l: cs.append(g x)  with a raising computation of g x *)
Lemma fold_append_map {X A} (g : X -> A) l acc : fold_left (fun a x => a ++ [g x]) l acc = acc ++ map g l.
Proof.
  revert acc. induction l as [|x r IH]; intros acc; cbn [fold_left map]; [rewrite app_nil_r; reflexivity|].
  rewrite IH, <- app_assoc. reflexivity.
Qed.
Lemma for_list_m_collect {X A} (g : X -> A) body (l : list X) (acc : list A) :
  (forall a x, In x l -> body a x = ret (Continue (a ++ [g x]))) ->
  for_list_m l acc body = ret (acc ++ map g l).
Proof. intros H. rewrite (for_list_m_fold (fun a x => a ++ [g x]) body l acc H), fold_append_map. reflexivity. Qed.

Theorem generate_absolute_term_combinations_ret atl :
  Forall gwfabs atl ->
  data_generate_absolute_term_combinations atl
  = ret (map of_stl (generate_absolute_term_combinations (map to_sabs atl))).
Proof.
  intros Hwf. unfold data_generate_absolute_term_combinations, generate_absolute_term_combinations. cbv zeta.
  unfold py_product_z, zlen. rewrite Nat2Z.id, py_product_sign_vectors, map_length.
  rewrite (for_list_m_collect (fun signs => of_stl (combination signs (map to_sabs atl) stl_zero))).
  - cbn [bind ret app]. rewrite map_map. reflexivity.
  - intros cs signs Hin. unfold enumerate_z, enumerate.
    rewrite (combination_loop atl _ Hwf) with (pre := []) (rest := atl).
    + cbn [bind ret]. reflexivity.
    + intros c i b. destruct b; reflexivity.
    + reflexivity.
    + rewrite (sign_vectors_length _ _ Hin). lia.
Qed.
Theorem generate_absolute_term_combinations_eq atl :
  Forall gwfabs atl ->
  mmap (map to_stl) (data_generate_absolute_term_combinations atl)
  = ret (generate_absolute_term_combinations (map to_sabs atl)).
Proof. intros H. rewrite (generate_absolute_term_combinations_ret atl H). cbn [mmap ret]. rewrite map_to_of_stl. reflexivity. Qed.

(* ------------------------------------------------------------------ *)
(** * The hypothesis is necessary for to_term_list *)
Local Open Scope string_scope.
Example to_term_list_repeated_key :
  to_stl (PolyhedralSyntaxAbsoluteTerm_to_term_list (mkGA (mkG 0 [("x", 1); ("x", 2 # 1)]) None)) = mkSTL 0 [("x", 2 # 1)]
  /\ abs_to_term_list (mkAbs (mkSTL 0 [("x", 1); ("x", 2 # 1)]) None) = mkSTL 0 [("x", 1); ("x", 2 # 1)].
Proof. split; reflexivity. Qed.
