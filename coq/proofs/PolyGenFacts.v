(* PolyGenFacts.v — the obligations that tie the hand model of the LP-based part of PolyhedralTermList (model/Poly.v)
   to the code: for every function translated by translator/py2coq_poly.py into gen/PolyGen.v (regenerated from
   /repo/src on every run), the generated function, with scipy's linprog instantiated by the oracle O behind scipy's
   input validation (PolyGenBase.poly_lp), EQUALS the hand model, as monadic results (values and error kinds):

     PolyGenPolytope.v   term_to_polytope_eq, polytope_to_term_eq (+ _assert), sub_eq, termlist_to_polytope_eq,
                         polytope_to_termlist_eq (+ _empty, _assert)
     PolyGenReduce.v     while_reduce (the while loop is reduce_loop; the fuel n is never exhausted),
                         reduce_polytope_eq, reduce_polytope_novars, simplify_eq
     PolyGenEmpty.v      is_polytope_empty_eq (+ _no_context), is_empty_eq
     PolyGenContain.v    verify_polytope_containment_eq (+ _no_vars), refines_eq
     PolyGenOptimize.v   optimize_eq

   A semantic change of one of these functions changes gen/PolyGen.v and the matching proof stops compiling; the
   files are split by function group so that an edit breaks only the obligations that depend on it.

   Preconditions, and why each is needed (Examples below):
   * simplify_eq: [Forall wft' self], [Forall wft' context]: `self - context` copies both operands first, and
     copy() drops a stored zero coefficient / merges a repeated key (an association list that is no Python dict),
     which changes which terms are equal to a context term; polytope_to_term builds the dict item by item.
   * simplify_eq: [canon_terms self] (constants in lowest terms): reduce_polytope returns (b + 1) - 1 for the bound
     b of a row it keeps.  In exact arithmetic that is the NUMBER b, but not the same value of type Q when b is not
     normalised (model arithmetic normalises with Qred, the hand model returns b untouched).  In the real library
     the round trip is not even the identity on floats: simplify([x <= 0.1, y <= 0.1]) returns the constants
     0.10000000000000009 (rounding is not modelled, DESIGN 6; found by reading the generated text).
   * optimize_eq: [NoDup (keys objective)]: the objective is a Python dict.
   * is_empty_eq, refines_eq, termlist_to_polytope_eq, is_polytope_empty_eq: NO precondition.
   * reduce_polytope_eq, verify_polytope_containment_eq are stated on the shapes their callers build (rows with one
     coefficient per variable, at least one variable; the no-variable shapes are separate lemmas). *)
From Coq Require Import List String Bool Arith QArith ZArith.
Import ListNotations.
Require Import Py ListsGen ConstGen Sem PyDict PyLoop PyTermList PyNumpy Term Poly TermGen TermFacts PolyGen.
Require Export PolyGenBase PolyGenPolytope PolyGenReduce PolyGenEmpty PolyGenContain PolyGenOptimize.
Open Scope py_scope.
Local Open Scope Q_scope.

(** The explicit fuel of the translated while loop is never exhausted (and no other artefact of the translation —
    a shape the array model does not follow, a negative count — is ever reached) on the inputs of simplify_eq:
    the hand model has no such outcome. *)
Lemma poly_simplify_no_escape O self context k :
  poly_simplify O self context <> raise (Escape k).
Proof.
  intros E. destruct (PolyFacts.nil_or_not (polytope_vars
     (match context with Some c => list_diff self c | None => self end) (opt_list context))) as [Ev|Hne].
  - unfold poly_simplify in E. cbv zeta in E. rewrite Ev in E.
    destruct (existsb _ (opt_list context)); [discriminate|].
    destruct (match context with Some c => list_diff self c | None => self end) as [|t [|t' r]]; discriminate.
  - unfold poly_simplify in E. cbv zeta in E. rewrite (match_nonnil _ _ _ Hne) in E.
    destruct (reduce_polytope O _ _ _) as [red|e] eqn:ER; [discriminate|].
    destruct (reduce_polytope_err O _ _ _ e ER) as [-> | ->]; discriminate.
Qed.
Corollary simplify_fuel_suffices O self context :
  Forall wft' self -> Forall wft' (opt_list context) -> canon_terms self ->
  @PolyhedralTermList_simplify (poly_lp O) self context <> raise (Escape "fuel").
Proof. intros H1 H2 H3. rewrite simplify_eq by assumption. apply poly_simplify_no_escape. Qed.

(* ------------------------------------------------------------------ *)
(** * Why the preconditions are needed *)
(* an oracle that never decides (status 1): every row is kept *)
Definition O_undecided : oracle := fun _ => LpOther 1.
(* a constant that is not in lowest terms: the code returns (2/4 + 1) - 1 = 1/2, the hand model 2/4 *)
Example simplify_noncanonical_constant :
  let self := [mkT [("x"%string, 1)] (2 # 4); mkT [("y"%string, 1)] 1] in
  @PolyhedralTermList_simplify (poly_lp O_undecided) self None
    = ret [mkT [("x"%string, 1)] (1 # 2); mkT [("y"%string, 1)] 1]
  /\ poly_simplify O_undecided self None = ret self.
Proof. split; vm_compute; reflexivity. Qed.
(* a stored zero coefficient (only obtainable by assigning to t.variables): copy() drops it, the term then equals
   the context term and is removed; the hand model compares the stored dicts *)
Example simplify_stored_zero :
  let self := [mkT [("x"%string, 0)] 1] in
  let context := Some [mkT [] 1] in
  @PolyhedralTermList_simplify (poly_lp O_undecided) self context = ret []
  /\ poly_simplify O_undecided self context = ret [mkT [] 1].
Proof. split; vm_compute; reflexivity. Qed.

(* ------------------------------------------------------------------ *)
(** * The error kinds of the degenerate shapes (recent fix: constant context rows) are those of the model *)
Example simplify_false_constant_context O :
  @PolyhedralTermList_simplify (poly_lp O) [mkT [] 1] (Some [mkT [] (-1 # 2)]) = raise ValueErr.
Proof. reflexivity. Qed.
Example simplify_true_constant_context O :
  @PolyhedralTermList_simplify (poly_lp O) [mkT [] 1] (Some [mkT [] (1 # 2)]) = ret [mkT [] 1].
Proof. reflexivity. Qed.

Print Assumptions simplify_eq.
Print Assumptions refines_eq.
Print Assumptions is_empty_eq.
Print Assumptions optimize_eq.
