(* proofs/HeapGenFacts.v — the heap-level purity theorems of proofs/PyHeapFacts.v instantiated on gen/HeapGen.v, the effect
   program that translator/py2coq_heap.py extracts from the CURRENT /repo/src on every run.

   [pacti_prog_checked] is re-established by computation against what the source says now: an edit that makes any
   extracted function write to an object it did not create in the same activation (or hand such an object to something
   that does) makes [check_prog pacti_prog] compute to [false] and this file stops compiling. *)
Require Import String List ZArith Bool Arith Lia.
Require Import PyHeap PyHeapFacts HeapGen.
Import ListNotations.
Open Scope string_scope.

Theorem pacti_prog_checked : check_prog pacti_prog = true.
Proof. vm_compute. reflexivity. Qed.

Theorem pacti_names_unique : nodupb (map fst pacti_prog) = true.
Proof. vm_compute. reflexivity. Qed.

(* no function on the extractor's EXCLUDED list is part of the program (so none can be a callee of a checked function) *)
Theorem pacti_excluded_absent : forallb (fun f => negb (defined pacti_prog f)) pacti_excluded = true.
Proof. vm_compute. reflexivity. Qed.

(* FRAME for every extracted function that does not declare mutates_self: whatever the arguments, the heap, the oracle
   (branches taken, iterations, dispatch, externals' answers, values of module-level names) and the fuel, a terminating
   run modifies no cell that existed before the call. *)
Theorem pacti_operands_unchanged : forall f fd, In (f, fd) pacti_prog -> mutates_self fd = false ->
  forall args h fuel oracle h' v,
  run pacti_prog f args h fuel oracle = Some (h', v) ->
  length h <= length h' /\ forall r, r < length h -> nth_error h' r = nth_error h r.
Proof.
  intros f fd I M args h fuel oracle h' v R.
  eapply (frame_pure pacti_prog pacti_prog_checked f fd); eauto.
  apply In_find; [exact pacti_names_unique|exact I].
Qed.

(* the functions that do declare mutates_self (the __init__ methods) modify at most the cell of their receiver *)
Theorem pacti_only_receiver_changed : forall f fd, In (f, fd) pacti_prog ->
  forall args h fuel oracle h' v, arg0_valid h args ->
  run pacti_prog f args h fuel oracle = Some (h', v) ->
  length h <= length h' /\
  forall r, r < length h -> hd (VAtom 0) args <> VRef r -> nth_error h' r = nth_error h r.
Proof.
  intros f fd I args h fuel oracle h' v AV R.
  eapply (frame_self pacti_prog pacti_prog_checked f fd); eauto.
  apply In_find; [exact pacti_names_unique|exact I].
Qed.

(* FRESH: a function whose result claim is Atom/Fresh/Deep/AnyFresh returns an immutable value or an object that did
   not exist before the call *)
Theorem pacti_results_new : forall f fd, In (f, fd) pacti_prog -> fresh_result fd = true -> mutates_self fd = false ->
  forall args h fuel oracle h' v,
  run pacti_prog f args h fuel oracle = Some (h', v) ->
  match v with VAtom _ => True | VRef r => length h <= r end.
Proof.
  intros f fd I FR M args h fuel oracle h' v R.
  eapply (fresh_returned pacti_prog pacti_prog_checked f fd); eauto.
  - apply In_find; [exact pacti_names_unique|exact I].
  - congruence.
Qed.

(* DETERMINED-BY-HEAP: any sequence of pure library calls, of any length, leaves every cell of the heap it started from
   unchanged — so the operands of an earlier call are bit-for-bit the same when the call is repeated later *)
Theorem pacti_history_independent : forall cs h h',
  Forall (fun c : call => mutates_self_of pacti_prog (fst (fst (fst c))) = false) cs ->
  run_calls pacti_prog cs h = Some h' ->
  length h <= length h' /\ forall r, r < length h -> nth_error h' r = nth_error h r.
Proof. exact (pure_calls_frame pacti_prog pacti_prog_checked). Qed.

(* exactly these functions declare mutates_self (constructors' __init__, the documented in-place IoContract.simplify, a
   dataclass __post_init__): every OTHER extracted function is covered by [pacti_operands_unchanged] *)
Theorem pacti_receiver_mutators :
  map fst (filter (fun nf => mutates_self (snd nf)) pacti_prog)
  = ["Var.__init__"; "TermList.__init__"; "IoContract.__init__"; "IoContract.simplify"; "IoContractCompound.__init__";
     "PolyhedralTerm.__init__"; "PolyhedralTermList.__init__"; "PolyhedralSyntaxEqlExpression.__post_init__"].
Proof. vm_compute. reflexivity. Qed.

(* the public operations of the library are defined in the program and do not declare mutates_self *)
Definition pacti_public_ops : list string :=
  [ "IoContract.compose"; "IoContract.compose_tactics"; "IoContract.quotient"; "IoContract.quotient_tactics";
    "IoContract.merge"; "IoContract.refines"; "IoContract.copy"; "IoContract.rename_variable"; "IoContract.__le__";
    "IoContract.__eq__"; "IoContract.__str__"; "IoContract.__hash__"; "IoContract.__repr__"; "IoContract.vars";
    "IoContract.can_compose_with"; "IoContract.can_quotient_by"; "IoContract.shares_io_with";
    "IoContract.contains_environment"; "IoContract.contains_implementation";
    "IoContract.__new_init__"; "PolyhedralIoContract.__new_init__";
    "PolyhedralIoContract.rename_variables"; "PolyhedralIoContract.to_machine_dict"; "PolyhedralIoContract.to_dict";
    "PolyhedralIoContract.from_strings"; "PolyhedralIoContract.from_dict"; "PolyhedralIoContract.compose";
    "PolyhedralIoContract.compose_tactics"; "PolyhedralIoContract.quotient"; "PolyhedralIoContract.quotient_tactics";
    "PolyhedralIoContract.optimize"; "PolyhedralIoContract.get_variable_bounds";
    "PolyhedralIoContractCompound.from_strings"; "PolyhedralIoContractCompound.to_dict";
    "PolyhedralIoContractCompound.__new_init__"; "IoContractCompound.__new_init__"; "IoContractCompound.merge";
    "IoContractCompound.__eq__"; "IoContractCompound.__str__";
    "NestedTermList.__new_init__"; "NestedPolyhedra.__new_init__"; "NestedTermList.simplify"; "NestedTermList.intersect";
    "NestedTermList.copy"; "NestedTermList.contains_behavior"; "NestedTermList.vars"; "NestedTermList.__le__";
    "NestedTermList.__eq__"; "NestedTermList.__str__";
    "TermList.__new_init__"; "TermList.vars"; "TermList.__str__"; "TermList.__eq__"; "TermList.get_terms_with_vars";
    "TermList.__and__"; "TermList.__or__"; "TermList.__sub__"; "TermList.__le__"; "TermList.__hash__"; "TermList.copy";
    "TermList.rename_variable";
    "PolyhedralTermList.__new_init__"; "PolyhedralTermList.__str__"; "PolyhedralTermList.__hash__";
    "PolyhedralTermList.to_str_list"; "PolyhedralTermList.evaluate"; "PolyhedralTermList.contains_behavior";
    "PolyhedralTermList.elim_vars_by_refining"; "PolyhedralTermList.elim_vars_by_relaxing";
    "PolyhedralTermList.lacks_constraints"; "PolyhedralTermList.simplify"; "PolyhedralTermList.refines";
    "PolyhedralTermList.is_empty"; "PolyhedralTermList.optimize"; "PolyhedralTermList._transform";
    "PolyhedralTermList._transform_term"; "PolyhedralTermList._tactic_1"; "PolyhedralTermList._tactic_2";
    "PolyhedralTermList._tactic_3"; "PolyhedralTermList._tactic_4"; "PolyhedralTermList._tactic_5";
    "PolyhedralTermList._tactic_trivial"; "PolyhedralTermList._context_reduction";
    "PolyhedralTermList._get_kaykobad_context"; "PolyhedralTermList._get_tlp_context";
    "PolyhedralTermList.termlist_to_polytope"; "PolyhedralTermList.polytope_to_termlist";
    "PolyhedralTermList.reduce_polytope"; "PolyhedralTermList.verify_polytope_containment";
    "PolyhedralTermList.is_polytope_empty";
    "PolyhedralTerm.__new_init__"; "PolyhedralTerm.__eq__"; "PolyhedralTerm.__str__"; "PolyhedralTerm.__hash__";
    "PolyhedralTerm.__repr__"; "PolyhedralTerm.__add__"; "PolyhedralTerm.copy"; "PolyhedralTerm.rename_variable";
    "PolyhedralTerm.vars"; "PolyhedralTerm.contains_var"; "PolyhedralTerm.get_coefficient";
    "PolyhedralTerm.get_polarity"; "PolyhedralTerm.get_sign"; "PolyhedralTerm.get_matching_vars";
    "PolyhedralTerm.remove_variable"; "PolyhedralTerm.multiply"; "PolyhedralTerm.substitute_variable";
    "PolyhedralTerm.isolate_variable"; "PolyhedralTerm.to_symbolic"; "PolyhedralTerm.to_term";
    "PolyhedralTerm.term_to_polytope"; "PolyhedralTerm.polytope_to_term"; "PolyhedralTerm.solve_for_variables";
    "serializer.validate_contract_dict"; "serializer.polyhedral_term_list_to_strings";
    "serializer.polyhedral_termlist_from_string";
    "lists.list_intersection"; "lists.list_diff"; "lists.list_union"; "lists.lists_equal";
    "fileio.read_contracts_from_file"; "fileio.write_contracts_to_file" ].

Theorem pacti_public_ops_pure : forallb (fun f => negb (mutates_self_of pacti_prog f)) pacti_public_ops = true.
Proof. vm_compute. reflexivity. Qed.

(* … hence, spelled out for the public operations by NAME *)
Theorem pacti_public_ops_frame : forall f, In f pacti_public_ops ->
  forall args h fuel oracle h' v,
  run pacti_prog f args h fuel oracle = Some (h', v) ->
  length h <= length h' /\ forall r, r < length h -> nth_error h' r = nth_error h r.
Proof.
  intros f I args h fuel oracle h' v R.
  pose proof pacti_public_ops_pure as PP. rewrite forallb_forall in PP. specialize (PP _ I).
  unfold mutates_self_of in PP. destruct (find_fun pacti_prog f) as [fd|] eqn:F; [|discriminate].
  apply negb_true_iff in PP.
  eapply (frame_pure pacti_prog pacti_prog_checked f fd); eauto.
Qed.

Print Assumptions pacti_prog_checked.
Print Assumptions pacti_operands_unchanged.
Print Assumptions pacti_only_receiver_changed.
Print Assumptions pacti_results_new.
Print Assumptions pacti_history_independent.
Print Assumptions pacti_public_ops_pure.
Print Assumptions pacti_public_ops_frame.
