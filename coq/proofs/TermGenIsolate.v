(* TermGenIsolate.v — T1 tie: isolate_variable (see TermGenFacts.v). *)
From Coq Require Import List String Bool QArith ZArith Lia.
Import ListNotations.
Require Import Py ListsGen Sem PyDict Term TermGen ListsFacts TermFacts TermGenBase TermGenCore TermGenArith.
Open Scope py_scope.
Local Open Scope Q_scope.

(** isolate_variable : the divisions do not raise when the stored coefficient is not 0 *)
Lemma qzero_false q : ~ (q == 0) -> qzero q = false.
Proof.
  intros H. unfold qzero. destruct (Qeq_bool q 0) eqn:E; [|reflexivity].
  apply Qeq_bool_eq in E. contradiction.
Qed.
Theorem isolate_variable_eq t v :
  wft t -> nz_at t v -> PolyhedralTerm_isolate_variable t v = term_isolate_variable t v.
Proof.
  intros H Hnz. unfold PolyhedralTerm_isolate_variable, term_isolate_variable. rewrite vars_eq.
  destruct (py_in v (term_vars_p t)) eqn:E; cbn [negb]; [|reflexivity].
  cbv zeta. set (a := get_coefficient t v).
  assert (Ha : qzero a = false).
  { apply py_in_var in E. unfold term_vars_p in E. destruct (assoc_in_keys v _ E) as [q Hq].
    unfold a. rewrite get_coefficient_coef. unfold coef. rewrite Hq. apply qzero_false. apply Hnz. exact Hq. }
  assert (Hd : forall x, py_div x a = ret (qdiv x a)) by (intros x; unfold py_div; rewrite Ha; reflexivity).
  rewrite (dict_comp_m_ret _ _ (fun _ x => qdiv (qneg x) a)).
  2: { intros k x _ _. rewrite get_coefficient_eq, bind_ret_l. apply Hd. }
  rewrite bind_ret_l, get_coefficient_eq, bind_ret_l. fold a. rewrite Hd, bind_ret_l.
  rewrite (dict_comp_map _ _ _ H). unfold ret. f_equal. apply init_eq.
  rewrite (keys_map_snd (fun p => qdiv (qneg (snd p)) a)). apply NoDup_keys_filter. exact H.
Qed.
Corollary isolate_variable_eq' t v :
  wft' t -> PolyhedralTerm_isolate_variable t v = term_isolate_variable t v.
Proof. intros H. apply isolate_variable_eq; [apply H|apply wft'_nz_at; exact H]. Qed.
Local Open Scope string_scope.
Example stored_zero_isolate :
  let t := mkT [("x", 0); ("y", 1)] 1 in
  PolyhedralTerm_isolate_variable t "x" = inr (Escape "ZeroDivisionError")
  /\ term_isolate_variable t "x" = inl (mkT [] 0).
Proof. split; reflexivity. Qed.
