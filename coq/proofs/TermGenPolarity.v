(* TermGenPolarity.v — T1 tie: get_polarity, get_sign, get_matching_vars (see TermGenFacts.v). *)
From Coq Require Import List String Bool QArith ZArith Lia.
Import ListNotations.
Require Import Py ListsGen Sem PyDict Term TermGen ListsFacts TermFacts TermGenBase TermGenCore.
Open Scope py_scope.
Local Open Scope Q_scope.

(** get_polarity, get_sign : the hand model raises KeyError on an absent variable, like the code *)
Theorem get_polarity_eq t v b : PolyhedralTerm_get_polarity t v b = term_get_polarity t v b.
Proof.
  unfold PolyhedralTerm_get_polarity, term_get_polarity, dict_get.
  destruct b; destruct (assoc v (tvars t)); reflexivity.
Qed.
Theorem get_sign_eq t v : PolyhedralTerm_get_sign t v = term_get_sign t v.
Proof.
  unfold PolyhedralTerm_get_sign, term_get_sign. rewrite get_polarity_eq.
  destruct (term_get_polarity t v true) as [[|]|]; reflexivity.
Qed.
Corollary get_sign_values t v q : PolyhedralTerm_get_sign t v = inl q -> q = 1 \/ q = (-1 # 1).
Proof.
  unfold PolyhedralTerm_get_sign. destruct (PolyhedralTerm_get_polarity t v true) as [[|]|]; cbn;
    intros H; inversion H; auto.
Qed.

(** get_matching_vars : no hand model in Term.v; characterised by a direct recursive definition *)
Definition mv_ok (t : pterm) (vp : bdict) (k : var) : bool :=
  match assoc k (tvars t), bassoc k vp with
  | Some q, Some b => Bool.eqb (qle 0 q) b || Qeq_bool q 0
  | _, _ => false
  end.
Fixpoint matching_vars (t : pterm) (vp : bdict) (ks acc : list var) : list var :=
  match ks with
  | [] => acc
  | k :: r => if contains_var t k
              then if mv_ok t vp k then matching_vars t vp r (acc ++ [k]) else []
              else matching_vars t vp r acc
  end.
Lemma bassoc_in k (vp : bdict) : In k (bdict_keys vp) -> exists b, bassoc k vp = Some b.
Proof.
  induction vp as [|[k' b'] r IH]; [intros []|]. cbn [bdict_keys map fst In bassoc].
  destruct (String.eqb k' k) eqn:E; [eauto|].
  intros [->|Hi]; [rewrite String.eqb_refl in E; discriminate|apply IH; exact Hi].
Qed.
(* it never raises: get_polarity is guarded by contains_var, and variable_polarity[var] reads a key of
   the dict being iterated *)
Theorem get_matching_vars_eq t vp :
  PolyhedralTerm_get_matching_vars t vp = ret (matching_vars t vp (bdict_keys vp) []).
Proof.
  unfold PolyhedralTerm_get_matching_vars. cbv zeta. rewrite bind_ret_r.
  match goal with |- for_list_m _ _ ?b = _ => set (body := b) end.
  assert (Hl : forall ks acc, (forall k, In k ks -> In k (bdict_keys vp)) ->
                              for_list_m ks acc body = ret (matching_vars t vp ks acc)).
  { induction ks as [|k r IH]; intros acc Hin; [reflexivity|].
    assert (Hr : forall k', In k' r -> In k' (bdict_keys vp)) by (intros k' Hk'; apply Hin; right; exact Hk').
    cbn [for_list_m matching_vars]. unfold body at 1. rewrite contains_var_eq.
    destruct (contains_var t k) eqn:Ec.
    - apply contains_var_in in Ec. unfold term_vars_p in Ec. destruct (assoc_in_keys k _ Ec) as [q Hq].
      destruct (bassoc_in k vp (Hin k (or_introl eq_refl))) as [b Hb].
      rewrite get_polarity_eq. unfold term_get_polarity, bdict_get. rewrite Hq, Hb, !bind_ret_l.
      rewrite get_coefficient_eq, get_coefficient_coef. unfold coef, mv_ok. rewrite Hq, Hb.
      destruct (Bool.eqb (qle 0 q) b); cbn [orb bind ret].
      + apply IH. exact Hr.
      + unfold q_eqb. destruct (Qeq_bool q (0 # 1)); [apply IH; exact Hr|reflexivity].
    - rewrite bind_ret_l. apply IH. exact Hr. }
  apply Hl. intros k Hk. exact Hk.
Qed.
Corollary get_matching_vars_total t vp : exists l, PolyhedralTerm_get_matching_vars t vp = inl l.
Proof. eexists. apply get_matching_vars_eq. Qed.
Lemma matching_vars_sound t vp ks acc v :
  In v (matching_vars t vp ks acc) ->
  In v acc \/ (In v ks /\ contains_var t v = true /\ mv_ok t vp v = true).
Proof.
  revert acc. induction ks as [|k r IH]; intros acc H; [left; exact H|].
  cbn [matching_vars] in H. destruct (contains_var t k) eqn:Ec.
  - destruct (mv_ok t vp k) eqn:Eo; [|destruct H].
    destruct (IH _ H) as [Ha|[Hr Hrest]].
    + apply in_app_or in Ha. destruct Ha as [Ha|[<-|[]]]; [left; exact Ha|].
      right. split; [left; reflexivity|split; assumption].
    + right. split; [right; exact Hr|exact Hrest].
  - destruct (IH _ H) as [Ha|[Hr Hrest]]; [left; exact Ha|].
    right. split; [right; exact Hr|exact Hrest].
Qed.
(* every returned variable is a key of the argument, occurs in the term, and its coefficient has the
   requested polarity (or is a stored 0) *)
Corollary get_matching_vars_sound t vp l v :
  PolyhedralTerm_get_matching_vars t vp = inl l -> In v l ->
  In v (bdict_keys vp) /\ In v (term_vars_p t) /\
  exists q b, assoc v (tvars t) = Some q /\ bassoc v vp = Some b /\ (qle 0 q = b \/ q == 0).
Proof.
  rewrite get_matching_vars_eq. intros H Hv. inversion H as [Hl]. clear H. subst l.
  apply matching_vars_sound in Hv. destruct Hv as [[]|[Hk [Hc Ho]]].
  split; [exact Hk|]. split; [apply contains_var_in; exact Hc|].
  unfold mv_ok in Ho. destruct (assoc v (tvars t)) as [q|]; [|discriminate].
  destruct (bassoc v vp) as [b|]; [|discriminate]. exists q, b. split; [reflexivity|]. split; [reflexivity|].
  apply orb_true_iff in Ho. destruct Ho as [Ho|Ho]; [left; apply eqb_prop; exact Ho|right; apply Qeq_bool_eq; exact Ho].
Qed.
(* variables of the argument that do not occur in the term are ignored *)
Lemma matching_vars_disjoint t vp ks acc :
  (forall k, In k ks -> contains_var t k = false) -> matching_vars t vp ks acc = acc.
Proof.
  revert acc. induction ks as [|k r IH]; intros acc H; [reflexivity|].
  cbn [matching_vars]. rewrite (H k (or_introl eq_refl)). apply IH. intros k' Hk'. apply H. right. exact Hk'.
Qed.
Corollary get_matching_vars_disjoint t vp :
  (forall k, In k (bdict_keys vp) -> contains_var t k = false) ->
  PolyhedralTerm_get_matching_vars t vp = ret [].
Proof. intros H. rewrite get_matching_vars_eq, (matching_vars_disjoint t vp _ [] H). reflexivity. Qed.
