(* WrapGenCompose.v — T1 tie: PolyhedralIoContract.compose_tactics / compose (see WrapGenFacts.v). *)
From Coq Require Import List String Bool Arith QArith Lia.
Import ListNotations.
Require Import Py ListsGen ConstGen AlgebraGen PyDict PyLoop Sem Term Poly Tactics PolyDomain WrapGen WrapGenBase.
Open Scope py_scope.
Section Wrap.
Variable O : oracle.
Local Notation D := (poly_domain O).


(* compose_tactics: keep defaults to [], the order to TACTICS_ORDER *)
Theorem wrap_compose_tactics_eq (c1 c2 : pcontract O) keep sp od :
  @PolyhedralIoContract_compose_tactics D c1 c2 keep sp od = poly_compose_tactics O c1 c2 keep sp od.
Proof.
  unfold PolyhedralIoContract_compose_tactics, poly_compose_tactics, poly_order. cbv zeta.
  rewrite wbind_ret_r. rewrite map_Var. destruct keep, od; reflexivity.
Qed.

(* compose / quotient: through IoContract.compose / IoContract.quotient, which dispatch back to the overrides *)
Theorem wrap_compose_eq (c1 c2 : pcontract O) keep sp :
  @PolyhedralIoContract_compose D c1 c2 keep sp
  = bind (poly_compose_tactics O c1 c2 keep sp None) (fun p => ret (fst p)).
Proof.
  unfold PolyhedralIoContract_compose, PolyhedralIoContract_super_compose. cbv zeta.
  rewrite wbind_ret_r. rewrite map_Var. rewrite <- wrap_compose_tactics_eq.
  replace (@PolyhedralIoContract_compose_tactics D c1 c2 (Some match keep with Some v_ => v_ | None => [] end) sp None)
    with (@PolyhedralIoContract_compose_tactics D c1 c2 keep sp None) by (destruct keep; reflexivity).
  apply wbind_ext. intros [r u]. reflexivity.
Qed.

(* the statically resolved IoContract_compose of gen/AlgebraGen.v hands the primitives the order [] ;
   the wrapper, through dynamic dispatch, hands them TACTICS_ORDER *)
Lemma wrap_compose_not_static (c1 c2 : pcontract O) keep sp :
  @IoContract_compose D c1 c2 (Some (opt_list keep)) sp
  = bind (@IoContract_compose_tactics D c1 c2 (Some (opt_list keep)) sp (Some [])) (fun p => ret (fst p))
  /\ @PolyhedralIoContract_compose D c1 c2 keep sp
  = bind (@IoContract_compose_tactics D c1 c2 (Some (opt_list keep)) sp (Some TACTICS_ORDER_polyhedral_iocontract))
         (fun p => ret (fst p)).
Proof.
  split.
  - unfold IoContract_compose. apply wbind_ext. intros [r u]. reflexivity.
  - rewrite wrap_compose_eq. reflexivity.
Qed.
End Wrap.
