(* TermListGenElim.v — T1 tie of PolyhedralTermList: _transform_term (the dispatcher), _transform (the loop over
   the terms), elim_vars_by_refining, elim_vars_by_relaxing.  The tactic table is abstract, as in the generated
   section Dispatch: the theorems hold for every table that agrees with the hand model's [run_tactic] on
   well-formed arguments (TermListGenFacts.v discharges this for the translated table).  See TermListGenFacts.v. *)
From Coq Require Import List String Bool Arith QArith ZArith Lia.
Import ListNotations.
Require Import Py ListsGen ConstGen Sem PyDict PyLoop PyTermList Term Poly Tactics TermGen ListsFacts TermFacts
  PolyLP PolyFacts TacticsFacts TermGenFacts TermListGen TermListGenBase TermListGenEval.
Open Scope py_scope.
Local Open Scope nat_scope.

(* ------------------------------------------------------------------ *)
(** * Small facts about the hand models *)
Lemma try_as_value_error {A} (m : M A) :
  try_except (bind m (fun x => ret x)) (raise ValueErr) = as_value_error m.
Proof. destruct m as [a|e]; [reflexivity|]. cbn. destruct (is_value_error e); reflexivity. Qed.

Lemma Forall_map_copy_wft l : Forall wft l -> Forall wft (map term_copy l).
Proof. intros H. rewrite Forall_forall in *. intros x Hx. apply in_map_iff in Hx. destruct Hx as [y [<- Hy]]. apply wft_copy, H, Hy. Qed.
Lemma Forall_map_copy_fix l : Forall (fun x => term_copy x = x) (map term_copy l).
Proof. apply Forall_forall. intros x Hx. apply in_map_iff in Hx. destruct Hx as [y [<- _]]. apply term_copy_idem. Qed.
Lemma map_copy_fix l : Forall (fun x => term_copy x = x) l -> map term_copy l = l.
Proof. induction 1 as [|x r Hx _ IH]; [reflexivity|]. cbn [map]. rewrite Hx, IH. reflexivity. Qed.

(* the result of simplify is built by the constructor: distinct keys, no stored zero *)
Lemma simplify_wft' O ts c r :
  Forall wft ts -> Forall wft c -> poly_simplify O ts (Some c) = inl r -> Forall wft' r.
Proof.
  intros Hts Hc H. apply simplify_selection in H. destruct H as [sub [Hs ->]].
  apply Forall_forall. intros x Hx. apply in_map_iff in Hx. destruct Hx as [t [<- _]].
  unfold row_to_term. apply wft'_mk_term. apply NoDup_keys_combine. unfold simp_vars.
  apply NoDup_polytope_vars; [|exact Hc].
  rewrite Forall_forall in *. intros y Hy. apply Hts. apply (incl_new_self ts (Some c)). exact Hy.
Qed.

Section Elim.
Variable O : oracle.
Variable TAC : nat -> pterm -> list pterm -> list var -> bool -> M (option pterm * nat).
Variable vs : list var.
(* the table agrees with the hand model's dispatcher on well-formed arguments ... *)
Hypothesis HT : forall num term ctx refine, wft' term -> Forall wft' ctx ->
  TAC num term ctx vs refine = run_tactic O num term ctx vs refine.
(* ... whose results are Python dicts (distinct keys) *)
Hypothesis HW : forall num term ctx refine r c, wft' term -> Forall wft' ctx ->
  run_tactic O num term ctx vs refine = inl (Some r, c) -> wft r.

(* ------------------------------------------------------------------ *)
(** _transform_term *)
Theorem transform_term_eq order term ctx refine :
  wft' term -> Forall wft' ctx ->
  PolyhedralTermList__transform_term TAC term ctx vs refine (Some order) = transform_term O order term ctx vs refine.
Proof.
  intros Ht Hc. unfold PolyhedralTermList__transform_term, transform_term. cbv zeta. rewrite vars_eq.
  destruct (negb (nonempty (list_intersection (term_vars_p term) vs))); [reflexivity|].
  induction order as [|num rest IH]; [cbn; rewrite (copy_eq term (proj1 Ht)); reflexivity|].
  cbn [for_ret_m transform_term_loop]. rewrite (HT num term ctx refine Ht Hc).
  destruct (run_tactic O num term ctx vs refine) as [[[r|] c]|e]; cbn.
  - reflexivity.
  - exact IH.
  - destruct (is_value_error e); [exact IH|reflexivity].
Qed.
Corollary transform_term_default term ctx refine :
  wft' term -> Forall wft' ctx ->
  PolyhedralTermList__transform_term TAC term ctx vs refine None
  = transform_term O TACTICS_ORDER_polyhedra term ctx vs refine.
Proof. apply transform_term_eq. Qed.

Lemma transform_term_wft order term ctx refine nt num cnt :
  wft' term -> Forall wft' ctx -> transform_term O order term ctx vs refine = inl (nt, num, cnt) -> wft nt.
Proof.
  intros Ht Hc. unfold transform_term. destruct (negb _); [discriminate|]. intros H.
  apply ttl_spec in H. destruct H as [->|[n [c [_ Hr]]]]; [apply wft_copy, Ht|].
  exact (HW n term ctx refine nt c Ht Hc Hr).
Qed.

(* ------------------------------------------------------------------ *)
(** _transform *)
Section Loop.
Variables (order : list nat) (ctx : list pterm) (refine : bool).
Hypothesis Hctx : Forall wft' ctx.

Lemma helpers_eq done t todo' :
  Forall wft done -> Forall wft' (t :: todo') ->
  let new_terms := done ++ map term_copy (t :: todo') in
  bind (list_remove_m PolyhedralTerm_eq t (PolyhedralTermList_copy new_terms))
       (fun l => PolyhedralTermList_or ctx l)
  = ret (list_union ctx (remove_first_term t (map term_copy new_terms)))
  /\ Forall wft' (list_union ctx (remove_first_term t (map term_copy new_terms))).
Proof.
  intros Hd Ht. cbv zeta. inversion Ht as [|? ? Ht1 Ht2]; subst.
  assert (Hnew : Forall wft (done ++ map term_copy (t :: todo'))).
  { apply Forall_app. split; [exact Hd|apply Forall_map_copy_wft, Forall_wft'_wft; exact Ht]. }
  rewrite (termlist_copy_eq _ Hnew).
  assert (Hin : existsb (fun z => term_eqb_p z t) (map term_copy (done ++ map term_copy (t :: todo'))) = true).
  { apply existsb_in_refl; [apply Ht1|]. rewrite map_app, in_app_iff. right. cbn [map]. left.
    rewrite term_copy_idem. apply term_copy_id. apply Ht1. }
  rewrite (t_remove_m _ _ Hin), bind_ret_l. unfold remove_first_term.
  set (cnt := remove_first t (map term_copy (done ++ map term_copy (t :: todo')))).
  assert (Hcw : Forall wft cnt) by (apply Forall_remove_first_t, Forall_map_copy_wft; exact Hnew).
  assert (Hfix : map term_copy cnt = cnt) by (apply map_copy_fix, Forall_remove_first_t, Forall_map_copy_fix).
  rewrite (termlist_or_eq ctx cnt (Forall_wft'_wft _ Hctx) Hcw), Hfix, (map_copy_wft' ctx Hctx).
  split; [reflexivity|]. apply Forall_list_union_t; [exact Hctx|].
  apply Forall_remove_first_t. rewrite Forall_forall in *. intros x Hx. apply in_map_iff in Hx.
  destruct Hx as [y [<- Hy]]. apply wft'_copy, Hnew, Hy.
Qed.

Lemma transform_loop_eq body :
  (forall used new_terms i term,
     body (new_terms, used) (i, term) =
       bind (if nonempty (list_intersection (term_vars_p term) vs) then
               bind (bind (list_remove_m PolyhedralTerm_eq term (PolyhedralTermList_copy new_terms))
                          (fun l => PolyhedralTermList_or ctx l))
                    (fun helpers =>
                       bind (try_except
                               (bind (PolyhedralTermList__transform_term TAC term helpers vs refine (Some order))
                                     (fun '(nt, num, cnt) => ret (nt, num, cnt)))
                               (ret (PolyhedralTerm_copy term, 0%Z, 0%Z)))
                            (fun '(nt, num, cnt) => ret ((used ++ [(num, cnt)])%list, nt)))
             else ret (used, PolyhedralTerm_copy term))
            (fun '(used', nt) => bind (list_set_m new_terms i nt) (fun l => ret (Continue (l, used'))))) ->
  forall todo done used, Forall wft done -> Forall wft' todo ->
  for_list_m (enumerate_from (List.length done) todo) (done ++ map term_copy todo, used) body
  = transform_loop O order ctx vs refine done todo used.
Proof.
  intros Hb. induction todo as [|t todo' IH]; intros done used Hd Ht.
  - cbn. rewrite app_nil_r. reflexivity.
  - inversion Ht as [|? ? Ht1 Ht2]; subst. cbn [enumerate_from for_list_m transform_loop]. rewrite Hb.
    assert (Step : forall nt used', wft nt ->
              bind (bind (list_set_m (done ++ map term_copy (t :: todo')) (List.length done) nt)
                         (fun l => ret (Continue (l, used'))))
                   (fun c => match c with
                             | Continue a => for_list_m (enumerate_from (S (List.length done)) todo') a body
                             | Break a => ret a end)
              = transform_loop O order ctx vs refine (done ++ [nt]) todo' used').
    { intros nt used' Hnt. cbn [map]. rewrite list_set_m_nth by (rewrite app_length; cbn; lia).
      rewrite set_nth_app. cbn [bind ret]. rewrite <- (IH (done ++ [nt]) used').
      - rewrite app_length. cbn [List.length]. rewrite Nat.add_1_r, <- app_assoc. reflexivity.
      - apply Forall_app. split; [exact Hd|constructor; [exact Hnt|constructor]].
      - exact Ht2. }
    destruct (nonempty (list_intersection (term_vars_p t) vs)).
    + destruct (helpers_eq done t todo' Hd Ht) as [He Hw]. cbv zeta in He, Hw. rewrite He, bind_ret_l.
      set (helpers := list_union ctx (remove_first_term t (map term_copy (done ++ map term_copy (t :: todo'))))) in *.
      rewrite (transform_term_eq order t helpers refine Ht1 Hw).
      change (term_copy t :: map term_copy todo') with (map term_copy (t :: todo')). fold helpers.
      destruct (transform_term O order t helpers vs refine) as [[[nt num] cnt]|e] eqn:TT.
      * cbn [bind ret try_except try_value_error]. apply Step. eapply transform_term_wft; eassumption.
      * cbn [bind ret try_except try_value_error]. destruct (is_value_error e); [|reflexivity].
        cbn [bind ret]. rewrite (copy_eq t (proj1 Ht1)). apply Step. apply wft_copy, Ht1.
    + rewrite bind_ret_l, (copy_eq t (proj1 Ht1)). apply Step. apply wft_copy, Ht1.
Qed.
End Loop.

Theorem transform_eq order self ctx refine sp :
  Forall wft' self -> Forall wft' ctx ->
  @PolyhedralTermList__transform (poly_prims O) TAC self ctx vs refine sp (Some order)
  = transform O self ctx vs refine sp order.
Proof.
  intros Hs Hc. unfold PolyhedralTermList__transform, transform. cbv zeta.
  rewrite (termlist_copy_eq self (Forall_wft'_wft _ Hs)). unfold py_list_copy, enumerate.
  rewrite (transform_loop_eq order ctx refine Hc _) with (done := []) (todo := self) (used := []);
    [|intros used nt i term; rewrite vars_eq;
      destruct (nonempty (list_intersection (term_vars_p term) vs)); cbn [bind ret];
      [rewrite !tbind_assoc; apply tbind_ext; intros l; rewrite !tbind_assoc; apply tbind_ext; intros helpers;
       unfold try_except, try_value_error;
       destruct (PolyhedralTermList__transform_term TAC term helpers vs refine (Some order)) as [[[a b] c]|e];
       cbn [bind ret]; [reflexivity|destruct (is_value_error e); reflexivity]
      |reflexivity]
     |constructor|exact Hs].
  destruct (transform_loop O order ctx vs refine [] self []) as [[res st]|e]; [|reflexivity].
  cbn [bind ret]. rewrite termlist_init_eq. cbn [opt_list p_simplify poly_prims].
  destruct sp; reflexivity.
Qed.

(* ------------------------------------------------------------------ *)
(** elim_vars_by_refining / elim_vars_by_relaxing *)
Theorem elim_vars_by_refining_eq order self ctx sp :
  Forall wft' self -> Forall wft' ctx ->
  @PolyhedralTermList_elim_vars_by_refining (poly_prims O) TAC self ctx vs sp (Some order)
  = elim_vars_by_refining O self ctx vs sp order.
Proof.
  intros Hs Hc. unfold PolyhedralTermList_elim_vars_by_refining, elim_vars_by_refining. cbv zeta.
  destruct sp.
  - cbn [p_simplify poly_prims]. rewrite try_as_value_error.
    destruct (as_value_error (poly_simplify O self (Some ctx))) as [tl|e] eqn:E; [|reflexivity].
    cbn [bind ret]. rewrite try_as_value_error. f_equal. apply transform_eq; [|exact Hc].
    apply as_value_error_inl in E.
    exact (simplify_wft' O self ctx tl (Forall_wft'_wft _ Hs) (Forall_wft'_wft _ Hc) E).
  - cbn [bind ret]. rewrite try_as_value_error. f_equal. apply transform_eq; assumption.
Qed.

Theorem elim_vars_by_relaxing_eq order self ctx sp :
  Forall wft' self -> Forall wft' ctx ->
  @PolyhedralTermList_elim_vars_by_relaxing (poly_prims O) TAC self ctx vs sp (Some order)
  = elim_vars_by_relaxing O self ctx vs sp order.
Proof.
  intros Hs Hc. unfold PolyhedralTermList_elim_vars_by_relaxing, elim_vars_by_relaxing. cbv zeta.
  assert (Tail : forall tl, Forall wft' tl ->
            bind (try_except
                    (bind (@PolyhedralTermList__transform (poly_prims O) TAC tl ctx vs false sp (Some order))
                          (fun '(termlist, tactics_data) => ret (termlist, tactics_data)))
                    (raise ValueErr))
                 (fun '(termlist, tactics_data) =>
                    bind (list_diff_m PolyhedralTerm_eq termlist
                            (PolyhedralTermList_get_terms_with_vars termlist vs))
                         (fun termlist => ret (termlist, tactics_data)))
            = bind (as_value_error (transform O tl ctx vs false sp order))
                   (fun '(tl, used) =>
                      let terms_to_elim := filter (fun t => nonempty (list_intersection (term_vars_p t) vs)) tl in
                      ret (list_diff tl terms_to_elim, used))).
  { intros tl Htl. rewrite (transform_eq order tl ctx false sp Htl Hc).
    destruct (transform O tl ctx vs false sp order) as [[r st]|e];
      cbn [bind ret raise try_except try_value_error as_value_error].
    - rewrite termlist_get_terms_with_vars_eq, t_diff_m. reflexivity.
    - destruct (is_value_error e); reflexivity. }
  destruct sp.
  - cbn [p_simplify poly_prims]. rewrite try_as_value_error.
    destruct (as_value_error (poly_simplify O self (Some ctx))) as [tl|e] eqn:E; [|reflexivity].
    cbn [bind ret]. apply Tail. apply as_value_error_inl in E.
    exact (simplify_wft' O self ctx tl (Forall_wft'_wft _ Hs) (Forall_wft'_wft _ Hc) E).
  - cbn [bind ret]. rewrite (termlist_copy_eq self (Forall_wft'_wft _ Hs)), (map_copy_wft' self Hs).
    apply Tail. exact Hs.
Qed.
End Elim.
