(* WrapGenQuotient.v — T1 tie: PolyhedralIoContract.quotient_tactics / quotient (see WrapGenFacts.v). *)
From Coq Require Import List String Bool Arith QArith Lia.
Import ListNotations.
Require Import Py ListsGen ConstGen AlgebraGen PyDict PyLoop Sem Term Poly Tactics PolyDomain WrapGen WrapGenBase.
Open Scope py_scope.
Section Wrap.
Variable O : oracle.
Local Notation D := (poly_domain O).


Theorem wrap_quotient_tactics_eq (c c1 : pcontract O) add sp od :
  @PolyhedralIoContract_quotient_tactics D c c1 add sp od = poly_quotient_tactics O c c1 add sp od.
Proof.
  unfold PolyhedralIoContract_quotient_tactics, poly_quotient_tactics, poly_order. cbv zeta.
  rewrite wbind_ret_r. destruct od; reflexivity.
Qed.

Theorem wrap_quotient_eq (c c1 : pcontract O) add sp :
  @PolyhedralIoContract_quotient D c c1 add sp
  = bind (poly_quotient_tactics O c c1 add sp None) (fun p => ret (fst p)).
Proof.
  unfold PolyhedralIoContract_quotient, PolyhedralIoContract_super_quotient.
  rewrite wbind_ret_r. rewrite <- wrap_quotient_tactics_eq. apply wbind_ext. intros [r u]. reflexivity.
Qed.
End Wrap.
