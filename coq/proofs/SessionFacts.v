(* SessionFacts.v — frame and history-independence of the pure session machine (by induction over
   operation lists of any length).  These are near-definitional for a functional model; their force
   comes from the tie to the real library (harness/props/c13.py). *)
From Coq Require Import List String Bool QArith ZArith Lia.
Import ListNotations.
Require Import Py ListsGen Sem Term Poly Tactics Corr PolyDomain Session.

Section Facts.
Variable O : oracle.

Lemma step_pool s o : pool (step O s o) = pool s ++ [out O s o].
Proof. reflexivity. Qed.
Lemma step_glob s o : glob (step O s o) = glob s.
Proof. reflexivity. Qed.

Lemma run_pool_prefix ops : forall s, exists ext, pool (run O s ops) = pool s ++ ext /\ List.length ext = List.length ops.
Proof.
  induction ops as [|o ops IH]; intros s.
  - exists []. split; [symmetry; apply app_nil_r|reflexivity].
  - cbn [run fold_left]. destruct (IH (step O s o)) as [ext [E L]]. fold (run O (step O s o) ops) in E.
    exists (out O s o :: ext). split.
    + unfold run in *. rewrite E, step_pool, <- app_assoc. reflexivity.
    + simpl. rewrite L. reflexivity.
Qed.

(* every operation leaves every existing pool member, and the module-level state, as they were *)
Theorem session_frame : forall ops s i, (i < List.length (pool s))%nat ->
  nth_error (pool (run O s ops)) i = nth_error (pool s) i.
Proof.
  intros ops s i Hi. destruct (run_pool_prefix ops s) as [ext [E _]]. rewrite E. apply nth_error_app1. exact Hi.
Qed.
Theorem session_globals : forall ops s, glob (run O s ops) = glob s.
Proof.
  induction ops as [|o ops IH]; intros s; [reflexivity|]. cbn [run fold_left]. fold (run O (step O s o) ops).
  rewrite IH. apply step_glob.
Qed.
Theorem session_length : forall ops s, List.length (pool (run O s ops)) = (List.length (pool s) + List.length ops)%nat.
Proof.
  intros ops s. destruct (run_pool_prefix ops s) as [ext [E L]]. rewrite E, app_length, L. reflexivity.
Qed.

(* the result of an operation depends only on the values of its arguments, not on the rest of the
   session: equal arguments, equal result, whatever was computed in between *)
Theorem session_history_independent : forall s1 s2 o, args s1 o = args s2 o -> out O s1 o = out O s2 o.
Proof. intros s1 s2 o H. unfold out. rewrite H. reflexivity. Qed.

(* in particular: repeating an operation later in the same session gives the same result *)
Theorem session_repeat : forall s o ops, (forall a, In (Some a) (args s o) -> True) ->
  (forall i, (i < List.length (pool s))%nat -> True) ->
  (forall k, In k (match o with
                   | OCompose i j _ _ _ | OQuotient i j _ _ _ | OMerge i j | ORefines i j
                   | OElimRefine i j _ _ _ | OElimRelax i j _ _ _ | OSimplify i j => [i; j]
                   | ORename i _ | OCopy i | OOptimize i _ _ => [i] end) -> (k < List.length (pool s))%nat) ->
  out O (run O s ops) o = out O s o.
Proof.
  intros s o ops _ _ Hk. apply session_history_independent.
  destruct o; cbn [args]; repeat (rewrite session_frame by (apply Hk; simpl; tauto)); reflexivity.
Qed.
End Facts.
