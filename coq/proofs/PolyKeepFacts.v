(* PolyKeepFacts.v — C15 for polyhedral composition: the polyhedral domain meets
   AlgebraSpec.KeepSpec (Term.__eq__ reflexive and variable-preserving on well-formed terms,
   relaxation really eliminates, and is an equivalence in context when there is nothing to
   eliminate), hence AlgebraSound.compose_keeps_guarantees / compose_exact apply.
   Same invariant as PolyDomainFacts.v (pwf, pv); only hypothesis: lp_spec 0 O. *)
From Coq Require Import List String Bool QArith Reals Qreals.
Import ListNotations.
Require Import Py ListsGen ConstGen AlgebraGen Sem Term Poly Tactics PolyDomain.
Require Import ListsFacts AlgebraSpec AlgebraSound IfaceSpec TermFacts PolySpec PolyFacts.
Require Import TacticsFacts TacticsKeep PolyDomainFacts.
Open Scope py_scope.

Section PolyKeep.
Variable O : oracle.
Hypothesis HO : lp_spec 0 O.
Notation PD := (poly_domain O).
Local Notation pa c := (@c_a PD c) (only parsing).
Local Notation pg c := (@c_g PD c) (only parsing).
Local Notation pin c := (@c_inputvars PD c) (only parsing).
Local Notation pout c := (@c_outputvars PD c) (only parsing).

Theorem poly_keep : @KeepSpec PD val pdt pwf pv.
Proof.
  constructor.
  - (* teqb_refl *)
    intros t Wt. exact (term_eqb_refl t (pwf_wft t Wt)).
  - (* teqb_vars *)
    intros t u Wt Wu E v.
    exact (proj1 (proj1 (term_eqb_coeff t u (pwf_wft t Wt) (pwf_wft u Wu)) E) v).
  - (* relax_elim *)
    intros s ctx vs sp od r st Ws Wc [Hn Hp] H t Ht v Hv Hin.
    pose proof (wf_input_pwf s ctx vs Ws Wc Hn Hp) as Hwf.
    exact (proj2 (C04_relax_all O HO od s ctx vs sp r st Hwf H) t v Ht Hin Hv).
  - (* relax_noelim *)
    intros s ctx vs sp od r st Ws Wc [Hn Hp] Hmn H rho.
    pose proof (wf_input_pwf s ctx vs Ws Wc Hn Hp) as Hwf.
    exact (C04_relax_noelim O HO od s ctx vs sp r st Hwf Hmn H rho).
Qed.

(* C15, first sentence: a guarantee of either operand that the result's interface can express
   is implied by the result *)
Theorem C15_compose_poly (c1 c2 : pcontract O) keep sp od c st :
  wfpc c1 -> wfpc c2 -> ifpc c1 -> ifpc c2 -> NoDup (opt_list keep) ->
  poly_compose_tactics O c1 c2 keep sp od = inl (c, st) ->
  forall t, In t (pg c1) \/ In t (pg c2) ->
  (forall v, In v (term_vars_p t) -> In v (pin c) \/ In v (pout c)) ->
  forall rho, sat_list rho (pa c) -> sat_list rho (pg c) -> sat rho t.
Proof.
  intros W1 W2 I1 I2 Nk H t Ht Hv rho. unfold poly_compose_tactics in H.
  exact (@compose_keeps_guarantees PD val pdt pwf pv (poly_spec O HO) poly_keep
           c1 c2 (Some (opt_list keep)) sp (poly_order od) c st W1 W2 I1 I2 Nk H t Ht Hv rho).
Qed.

(* C15, second sentence: with no connection between the operands, composition is exact *)
Theorem C15_exact_poly (c1 c2 : pcontract O) keep sp od c st :
  wfpc c1 -> wfpc c2 -> ifpc c1 -> ifpc c2 -> NoDup (opt_list keep) ->
  poly_compose_tactics O c1 c2 keep sp od = inl (c, st) ->
  list_intersection (pout c1) (pin c2) = [] /\ list_intersection (pin c1) (pout c2) = [] ->
  (forall rho, sat_list rho (pa c) <-> sat_list rho (pa c1) /\ sat_list rho (pa c2)) /\
  (forall rho, sat_list rho (pa c) ->
     (sat_list rho (pg c) <-> sat_list rho (pg c1) /\ sat_list rho (pg c2))).
Proof.
  intros W1 W2 I1 I2 Nk H Hno. unfold poly_compose_tactics in H.
  destruct (@compose_exact PD val pdt pwf pv (poly_spec O HO) poly_keep
              c1 c2 (Some (opt_list keep)) sp (poly_order od) c st W1 W2 I1 I2 Nk H Hno) as [Ha Hg].
  split; [intros rho; exact (Ha rho)|intros rho; exact (Hg rho)].
Qed.
End PolyKeep.

Print Assumptions poly_keep.
Print Assumptions C15_compose_poly.
Print Assumptions C15_exact_poly.
