(* PolyGenContain.v — T1 tie of PolyhedralTermList.verify_polytope_containment (with REFINEMENT_TOLERANCE) and
   refines (see PolyGenFacts.v). *)
From Coq Require Import List String Bool Arith QArith ZArith Lia.
Import ListNotations.
Require Import Py ListsGen ConstGen Sem PyDict PyLoop PyTermList PyNumpy Term Poly TermGen ListsFacts TermFacts
  TermGenFacts TermListGen TermListGenBase TermListGenEval PolyGen PolyGenBase PolyGenPolytope PolyGenEmpty.
Open Scope py_scope.
Local Open Scope nat_scope.

(* linprog on a (1, m) objective (a row taken with a_r[[i], :]) *)
Lemma oracle_linprog_row_obj O vs m (a : list Q) (L : list row) :
  a <> [] -> List.length a = m ->
  oracle_linprog O vs (A2 m [a]) (A2 m (map fst L)) (A1 (map snd L)) = lp_result_of (O (mkLP vs a L)).
Proof.
  intros Ha Hm. unfold oracle_linprog. cbn [lp_squeeze]. destruct a as [|x a']; [congruence|].
  unfold len. rewrite Hm, Nat.eqb_refl. cbn [negb]. rewrite !map_length, Nat.eqb_refl, combine_fst_snd. reflexivity.
Qed.
(* <= sees numbers, not representations *)
Lemma qle_compat_r x a b : (a == b)%Q -> qle x a = qle x b.
Proof.
  intros E. unfold qle. destruct (Qle_bool x a) eqn:Ea, (Qle_bool x b) eqn:Eb; try reflexivity.
  - apply Qle_bool_iff in Ea. rewrite E in Ea. apply Qle_bool_iff in Ea. congruence.
  - apply Qle_bool_iff in Eb. rewrite <- E in Eb. apply Qle_bool_iff in Eb. congruence.
Qed.
(* b_temp + REFINEMENT_TOLERANCE * (1 + abs(b_temp)) after b_temp = (b + 1) - 1 *)
Lemma tol_round_trip x b :
  qle x (qadd (qsub (qadd b 1) 1) (qmul REFINEMENT_TOLERANCE (qadd 1 (qabs (qsub (qadd b 1) 1))))) = qle x (tol_bound b).
Proof.
  apply qle_compat_r. unfold tol_bound, qadd, qsub, qmul, qabs. rewrite !Qred_correct.
  assert (E : (b + 1 - 1 == b)%Q) by ring. rewrite E. reflexivity.
Qed.

Section Loop.
Context (O : oracle) (vs : list var) (L : list row).
Context (body : bool -> nat -> M (ctl bool)) (R : list row).
Hypothesis Hstep : forall (done : list row) (r : row) (rest : list row), R = done ++ r :: rest ->
  body true (List.length done) =
  match O (mkLP vs (map qneg (fst r)) (L ++ [(fst r, qadd (snd r) 1)])) with
  | LpInfeasible => ret (Break false)
  | LpOpt f _ => if qle (qneg f) (tol_bound (snd r)) then ret (Continue true) else ret (Break false)
  | LpUnbounded | LpOther _ => raise (Escape "TypeError")
  | LpMiss => raise OracleMiss
  end.
Lemma containment_for : forall rest done, R = done ++ rest ->
  for_list_m (seq (List.length done) (List.length rest)) true body = containment_loop O vs L rest.
Proof.
  induction rest as [|r rest IH]; intros done HR; [reflexivity|].
  cbn [List.length seq for_list_m]. rewrite (Hstep done r rest HR). destruct r as [a b]. cbn [containment_loop fst snd].
  destruct (O _) as [f sl| | |z|]; try reflexivity.
  destruct (qle (qneg f) (tol_bound b)); [|reflexivity]. rewrite bind_ret_l.
  replace (S (List.length done)) with (List.length (done ++ [(a, b)])) by (rewrite app_length; cbn [List.length]; lia).
  apply IH. rewrite HR, <- app_assoc. reflexivity.
Qed.
End Loop.

(** verify_polytope_containment on the matrices of two non-empty row lists over at least one variable; the rows of
    the right-hand side have one coefficient per variable *)
Theorem verify_polytope_containment_eq O vs (L R : list row) :
  vs <> [] -> L <> [] -> R <> [] -> Forall (fun r => List.length (fst r) = List.length vs) R ->
  @PolyhedralTermList_verify_polytope_containment (poly_lp O) vs
     (Some (A2 (List.length vs) (map fst L))) (Some (A1 (map snd L)))
     (Some (A2 (List.length vs) (map fst R))) (Some (A1 (map snd R)))
  = verify_polytope_containment O vs L R.
Proof.
  intros Hvs HL HR Hlen. unfold PolyhedralTermList_verify_polytope_containment, verify_polytope_containment.
  cbv beta iota zeta. rewrite !bind_ret_l.
  set (m := List.length vs) in *.
  assert (Hm : 0 < m) by (destruct vs; [congruence|cbn; lia]).
  assert (EL : A2 m (map fst L) = mat_of m (map fst L)) by (destruct L; [congruence|reflexivity]).
  assert (ER : A2 m (map fst R) = mat_of m (map fst R)) by (destruct R; [congruence|reflexivity]).
  pose proof (is_polytope_empty_eq O vs L) as HEL. fold m in HEL. rewrite <- EL in HEL.
  pose proof (is_polytope_empty_eq O vs R) as HER. fold m in HER. rewrite <- ER in HER.
  unfold row in HEL, HER |- *. rewrite HEL.
  destruct (is_polytope_empty O vs L) as [el|e]; [|reflexivity]. cbn [bind]. destruct el; [reflexivity|].
  rewrite HER.
  destruct (is_polytope_empty O vs R) as [er|e]; [|reflexivity]. cbn [bind]. destruct er; [reflexivity|].
  cbn [np_shape py_unpack2 np_len]. rewrite !bind_ret_l. cbv beta iota. unfold len. rewrite !map_length, !Nat.eqb_refl.
  unfold py_range.
  match goal with |- context [for_list_m _ _ ?b] => set (body := b) end.
  pose proof (containment_for O vs L body R) as HC.
  assert (Hstep : forall (done : list row) (r : row) (rest : list row), R = done ++ r :: rest ->
    body true (List.length done) =
    match O (mkLP vs (map qneg (fst r)) (L ++ [(fst r, qadd (snd r) 1)])) with
    | LpInfeasible => ret (Break false)
    | LpOpt f _ => if qle (qneg f) (tol_bound (snd r)) then ret (Continue true) else ret (Break false)
    | LpUnbounded | LpOther _ => raise (Escape "TypeError")
    | LpMiss => raise OracleMiss
    end).
  { intros done [a b] rest ER'. cbn [fst snd].
    assert (Hla : List.length a = m).
    { rewrite Forall_forall in Hlen. apply (Hlen (a, b)). rewrite ER'. apply in_or_app. right. left. reflexivity. }
    unfold body. rewrite ER'. rewrite np_rows_at, bind_ret_l, np_item_at, bind_ret_l. cbn [fst snd].
    cbn [np_concatenate np_array_1d]. rewrite Nat.eqb_refl, !bind_ret_l.
    replace (map fst L ++ [a]) with (map fst (L ++ [(a, qadd b 1)])) by (rewrite map_app; reflexivity).
    replace (map snd L ++ [qadd b 1]) with (map snd (L ++ [(a, qadd b 1)])) by (rewrite map_app; reflexivity).
    cbn [np_linprog poly_lp]. unfold np_scale, np_map. cbn [map]. rewrite map_qmul_m1.
    rewrite (oracle_linprog_row_obj O vs m (map qneg a)).
    2:{ destruct a; [cbn in Hla; lia|discriminate]. }
    2:{ rewrite map_length. exact Hla. }
    destruct (O _) as [f sl| | |z|]; cbn [lp_result_of]; try reflexivity; rewrite bind_ret_l;
      cbn [res_status res_fun Nat.eqb py_num]; try reflexivity.
    rewrite bind_ret_l, tol_round_trip. destruct (qle (qneg f) (tol_bound b)); reflexivity. }
  specialize (HC Hstep R [] eq_refl). cbn [List.length] in HC. unfold row in HC |- *. rewrite HC.
  apply bind_ret_r.
Qed.

(** the degenerate shapes: no variable at all (m = 0) *)
Lemma is_polytope_empty_no_vars O vs rows b :
  @PolyhedralTermList_is_polytope_empty (poly_lp O) vs (A2 0 rows) b = ret false.
Proof.
  unfold PolyhedralTermList_is_polytope_empty. cbn [np_len np_shape py_unpack2].
  destruct rows as [|r rows']; [reflexivity|]. cbn [len List.length Nat.eqb]. rewrite bind_ret_l, Nat.mul_0_r. reflexivity.
Qed.
Lemma verify_polytope_containment_no_vars O (L R : list pterm) :
  R <> [] ->
  @PolyhedralTermList_verify_polytope_containment (poly_lp O) []
     (Some (A2 0 (map (fun _ => []) L))) (Some (A1 (map tconst L)))
     (Some (A2 0 (map (fun _ => []) R))) (Some (A1 (map tconst R)))
  = raise ValueErr.
Proof.
  intros HR. unfold PolyhedralTermList_verify_polytope_containment. cbv beta iota zeta. rewrite !bind_ret_l.
  rewrite !is_polytope_empty_no_vars, !bind_ret_l. cbv beta iota.
  cbn [np_shape py_unpack2 np_len]. rewrite !bind_ret_l. cbv beta iota. unfold len. rewrite !map_length, !Nat.eqb_refl.
  destruct R as [|r R']; [congruence|]. reflexivity.
Qed.

(** refines : unconditional *)
Theorem refines_eq O self other : @PolyhedralTermList_refines (poly_lp O) self other = poly_refines O self other.
Proof.
  unfold PolyhedralTermList_refines, poly_refines. rewrite !termlist_lacks_constraints_eq.
  destruct other as [|o0 other0]; [reflexivity|]. destruct self as [|s0 self0]; [reflexivity|]. set (self := s0 :: self0). set (other := o0 :: other0).
  rewrite termlist_to_polytope_eq, bind_ret_l. unfold polytope_of. cbv beta iota zeta.
  set (vs := polytope_vars self other).
  change (mat_of (List.length vs) (map (fun t => fst (term_to_row vs t)) self))
    with (A2 (List.length vs) (map (fun t => fst (term_to_row vs t)) self)).
  change (ctx_mat_of (List.length vs) (map (fun t => fst (term_to_row vs t)) other))
    with (A2 (List.length vs) (map (fun t => fst (term_to_row vs t)) other)).
  destruct (nil_or_cons vs) as [Evs|Hne].
  - rewrite Evs. cbn [List.length term_to_row map fst].
    change (@nil Q :: map (fun _ : pterm => @nil Q) self0) with (map (fun _ : pterm => @nil Q) self).
    change (@nil Q :: map (fun _ : pterm => @nil Q) other0) with (map (fun _ : pterm => @nil Q) other).
    change (tconst s0 :: map tconst self0) with (map tconst self).
    change (tconst o0 :: map tconst other0) with (map tconst other).
    rewrite verify_polytope_containment_no_vars by discriminate. reflexivity.
  - rewrite (match_nonnil vs _ _ Hne).
    rewrite <- (map_fst_rows vs self), <- (map_fst_rows vs other), <- (map_snd_rows vs self), <- (map_snd_rows vs other).
    pose proof (verify_polytope_containment_eq O vs (map (term_to_row vs) self) (map (term_to_row vs) other) Hne) as HV.
    unfold row in HV |- *. rewrite HV; [apply bind_ret_r|discriminate|discriminate|].
    apply Forall_forall. intros r Hr. apply in_map_iff in Hr. destruct Hr as [t [<- _]]. apply map_length.
Qed.
