(* TlpGenFacts.v — the obligations that tie the last hand-modelled pieces of the variable elimination of
   pacti.terms.polyhedra.polyhedra to the code: for every function f that translator/py2coq_tlp.py renders into
   gen/TlpGen.v (regenerated from /repo/src on every run), the generated function, applied to the model instances of the
   named primitives (poly_lp O: scipy's linprog = the oracle behind scipy's validation; model_linalg: np.linalg.solve /
   sympy.solve = the exact Gauss-Jordan elimination of model/Tactics.v, np.isclose(slack, 0) = its test |s| <= 1e-8),
   EQUALS the hand model, pointwise as monadic results (values and error kinds).  A semantic change of f changes
   gen/TlpGen.v and the proof of the matching theorem stops compiling.

   Files:
     TlpGenBase.v       the instance model_linalg; np_transpose / np_where_idx / dicts of terms
     TlpGenContext.v    get_tlp_context_eq          _get_tlp_context = get_tlp_context O
     TlpGenReduction.v  solve_for_variables_eq      solve_for_variables = solve_for_variables   (NO precondition)
                        context_reduction_eq        _context_reduction = context_reduction O
     TlpGenFacts.v      (this file) closing the loop with proofs/TermListGen*.v: the field p_context_reduction of
                        poly_prims O (the instance every TermListGen equality uses) IS the generated _context_reduction,
                        so _tactic_1, _tactic_3, _tactic_5, the table TACTICS and _transform_term of gen/TermListGen.v
                        run on translated code down to the LP / solve primitives

   Preconditions and why (the Examples show that each is necessary):
   * [list_intersection vs (term_vars_p term) <> []] for strategy 5 — a DIFFERENCE between the hand model and the
     Python (TlpGenContext.v:get_tlp_context_no_forbidden_var, reproduced on the real library): on a term that
     mentions no variable to eliminate the code raises ValueError (np.linalg.solve rejects the 1-D empty array), the
     hand model returns the term unchanged.  _transform_term never calls a tactic on such a term;
   * [slack_fits]: the LP oracle reports at most one slack per row (TlpGenContext.v:get_tlp_context_long_slack);
   * [wft term], [Forall wft ctx]: dicts have pairwise distinct keys (TlpGenReduction.v:context_reduction_repeated_key). *)
From Coq Require Import List String Bool Arith QArith ZArith Lia.
Import ListNotations.
Require Import Py ListsGen ConstGen Sem PyDict PyLoop PyTermList PyNumpy PyLinalg Term Poly Tactics TermGen
  ListsFacts TermFacts PolyLP PolyFacts TacticsFacts TermGenFacts TermListGen TermListGenFacts PolyGen PolyGenBase TlpGen.
Require Export TlpGenBase TlpGenContext TlpGenReduction.
Open Scope py_scope.
Local Open Scope nat_scope.

(* ------------------------------------------------------------------ *)
(** * The _context_reduction field of poly_prims O is the generated _context_reduction *)
Theorem poly_prims_context_reduction_generated O term ctx vs refine strategy :
  wft term -> Forall wft ctx ->
  (strategy = 5 -> list_intersection vs (term_vars_p term) <> [] /\ slack_fits O (tlp_lp term ctx vs refine)) ->
  @p_context_reduction (poly_prims O) term ctx vs refine strategy
  = @PolyhedralTermList__context_reduction (poly_lp O) model_linalg term ctx vs refine strategy.
Proof. intros Ht Hc H5. symmetry. exact (context_reduction_eq O term ctx vs refine strategy Ht Hc H5). Qed.

(* the instance of TLPrims whose _context_reduction is the TRANSLATED one; every other field as in poly_prims O *)
Definition poly_prims_gen (O : oracle) : TLPrims :=
  Build_TLPrims
    (@matrix (poly_prims O)) (@vector (poly_prims O)) (@PyTermList.lp_result (poly_prims O))
    (@p_simplify (poly_prims O))
    (@PolyhedralTermList__context_reduction (poly_lp O) model_linalg)
    (@p_termlist_to_polytope (poly_prims O)) (@p_linprog (poly_prims O))
    (@p_res_status (poly_prims O)) (@p_res_fun (poly_prims O)).

(* the solver reports at most one slack per row, whatever the problem *)
Definition oracle_slack_ok (O : oracle) : Prop := forall p, slack_fits O p.

(* ------------------------------------------------------------------ *)
(** * Tactics 1, 5 and 3 on the translated _context_reduction *)
Theorem tactic_1_closed O term ctx vs refine :
  wft term -> Forall wft ctx ->
  @PolyhedralTermList__tactic_1 (poly_prims_gen O) term ctx vs refine = tactic_1 O term ctx vs refine.
Proof.
  intros Ht Hc. unfold PolyhedralTermList__tactic_1, tactic_1. cbn [p_context_reduction poly_prims_gen].
  rewrite (context_reduction_eq O term ctx vs refine 1 Ht Hc) by discriminate. reflexivity.
Qed.
Theorem tactic_5_closed O term ctx vs refine :
  wft term -> Forall wft ctx ->
  list_intersection vs (term_vars_p term) <> [] -> slack_fits O (tlp_lp term ctx vs refine) ->
  @PolyhedralTermList__tactic_5 (poly_prims_gen O) term ctx vs refine = tactic_5 O term ctx vs refine.
Proof.
  intros Ht Hc Hfv Hsl. unfold PolyhedralTermList__tactic_5, tactic_5. cbn [p_context_reduction poly_prims_gen].
  rewrite (context_reduction_eq O term ctx vs refine 5 Ht Hc (fun _ => conj Hfv Hsl)). reflexivity.
Qed.

(* _tactic_3 : the proof of TermListGenTactic32.v:tactic_3_eq, with the call of tactic 1 resolved to the translated
   _context_reduction (the term and the context handed to it are dicts again) *)
Local Open Scope string_scope.
Theorem tactic_3_closed O term ctx (vs : list var) refine :
  wft' term -> Forall wft ctx -> NoDup vs -> ~ In ("_" : var) vs ->
  @PolyhedralTermList__tactic_3 (poly_prims_gen O) term ctx vs refine = tactic_3 O term ctx vs refine.
Proof.
  intros Ht Hctx Hnd Hus. unfold PolyhedralTermList__tactic_3, tactic_3. cbv zeta.
  change (PolyhedralTerm_vars term) with (term_vars_p term).
  remember (list_intersection vs (term_vars_p term)) as cv0 eqn:E0.
  assert (Hcv : NoDup cv0) by (subst cv0; apply NoDup_list_intersection; exact Hnd).
  assert (Hcu : ~ In ("_" : var) cv0) by (subst cv0; intros H; apply in_list_intersection in H; apply Hus, H).
  assert (Hct : forall v, In v cv0 -> In v (term_vars_p term))
    by (subst cv0; intros v H; apply in_list_intersection in H; apply H).
  clear E0. destruct cv0 as [|v0 crest]; [reflexivity|]. set (cv := v0 :: crest) in *.
  unfold dict_of_list_m.
  rewrite (for_list_m_fold (fun a v => dict_set a v (get_coefficient term v)))
    by (intros a v _; rewrite get_coefficient_eq; reflexivity).
  rewrite (fold_set_vars (fun v => get_coefficient term v) cv dict_empty Hcv). cbn [app dict_empty].
  rewrite bind_ret_l.
  set (D := map (fun v => (v, get_coefficient term v)) cv).
  rewrite (copy_eq term (proj1 Ht)).
  rewrite (remove_loop _ (fun r v => eq_refl)) by (apply wft'_copy; apply Ht).
  rewrite bind_ret_l.
  assert (Hv0 : In v0 cv) by (left; reflexivity).
  assert (Hget : forall v, In v cv -> dict_get D v = ret (get_coefficient term v)).
  { intros v Hv. unfold dict_get, D. rewrite (assoc_map_var _ cv v Hv). reflexivity. }
  assert (H0 : list_get_m cv 0 = ret v0) by reflexivity.
  set (c0 := get_coefficient term v0).
  assert (Hc0 : qzero c0 = false).
  { apply qzero_false. unfold c0. rewrite get_coefficient_coef. apply coef_nonzero; [apply Ht|].
    apply Hct. exact Hv0. }
  assert (Hdiv : forall x, py_div x c0 = ret (qdiv x c0)) by (intros x; unfold py_div; rewrite Hc0; reflexivity).
  rewrite H0, bind_ret_l, (Hget v0 Hv0), bind_ret_l. fold c0. rewrite Hdiv, bind_ret_l.
  rewrite (for_list_m_fold (fun a v => if negb (String.eqb v v0) then dict_set a v (qdiv (qneg (get_coefficient term v)) c0) else a)).
  2:{ intros a v Hv. rewrite ?H0, bind_ret_l. cbn [py_eqb PyEq_var].
      destruct (negb (String.eqb v v0)); [|reflexivity].
      rewrite (Hget v Hv), bind_ret_l, ?H0, bind_ret_l, (Hget v0 Hv0), bind_ret_l. fold c0. rewrite Hdiv. reflexivity. }
  rewrite (fold_set_filter (fun v => negb (String.eqb v v0)) (fun v => qdiv (qneg (get_coefficient term v)) c0)).
  2:{ cbn [dict_set dict_empty keys map fst app]. unfold Var. constructor; [exact Hcu|exact Hcv]. }
  rewrite bind_ret_l. cbn [dict_set dict_empty app]. unfold Var.
  set (stv := ("_", qdiv 1 c0) :: map (fun v => (v, qdiv (qneg (get_coefficient term v)) c0))
                                      (filter (fun v => negb (String.eqb v v0)) cv)).
  assert (Hstv : NoDup (keys stv)).
  { unfold stv. cbn [keys map fst]. fold (keys (map (fun v => (v, qdiv (qneg (get_coefficient term v)) c0))
                                                   (filter (fun v => negb (String.eqb v v0)) cv))).
    rewrite keys_map_var. constructor.
    - intros H. apply filter_In in H. apply Hcu, H.
    - apply NoDup_filter. exact Hcv. }
  rewrite (init_eq stv _ Hstv).
  assert (Hsub : wft (mk_term stv 0)) by (apply wft_mk_term; exact Hstv).
  (* the substituted context: a comprehension (map_m) or an explicit loop with append *)
  first
  [ rewrite (map_m_ret _ (fun el => term_substitute_variable (term_copy el) v0 (mk_term stv 0)));
    [| intros el Hel; rewrite ?H0, bind_ret_l;
       assert (Hwe : wft el) by (rewrite Forall_forall in Hctx; apply Hctx; exact Hel);
       rewrite (copy_eq el Hwe); apply substitute_variable_eq'; [apply wft'_copy; exact Hwe|exact Hsub] ]
  | rewrite (loop_m_append_ret (fun el => term_substitute_variable (term_copy el) v0 (mk_term stv 0)));
    [ cbn [app]
    | intros acc_ el Hel; rewrite ?H0, bind_ret_l;
      assert (Hwe : wft el) by (rewrite Forall_forall in Hctx; apply Hctx; exact Hel);
      rewrite (copy_eq el Hwe);
      rewrite (substitute_variable_eq' (term_copy el) v0 (mk_term stv 0) (wft'_copy el Hwe) Hsub); reflexivity ] ].
  rewrite bind_ret_l, termlist_init_eq, ?H0, bind_ret_l. cbn [opt_list].
  rewrite tactic_1_closed.
  - unfold set_variables.
    match goal with |- bind ?m _ = ?m' => change m' with m; destruct m as [[r c]|e]; reflexivity end.
  - unfold set_variables, wft. cbn [tvars]. apply NoDup_keys_dict_set. apply fold_remove_wft, wft_copy, Ht.
  - rewrite Forall_forall in *. intros x Hx. apply in_map_iff in Hx. destruct Hx as [el [<- Hel]].
    apply wft_substitute_variable; [apply wft_copy, Hctx, Hel|exact Hsub].
Qed.
Local Close Scope string_scope.

(* ------------------------------------------------------------------ *)
(** * The class-level dict TACTICS and the dispatcher _transform_term on the translated _context_reduction *)
(* tactics 2, 4 and 6 do not call _context_reduction: over poly_prims_gen O they are, by computation, what they are
   over poly_prims O *)
Theorem tactics_table_closed O (vs : list var) :
  NoDup vs -> ~ In ("_"%string : var) vs -> oracle_slack_ok O ->
  forall num term ctx refine, wft' term -> Forall wft' ctx ->
  list_intersection vs (term_vars_p term) <> [] ->
  @PolyhedralTermList_TACTICS (poly_prims_gen O) num term ctx vs refine = run_tactic O num term ctx vs refine.
Proof.
  intros Hnd Hus Hsl num term ctx refine Ht Hctx Hfv.
  assert (Hc : Forall wft ctx) by (apply Forall_wft'_wft; exact Hctx).
  destruct num as [|[|[|[|[|[|[|n]]]]]]]; cbn [PolyhedralTermList_TACTICS run_tactic]; try reflexivity.
  - apply tactic_1_closed; [apply Ht|exact Hc].
  - exact (tactic_2_eq O term ctx vs refine (proj1 Ht) Hc).
  - apply tactic_3_closed; assumption.
  - exact (tactic_4_eq (S (len ctx)) term ctx vs refine [] Ht Hctx).
  - apply tactic_5_closed; [apply Ht|exact Hc|exact Hfv|apply Hsl].
  - apply tactic_trivial_eq. apply Ht.
Qed.

Lemma inter_nonempty_sym (l1 l2 : list var) :
  nonempty (list_intersection l1 l2) = true -> list_intersection l2 l1 <> [].
Proof.
  destruct (list_intersection l1 l2) as [|x r] eqn:E; [discriminate|]. intros _ H.
  assert (Hx : In x (list_intersection l1 l2)) by (rewrite E; left; reflexivity).
  apply in_list_intersection in Hx. assert (Hx' : In x (list_intersection l2 l1)) by (apply in_list_intersection; tauto).
  rewrite H in Hx'. destruct Hx'.
Qed.

(* _transform_term consults the table only for a term that mentions a variable to eliminate *)
Theorem transform_term_closed_gen O (vs : list var) order term ctx refine :
  NoDup vs -> ~ In ("_"%string : var) vs -> oracle_slack_ok O ->
  wft' term -> Forall wft' ctx ->
  PolyhedralTermList__transform_term (@PolyhedralTermList_TACTICS (poly_prims_gen O)) term ctx vs refine (Some order)
  = transform_term O order term ctx vs refine.
Proof.
  intros Hnd Hus Hsl Ht Hc. unfold PolyhedralTermList__transform_term, transform_term. cbv zeta. rewrite vars_eq.
  destruct (nonempty (list_intersection (term_vars_p term) vs)) eqn:Hne; cbn [negb]; [|reflexivity].
  pose proof (inter_nonempty_sym _ _ Hne) as Hfv.
  induction order as [|num rest IH]; [cbn; rewrite (copy_eq term (proj1 Ht)); reflexivity|].
  cbn [for_ret_m transform_term_loop].
  rewrite (tactics_table_closed O vs Hnd Hus Hsl num term ctx refine Ht Hc Hfv).
  destruct (run_tactic O num term ctx vs refine) as [[[r|] c]|e]; cbn.
  - reflexivity.
  - exact IH.
  - destruct (is_value_error e); [exact IH|reflexivity].
Qed.

Print Assumptions get_tlp_context_eq.
Print Assumptions solve_for_variables_eq.
Print Assumptions context_reduction_eq.
Print Assumptions poly_prims_context_reduction_generated.
Print Assumptions tactic_3_closed.
Print Assumptions transform_term_closed_gen.
