(* Facts about the translated pacti/utils/lists.py (gen/ListsGen.v) and the
   list primitives of base/Py.v.  Part of C06 ("order-preserving list
   set-operations").  Proved against the *generated* definitions. *)
From Coq Require Import List String Bool Arith Lia.
Import ListNotations.
Require Import Py ListsGen.

(* ---------- variables: py_eqb is a decidable equality ---------- *)
Lemma py_eqb_var_eq (x y : var) : py_eqb x y = true <-> x = y.
Proof. simpl. apply String.eqb_eq. Qed.

Lemma py_in_var (x : var) l : py_in x l = true <-> In x l.
Proof.
  unfold py_in. rewrite existsb_exists. split.
  - intros [y [Hy He]]. apply py_eqb_var_eq in He. subst. exact Hy.
  - intros Hx. exists x. split; [exact Hx|apply py_eqb_var_eq; reflexivity].
Qed.

Lemma py_in_var_false (x : var) l : py_in x l = false <-> ~ In x l.
Proof.
  rewrite <- py_in_var. destruct (py_in x l); split; intros; try congruence; try tauto.
Qed.

Lemma nonempty_false {A} (l : list A) : nonempty l = false <-> l = [].
Proof. destruct l; simpl; split; intros; congruence. Qed.
Lemma nonempty_true {A} (l : list A) : nonempty l = true <-> l <> [].
Proof. destruct l; simpl; split; intros; congruence. Qed.
Lemma len0 {A} (l : list A) : Nat.eqb (len l) 0 = true <-> l = [].
Proof. destruct l; unfold len; simpl; split; intros; congruence. Qed.
Lemma len_pos {A} (l : list A) : Nat.ltb 0 (len l) = true <-> l <> [].
Proof.
  destruct l; unfold len, Nat.ltb; simpl; split; intros H; try congruence; try reflexivity.
Qed.

Lemma in_list_union (x : var) l1 l2 : In x (list_union l1 l2) <-> In x l1 \/ In x l2.
Proof.
  unfold list_union. rewrite in_app_iff, filter_In, negb_true_iff, py_in_var_false.
  destruct (in_dec string_dec x l1); tauto.
Qed.
Lemma in_list_diff (x : var) l1 l2 : In x (list_diff l1 l2) <-> In x l1 /\ ~ In x l2.
Proof. unfold list_diff. rewrite filter_In, negb_true_iff, py_in_var_false. tauto. Qed.
Lemma in_list_intersection (x : var) l1 l2 : In x (list_intersection l1 l2) <-> In x l1 /\ In x l2.
Proof. unfold list_intersection. rewrite filter_In, py_in_var. tauto. Qed.

(* order: the union is the first list followed by the new elements of the second, in order *)
Lemma list_union_order {A} `{PyEq A} (l1 l2 : list A) :
  list_union l1 l2 = l1 ++ filter (fun el => negb (py_in el l1)) l2.
Proof. reflexivity. Qed.
Lemma list_diff_order {A} `{PyEq A} (l1 l2 : list A) :
  list_diff l1 l2 = filter (fun el => negb (py_in el l2)) l1.
Proof. reflexivity. Qed.
Lemma list_intersection_order {A} `{PyEq A} (l1 l2 : list A) :
  list_intersection l1 l2 = filter (fun el => py_in el l2) l1.
Proof. reflexivity. Qed.

Lemma lists_equal_iff (l1 l2 : list var) :
  lists_equal l1 l2 = true <-> (forall x, In x l1 <-> In x l2).
Proof.
  unfold lists_equal. rewrite andb_true_iff, !len0. split.
  - intros [H1 H2] x. split; intros Hx.
    + destruct (in_dec string_dec x l2) as [|n]; [assumption|].
      assert (In x (list_diff l1 l2)) by (apply in_list_diff; tauto). rewrite H1 in H. destruct H.
    + destruct (in_dec string_dec x l1) as [|n]; [assumption|].
      assert (In x (list_diff l2 l1)) by (apply in_list_diff; tauto). rewrite H2 in H. destruct H.
  - intros H. split.
    + destruct (list_diff l1 l2) as [|y r] eqn:E; [reflexivity|].
      assert (In y (list_diff l1 l2)) by (rewrite E; left; reflexivity).
      apply in_list_diff in H0. destruct H0 as [Ha Hb]. apply H in Ha. contradiction.
    + destruct (list_diff l2 l1) as [|y r] eqn:E; [reflexivity|].
      assert (In y (list_diff l2 l1)) by (rewrite E; left; reflexivity).
      apply in_list_diff in H0. destruct H0 as [Ha Hb]. apply H in Ha. contradiction.
Qed.

(* ---------- duplicates ---------- *)
Lemma has_dup_false (l : list var) : has_dup l = false <-> NoDup l.
Proof.
  induction l as [|x r IH]; simpl.
  - split; intros; [constructor|reflexivity].
  - rewrite orb_false_iff, py_in_var_false, IH. split.
    + intros [Hx Hr]. constructor; assumption.
    + intros Hn. inversion Hn; subst. split; assumption.
Qed.

Lemma NoDup_filter {A} (f : A -> bool) l : NoDup l -> NoDup (filter f l).
Proof.
  induction 1 as [|x r Hx Hr IH]; simpl; [constructor|].
  destruct (f x); [constructor|]; try assumption.
  rewrite filter_In. tauto.
Qed.
Lemma NoDup_list_diff (l1 l2 : list var) : NoDup l1 -> NoDup (list_diff l1 l2).
Proof. apply NoDup_filter. Qed.
Lemma NoDup_list_intersection (l1 l2 : list var) : NoDup l1 -> NoDup (list_intersection l1 l2).
Proof. apply NoDup_filter. Qed.
Lemma NoDup_app_intro {A} (l1 l2 : list A) :
  NoDup l1 -> NoDup l2 -> (forall x, In x l1 -> ~ In x l2) -> NoDup (l1 ++ l2).
Proof.
  induction 1 as [|x r Hx Hr IH]; simpl; intros H2 Hd; [assumption|].
  constructor.
  - rewrite in_app_iff. intros [Hi|Hi]; [contradiction|]. apply (Hd x); [left; reflexivity|assumption].
  - apply IH; [assumption|]. intros y Hy. apply Hd. right. assumption.
Qed.
Lemma NoDup_list_union (l1 l2 : list var) : NoDup l1 -> NoDup l2 -> NoDup (list_union l1 l2).
Proof.
  intros H1 H2. unfold list_union. apply NoDup_app_intro; [assumption|apply NoDup_filter; assumption|].
  intros x Hx. rewrite filter_In, negb_true_iff, py_in_var_false. tauto.
Qed.

(* replace_first / remove_first on duplicate-free variable lists *)
Lemma in_replace_first (x y z : var) l :
  NoDup l -> In x l -> (In z (replace_first x y l) <-> (In z l /\ z <> x) \/ z = y).
Proof.
  induction 1 as [|w r Hw Hr IH]; simpl; [tauto|].
  intros [->|Hx].
  - rewrite String.eqb_refl. simpl. split.
    + intros [->|Hz]; [tauto|]. left. split; [tauto|]. intros ->. contradiction.
    + intros [[[->|Hz] Hn]| ->]; try tauto.
  - destruct (String.eqb w x) eqn:E.
    + apply String.eqb_eq in E. subst. contradiction.
    + apply String.eqb_neq in E. simpl. rewrite IH by assumption. split.
      * intros [->|[[Hz Hn]| ->]]; tauto.
      * intros [[[->|Hz] Hn]| ->]; tauto.
Qed.
Lemma in_remove_first (x z : var) l :
  NoDup l -> (In z (remove_first x l) <-> In z l /\ z <> x).
Proof.
  induction 1 as [|w r Hw Hr IH]; simpl; [tauto|].
  destruct (String.eqb w x) eqn:E.
  - apply String.eqb_eq in E. subst. split.
    + intros Hz. split; [tauto|]. intros ->. contradiction.
    + intros [[->|Hz] Hn]; [congruence|assumption].
  - apply String.eqb_neq in E. simpl. rewrite IH. split.
    + intros [->|[Hz Hn]]; [split; [tauto|congruence]|tauto].
    + intros [[->|Hz] Hn]; tauto.
Qed.
Lemma NoDup_remove_first (x : var) l : NoDup l -> NoDup (remove_first x l).
Proof.
  induction 1 as [|w r Hw Hr IH]; simpl; [constructor|].
  destruct (String.eqb w x); [assumption|]. constructor; [|assumption].
  rewrite in_remove_first by assumption. tauto.
Qed.
Lemma NoDup_replace_first (x y : var) l :
  NoDup l -> ~ In y l -> NoDup (replace_first x y l).
Proof.
  induction 1 as [|w r Hw Hr IH]; simpl; intros Hy; [constructor|].
  destruct (String.eqb w x) eqn:E.
  - constructor; [tauto|assumption].
  - constructor.
    + destruct (in_dec string_dec x r) as [i|n].
      * rewrite in_replace_first by assumption. intros [[Hz Hn]| ->]; tauto.
      * assert (replace_first x y r = r) as ->; [|assumption].
        clear -n. induction r as [|v r IH]; simpl; [reflexivity|].
        destruct (String.eqb v x) eqn:E; [apply String.eqb_eq in E; subst; exfalso; apply n; left; reflexivity|].
        f_equal. apply IH. intros Hi. apply n. right. assumption.
    + apply IH. tauto.
Qed.

(* ---------- generic elements (terms): only semantic facts ---------- *)
Section Generic.
Context {A : Type} `{PyEq A}.
Variable P : A -> Prop.
Hypothesis P_eqb : forall x y, py_eqb x y = true -> (P x <-> P y).

Lemma Forall_list_union l1 l2 : Forall P (list_union l1 l2) <-> Forall P l1 /\ Forall P l2.
Proof.
  unfold list_union. rewrite Forall_app. split; intros [H1 H2]; split; try assumption.
  - rewrite Forall_forall in *. intros y Hy.
    destruct (py_in y l1) eqn:E.
    + unfold py_in in E. apply existsb_exists in E. destruct E as [x [Hx He]].
      apply (P_eqb y x He). apply H1. assumption.
    + apply H2. rewrite filter_In, E. tauto.
  - rewrite Forall_forall in *. intros y Hy. apply filter_In in Hy. apply H2. tauto.
Qed.
Lemma Forall_list_diff l1 l2 : Forall P l1 -> Forall P (list_diff l1 l2).
Proof. unfold list_diff. rewrite !Forall_forall. intros Hl y Hy. apply filter_In in Hy. apply Hl. tauto. Qed.
Lemma Forall_list_intersection l1 l2 : Forall P l1 -> Forall P (list_intersection l1 l2).
Proof. unfold list_intersection. rewrite !Forall_forall. intros Hl y Hy. apply filter_In in Hy. apply Hl. tauto. Qed.
End Generic.
