(* GrammarGenTokens.v — the generated TOKEN rules of gen/GrammarGen.v equal the hand-written ones of
   model/Grammar.v:  symbol, floating_point_number, arithmetic_expr (pp.infixNotation), paren_arith_expr,
   the coefficient  (floating_point_number ^ paren_arith_expr) [*]  and the equality operator.
   Simplifications of the hand model that are PROVED here rather than assumed:
     - every `^` (Or, longest match) of the source is written as an ordered choice in model/Grammar.v:
       mantissa (digits first / "." first: different first characters), floating_point_number ^ paren_arith_expr
       (digit or "." / "("), "==" ^ "=" (the first alternative is the longer one);
     - the model evaluates a parenthesised constant (div_check) at the end of paren_arith; the source does it when the
       Or re-parses its winning alternative with parse actions on (or_actions). *)
From Coq Require Import List String Ascii Bool NArith ZArith QArith Arith Lia.
Import ListNotations.
Require Import Py Ast Grammar PyParsing GrammarGen GrammarGenBase.
Local Open Scope string_scope.

Notation fla := fold_left_assoc.

(* destruct the innermost scrutinee *)
Ltac dmatch :=
  match goal with
  | |- context [match ?x with _ => _ end] =>
      lazymatch x with
      | context [match _ with _ => _ end] => fail
      | _ => destruct x eqn:?
      end
  end.

Lemma symbol_eq : GrammarGen.symbol = Grammar.symbol.
Proof. reflexivity. Qed.

(* ---------------------------------------------------------------- floating_point_number *)
Lemma digits1_char s w r : digits1 s = ROk w r -> exists c s', s = String c s' /\ is_digit c = true.
Proof.
  unfold digits1. destruct s as [|c s']; simpl; [discriminate|].
  destruct (is_digit c) eqn:E; [eauto | discriminate].
Qed.

Lemma mantissa_eq :
  peq (por (cat digits1 (opt_text (cat (lit_text_raw ".") (opt_text digits1)))) (cat (lit_text_raw ".") digits1))
      fpn_mantissa.
Proof.
  eapply peq_trans.
  - apply por_alt_disjoint. intros s a r H.
    unfold cat, bind in H. destruct (digits1 s) as [w r0| | |] eqn:E; try discriminate.
    destruct (digits1_char _ _ _ E) as (c & s' & -> & Hc).
    unfold cat, lit_text_raw, bind. rewrite lit_raw_other; [reflexivity|].
    destruct (Ascii.eqb "." c) eqn:E2; [|reflexivity]. apply Ascii.eqb_eq in E2; subst c; discriminate.
  - intros s. unfold fpn_mantissa, alt, cat, opt_text, lit_text_raw, bind, ret, opt.
    repeat dmatch; reflexivity.
Qed.

Lemma caseless_E s : caseless_literal_raw "E" s = (skip alt (lit_raw "e") (lit_raw "E") ;; ret "E") s.
Proof.
  destruct s as [|c s]; [reflexivity|].
  unfold caseless_literal_raw, bind, alt, lit_raw, ret; simpl.
  destruct c as [b0 b1 b2 b3 b4 b5 b6 b7].
  destruct b0, b1, b2, b3, b4, b5, b6, b7; reflexivity.
Qed.

Lemma exponent_eq :
  peq (cat (caseless_literal_raw "E") (cat (opt_text (one_of_raw ["+"; "-"])) digits1)) fpn_exponent.
Proof.
  intros s. unfold cat at 1. unfold bind at 1. rewrite caseless_E.
  unfold fpn_exponent, cat, opt_text, one_of_raw, alt, bind, ret, opt.
  repeat dmatch; reflexivity.
Qed.

Lemma cat_opt_text_eq (M M' E E' : parser string) :
  peq M M' -> peq E E' -> peq (cat M (opt_text E)) (m <- M' ;; e <- opt E' ;; ret (m ++ str_or_empty e)).
Proof.
  intros HM HE s. unfold cat, opt_text, bind, ret, opt.
  rewrite HM. destruct (M' s) as [m r| | |]; auto.
  rewrite HE. destruct (E' r); reflexivity.
Qed.

Lemma fpn_raw_eq :
  peq (cat (por (cat digits1 (opt_text (cat (lit_text_raw ".") (opt_text digits1)))) (cat (lit_text_raw ".") digits1))
           (opt_text (cat (caseless_literal_raw "E") (cat (opt_text (one_of_raw ["+"; "-"])) digits1))))
      fpn_raw.
Proof. unfold fpn_raw. apply cat_opt_text_eq; [exact mantissa_eq | exact exponent_eq]. Qed.

Theorem floating_point_number_eq : peq GrammarGen.floating_point_number fpn_c.
Proof.
  unfold GrammarGen.floating_point_number, fpn_c.
  apply peq_bind; [|intros t; apply peq_refl].
  intros s. unfold combine, fpn. apply fpn_raw_eq.
Qed.

(* a number starts with a digit or "." — never with "(" *)
Lemma fpn_c_not_paren s a r : fpn_c s = ROk a r -> lit "(" s = RFail /\ exists q, a = CNum q.
Proof.
  unfold fpn_c, fpn, bind, ret. intros H.
  destruct (fpn_raw (skip_ws s)) as [t r0| | |] eqn:E; try discriminate.
  split; [|injection H as <- _; eauto].
  unfold lit. destruct (skip_ws s) as [|c s']; [reflexivity|].
  destruct (Ascii.eqb "(" c) eqn:Ec; [|apply lit_raw_other; exact Ec].
  apply Ascii.eqb_eq in Ec; subst c. vm_compute in E. discriminate.
Qed.

(* ---------------------------------------------------------------- arithmetic_expr = pp.infixNotation(...) *)
Lemma infix_chain_eq (op : parser aop) (p p' : parser cexpr) :
  peq p p' -> peq (infix_chain (op, fla) p) (chain fla p' op).
Proof.
  intros Hp. unfold infix_chain, chain; simpl.
  peq_auto ltac:(exact Hp).
Qed.

Theorem arithmetic_expr_eq : forall n, peq (GrammarGen.arithmetic_expr n) (p_arith fla n).
Proof.
  unfold GrammarGen.arithmetic_expr.
  induction n as [|n IH]; [apply peq_refl|].
  simpl infix_notation. simpl p_arith. unfold infix_levels.
  apply infix_chain_eq. apply (infix_chain_eq mulop).
  peq_auto ltac:(first [exact floating_point_number_eq | exact IH]).
Qed.

(* ---------------------------------------------------------------- floating_point_number ^ paren_arith_expr *)
Theorem number_eq n :
  peq (or_actions (por GrammarGen.floating_point_number (GrammarGen.paren_arith_expr n))) (number fla n).
Proof.
  intros s. unfold or_actions, number, por, alt. unfold bind at 1.
  rewrite floating_point_number_eq.
  destruct (fpn_c s) as [a r| | |] eqn:E; auto.
  - destruct (fpn_c_not_paren _ _ _ E) as [Hl [q ->]].
    unfold GrammarGen.paren_arith_expr. unfold bind at 1. rewrite Hl. reflexivity.
  - unfold GrammarGen.paren_arith_expr, paren_arith, bind, ret.
    destruct (lit "(" s) as [u r| | |]; auto.
    rewrite arithmetic_expr_eq. destruct (p_arith fla n r) as [e r1| | |]; auto.
    destruct (lit ")" r1); reflexivity.
Qed.

(* (floating_point_number ^ paren_arith_expr) + Optional("*") *)
Theorem coef_eq n :
  peq (x1 <- or_actions (por GrammarGen.floating_point_number (GrammarGen.paren_arith_expr n)) ;;
       skip opt (lit "*") ;; ret x1)
      (coef fla n).
Proof. unfold coef. peq_auto ltac:(exact (number_eq n)). Qed.

(* ---------------------------------------------------------------- "==" ^ "=" *)
Theorem eq_op_eq : peq (por (lit "==") (lit "=")) eq_op.
Proof.
  unfold eq_op. apply por_alt_longer. intros s a r H.
  unfold lit, lit_raw in *.
  destruct (skip_ws s) as [|c1 [|c2 s']]; cbn [strip_prefix] in *; try discriminate.
  all: destruct (Ascii.eqb "=" c1); try discriminate.
  destruct (Ascii.eqb "=" c2); [|discriminate]. injection H as _ <-. cbn [String.length]; lia.
Qed.
