(* PrinterGenBase.v — the tie of the string printer (model/Printer.v) to the code, part 1.
   translator/py2coq_printer.py (run by py2coq.py) renders serializer.py's printer and
   PolyhedralTermList.to_str_list into gen/PrinterGen.v over the vocabulary of base/PyPrint.v.  Two things are NOT
   translated but are the fields of the class PrintPrims: f"{x:.4g}" and np.isclose / math.isclose.  This file
     * instantiates them with the functions of the hand model ([model_prims]: fmt4, and the closeness tests
       evaluated with one binary64 rounding per operation, exactly as model/Printer.v:approx_equal does);
     * proves the two generated functions that only wrap a primitive equal to the hand model
       ([number_to_string_eq], [are_numbers_approximatively_equal_eq]);
     * collects what the other files share: monad laws, "shape" lemmas that read a generated loop whose body
       behaves in a given way POINTWISE (so the proofs do not depend on generated names or let-structure),
       the sort of base/PyPrint.v against model/Term.v's, list.remove against positional removal. *)
From Coq Require Import List String Bool QArith Qabs Qreduction ZArith Lia.
Import ListNotations.
Require Import Py Sem PyDict PyLoop PySyntax PyTermList PyPrint Term ConstGen TermGen Printer.
Require Import TermFacts PrinterFacts TermGenBase TermGenCore PrinterGen.
Open Scope py_scope.

(* ------------------------------------------------------------------ *)
(** * the instances of the primitives *)
(* np.isclose(a, b, rtol, atol) on float scalars: abs(a - b) <= atol + rtol * abs(b), every operation rounded
   to binary64 ([fl]); asymmetric in b.  This is the body of model/Printer.v:approx_equal with the two
   tolerances as arguments. *)
Definition isclose_fl (a b rtol atol : Q) : bool :=
  Qle_bool (Qabs (fl (a - b))) (fl (atol + fl (rtol * Qabs b))).
(* math.isclose(a, b, rel_tol, abs_tol) (CPython: diff = fabs(b - a);
   diff <= fabs(rel_tol * b) || diff <= fabs(rel_tol * a) || diff <= abs_tol), same rounding discipline.
   The current source does not call it; it is here so that a source that does still translates and the
   equality with the hand model is what fails. *)
Definition math_isclose_fl (a b rel_tol abs_tol : Q) : bool :=
  let diff := Qabs (fl (b - a)) in
  Qle_bool diff (Qabs (fl (rel_tol * b))) || Qle_bool diff (Qabs (fl (rel_tol * a))) || Qle_bool diff abs_tol.

#[global] Instance model_prims : PrintPrims :=
  {| format_4g := fmt4; np_isclose := isclose_fl; math_isclose := math_isclose_fl |}.

Lemma approx_equal_isclose x y :
  approx_equal x y
  = isclose_fl x y float_closeness_relative_tolerance float_closeness_absolute_tolerance.
Proof. reflexivity. Qed.

(* ------------------------------------------------------------------ *)
(** * _number_to_string, _are_numbers_approximatively_equal *)
Theorem number_to_string_eq n : @serializer__number_to_string model_prims n = fmt4 n.
Proof. reflexivity. Qed.

Theorem are_numbers_approximatively_equal_eq v1 v2 :
  @serializer__are_numbers_approximatively_equal model_prims v1 v2 = approx_equal v1 v2.
Proof.
  unfold serializer__are_numbers_approximatively_equal, py_bool, py_float.
  cbn [np_isclose math_isclose model_prims]. rewrite approx_equal_isclose. reflexivity.
Qed.

(* ------------------------------------------------------------------ *)
(** * numbers: the vocabulary normalises with Qred, the hand model does not; both printers only look at values *)
Lemma fmt4_proper q q' : (q == q')%Q -> fmt4 q = fmt4 q'.
Proof. intros H. unfold fmt4. rewrite (Qred_complete _ _ H). reflexivity. Qed.
Lemma fmt4_qneg c : fmt4 (qneg c) = fmt4 (- c).
Proof. apply fmt4_proper. unfold qneg. apply Qred_correct. Qed.
Lemma approx_equal_qneg_l x y : approx_equal (qneg x) y = approx_equal (- x) y.
Proof. apply approx_equal_proper; [unfold qneg; apply Qred_correct|reflexivity]. Qed.
Lemma approx_equal_qneg_r x y : approx_equal x (qneg y) = approx_equal x (- y).
Proof. apply approx_equal_proper; [reflexivity|unfold qneg; apply Qred_correct]. Qed.

(* ------------------------------------------------------------------ *)
(** * strings *)
Lemma append_nil_l (s : string) : append EmptyString s = s.
Proof. reflexivity. Qed.
Lemma append_nil_r (s : string) : append s EmptyString = s.
Proof. induction s as [|a r IH]; [reflexivity|]. cbn [append]. rewrite IH. reflexivity. Qed.

(* ------------------------------------------------------------------ *)
(** * monad *)
Lemma pbind_ret_l {A B} (a : A) (f : A -> M B) : bind (ret a) f = f a.
Proof. reflexivity. Qed.
Lemma pbind_ext {A B} (m : M A) (f g : A -> M B) : (forall a, f a = g a) -> bind m f = bind m g.
Proof. intros H. destruct m as [a|e]; [apply H|reflexivity]. Qed.

(* ------------------------------------------------------------------ *)
(** * list.sort(key=lambda x: str(x[0])) is the sort of model/Term.v *)
Lemma str_cmp_string_cmp s1 s2 : str_cmp s1 s2 = string_cmp s1 s2.
Proof. reflexivity. Qed.
Lemma str_leb_string_leb s1 s2 : str_leb s1 s2 = string_leb s1 s2.
Proof. unfold str_leb, string_leb. rewrite str_cmp_string_cmp. reflexivity. Qed.
Lemma insert_by_str_name (key : var * Q -> string) p l :
  (forall x, key x = fst x) -> insert_by_str key p l = insert_by_name p l.
Proof.
  intros Hk. induction l as [|q r IH]; [reflexivity|].
  cbn [insert_by_str insert_by_name]. rewrite !Hk, str_leb_string_leb, IH. reflexivity.
Qed.
Lemma sort_by_str_name (key : var * Q -> string) (l : pvars) :
  (forall x, key x = fst x) -> list_sort_by_str l key = sort_by_name l.
Proof.
  intros Hk. unfold list_sort_by_str, sort_by_name. generalize (@nil (var * Q)) as acc.
  induction l as [|p r IH]; intros acc; [reflexivity|].
  cbn [fold_left]. rewrite (insert_by_str_name key p acc Hk). apply IH.
Qed.

(* ------------------------------------------------------------------ *)
(** * loops whose body returns False at the first element failing a test *)
Lemma for_ret_all {X} (f : X -> bool) (body : unit -> X -> step unit bool) l :
  (forall x, In x l -> body tt x = if f x then Next tt else Return false) ->
  for_ret l tt body = if forallb f l then Done tt else Returned false.
Proof.
  induction l as [|x r IH]; intros Hb; [reflexivity|].
  cbn [for_ret forallb]. rewrite (Hb x) by (left; reflexivity).
  destruct (f x); cbn [andb]; [|reflexivity].
  apply IH. intros y Hy. apply Hb. right. exact Hy.
Qed.
Lemma for_ret_m_all {X} (f : X -> bool) (body : unit -> X -> M (step unit bool)) l :
  (forall x, In x l -> body tt x = ret (if f x then Next tt else Return false)) ->
  for_ret_m l tt body = ret (if forallb f l then Done tt else Returned false).
Proof.
  induction l as [|x r IH]; intros Hb; [reflexivity|].
  cbn [for_ret_m forallb]. rewrite (Hb x) by (left; reflexivity).
  destruct (f x); cbn [andb bind ret]; [|reflexivity].
  apply IH. intros y Hy. apply Hb. right. exact Hy.
Qed.
Lemma for_ret_m_ext {X A R} (b1 b2 : A -> X -> M (step A R)) l a :
  (forall a' x, In x l -> b1 a' x = b2 a' x) -> for_ret_m l a b1 = for_ret_m l a b2.
Proof.
  revert a. induction l as [|x r IH]; intros a Hb; [reflexivity|].
  cbn [for_ret_m]. rewrite (Hb a x) by (left; reflexivity).
  apply pbind_ext. intros [a'|a'|v]; try reflexivity.
  apply IH. intros a'' y Hy. apply Hb. right. exact Hy.
Qed.

(* ------------------------------------------------------------------ *)
(** * dict lookups behind a membership test *)
Lemma contains_var_assoc t v : contains_var t v = true -> exists q, assoc v (tvars t) = Some q.
Proof.
  unfold contains_var, term_vars_p. rewrite py_in_keys. apply has_key_assoc.
Qed.
Lemma contains_var_false_assoc t v : contains_var t v = false -> assoc v (tvars t) = None.
Proof.
  unfold contains_var, term_vars_p. rewrite py_in_keys. unfold has_key.
  destruct (assoc v (tvars t)); [discriminate|reflexivity].
Qed.
Lemma dict_get_assoc d v q : assoc v d = Some q -> dict_get d v = ret q.
Proof. intros H. unfold dict_get. rewrite H. reflexivity. Qed.

(* ------------------------------------------------------------------ *)
(** * l.remove(x) with PolyhedralTerm.__eq__ against positional removal *)
(* when no earlier element equals x and x equals itself, the first element == x is x at its own position *)
Lemma list_remove_m_skip (x : pterm) pre r :
  (forall e, In e pre -> term_eqb_p e x = false) -> term_eqb_p x x = true ->
  list_remove_m PolyhedralTerm_eq x (pre ++ x :: r) = ret (pre ++ r).
Proof.
  intros Hpre Hx. induction pre as [|e pre IH].
  - cbn [app list_remove_m]. rewrite eq_eq, Hx. reflexivity.
  - cbn [app list_remove_m]. rewrite eq_eq, (Hpre e) by (left; reflexivity). cbn [bind ret].
    rewrite IH by (intros e' He'; apply Hpre; right; exact He'). reflexivity.
Qed.

(* ------------------------------------------------------------------ *)
(** * rewriting the two wrappers away *)
(* [rewrite are_numbers_approximatively_equal_eq] unifies modulo delta and may pick an occurrence of
   [approx_equal] itself (no progress); this tactic selects the occurrences syntactically *)
Ltac pg_norm :=
  repeat match goal with
         | |- context [@serializer__are_numbers_approximatively_equal model_prims ?a ?b] =>
             rewrite (are_numbers_approximatively_equal_eq a b)
         | |- context [@serializer__number_to_string model_prims ?a] =>
             rewrite (number_to_string_eq a)
         end.
